// World of the Producer driver (X04): a real network.Network engine over a gated bbolt store, a real key store behind a
// signing gate, a real did store fed by a miniature ambassador, a recording event bus, and fake peers attached to the
// real transport/v2 protocol instance that Network.Configure creates.
package producer

import (
	"context"
	"crypto"
	"crypto/ecdsa"
	"crypto/elliptic"
	"crypto/rand"
	"encoding/json"
	"errors"
	"fmt"
	"path/filepath"
	"sync"
	"testing"
	"time"

	"github.com/nats-io/nats.go"
	ssi "github.com/nuts-foundation/go-did"
	"github.com/nuts-foundation/go-did/did"
	"github.com/nuts-foundation/go-stoabs"
	"github.com/nuts-foundation/go-stoabs/bbolt"
	"github.com/nuts-foundation/nuts-node/audit"
	"github.com/nuts-foundation/nuts-node/core"
	nutsCrypto "github.com/nuts-foundation/nuts-node/crypto"
	"github.com/nuts-foundation/nuts-node/events"
	"github.com/nuts-foundation/nuts-node/network"
	"github.com/nuts-foundation/nuts-node/network/dag"
	"github.com/nuts-foundation/nuts-node/network/transport"
	"github.com/nuts-foundation/nuts-node/network/transport/grpc"
	v2 "github.com/nuts-foundation/nuts-node/network/transport/v2"
	"github.com/nuts-foundation/nuts-node/storage"
	"github.com/nuts-foundation/nuts-node/vdr/didnuts/didstore"
	grpcLib "google.golang.org/grpc"

	"verifharness/gate"
	"verifharness/kvgate"
)

const (
	typeDID = "application/did+json"
	typeVC  = "application/vc+json"
)

var realType = map[string]string{"did": typeDID, "vc": typeVC}
var absType = map[string]string{typeDID: "did", typeVC: "vc"}

var errInjectedRead = errors.New("verif: injected database read failure")
var errInjectedSign = errors.New("verif: injected key store failure")

// ---------------------------------------------------------------------------------------------
// fault seam below the gated store: an injected failure of the next read transaction of an actor

type faultKV struct {
	stoabs.KVStore
	mu       sync.Mutex
	failRead map[string]bool
	// onHead is told when an actor reads the head reference (metadata/head_ref): the value it got
	onHead func(actor string, value []byte)
}

// observing read transaction: sees which keys of the metadata shelf the code reads
type obsReadTx struct {
	stoabs.ReadTx
	f     *faultKV
	actor string
}

func (t obsReadTx) GetShelfReader(shelf string) stoabs.Reader {
	r := t.ReadTx.GetShelfReader(shelf)
	if shelf == "metadata" {
		return obsReader{Reader: r, t: t}
	}
	return r
}

type obsReader struct {
	stoabs.Reader
	t obsReadTx
}

func (o obsReader) Get(key stoabs.Key) ([]byte, error) {
	v, err := o.Reader.Get(key)
	if string(key.Bytes()) == "head_ref" && o.t.f.onHead != nil {
		o.t.f.onHead(o.t.actor, v)
	}
	return v, err
}

func (f *faultKV) arm(actor string) {
	f.mu.Lock()
	f.failRead[actor] = true
	f.mu.Unlock()
}

func (f *faultKV) Read(ctx context.Context, fn func(stoabs.ReadTx) error) error {
	if a := gate.Actor(ctx); a != "" {
		f.mu.Lock()
		hit := f.failRead[a]
		delete(f.failRead, a)
		f.mu.Unlock()
		if hit {
			return errInjectedRead
		}
		return f.KVStore.Read(ctx, func(tx stoabs.ReadTx) error { return fn(obsReadTx{ReadTx: tx, f: f, actor: a}) })
	}
	return f.KVStore.Read(ctx, fn)
}

// ---------------------------------------------------------------------------------------------
// key store behind a gate: SignJWS of an actor blocks at gate "sign"; directive "fail" makes it fail

type gatedKeys struct {
	nutsCrypto.KeyStore
	mu  sync.Mutex
	cur *run
}

func (k *gatedKeys) set(r *run) {
	k.mu.Lock()
	k.cur = r
	k.mu.Unlock()
}

func (k *gatedKeys) SignJWS(ctx context.Context, payload []byte, headers map[string]interface{}, kid string, detached bool) (string, error) {
	a := gate.Actor(ctx)
	k.mu.Lock()
	r := k.cur
	k.mu.Unlock()
	if a == "" || r == nil {
		return k.KeyStore.SignJWS(ctx, payload, headers, kid, detached)
	}
	r.atSign(a)
	switch r.sched.At(a, "sign") {
	case "fail":
		r.signed(a, "err")
		return "", errInjectedSign
	case "dead":
		return "", errInjectedSign
	}
	s, err := k.KeyStore.SignJWS(ctx, payload, headers, kid, detached)
	if err != nil {
		r.signed(a, "err")
	} else {
		r.signed(a, "ok")
	}
	return s, err
}

// ---------------------------------------------------------------------------------------------
// recording event bus (events.Event): what emitEvents and Reprocess publish

type pub struct {
	Subject string
	TX      dag.Transaction
	Payload []byte
}

type fakeJS struct {
	nats.JetStreamContext
	mu   sync.Mutex
	pubs []pub
	done chan struct{}
}

func newFakeJS() *fakeJS {
	c := make(chan struct{})
	close(c)
	return &fakeJS{done: c}
}

func (j *fakeJS) PublishAsync(subj string, data []byte, _ ...nats.PubOpt) (nats.PubAckFuture, error) {
	var twp events.TransactionWithPayload
	if err := json.Unmarshal(data, &twp); err != nil {
		return nil, err
	}
	j.mu.Lock()
	j.pubs = append(j.pubs, pub{Subject: subj, TX: twp.Transaction, Payload: twp.Payload})
	j.mu.Unlock()
	return nil, nil
}

func (j *fakeJS) PublishAsyncComplete() <-chan struct{} { return j.done }

func (j *fakeJS) on(subject string) []pub {
	j.mu.Lock()
	defer j.mu.Unlock()
	var out []pub
	for _, p := range j.pubs {
		if p.Subject == subject {
			out = append(out, p)
		}
	}
	return out
}

type fakeEvents struct{ js *fakeJS }

func (f *fakeEvents) GetStream(string) events.Stream { return nil }
func (f *fakeEvents) Pool() events.ConnectionPool    { return f }
func (f *fakeEvents) Acquire(context.Context) (events.Conn, nats.JetStreamContext, error) {
	return nil, f.js, nil
}
func (f *fakeEvents) Shutdown() {}

// ---------------------------------------------------------------------------------------------
// fake peers on the real transport/v2 instance

type capConn struct {
	grpc.Connection
	mu   sync.Mutex
	peer transport.Peer
	sent []*v2.Envelope
}

func (c *capConn) Send(_ grpc.Protocol, envelope interface{}, _ bool) error {
	c.mu.Lock()
	c.sent = append(c.sent, envelope.(*v2.Envelope))
	c.mu.Unlock()
	return nil
}
func (c *capConn) Peer() transport.Peer  { return c.peer }
func (c *capConn) IsConnected() bool     { return true }
func (c *capConn) IsAuthenticated() bool { return c.peer.Authenticated }
func (c *capConn) take() []*v2.Envelope {
	c.mu.Lock()
	defer c.mu.Unlock()
	out := c.sent
	c.sent = nil
	return out
}

type connList struct{ conns []*capConn }

func (l *connList) match(c *capConn, query []grpc.Predicate) bool {
	for _, q := range query {
		if !q.Match(c) {
			return false
		}
	}
	return true
}
func (l *connList) Get(query ...grpc.Predicate) grpc.Connection {
	for _, c := range l.conns {
		if l.match(c, query) {
			return c
		}
	}
	return nil
}
func (l *connList) All() []grpc.Connection {
	var out []grpc.Connection
	for _, c := range l.conns {
		out = append(out, c)
	}
	return out
}
func (l *connList) AllMatching(query ...grpc.Predicate) []grpc.Connection {
	var out []grpc.Connection
	for _, c := range l.conns {
		if l.match(c, query) {
			out = append(out, c)
		}
	}
	return out
}

type registrar struct{}

func (registrar) RegisterService(*grpcLib.ServiceDesc, interface{}) {}

// connMgr stands in for the gRPC connection manager: Start registers the protocols exactly as
// grpcConnectionManager.Start does (protocol.Register(registrar, acceptor, connectionList, manager)).
type connMgr struct {
	n         *network.Network
	list      *connList
	observers []transport.StreamStateObserverFunc
}

func (m *connMgr) Connect(string, did.DID, *time.Duration) {}
func (m *connMgr) Peers() []transport.Peer {
	var out []transport.Peer
	for _, c := range m.list.conns {
		out = append(out, c.peer)
	}
	return out
}
func (m *connMgr) Contacts() []transport.Contact { return nil }
func (m *connMgr) RegisterObserver(cb transport.StreamStateObserverFunc) {
	m.observers = append(m.observers, cb)
}
func (m *connMgr) Start() error {
	for _, p := range network.VerifProtocols(m.n) {
		p.(grpc.Protocol).Register(registrar{}, func(grpcLib.ServerStream) error { return nil }, m.list, m)
	}
	return nil
}
func (m *connMgr) Stop()                                {}
func (m *connMgr) Diagnostics() []core.DiagnosticResult { return nil }

func (m *connMgr) connect(peer transport.Peer) *capConn {
	c := &capConn{peer: peer}
	m.list.conns = append(m.list.conns, c)
	for _, p := range network.VerifProtocols(m.n) {
		for _, o := range m.observers {
			o(peer, transport.StateConnected, p)
		}
	}
	return c
}

// ---------------------------------------------------------------------------------------------
// keys and identities shared by all scripts of one driver process

type world struct {
	t        *testing.T
	dir      string
	keys     *gatedKeys
	pub      map[string]crypto.PublicKey // kid -> public key, kept by the oracle independently of the node
	pool     []string                    // kids of keys for new DID documents
	issuer   did.DID
	nodeDID  did.DID
	part     did.DID
	partKey  *ecdsa.PrivateKey // keyAgreement key of the other participant (held by that participant, not by this node)
	nokaDID  did.DID           // a DID whose document has no keyAgreement key
	outsider did.DID
	other    crypto.PublicKey // a key that signs nothing
	seq      int
	// confirmedBlocked counts the scripts in which "blocked inside the code" was confirmed with the long wait
	confirmedBlocked int
}

const (
	issuerKID  = "did:nuts:issuer#k1"
	nodeKAKID  = "did:nuts:node#ka1"
	partKAKID  = "did:nuts:part#ka1"
	missingKID = "did:nuts:issuer#missing"
)

func newWorld(t *testing.T) *world {
	w := &world{t: t, dir: t.TempDir(), pub: map[string]crypto.PublicKey{}}
	w.issuer = did.MustParseDID("did:nuts:issuer")
	w.nodeDID = did.MustParseDID("did:nuts:node")
	w.part = did.MustParseDID("did:nuts:part")
	w.nokaDID = did.MustParseDID("did:nuts:noka")
	w.outsider = did.MustParseDID("did:nuts:outsider")
	inner := nutsCrypto.NewMemoryCryptoInstance(t)
	ctx := audit.TestContext()
	mk := func(kid string) {
		_, pk, err := inner.New(ctx, nutsCrypto.StringNamingFunc(kid))
		if err != nil {
			t.Fatal(err)
		}
		w.pub[kid] = pk
	}
	mk(issuerKID)
	mk(nodeKAKID)
	for i := 0; i < 12; i++ {
		kid := fmt.Sprintf("did:nuts:new%d#k1", i)
		mk(kid)
		w.pool = append(w.pool, kid)
	}
	w.partKey, _ = ecdsa.GenerateKey(elliptic.P256(), rand.Reader)
	w.pub[partKAKID] = &w.partKey.PublicKey
	ok, _ := ecdsa.GenerateKey(elliptic.P256(), rand.Reader)
	w.other = &ok.PublicKey
	w.keys = &gatedKeys{KeyStore: inner}
	return w
}

func mkDoc(id did.DID, vmKID string, vmKey crypto.PublicKey, kaKID string, kaKey crypto.PublicKey) did.Document {
	doc := did.Document{ID: id, Context: []interface{}{did.DIDContextV1URI()}}
	if vmKey != nil {
		vm, err := did.NewVerificationMethod(did.MustParseDIDURL(vmKID), ssi.JsonWebKey2020, id, vmKey)
		if err != nil {
			panic(err)
		}
		doc.AddAssertionMethod(vm)
		doc.AddCapabilityInvocation(vm)
	}
	if kaKey != nil {
		vm, err := did.NewVerificationMethod(did.MustParseDIDURL(kaKID), ssi.JsonWebKey2020, id, kaKey)
		if err != nil {
			panic(err)
		}
		doc.AddKeyAgreement(vm)
	}
	return doc
}

// ambassador is the miniature of the VDR ambassador: a DID document that arrives as a payload is put into the did
// store with the transaction as its source (what the signature verifier later resolves keys against).
func ambassador(store didstore.Store, tx dag.Transaction, payload []byte) error {
	if tx.PayloadType() != typeDID || payload == nil {
		return nil
	}
	var doc did.Document
	if err := json.Unmarshal(payload, &doc); err != nil {
		return nil // not a DID document (an "entity update" of the scripts)
	}
	if doc.ID.Empty() {
		return nil
	}
	return store.Add(doc, didstore.Transaction{
		Clock: tx.Clock(), PayloadHash: tx.PayloadHash(), Previous: tx.Previous(), Ref: tx.Ref(), SigningTime: tx.SigningTime(),
	})
}

func openDidStore(path string) (didstore.Store, stoabs.KVStore, error) {
	db, err := bbolt.CreateBBoltStore(path, stoabs.WithNoSync())
	if err != nil {
		return nil, nil, err
	}
	st := didstore.New(&storage.StaticKVStoreProvider{Store: db})
	if c, ok := st.(core.Configurable); ok {
		if err := c.Configure(core.ServerConfig{}); err != nil {
			return nil, nil, err
		}
	}
	return st, db, nil
}

// ---------------------------------------------------------------------------------------------
// one node under test (fresh per script)

type node struct {
	inner  stoabs.KVStore
	fault  *faultKV
	g      *kvgate.Store
	net    *network.Network
	st     dag.State
	dids   didstore.Store
	didsDB stoabs.KVStore
	js     *fakeJS
	cm     *connMgr
	proto  transport.Protocol
	peers  map[string]*capConn
}

func (w *world) openNode(r *run, dir string, nodeDID bool) (*node, error) {
	inner, err := bbolt.CreateBBoltStore(filepath.Join(dir, "dag.db"), stoabs.WithNoSync())
	if err != nil {
		return nil, err
	}
	n := &node{inner: inner, js: newFakeJS(), peers: map[string]*capConn{}}
	n.fault = &faultKV{KVStore: inner, failRead: map[string]bool{}, onHead: r.onHeadRead}
	n.g = kvgate.Wrap(n.fault, r.sched)
	n.g.Obs = r.observe
	n.g.InTx = r.inTx
	if n.dids, n.didsDB, err = openDidStore(filepath.Join(dir, "dids.db")); err != nil {
		return nil, err
	}
	cfg := network.DefaultConfig()
	cfg.GrpcAddr = ""
	cfg.EnableDiscovery = false
	cfg.ProtocolV2 = v2.Config{GossipInterval: 3600 * 1000, DiagnosticsInterval: 0, PayloadRetryDelay: time.Hour}
	if nodeDID {
		cfg.NodeDID = w.nodeDID.String()
	}
	n.net = network.NewNetworkInstance(cfg, n.dids, w.keys, &fakeEvents{js: n.js}, &storage.StaticKVStoreProvider{Store: n.g}, nil)
	n.cm = &connMgr{n: n.net, list: &connList{}}
	network.VerifSetConnectionManager(n.net, n.cm)
	sc := core.NewServerConfig()
	sc.Strictmode = false
	sc.Datadir = dir
	if err := n.net.Configure(*sc); err != nil {
		return nil, err
	}
	n.st = network.VerifState(n.net)
	// the engines that consume transactions: the VDR (miniature) and an application subscribed to credentials, both
	// registered the way the real engines do it: Network.Subscribe with WithPersistency and a selection filter
	if err := n.net.Subscribe("vdr", func(ev dag.Event) (bool, error) {
		if err := ambassador(n.dids, ev.Transaction, ev.Payload); err != nil {
			return false, err
		}
		return true, nil
	}, n.net.WithPersistency(), network.WithSelectionFilter(func(ev dag.Event) bool {
		return ev.Type == dag.PayloadEventType && ev.Transaction.PayloadType() == typeDID
	})); err != nil {
		return nil, err
	}
	if err := n.net.Subscribe("app", r.appReceive, n.net.WithPersistency(), network.WithSelectionFilter(func(ev dag.Event) bool {
		return ev.Type == dag.PayloadEventType && ev.Transaction.PayloadType() == typeVC
	})); err != nil {
		return nil, err
	}
	if err := n.net.Start(); err != nil {
		return nil, err
	}
	ps := network.VerifProtocols(n.net)
	if len(ps) != 1 || ps[0].Version() != 2 {
		return nil, fmt.Errorf("expected exactly the v2 protocol to be attached, got %d protocols", len(ps))
	}
	n.proto = ps[0]
	// three peers: an authenticated non-participant, the authenticated other participant, an unauthenticated one
	n.peers["out"] = n.cm.connect(transport.Peer{ID: "out", Address: "out:5555", NodeDID: w.outsider, Authenticated: true})
	n.peers["part"] = n.cm.connect(transport.Peer{ID: "part", Address: "part:5555", NodeDID: w.part, Authenticated: true})
	n.peers["anon"] = n.cm.connect(transport.Peer{ID: "anon", Address: "anon:5555"})
	return n, nil
}

func (n *node) close() {
	_ = n.net.Shutdown()
	_ = n.inner.Close(context.Background())
	_ = n.didsDB.Close(context.Background())
}

// second node: a dag.State with the same verifiers and its own did store
type node2 struct {
	db     stoabs.KVStore
	st     dag.State
	dids   didstore.Store
	didsDB stoabs.KVStore
}

func openNode2(dir string) (*node2, error) {
	db, err := bbolt.CreateBBoltStore(filepath.Join(dir, "dag2.db"), stoabs.WithNoSync())
	if err != nil {
		return nil, err
	}
	n := &node2{db: db}
	if n.dids, n.didsDB, err = openDidStore(filepath.Join(dir, "dids2.db")); err != nil {
		return nil, err
	}
	n.st, err = dag.NewState(db, dag.NewPrevTransactionsVerifier(), dag.NewTransactionSignatureVerifier(dag.SourceTXKeyResolver{Resolver: n.dids}))
	if err != nil {
		return nil, err
	}
	return n, n.st.Configure(core.ServerConfig{})
}

func (n *node2) close() {
	_ = n.st.Shutdown()
	_ = n.db.Close(context.Background())
	_ = n.didsDB.Close(context.Background())
}
