// Driver for Producer.tla (X04): replays TLC behaviours of concurrent Network.CreateTransaction / Reprocess calls on a
// real network.Network engine, step by step through the gates of the KV store and the key store, evaluates the
// properties on real observables and records one event per linearization point for trace validation.
package producer

import (
	"bufio"
	"bytes"
	"context"
	"crypto"
	"crypto/sha256"
	"encoding/json"
	"errors"
	"fmt"
	"io"
	"os"
	"path/filepath"
	"sort"
	"strings"
	"sync"
	"testing"
	"time"

	"github.com/lestrrat-go/jwx/v2/jwa"
	"github.com/lestrrat-go/jwx/v2/jwk"
	"github.com/lestrrat-go/jwx/v2/jws"
	"github.com/nuts-foundation/go-did/did"
	"github.com/nuts-foundation/go-stoabs"
	"github.com/nuts-foundation/nuts-node/audit"
	"github.com/nuts-foundation/nuts-node/core"
	nutsCrypto "github.com/nuts-foundation/nuts-node/crypto"
	"github.com/nuts-foundation/nuts-node/crypto/hash"
	"github.com/nuts-foundation/nuts-node/network"
	"github.com/nuts-foundation/nuts-node/network/dag"
	v2 "github.com/nuts-foundation/nuts-node/network/transport/v2"
	"github.com/sirupsen/logrus"
	"google.golang.org/protobuf/proto"

	"verifharness/gate"
)

type step map[string]any

func (s step) str(k string) string { v, _ := s[k].(string); return v }
func (s step) boolean(k string) bool {
	v, _ := s[k].(bool)
	return v
}
func (s step) list(k string) []string {
	var out []string
	if l, ok := s[k].([]any); ok {
		for _, x := range l {
			if v, ok := x.(string); ok {
				out = append(out, v)
			}
		}
	}
	return out
}

type script struct {
	ID    string `json:"id"`
	Steps []step `json:"steps"`
	// Long: number of transactions created sequentially (alternating content types) before the steps run
	Long int `json:"long,omitempty"`
}

type input struct {
	Base    bool     `json:"base"`
	NodeDID bool     `json:"nodedid"`
	Scripts []script `json:"scripts"`
}

type violation struct {
	Kind   string `json:"kind"`
	Detail string `json:"detail"`
	Step   int    `json:"step"`
}

type result struct {
	ID         string           `json:"id"`
	Violations []violation      `json:"violations"`
	Drift      []string         `json:"drift"`
	Error      string           `json:"error,omitempty"`
	Trace      []map[string]any `json:"trace"`
	Checks     int              `json:"checks"`
	Stats      map[string]int   `json:"stats"`
	// Blocked: a goroutine was found blocked inside the code where the model lets it run (the code serialises more
	// than the model); the rest of the script ran unscheduled, the properties were still evaluated
	Blocked string `json:"blocked,omitempty"`
}

// templates: mirror of Tpl in MCProducer.tla
type tplSpec struct {
	Type  string
	Key   string
	Priv  bool
	PalOK bool
}

var tpls = map[string]tplSpec{
	"did":     {"did", "jwk", false, true},
	"vc":      {"vc", "kid", false, true},
	"upd":     {"did", "kid", false, true},
	"priv":    {"vc", "kid", true, true},
	"privbad": {"vc", "kid", true, false},
	"ghost":   {"vc", "kid", false, true},
	"nokey":   {"vc", "nokey", false, true},
	"badjwk":  {"did", "badjwk", false, true},
	"kidfar":  {"vc", "kid", false, true},
}

type callRec struct {
	id, p, tpl string
	spec       tplSpec
	template   network.Template
	payload    []byte
	ph         hash.SHA256Hash
	addl       []hash.SHA256Hash
	begun      time.Time
	// observations
	headAtRead hash.SHA256Hash
	headRead   bool
	seen       map[hash.SHA256Hash]uint32 // stored set (ref -> clock) when the head was read
	done       bool
	err        error
	tx         dag.Transaction
	faulted    bool // the driver injected a failure into this call
}

type track struct {
	phase string // chkprev, head, clock, sign, verify, add
	left  int
}

type run struct {
	w      *world
	in     input
	sc     script
	res    *result
	dir    string
	sched  *gate.Sched
	n      *node
	n2     *node2
	mu     sync.Mutex
	stepNo int
	off    uint32 // clock of "g" (abstract clock 0)
	names  map[hash.SHA256Hash]string
	refs   map[string]hash.SHA256Hash
	calls  map[string]*callRec // id -> call
	cur    map[string]*callRec // actor -> current call
	order  []*callRec
	tr     map[string]*track
	app    []dag.Event
	actors map[string]bool
	// reprocess
	rpCT       string
	rpFrom     int // index into the publications when the scan started
	rpOKAt     []*callRec
	rpDump     string
	rpCreator  int
	creatorOps int
	rpRuns     int
	synced     map[hash.SHA256Hash]bool
	poolNext   int
	ghost      hash.SHA256Hash
	inWrite    map[string]bool // actors between LockWrite and Commit/Rollback: they hold the bbolt write lock
}

func (r *run) viol(kind, detail string) {
	for _, v := range r.res.Violations {
		if v.Kind == kind {
			return
		}
	}
	r.res.Violations = append(r.res.Violations, violation{kind, detail, r.stepNo})
}
func (r *run) violL(kind, detail string) {
	r.mu.Lock()
	defer r.mu.Unlock()
	r.viol(kind, detail)
}
func (r *run) emit(e map[string]any) { r.res.Trace = append(r.res.Trace, e) }
func (r *run) emitL(e map[string]any) {
	r.mu.Lock()
	r.emit(e)
	r.mu.Unlock()
}
func (r *run) drift(f string, a ...any) {
	r.mu.Lock()
	r.res.Drift = append(r.res.Drift, fmt.Sprintf("step %d: ", r.stepNo)+fmt.Sprintf(f, a...))
	r.mu.Unlock()
}

func (r *run) nameOf(h hash.SHA256Hash) string {
	if n, ok := r.names[h]; ok {
		return n
	}
	return "?" + h.String()[:8]
}
func (r *run) register(name string, h hash.SHA256Hash) {
	r.names[h] = name
	r.refs[name] = h
}
func inModel(name string) bool {
	return name == "g" || (strings.HasPrefix(name, "p") && strings.Contains(name, "."))
}

// ---------------------------------------------------------------------------------------------
// observation of the real code (called from the goroutines of the code under test)

// observe receives the events of the gated KV store and turns the reads into labelled events; the label follows from
// the progress of the call (number of additional prevs of the template, arrival at the signing gate), not from the script.
func (r *run) observe(actor, ev string, f map[string]any) {
	if actor == "" || actor == "-" {
		return
	}
	r.mu.Lock()
	defer r.mu.Unlock()
	e := map[string]any{"ev": ev, "p": actor}
	for k, v := range f {
		if !strings.HasPrefix(k, "_") {
			e[k] = v
		}
	}
	if actor == "rp" {
		if ev == "read.done" {
			t := r.tr[actor]
			if t != nil && t.phase == "scan" {
				t.phase = "payloads"
				r.emit(map[string]any{"ev": "reproc.scan", "ct": r.rpCT, "res": f["res"]})
			}
		}
		return
	}
	t := r.tr[actor]
	switch ev {
	case "read.done":
		if t == nil {
			return
		}
		res, _ := f["res"].(string)
		if t.phase == "chkprev" && t.left > 0 {
			t.left--
			if res == "err" {
				t.phase = "returning"
				r.emit(map[string]any{"ev": "chkprev.done", "p": actor, "res": "err"})
			} else if t.left == 0 {
				t.phase = "head"
				r.emit(map[string]any{"ev": "chkprev.done", "p": actor, "res": "ok"})
			}
			return
		}
		if t.phase == "chkprev" { // no additional prevs: this is already the head read
			r.emit(map[string]any{"ev": "chkprev.done", "p": actor, "res": "ok"})
			t.phase = "head"
		}
		switch t.phase {
		case "head":
			r.emit(map[string]any{"ev": "head.done", "p": actor, "res": res})
			if res == "ok" {
				t.phase = "clock"
			} else {
				t.phase = "returning"
			}
		case "clock":
			if res == "err" {
				r.emit(map[string]any{"ev": "clock.done", "p": actor, "res": "err"})
				t.phase = "returning"
			}
		case "verify":
			r.emit(map[string]any{"ev": "verify.done", "p": actor, "res": res})
			t.phase = "add"
		}
	case "write.fn":
		stored := []string{}
		if refs, ok := f["_refs"].([]hash.SHA256Hash); ok {
			for _, h := range refs {
				n, known := r.names[h]
				if !known {
					if c := r.cur[actor]; c != nil { // the transaction this goroutine is adding
						r.register(c.id, h)
						n = c.id
					}
				}
				if inModel(n) {
					stored = append(stored, n)
				}
			}
		}
		sort.Strings(stored)
		e["stored"] = stored
		r.emit(e)
	default:
		r.emit(e)
	}
}

func (r *run) inTx(tx stoabs.WriteTx, f map[string]any) {
	var refs []hash.SHA256Hash
	_ = tx.GetShelfReader("documents").Iterate(func(k stoabs.Key, _ []byte) error {
		refs = append(refs, hash.FromSlice(k.Bytes()))
		return nil
	}, stoabs.HashKey{})
	f["_refs"] = refs
}

func (r *run) atSign(actor string) {
	r.mu.Lock()
	defer r.mu.Unlock()
	if t := r.tr[actor]; t != nil {
		if t.phase == "clock" {
			r.emit(map[string]any{"ev": "clock.done", "p": actor, "res": "ok"})
		}
		t.phase = "sign"
	}
}

func (r *run) signed(actor, res string) {
	r.mu.Lock()
	defer r.mu.Unlock()
	r.emit(map[string]any{"ev": "sign", "p": actor, "res": res})
	if t := r.tr[actor]; t != nil {
		t.phase = "verify"
	}
}

// onHeadRead is called from inside the read transaction in which the code reads the head reference: the value it got and
// the set of transactions stored at that very moment are recorded for the call (first head read of the call only)
func (r *run) onHeadRead(actor string, value []byte) {
	r.mu.Lock()
	c := r.cur[actor]
	r.mu.Unlock()
	if c == nil || c.headRead || c.done {
		return
	}
	head := hash.EmptyHash()
	if len(value) == hash.SHA256HashSize {
		head = hash.FromSlice(value)
	}
	if st, err := readStored(r.n.inner); err == nil {
		c.seen = st.clock
		c.headAtRead = head
		c.headRead = true
	}
}

func (r *run) appReceive(ev dag.Event) (bool, error) {
	r.mu.Lock()
	r.app = append(r.app, ev)
	r.mu.Unlock()
	return true, nil
}

// ---------------------------------------------------------------------------------------------
// reading the real state

type stored struct {
	refs   []hash.SHA256Hash
	clock  map[hash.SHA256Hash]uint32
	parsed map[hash.SHA256Hash]dag.Transaction
	maxLc  uint32
}

func readStored(db stoabs.KVStore) (*stored, error) {
	s := &stored{clock: map[hash.SHA256Hash]uint32{}, parsed: map[hash.SHA256Hash]dag.Transaction{}}
	err := db.ReadShelf(context.Background(), "documents", func(reader stoabs.Reader) error {
		return reader.Iterate(func(k stoabs.Key, v []byte) error {
			ref := hash.FromSlice(k.Bytes())
			tx, err := dag.ParseTransaction(append([]byte{}, v...))
			if err != nil {
				return fmt.Errorf("stored transaction %s does not parse: %w", ref, err)
			}
			if !tx.Ref().Equals(ref) {
				return fmt.Errorf("stored under %s but hashes to %s", ref, tx.Ref())
			}
			s.refs = append(s.refs, ref)
			s.clock[ref] = tx.Clock()
			s.parsed[ref] = tx
			if tx.Clock() > s.maxLc {
				s.maxLc = tx.Clock()
			}
			return nil
		}, stoabs.HashKey{})
	})
	return s, err
}

func shelfKeys(db stoabs.KVStore, shelf string, kt stoabs.Key) [][]byte {
	var out [][]byte
	_ = db.ReadShelf(context.Background(), shelf, func(reader stoabs.Reader) error {
		return reader.Iterate(func(k stoabs.Key, v []byte) error {
			out = append(out, append([]byte{}, k.Bytes()...))
			return nil
		}, kt)
	})
	return out
}

var dagShelves = []string{"documents", "payloads", "clocks", "metadata", "xorBucket", "ibltBucket", "heads"}

// dump is a digest of everything the DAG consists of on disk (not the job shelves of the subscribers)
func dump(db stoabs.KVStore) string {
	h := sha256.New()
	for _, sh := range dagShelves {
		var kt stoabs.Key = stoabs.BytesKey{}
		_ = db.ReadShelf(context.Background(), sh, func(reader stoabs.Reader) error {
			return reader.Iterate(func(k stoabs.Key, v []byte) error {
				fmt.Fprintf(h, "%s/%x=%x;", sh, k.Bytes(), v)
				return nil
			}, kt)
		})
	}
	return fmt.Sprintf("%x", h.Sum(nil))
}

func (r *run) lockFree() bool {
	for a := range r.actors {
		if r.inWrite[a] || r.sched.Where(a) == "write.fnEnd" {
			return false
		}
	}
	return true
}

func (r *run) memQuiet() bool {
	for a := range r.actors {
		switch r.sched.Where(a) {
		case "write.fnEnd", "rollback.hook", "commit.hook", "":
			return false
		}
	}
	return true
}

// ---------------------------------------------------------------------------------------------
// oracle

func (r *run) verifySig(tx dag.Transaction) error {
	var key crypto.PublicKey
	if tx.SigningKey() != nil {
		if err := tx.SigningKey().Raw(&key); err != nil {
			return err
		}
	} else {
		k, ok := r.w.pub[tx.SigningKeyID()]
		if !ok {
			return fmt.Errorf("kid %s is not a key of this world", tx.SigningKeyID())
		}
		key = k
	}
	_, err := jws.Verify(tx.Data(), jws.WithKey(jwa.SignatureAlgorithm(tx.SigningAlgorithm()), key))
	return err
}

// check evaluates the state properties on the real node; only called when nobody holds the write lock
func (r *run) check(when string) {
	if !r.lockFree() {
		return
	}
	s, err := readStored(r.n.inner)
	if err != nil {
		r.violL("stored-unreadable", when+": "+err.Error())
		return
	}
	r.mu.Lock()
	r.res.Checks++
	r.mu.Unlock()
	// P1: every stored transaction is what the verifiers admit relative to the stored set
	roots := 0
	for _, ref := range s.refs {
		tx := s.parsed[ref]
		if len(tx.Previous()) == 0 {
			roots++
		}
		exp := -1
		seenPrev := map[hash.SHA256Hash]bool{}
		for _, p := range tx.Previous() {
			if seenPrev[p] {
				r.violL("duplicate-prev", fmt.Sprintf("%s: %s lists a previous transaction twice", when, r.nameOf(ref)))
			}
			seenPrev[p] = true
			pc, ok := s.clock[p]
			if !ok {
				r.violL("missing-prev", fmt.Sprintf("%s: stored transaction %s references a transaction that is not stored", when, r.nameOf(ref)))
				continue
			}
			if int(pc) > exp {
				exp = int(pc)
			}
		}
		if int(tx.Clock()) != exp+1 {
			r.violL("clock", fmt.Sprintf("%s: stored transaction %s has clock %d, its prevs imply %d", when, r.nameOf(ref), tx.Clock(), exp+1))
		}
		if err := r.verifySig(tx); err != nil {
			r.violL("signature", fmt.Sprintf("%s: stored transaction %s does not verify with the key it names: %v", when, r.nameOf(ref), err))
		}
	}
	if roots > 1 {
		r.violL("two-roots", fmt.Sprintf("%s: %d root transactions stored", when, roots))
	}
	// P2: listing without duplicates = stored set; head has the highest clock; count
	list, err := r.n.net.ListTransactionsInRange(0, dag.MaxLamportClock)
	if err != nil {
		r.violL("listing-error", when+": "+err.Error())
	} else {
		seen := map[hash.SHA256Hash]bool{}
		var last uint32
		for _, tx := range list {
			if seen[tx.Ref()] {
				r.violL("duplicate-ref", fmt.Sprintf("%s: %s is listed twice", when, r.nameOf(tx.Ref())))
			}
			seen[tx.Ref()] = true
			if tx.Clock() < last {
				r.violL("listing-order", when+": ListTransactionsInRange is not in clock order")
			}
			last = tx.Clock()
		}
		if len(seen) != len(s.refs) {
			r.violL("listing-incomplete", fmt.Sprintf("%s: %d transactions listed, %d stored", when, len(seen), len(s.refs)))
		}
	}
	if head, err := r.n.st.Head(context.Background()); err != nil {
		r.violL("head-error", err.Error())
	} else if len(s.refs) > 0 {
		if c, ok := s.clock[head]; !ok || c != s.maxLc {
			r.violL("head-not-highest", fmt.Sprintf("%s: head %s is not a stored transaction with the highest clock %d", when, r.nameOf(head), s.maxLc))
		}
	} else if !head.Equals(hash.EmptyHash()) {
		r.violL("head-not-highest", when+": head set on an empty DAG")
	}
	for _, d := range r.n.net.Diagnostics() {
		m, ok := d.(core.DiagnosticResultMap)
		if !ok || m.Title != "state" {
			continue
		}
		for _, it := range m.Items {
			switch it.Name() {
			case dag.TransactionCountDiagnostic:
				if fmt.Sprint(it.Result()) != fmt.Sprint(len(s.refs)) {
					r.violL("count", fmt.Sprintf("%s: diagnostics transaction_count=%v, stored=%d", when, it.Result(), len(s.refs)))
				}
			case "dag_lc_high":
				if r.memQuiet() && fmt.Sprint(it.Result()) != fmt.Sprint(s.maxLc) {
					r.violL("lc-high", fmt.Sprintf("%s: diagnostics dag_lc_high=%v, highest stored clock=%d", when, it.Result(), s.maxLc))
				}
			}
		}
	}
	// P6: nothing partial: payloads and jobs only of stored transactions, every own transaction has its payload
	declared := map[hash.SHA256Hash]bool{}
	for _, tx := range s.parsed {
		declared[tx.PayloadHash()] = true
	}
	have := map[hash.SHA256Hash]bool{}
	for _, k := range shelfKeys(r.n.inner, "payloads", stoabs.HashKey{}) {
		h := hash.FromSlice(k)
		have[h] = true
		if !declared[h] {
			r.violL("payload-without-transaction", when+": the payload store holds a payload no stored transaction declares")
		}
	}
	for ref, tx := range s.parsed {
		if !have[tx.PayloadHash()] {
			r.violL("transaction-without-payload", fmt.Sprintf("%s: own transaction %s is stored without its payload", when, r.nameOf(ref)))
		}
	}
	for _, sub := range []string{"vdr", "app", "nats", "private"} {
		for _, k := range shelfKeys(r.n.inner, "_"+sub+"_jobs", stoabs.BytesKey{}) {
			if _, ok := s.clock[hash.FromSlice(k)]; !ok {
				r.violL("job-without-transaction", fmt.Sprintf("%s: subscriber %s has a job for a transaction that is not stored", when, sub))
			}
		}
	}
	// P4/P6 per call
	r.mu.Lock()
	calls := append([]*callRec{}, r.order...)
	natsPubs := r.n.js.on(eventsTransactionsSubject)
	app := append([]dag.Event{}, r.app...)
	r.mu.Unlock()
	byPH := map[hash.SHA256Hash]int{}
	for _, p := range natsPubs {
		byPH[p.TX.PayloadHash()]++
		if !hash.SHA256Sum(p.Payload).Equals(p.TX.PayloadHash()) {
			r.violL("created-not-dispatched", when+": an event was published with a payload that is not the payload of its transaction")
		}
		if _, ok := s.clock[p.TX.Ref()]; !ok {
			r.violL("event-without-transaction", when+": an event was published for a transaction that is not stored")
		}
	}
	appPH := map[hash.SHA256Hash]int{}
	for _, e := range app {
		appPH[e.Transaction.PayloadHash()]++
		if !hash.SHA256Sum(e.Payload).Equals(e.Transaction.PayloadHash()) {
			r.violL("created-not-dispatched", when+": a subscriber was notified with a payload that is not the payload of its transaction")
		}
		if _, ok := s.clock[e.Hash]; !ok {
			r.violL("event-without-transaction", when+": a subscriber was notified of a transaction that is not stored")
		}
	}
	for _, c := range calls {
		r.mu.Lock()
		done, cerr, tx := c.done, c.err, c.tx
		r.mu.Unlock()
		if !done {
			continue
		}
		if cerr != nil {
			r.explain(c, cerr, s, when)
			if declared[c.ph] || have[c.ph] || byPH[c.ph] > 0 || appPH[c.ph] > 0 {
				r.violL("failed-call-left-trace", fmt.Sprintf("%s: call %s (%s) returned an error (%v) but left a trace (transaction=%v payload=%v events=%d/%d)",
					when, c.id, c.tpl, cerr, declared[c.ph], have[c.ph], byPH[c.ph], appPH[c.ph]))
			}
			continue
		}
		if _, ok := s.clock[tx.Ref()]; !ok {
			r.violL("created-not-stored", fmt.Sprintf("%s: call %s returned %s which is not stored", when, c.id, tx.Ref()))
			continue
		}
		if byPH[c.ph] != 1 {
			r.violL("created-not-dispatched", fmt.Sprintf("%s: %s was published %d times on %s (expected once)", when, c.id, byPH[c.ph], eventsTransactionsSubject))
		}
		wantApp := 0
		if c.spec.Type == "vc" {
			wantApp = 1
		}
		if appPH[c.ph] != wantApp {
			r.violL("created-not-dispatched", fmt.Sprintf("%s: %s (type %s) was delivered %d times to the credential subscriber (expected %d)", when, c.id, c.spec.Type, appPH[c.ph], wantApp))
		}
		// P2: a creation that read the head after u had been committed gets a higher clock than u
		for u, uc := range c.seen {
			if uc >= tx.Clock() {
				r.violL("fork-without-race", fmt.Sprintf("%s: %s (clock %d) read the head when %s (clock %d) was already stored", when, c.id, tx.Clock(), r.nameOf(u), uc))
			}
		}
	}
}

const eventsTransactionsSubject = "TRANSACTIONS.tx"

// explain: a call may only fail for a reason that lies in its template, in an injected failure, or in the one race the
// code admits (two goroutines create the root of an empty DAG); a sound template must yield a transaction
func (r *run) explain(c *callRec, cerr error, s *stored, when string) {
	if c.faulted || r.res.Blocked != "" {
		return
	}
	switch c.tpl {
	case "ghost", "nokey", "badjwk", "privbad", "kidfar":
		return
	}
	if c.spec.Priv && !r.in.NodeDID {
		return
	}
	if c.spec.Key == "kid" && !r.in.Base {
		return // nothing resolves the kid on a DAG without the signer's DID document
	}
	if c.headRead && c.headAtRead.Equals(hash.EmptyHash()) && len(s.refs) > 0 {
		return // root race: somebody else's root was stored first
	}
	r.violL("sound-template-fails", fmt.Sprintf("%s: call %s (%s) failed although its template is sound, no failure was injected and no other goroutine created a root: %v", when, c.id, c.tpl, cerr))
}

func (r *run) hasGhost(c *callRec) bool {
	for _, h := range c.addl {
		if h.Equals(r.ghost) {
			return true
		}
	}
	return false
}

// returned runs on the goroutine of the caller right after CreateTransaction returned
func (r *run) returned(c *callRec, tx dag.Transaction, err error) {
	ev := map[string]any{"ev": "create.return", "p": c.p, "id": c.id}
	if err != nil {
		ev["res"] = "err"
		ev["err"] = err.Error()
		r.mu.Lock()
		c.done, c.err = true, err
		r.emit(ev)
		r.mu.Unlock()
		return
	}
	ev["res"] = "ok"
	r.mu.Lock()
	if _, ok := r.names[tx.Ref()]; !ok {
		r.register(c.id, tx.Ref())
	}
	prevs := []string{}
	for _, p := range tx.Previous() {
		prevs = append(prevs, r.nameOf(p))
	}
	sort.Strings(prevs)
	ev["prevs"] = prevs
	ev["lc"] = int(tx.Clock()) - int(r.off)
	ev["priv"] = len(tx.PAL()) > 0
	ev["type"] = absType[tx.PayloadType()]
	r.mu.Unlock()
	// ---- the transaction is what the template asked for
	bad := func(kind, f string, a ...any) { r.violL(kind, c.id+" ("+c.tpl+"): "+fmt.Sprintf(f, a...)) }
	if !tx.PayloadHash().Equals(c.ph) {
		bad("template-mismatch", "payload hash is not the hash of the template's payload")
	}
	if tx.PayloadType() != c.template.Type {
		bad("template-mismatch", "content type %q, template says %q", tx.PayloadType(), c.template.Type)
	}
	if tx.Version() != 2 {
		bad("template-mismatch", "version %d", tx.Version())
	}
	if st := tx.SigningTime(); st.Before(c.begun.Add(-2*time.Second)) || st.After(time.Now().Add(2*time.Second)) {
		bad("template-mismatch", "signing time %s is not the time of the call", st)
	}
	switch c.spec.Key {
	case "jwk", "badjwk":
		if tx.SigningKey() == nil || tx.SigningKeyID() != "" {
			bad("key-mismatch", "template attaches a key but the transaction has kid=%q jwk=%v", tx.SigningKeyID(), tx.SigningKey() != nil)
		} else {
			var got crypto.PublicKey
			_ = tx.SigningKey().Raw(&got)
			want, _ := jwk.FromRaw(c.template.PublicKey)
			gotJ, _ := jwk.FromRaw(got)
			a, _ := want.Thumbprint(crypto.SHA256)
			b, _ := gotJ.Thumbprint(crypto.SHA256)
			if !bytes.Equal(a, b) {
				bad("key-mismatch", "the attached key is not the key of the template")
			}
			if kid := tx.SigningKey().KeyID(); kid != c.template.KID {
				bad("key-mismatch", "attached key carries kid %q, template says %q", kid, c.template.KID)
			}
		}
	default:
		if tx.SigningKey() != nil || tx.SigningKeyID() != c.template.KID {
			bad("key-mismatch", "template names kid %q but the transaction has kid=%q jwk=%v", c.template.KID, tx.SigningKeyID(), tx.SigningKey() != nil)
		}
	}
	if err := r.verifySig(tx); err != nil {
		bad("signature", "does not verify with the key it names: %v", err)
	}
	if c.spec.Key == "badjwk" || c.spec.Key == "nokey" || !c.spec.PalOK || (c.spec.Priv && !r.in.NodeDID) || r.hasGhost(c) {
		bad("defective-template-accepted", "a transaction was created from a template that cannot yield a valid one")
	}
	// private <=> PAL; the PAL is readable by the participants only
	if c.spec.Priv != (len(tx.PAL()) > 0) {
		bad("pal-mismatch", "private=%v but PAL has %d entries", c.spec.Priv, len(tx.PAL()))
	}
	if c.spec.Priv {
		if len(tx.PAL()) != len(c.template.Participants) {
			bad("pal-mismatch", "%d participants, %d PAL entries", len(c.template.Participants), len(tx.PAL()))
		}
		opened := false
		for _, ct := range tx.PAL() {
			if pt, err := nutsCrypto.EciesDecrypt(r.w.partKey, ct); err == nil {
				opened = true
				var want []string
				for _, d := range c.template.Participants {
					want = append(want, d.String())
				}
				if string(pt) != strings.Join(want, "\n") {
					bad("pal-mismatch", "the PAL decrypts to %q", string(pt))
				}
			}
			if bytes.Contains(ct, []byte("did:nuts:")) {
				bad("participants-in-clear", "a PAL entry contains a DID in the clear")
			}
		}
		if !opened {
			bad("pal-mismatch", "the other participant cannot decrypt any PAL entry")
		}
		if bytes.Contains(tx.Data(), c.payload) {
			bad("private-payload-in-clear", "the transaction bytes contain the payload")
		}
	}
	// prevs = head as read + additional prevs, no duplicates; clock = max + 1
	want := map[hash.SHA256Hash]bool{}
	if c.headRead && !c.headAtRead.Equals(hash.EmptyHash()) {
		want[c.headAtRead] = true
	}
	for _, a := range c.addl {
		want[a] = true
	}
	got := map[hash.SHA256Hash]bool{}
	for _, p := range tx.Previous() {
		if got[p] {
			bad("duplicate-prev", "a previous transaction is listed twice")
		}
		got[p] = true
	}
	if c.headRead {
		same := len(want) == len(got)
		for p := range want {
			if !got[p] {
				same = false
			}
		}
		if !same {
			bad("prevs-mismatch", "prevs %v, expected head %s + additional prevs %v", prevs, r.nameOf(c.headAtRead), c.addl)
		}
	}
	// P3: readable immediately afterwards through the API of the engine
	if g, err := r.n.net.GetTransaction(tx.Ref()); err != nil || g == nil || !bytes.Equal(g.Data(), tx.Data()) {
		bad("created-not-readable", "GetTransaction right after the call: %v", err)
	}
	if pl, err := r.n.net.GetTransactionPayload(tx.Ref()); err != nil || !bytes.Equal(pl, c.payload) {
		bad("created-not-readable", "GetTransactionPayload right after the call: err=%v, %d bytes", err, len(pl))
	}
	if l, err := r.n.net.ListTransactionsInRange(tx.Clock(), tx.Clock()+1); err != nil {
		bad("created-not-readable", "ListTransactionsInRange: %v", err)
	} else {
		found := false
		for _, x := range l {
			if x.Ref().Equals(tx.Ref()) {
				found = true
			}
			if x.Clock() != tx.Clock() {
				bad("created-not-readable", "ListTransactionsInRange(%d,%d) lists a transaction with clock %d", tx.Clock(), tx.Clock()+1, x.Clock())
			}
		}
		if !found {
			bad("created-not-readable", "ListTransactionsInRange(%d,%d) does not list it", tx.Clock(), tx.Clock()+1)
		}
	}
	r.mu.Lock()
	c.done, c.tx = true, tx
	r.emit(ev)
	r.mu.Unlock()
}

// ---------------------------------------------------------------------------------------------
// building concrete templates

func (r *run) payloadFor(c *callRec) []byte {
	switch c.tpl {
	case "did", "badjwk":
		i := r.poolNext % len(r.w.pool)
		kid := r.w.pool[i]
		id := did.MustParseDIDURL(kid).DID
		doc := mkDoc(id, kid, r.w.pub[kid], "", nil)
		b, _ := json.Marshal(doc)
		// unique per call
		var m map[string]any
		_ = json.Unmarshal(b, &m)
		m["alsoKnownAs"] = []string{"urn:verif:" + r.sc.ID + ":" + c.id}
		b, _ = json.Marshal(m)
		return b
	case "upd":
		b, _ := json.Marshal(map[string]any{"entity": "urn:verif:entity:" + c.p, "rev": r.sc.ID + ":" + c.id})
		return b
	}
	b, _ := json.Marshal(map[string]any{"credential": r.sc.ID + ":" + c.id, "tpl": c.tpl})
	return b
}

func (r *run) build(p, tplName, id string, addlNames []string) (*callRec, error) {
	spec, ok := tpls[tplName]
	if !ok {
		return nil, fmt.Errorf("unknown template %q", tplName)
	}
	c := &callRec{id: id, p: p, tpl: tplName, spec: spec, begun: time.Now()}
	c.payload = r.payloadFor(c)
	c.ph = hash.SHA256Sum(c.payload)
	kid := issuerKID
	switch spec.Key {
	case "jwk", "badjwk":
		kid = r.w.pool[r.poolNext%len(r.w.pool)]
		r.poolNext++
	case "nokey":
		kid = missingKID
	}
	t := network.TransactionTemplate(realType[spec.Type], c.payload, kid)
	switch spec.Key {
	case "jwk":
		t = t.WithAttachKey(r.w.pub[kid])
	case "badjwk":
		t = t.WithAttachKey(r.w.other)
	}
	for _, a := range addlNames {
		var h hash.SHA256Hash
		if a == "ghost" {
			h = r.ghost
		} else if x, ok := r.refs[a]; ok {
			h = x
		} else {
			return nil, fmt.Errorf("additional prev %q is not known to the driver", a)
		}
		c.addl = append(c.addl, h)
	}
	if len(c.addl) > 0 {
		t = t.WithAdditionalPrevs(c.addl)
	}
	if spec.Priv {
		if spec.PalOK {
			t = t.WithPrivate([]did.DID{r.w.nodeDID, r.w.part})
		} else {
			t = t.WithPrivate([]did.DID{r.w.nodeDID, r.w.nokaDID})
		}
	}
	c.template = t
	return c, nil
}

// create runs CreateTransaction without the scheduler (base chain, long chains)
func (r *run) createPlain(name, tplName string, payload []byte, t network.Template) (dag.Transaction, error) {
	tx, err := r.n.net.CreateTransaction(audit.Context(context.Background(), "verif", "X04", "base"), t)
	if err != nil {
		return nil, fmt.Errorf("base transaction %s: %w", name, err)
	}
	r.register(name, tx.Ref())
	return tx, nil
}

func (r *run) buildBase() error {
	w := r.w
	docs := []struct {
		name string
		doc  did.Document
		kid  string
	}{
		// (a document without controller and capabilityInvocation key counts as deactivated)
		{"b.node", mkDoc(w.nodeDID, "did:nuts:node#k1", w.other, nodeKAKID, w.pub[nodeKAKID]), nodeKAKID},
		{"b.part", mkDoc(w.part, "did:nuts:part#k1", w.other, partKAKID, w.pub[partKAKID]), nodeKAKID},
		{"b.noka", mkDoc(w.nokaDID, "did:nuts:noka#k1", w.other, "", nil), nodeKAKID},
		{"g", mkDoc(w.issuer, issuerKID, w.pub[issuerKID], "", nil), issuerKID},
	}
	for _, d := range docs {
		b, _ := json.Marshal(d.doc)
		t := network.TransactionTemplate(typeDID, b, d.kid).WithAttachKey(w.pub[d.kid])
		tx, err := r.createPlain(d.name, "did", b, t)
		if err != nil {
			return err
		}
		r.off = tx.Clock()
	}
	return nil
}

// ---------------------------------------------------------------------------------------------
// the second node and the peers

func (r *run) syncOne(ref hash.SHA256Hash, s *stored) {
	if r.synced[ref] {
		return
	}
	tx := s.parsed[ref]
	for _, p := range tx.Previous() {
		if _, ok := s.parsed[p]; ok {
			r.syncOne(p, s)
		}
	}
	r.synced[ref] = true
	name := r.nameOf(ref)
	fresh, err := dag.ParseTransaction(append([]byte{}, tx.Data()...))
	if err != nil {
		r.violL("second-node-rejects", fmt.Sprintf("the bytes of %s do not parse on a second node: %v", name, err))
		return
	}
	var payload []byte
	if len(fresh.PAL()) == 0 {
		payload, _ = r.n.st.ReadPayload(context.Background(), fresh.PayloadHash())
	}
	err = r.n2.st.Add(context.Background(), fresh, payload)
	res := "ok"
	if err != nil {
		res = "err"
		r.violL("second-node-rejects", fmt.Sprintf("a second node with the same verifiers refuses %s: %v", name, err))
	} else if ok, _ := r.n2.st.IsPresent(context.Background(), ref); !ok {
		res = "err"
		r.violL("second-node-rejects", fmt.Sprintf("a second node did not store %s", name))
	} else if payload != nil {
		if err := ambassador(r.n2.dids, fresh, payload); err != nil {
			r.drift("second node ambassador: %v", err)
		}
	}
	if inModel(name) {
		r.emitL(map[string]any{"ev": "sync", "t": name, "res": res})
	}
}

func (r *run) syncAll() {
	s, err := readStored(r.n.inner)
	if err != nil {
		return
	}
	refs := append([]hash.SHA256Hash{}, s.refs...)
	sort.Slice(refs, func(i, j int) bool {
		if s.clock[refs[i]] != s.clock[refs[j]] {
			return s.clock[refs[i]] < s.clock[refs[j]]
		}
		return refs[i].Compare(refs[j]) < 0
	})
	for _, ref := range refs {
		r.syncOne(ref, s)
	}
}

func envBytes(envs []*v2.Envelope) [][]byte {
	var out [][]byte
	for _, e := range envs {
		b, _ := proto.Marshal(e)
		out = append(out, b)
	}
	return out
}

// dispatch: what the attached transport/v2 instance tells and gives to peers about the created transactions
func (r *run) dispatch() {
	s, err := readStored(r.n.inner)
	if err != nil {
		return
	}
	r.mu.Lock()
	calls := append([]*callRec{}, r.order...)
	r.mu.Unlock()
	var okCalls []*callRec
	for _, c := range calls {
		if c.done && c.err == nil && c.tx != nil {
			okCalls = append(okCalls, c)
		}
	}
	if len(okCalls) == 0 || len(okCalls) > 90 {
		return
	}
	got := map[string]map[hash.SHA256Hash][]byte{} // peer -> ref -> payload obtained
	for _, pn := range []string{"out", "part", "anon"} {
		conn := r.n.peers[pn]
		conn.take()
		// 1. gossip: every created transaction is advertised
		if !v2.VerifGossipTick(r.n.proto, conn.peer) {
			r.violL("peer-not-registered", "the gossip manager does not know peer "+pn)
			continue
		}
		adv := map[hash.SHA256Hash]bool{}
		for _, e := range conn.take() {
			if g := e.GetGossip(); g != nil {
				for _, t := range g.Transactions {
					adv[hash.FromSlice(t)] = true
				}
			}
		}
		for _, c := range okCalls {
			if !adv[c.tx.Ref()] {
				r.violL("created-not-gossiped", fmt.Sprintf("%s was created but never advertised to peer %s", c.id, pn))
			}
		}
		for ref := range adv {
			if _, ok := s.clock[ref]; !ok {
				r.violL("gossip-of-unstored", "a transaction that is not stored was advertised")
			}
		}
		// 2. the peer asks for the transactions, then for the payloads it did not get
		var refs [][]byte
		for _, c := range okCalls {
			refs = append(refs, c.tx.Ref().Slice())
		}
		q := &v2.Envelope{Message: &v2.Envelope_TransactionListQuery{TransactionListQuery: &v2.TransactionListQuery{ConversationID: []byte("c-" + pn), Refs: refs}}}
		if err := v2.VerifHandleSync(r.n.proto, conn, q); err != nil {
			r.drift("TransactionListQuery from %s: %v", pn, err)
		}
		all := conn.take()
		got[pn] = map[hash.SHA256Hash][]byte{}
		listed := map[hash.SHA256Hash]bool{}
		for _, e := range all {
			if l := e.GetTransactionList(); l != nil {
				for _, t := range l.Transactions {
					tx, err := dag.ParseTransaction(t.Data)
					if err != nil {
						r.violL("served-unparseable", "a served transaction does not parse")
						continue
					}
					listed[tx.Ref()] = true
					if t.Payload != nil {
						got[pn][tx.Ref()] = t.Payload
					}
				}
			}
		}
		for _, c := range okCalls {
			if !listed[c.tx.Ref()] {
				r.violL("created-not-served", fmt.Sprintf("%s was asked for by peer %s and not sent", c.id, pn))
			}
			pq := &v2.Envelope{Message: &v2.Envelope_TransactionPayloadQuery{TransactionPayloadQuery: &v2.TransactionPayloadQuery{ConversationID: []byte("p-" + pn), TransactionRef: c.tx.Ref().Slice()}}}
			if err := v2.VerifHandleSync(r.n.proto, conn, pq); err != nil {
				r.drift("TransactionPayloadQuery from %s: %v", pn, err)
			}
			more := conn.take()
			all = append(all, more...)
			for _, e := range more {
				if p := e.GetTransactionPayload(); p != nil && len(p.Data) > 0 {
					got[pn][hash.FromSlice(p.TransactionRef)] = p.Data
				}
			}
		}
		raw := envBytes(all)
		for _, c := range okCalls {
			if !c.spec.Priv {
				if !bytes.Equal(got[pn][c.tx.Ref()], c.payload) {
					r.violL("public-payload-not-served", fmt.Sprintf("peer %s did not obtain the payload of the public transaction %s", pn, c.id))
				}
				continue
			}
			if pn == "part" {
				if !bytes.Equal(got[pn][c.tx.Ref()], c.payload) {
					r.violL("private-payload-not-served-to-participant", fmt.Sprintf("the authenticated participant did not obtain the payload of %s", c.id))
				}
				continue
			}
			for _, b := range raw {
				if bytes.Contains(b, c.payload) {
					r.violL("private-payload-in-clear", fmt.Sprintf("the payload of the private transaction %s was sent to peer %s, which is not a participant", c.id, pn))
				}
			}
			if len(got[pn][c.tx.Ref()]) > 0 {
				r.violL("private-payload-in-clear", fmt.Sprintf("peer %s obtained a payload for the private transaction %s", pn, c.id))
			}
		}
	}
	for _, c := range okCalls {
		r.emitL(map[string]any{"ev": "serve", "t": c.id, "pl": len(got["out"][c.tx.Ref()]) > 0})
	}
}

// ---------------------------------------------------------------------------------------------
// Reprocess

func (r *run) startReprocess(ct string) error {
	r.mu.Lock()
	r.rpCT = ct
	r.rpFrom = len(r.n.js.on("REPROCESS." + realType[ct]))
	r.rpOKAt = nil
	for _, c := range r.order {
		if c.done && c.err == nil {
			r.rpOKAt = append(r.rpOKAt, c)
		}
	}
	r.tr["rp"] = &track{phase: "scan"}
	r.rpCreator = r.creatorOps
	r.rpRuns++
	r.mu.Unlock()
	if r.lockFree() {
		r.rpDump = dump(r.n.inner)
	} else {
		r.rpDump = ""
	}
	r.actors["rp"] = true
	n := r.n
	r.sched.Go("rp", func(cx context.Context) {
		_, err := n.net.Reprocess(cx, realType[ct])
		if err != nil {
			r.violL("reprocess-error", "Reprocess returned "+err.Error())
		}
	})
	_, err := r.sched.Step("rp", "start", "go")
	return err
}

func (r *run) finishReprocess() {
	ct := r.rpCT
	pubs := r.n.js.on("REPROCESS." + realType[ct])[r.rpFrom:]
	s, err := readStored(r.n.inner)
	if err != nil {
		return
	}
	names := []string{}
	seen := map[hash.SHA256Hash]bool{}
	var last uint32
	for _, p := range pubs {
		ref := p.TX.Ref()
		if inModel(r.nameOf(ref)) {
			names = append(names, r.nameOf(ref))
		}
		if seen[ref] {
			r.violL("reprocess-duplicate", r.nameOf(ref)+" was re-delivered twice by one Reprocess call")
		}
		seen[ref] = true
		if _, ok := s.clock[ref]; !ok {
			r.violL("reprocess-unstored", "Reprocess published a transaction that is not stored")
		}
		if p.TX.PayloadType() != realType[ct] {
			r.violL("reprocess-wrong-type", fmt.Sprintf("Reprocess(%s) published %s of type %s", realType[ct], r.nameOf(ref), p.TX.PayloadType()))
		}
		if p.TX.Clock() < last {
			r.violL("reprocess-order", "Reprocess did not publish in clock order")
		}
		last = p.TX.Clock()
		want, _ := r.n.st.ReadPayload(context.Background(), p.TX.PayloadHash())
		if !bytes.Equal(want, p.Payload) {
			r.violL("reprocess-payload", "Reprocess published "+r.nameOf(ref)+" with a payload that is not the stored one")
		}
	}
	// everything of the type that existed when the call began
	for _, c := range r.rpOKAt {
		if c.spec.Type == ct && !seen[c.tx.Ref()] {
			r.violL("reprocess-incomplete", fmt.Sprintf("Reprocess(%s) did not re-deliver %s, which had been created before the call", realType[ct], c.id))
		}
	}
	for ref, name := range r.names {
		if !inModel(name) || name == "g" { // base and chain transactions exist before any Reprocess call
			if tx, ok := s.parsed[ref]; ok && tx.PayloadType() == realType[ct] && !seen[ref] {
				r.violL("reprocess-incomplete", fmt.Sprintf("Reprocess(%s) did not re-deliver %s", realType[ct], name))
			}
		}
	}
	if r.rpDump != "" && r.rpCreator == r.creatorOps && r.lockFree() {
		if d := dump(r.n.inner); d != r.rpDump {
			r.violL("reprocess-altered-dag", "the stored DAG differs before and after Reprocess although nothing else ran")
		}
	}
	sort.Strings(names)
	r.emitL(map[string]any{"ev": "reproc.return", "ct": ct, "pub": names})
}

// ---------------------------------------------------------------------------------------------

func (w *world) runScript(in input, sc script) (res *result) {
	res = &result{ID: sc.ID, Violations: []violation{}, Drift: []string{}, Trace: []map[string]any{}, Stats: map[string]int{}}
	r := &run{w: w, in: in, sc: sc, res: res, names: map[hash.SHA256Hash]string{}, refs: map[string]hash.SHA256Hash{},
		calls: map[string]*callRec{}, cur: map[string]*callRec{}, tr: map[string]*track{}, actors: map[string]bool{},
		synced: map[hash.SHA256Hash]bool{}, ghost: hash.SHA256Sum([]byte("ghost")), inWrite: map[string]bool{}}
	t0 := time.Now()
	r.dir = filepath.Join(w.dir, "s-"+sc.ID)
	if err := os.MkdirAll(r.dir, 0o755); err != nil {
		res.Error = err.Error()
		return
	}
	defer os.RemoveAll(r.dir)
	r.sched = gate.New()
	r.sched.BlockedAfter = 25 * time.Millisecond
	w.keys.set(r)
	defer w.keys.set(nil)
	var err error
	if r.n, err = w.openNode(r, r.dir, in.NodeDID); err != nil {
		res.Error = "node: " + err.Error()
		return
	}
	defer r.n.close()
	if r.n2, err = openNode2(r.dir); err != nil {
		res.Error = "node2: " + err.Error()
		return
	}
	defer r.n2.close()
	defer func() {
		if p := recover(); p != nil {
			res.Error = fmt.Sprintf("driver panic: %v", p)
			r.sched.Kill()
		}
	}()
	if in.Base {
		if err := r.buildBase(); err != nil {
			res.Error = err.Error()
			return
		}
	}
	for i := 0; i < sc.Long; i++ {
		ty, name := typeVC, fmt.Sprintf("c%d", i)
		if i%2 == 1 {
			ty = typeDID
		}
		b, _ := json.Marshal(map[string]any{"chain": sc.ID, "i": i})
		t := network.TransactionTemplate(ty, b, issuerKID).WithAdditionalPrevs([]hash.SHA256Hash{r.refs["g"]})
		if _, err := r.createPlain(name, "vc", b, t); err != nil {
			res.Error = err.Error()
			return
		}
	}
	// the peers have been told about the base: start the script with empty gossip queues
	for _, c := range r.n.peers {
		v2.VerifGossipTick(r.n.proto, c.peer)
		c.take()
	}
	r.check("before the script")
	res.Stats["ms_setup"] = int(time.Since(t0).Milliseconds())
	t0 = time.Now()

	sched := r.sched
	errBlocked := errors.New("blocked inside the code")
	// a goroutine that was released reaches its next gate (or returns) promptly unless it is blocked inside the code.
	// A short wait decides; the first two times per driver process the verdict "blocked" is confirmed with a generous
	// wait, which keeps the replay independent of the load of the machine and bounds the cost when the code really
	// serialises more than the model (every script would block)
	const short, arrive = 250 * time.Millisecond, 1500 * time.Millisecond
	await := func(p string) (string, bool) {
		at, ok := sched.Await(p, short)
		if !ok && w.confirmedBlocked < 2 {
			if at, ok = sched.Await(p, arrive-short); !ok {
				w.confirmedBlocked++
			}
		}
		return at, ok
	}
	stepActor := func(p, gateName, directive string) (string, error) {
		at, ok := await(p)
		if !ok {
			res.Blocked = fmt.Sprintf("step %d: actor %s is blocked inside the code, the model expects it at gate %s", r.stepNo, p, gateName)
			return "", errBlocked
		}
		if at != gateName {
			// the code takes other steps than the model: the rest of the script runs unscheduled (properties still evaluated)
			res.Blocked = fmt.Sprintf("step %d: actor %s is at %q, the model expects it at %q", r.stepNo, p, at, gateName)
			return at, errBlocked
		}
		return sched.Step(p, gateName, directive)
	}
	phaseOf := func(p string) (string, int) {
		r.mu.Lock()
		defer r.mu.Unlock()
		if t := r.tr[p]; t != nil {
			return t.phase, t.left
		}
		return "", 0
	}
	isDone := func(p string) bool { at, _ := await(p); return at == "done" }
	expectOutcome := func(s step, p string, modelErr bool) {
		if res.Blocked != "" {
			return
		}
		if modelErr != isDone(p) {
			r.drift("%s(%s): model says error=%v, the call has returned=%v", s.str("a"), p, modelErr, !modelErr)
		}
	}

	for i, s := range sc.Steps {
		r.stepNo = i
		a, p := s.str("a"), s.str("p")
		var err error
		switch a {
		case "Begin":
			var c *callRec
			c, err = r.build(p, s.str("tpl"), s.str("id"), s.list("addl"))
			if err != nil {
				break
			}
			r.mu.Lock()
			r.calls[c.id] = c
			r.cur[p] = c
			r.order = append(r.order, c)
			r.tr[p] = &track{phase: "chkprev", left: 2 * len(c.addl)}
			addl := append([]string{}, s.list("addl")...)
			sort.Strings(addl)
			r.emit(map[string]any{"ev": "create.begin", "p": p, "tpl": c.tpl, "id": c.id, "addl": addl})
			r.mu.Unlock()
			r.actors[p] = true
			n := r.n
			sched.Go(p, func(cx context.Context) {
				tx, err := n.net.CreateTransaction(audit.Context(cx, "verif", "X04", "CreateTransaction"), c.template)
				r.returned(c, tx, err)
			})
			_, err = sched.Step(p, "start", "go")
		case "CheckPrevs":
			for err == nil {
				at, ok := await(p)
				if !ok {
					res.Blocked = fmt.Sprintf("step %d: actor %s is blocked inside the code before its first read", r.stepNo, p)
					err = errBlocked
					break
				}
				ph, left := phaseOf(p)
				if ph != "chkprev" || left == 0 || at != "read.begin" {
					break
				}
				_, err = sched.Step(p, "read.begin", "go")
			}
			if err == nil {
				expectOutcome(s, p, s.str("res") != "ok")
			}
		case "ReadHead":
			_, err = stepActor(p, "read.begin", "go")
			expectOutcome(s, p, s.str("res") != "ok")
		case "CalcClock":
			for err == nil {
				at, ok := await(p)
				if !ok {
					res.Blocked = fmt.Sprintf("step %d: actor %s is blocked inside the code", r.stepNo, p)
					err = errBlocked
					break
				}
				ph, _ := phaseOf(p)
				if ph != "clock" || at != "read.begin" {
					break
				}
				_, err = sched.Step(p, "read.begin", "go")
			}
		case "Sign":
			_, err = stepActor(p, "sign", "go")
			expectOutcome(s, p, s.str("res") != "ok")
		case "Fail":
			if isDone(p) {
				break // the call has already failed for a reason of its own
			}
			if c := r.cur[p]; c != nil {
				c.faulted = true
			}
			if s.str("at") == "sign" {
				_, err = stepActor(p, "sign", "fail")
			} else {
				r.n.fault.arm(p)
				_, err = stepActor(p, "read.begin", "go")
			}
			expectOutcome(s, p, true)
		case "ReadVerify":
			var now string
			now, err = stepActor(p, "read.begin", "go")
			if err == nil && now == "" {
				// the goroutine is on its way into treeMutex.Lock (held by another one): let it park before anybody else is
				// released, so that the mutex is handed over in the order of the model
				time.Sleep(40 * time.Millisecond)
			}
			if s.str("res") != "verified" {
				expectOutcome(s, p, true)
			}
		case "LockWrite":
			r.creatorOps++
			r.inWrite[p] = true
			_, err = stepActor(p, "write.begin", "go")
		case "Commit":
			_, err = stepActor(p, "write.fnEnd", "go")
			r.inWrite[p] = false
		case "Rollback":
			if s.boolean("injected") {
				if c := r.cur[p]; c != nil {
					c.faulted = true
				}
				_, err = stepActor(p, "write.fnEnd", "fail")
			} else {
				_, err = stepActor(p, "write.fnEnd", "go")
			}
			r.inWrite[p] = false
		case "OnRollback":
			_, err = stepActor(p, "rollback.hook", "go")
			expectOutcome(s, p, true)
		case "AfterCommit":
			_, err = stepActor(p, "commit.hook", "go")
			expectOutcome(s, p, true)
		case "ReprocScan":
			if err = r.startReprocess(s.str("ct")); err == nil {
				_, err = stepActor("rp", "read.begin", "go")
			}
		case "ReprocPublish":
			for err == nil {
				at, ok := sched.Await("rp", sched.GiveUp)
				if !ok {
					err = errors.New("Reprocess is blocked inside the code")
					break
				}
				if at == "done" {
					break
				}
				_, err = sched.Step("rp", at, "go")
			}
			if err == nil {
				r.finishReprocess()
			}
		case "RunFaulty":
			// one call runs alone; the nth arrival at gate failGate fails (read: database error, sign: key store error,
			// write.fnEnd: the write transaction is rolled back); no assumption about which steps the code takes
			var c *callRec
			c, err = r.build(p, s.str("tpl"), s.str("id"), s.list("addl"))
			if err != nil {
				break
			}
			r.mu.Lock()
			r.calls[c.id] = c
			r.cur[p] = c
			r.order = append(r.order, c)
			r.tr[p] = &track{phase: "chkprev", left: 2 * len(c.addl)}
			addl := append([]string{}, s.list("addl")...)
			sort.Strings(addl)
			r.emit(map[string]any{"ev": "create.begin", "p": p, "tpl": c.tpl, "id": c.id, "addl": addl})
			r.mu.Unlock()
			r.actors[p] = true
			n := r.n
			sched.Go(p, func(cx context.Context) {
				tx, err := n.net.CreateTransaction(audit.Context(cx, "verif", "X04", "CreateTransaction"), c.template)
				r.returned(c, tx, err)
			})
			nth, _ := s["nth"].(float64)
			count := 0
			for err == nil {
				at, ok := sched.Await(p, arrive)
				if !ok {
					err = errors.New("the call is blocked inside the code")
					break
				}
				if at == "done" {
					break
				}
				dir := "go"
				if at == s.str("gate") {
					count++
					if count == int(nth) {
						c.faulted = true
						if at == "read.begin" {
							r.n.fault.arm(p)
						} else {
							dir = "fail"
						}
					}
				}
				r.inWrite[p] = at == "write.begin"
				_, err = sched.Step(p, at, dir)
			}
			r.inWrite[p] = false
			r.creatorOps++
		case "Sync":
			if st, e := readStored(r.n.inner); e == nil {
				if ref, ok := r.refs[s.str("t")]; ok {
					r.syncOne(ref, st)
				}
			}
		case "Serve":
			// what the peers obtain is evaluated for all transactions at the end of the script
		default:
			err = fmt.Errorf("unknown action %q", a)
		}
		if err == errBlocked {
			break // run the rest unscheduled
		}
		if err != nil {
			res.Error = fmt.Sprintf("step %d %v: %v", i, s, err)
			r.sched.Kill()
			return
		}
		r.check(fmt.Sprintf("after step %d %s", i, a))
	}
	res.Stats["ms_steps"] = int(time.Since(t0).Milliseconds())
	t0 = time.Now()
	// run every goroutine to completion
	for a := range r.inWrite {
		r.inWrite[a] = false
	}
	deadline := time.Now().Add(20 * time.Second)
	for time.Now().Before(deadline) {
		busy := false
		names := make([]string, 0, len(r.actors))
		for a := range r.actors {
			names = append(names, a)
		}
		sort.Strings(names)
		for _, a := range names {
			at := sched.Where(a)
			if at == "done" {
				continue
			}
			busy = true
			if at != "" {
				_, _ = sched.Step(a, at, "go")
			}
		}
		if !busy {
			break
		}
		time.Sleep(time.Millisecond)
	}
	for a := range r.actors {
		if sched.Where(a) != "done" {
			res.Error = "actor " + a + " did not finish (at " + sched.Where(a) + ")"
			sched.Kill()
			return
		}
	}
	r.stepNo = len(sc.Steps)
	if res.Blocked != "" && r.actors["rp"] && r.rpDump != "" {
		r.rpDump = "" // creators ran in between
	}
	r.check("at the end")
	r.syncAll()
	r.dispatch()
	for _, c := range r.order {
		if c.done && c.err == nil {
			res.Stats["created"]++
		} else if c.done {
			res.Stats["failed"]++
		}
	}
	if s, err := readStored(r.n.inner); err == nil {
		byClock := map[uint32]int{}
		for _, ref := range s.refs {
			byClock[s.clock[ref]]++
		}
		for _, n := range byClock {
			if n > 1 {
				res.Stats["forks"]++
			}
		}
	}
	res.Stats["reprocess"] = r.rpRuns
	res.Stats["ms_end"] = int(time.Since(t0).Milliseconds())
	return
}

func TestDriver(t *testing.T) {
	inPath, outPath := os.Getenv("VERIF_IN"), os.Getenv("VERIF_OUT")
	if inPath == "" {
		t.Skip("VERIF_IN not set")
	}
	logrus.SetLevel(logrus.PanicLevel)
	logrus.SetOutput(io.Discard)
	raw, err := os.ReadFile(inPath)
	if err != nil {
		t.Fatal(err)
	}
	var in input
	if err := json.Unmarshal(raw, &in); err != nil {
		t.Fatal(err)
	}
	w := newWorld(t)
	out, err := os.Create(outPath)
	if err != nil {
		t.Fatal(err)
	}
	defer out.Close()
	bw := bufio.NewWriter(out)
	defer bw.Flush()
	enc := json.NewEncoder(bw)
	for _, sc := range in.Scripts {
		res := w.runScript(in, sc)
		if err := enc.Encode(res); err != nil {
			t.Fatal(err)
		}
		_ = bw.Flush()
	}
}
