// World of the VcLife driver (X07): two REAL nuts-node VCR instances built with the exported constructor
// vcr.NewVCRInstance over real storage engines, real JSON-LD contexts, a real key store and real did:nuts document
// stores that the driver feeds directly.
//   NI  hosts every issuer (I1, I2, I3 ...): the REAL issuer.Issue / Revoke sign and publish; what the real network
//       publisher hands to network.Transactions.CreateTransaction is captured by fakeNet.
//   NR  is the receiving node: the REAL ambassador subscribes its two receivers at fakeNet.Subscribe with the REAL
//       selection filters; fakeNet builds REAL dag notifiers (dag.NewNotifier over a bbolt job shelf, as dag.State does)
//       and hands every event to them with Save + Notify; in-process retries are driven by the script (the retry delay
//       is an hour), a restart closes the VCR, the storage engine and the notifiers and replays the job shelves with
//       the real Notifier.Run.
// Fault seam: the stoabs stores the VCR obtains from the storage engine ("backup-credentials",
// "backup-revoked-credentials") are decorated with harness/kvgate (a WriteShelf fails on demand).
package vclife

import (
	"context"
	"crypto/sha256"
	"encoding/hex"
	"encoding/json"
	"errors"
	"fmt"
	"os"
	"path/filepath"
	"sort"
	"strings"
	"sync"
	"testing"
	"time"

	"github.com/google/uuid"
	ssi "github.com/nuts-foundation/go-did"
	"github.com/nuts-foundation/go-did/did"
	"github.com/nuts-foundation/go-did/vc"
	"github.com/nuts-foundation/go-stoabs"
	"github.com/nuts-foundation/go-stoabs/bbolt"
	"github.com/nuts-foundation/nuts-node/audit"
	"github.com/nuts-foundation/nuts-node/core"
	nutsCrypto "github.com/nuts-foundation/nuts-node/crypto"
	"github.com/nuts-foundation/nuts-node/crypto/hash"
	"github.com/nuts-foundation/nuts-node/events"
	"github.com/nuts-foundation/nuts-node/jsonld"
	"github.com/nuts-foundation/nuts-node/network"
	"github.com/nuts-foundation/nuts-node/network/dag"
	"github.com/nuts-foundation/nuts-node/network/transport"
	"github.com/nuts-foundation/nuts-node/pki"
	"github.com/nuts-foundation/nuts-node/storage"
	"github.com/nuts-foundation/nuts-node/vcr"
	"github.com/nuts-foundation/nuts-node/vcr/credential"
	"github.com/nuts-foundation/nuts-node/vcr/signature"
	"github.com/nuts-foundation/nuts-node/vcr/signature/proof"
	"github.com/nuts-foundation/nuts-node/vcr/types"
	"github.com/nuts-foundation/nuts-node/vdr"
	"github.com/nuts-foundation/nuts-node/vdr/didnuts/didstore"
	"github.com/nuts-foundation/nuts-node/vdr/resolver"
	"go.uber.org/mock/gomock"

	"verifharness/gate"
	"verifharness/kvgate"
	"verifharness/txforge"
)

const (
	typeVC  = types.VcDocumentType           // application/vc+json
	typeRev = types.RevocationLDDocumentType // application/ld+json;type=revocation
)

// ------------------------------------------------------------------------------------------ fake network

// call is one invocation of a receiver the real code subscribed.
type call struct {
	Sub      string
	Ref      string // transaction reference (hex)
	Finished bool
	Fatal    bool
	Err      string
}

// fakeNet is the network.Transactions seam of one node.
type fakeNet struct {
	network.Transactions // nil: any method the driver does not provide panics (and is noticed)
	dir                  string
	mu                   sync.Mutex
	kv                   stoabs.KVStore
	notifiers            map[string]dag.Notifier
	order                []string
	published            []network.Template
	publishedTx          []dag.Transaction
	calls                []call
	failCreate           error
	key                  txforge.Key
	lc                   int
}

func newFakeNet(dir string) *fakeNet {
	return &fakeNet{dir: dir, notifiers: map[string]dag.Notifier{}, key: txforge.NewKey()}
}

func (f *fakeNet) open() error {
	kv, err := bbolt.CreateBBoltStore(filepath.Join(f.dir, "jobs.db"), stoabs.WithNoSync())
	if err != nil {
		return err
	}
	f.kv = kv
	return nil
}

// close ends the incarnation: retry goroutines are cancelled, the job shelves stay on disk.
func (f *fakeNet) close() {
	f.mu.Lock()
	ns := f.notifiers
	f.notifiers, f.order = map[string]dag.Notifier{}, nil
	f.mu.Unlock()
	for _, n := range ns {
		_ = n.Close()
	}
	if f.kv != nil {
		_ = f.kv.Close(context.Background())
		f.kv = nil
	}
}

func (f *fakeNet) Subscribe(name string, receiver dag.ReceiverFn, options ...network.SubscriberOption) error {
	opts := []dag.NotifierOption{dag.WithRetryDelay(time.Hour)}
	for _, o := range options {
		if o != nil {
			opts = append(opts, o())
		}
	}
	wrapped := func(ev dag.Event) (bool, error) {
		fin, err := receiver(ev)
		c := call{Sub: name, Ref: ev.Hash.String(), Finished: fin}
		if err != nil {
			c.Err = err.Error()
			c.Fatal = errors.As(err, new(dag.EventFatal))
		}
		f.mu.Lock()
		f.calls = append(f.calls, c)
		f.mu.Unlock()
		return fin, err
	}
	n := dag.NewNotifier(name, wrapped, opts...)
	f.mu.Lock()
	defer f.mu.Unlock()
	if _, dup := f.notifiers[name]; dup {
		return fmt.Errorf("subscriber %s registered twice", name)
	}
	f.notifiers[name] = n
	f.order = append(f.order, name)
	return nil
}

func (f *fakeNet) WithPersistency() network.SubscriberOption {
	return func() dag.NotifierOption { return dag.WithPersistency(f.kv) }
}
func (f *fakeNet) Subscribers() []dag.Notifier {
	f.mu.Lock()
	defer f.mu.Unlock()
	var out []dag.Notifier
	for _, n := range f.order {
		out = append(out, f.notifiers[n])
	}
	return out
}
func (f *fakeNet) Disabled() bool                { return false }
func (f *fakeNet) DiscoverServices(_ did.DID)    {}
func (f *fakeNet) AddressBook() []transport.Contact { return nil }
func (f *fakeNet) PeerDiagnostics() map[transport.PeerID]transport.Diagnostics {
	return nil
}

// forgeTx builds a real, parseable, signed transaction with the given content type and signing time.
func (f *fakeNet) forgeTx(cty string, payload []byte, sigt time.Time, prevs []hash.SHA256Hash, pal [][]byte) dag.Transaction {
	f.mu.Lock()
	f.lc++
	lc := f.lc
	f.mu.Unlock()
	ps := []string{}
	for _, p := range prevs {
		ps = append(ps, p.String())
	}
	if len(ps) == 0 {
		root := sha256.Sum256([]byte("root"))
		ps = append(ps, hex.EncodeToString(root[:]))
	}
	h := txforge.TxHeaders(f.key, ps, lc, sigt.Unix(), cty)
	if len(pal) > 0 {
		var enc []string
		for _, p := range pal {
			enc = append(enc, txforge.StdB64(p))
		}
		h["pal"] = enc
	}
	ph := hash.SHA256Sum(payload)
	raw := txforge.Compact(h, []byte(ph.String()), f.key)
	tx, err := dag.ParseTransaction(raw)
	if err != nil {
		panic("forged transaction does not parse: " + err.Error())
	}
	return tx
}

func (f *fakeNet) CreateTransaction(_ context.Context, spec network.Template) (dag.Transaction, error) {
	if f.failCreate != nil {
		return nil, f.failCreate
	}
	ts := spec.Timestamp
	if ts.IsZero() {
		ts = time.Now()
	}
	var pal [][]byte
	for _, p := range spec.Participants {
		pal = append(pal, []byte(p.String())) // stands for the encrypted participant entry
	}
	tx := f.forgeTx(spec.Type, spec.Payload, ts, spec.AdditionalPrevs, pal)
	f.mu.Lock()
	f.published = append(f.published, spec)
	f.publishedTx = append(f.publishedTx, tx)
	f.mu.Unlock()
	return tx, nil
}

// deliver does what dag.State does with a new event: every notifier saves the job inside ONE write transaction, then
// every notifier is notified.
func (f *fakeNet) deliver(ev dag.Event) error {
	ns := f.Subscribers()
	err := f.kv.Write(context.Background(), func(tx stoabs.WriteTx) error {
		for _, n := range ns {
			if err := n.Save(tx, ev); err != nil {
				return err
			}
		}
		return nil
	})
	if err != nil {
		return err
	}
	for _, n := range ns {
		n.Notify(ev)
	}
	return nil
}

// retry is one in-process retry attempt of the notifiers (what the retry goroutine does when its delay is over).
func (f *fakeNet) retry(ev dag.Event) {
	for _, n := range f.Subscribers() {
		n.Notify(ev)
	}
}

// run is Notifier.Run of every subscriber: the start-up replay of the job shelves (network.Start -> state.Start).
func (f *fakeNet) run() error {
	for _, n := range f.Subscribers() {
		if err := n.Run(); err != nil {
			return err
		}
	}
	return nil
}

type job struct {
	Sub     string
	Ref     string
	Retries int
	Error   string
}

// jobs lists the job shelves.
func (f *fakeNet) jobs() []job {
	var out []job
	for _, name := range []string{"vcr_vcs", "vcr_revocations"} {
		_ = f.kv.ReadShelf(context.Background(), "_"+name+"_jobs", func(r stoabs.Reader) error {
			return r.Iterate(func(k stoabs.Key, v []byte) error {
				var e struct {
					Hash    hash.SHA256Hash `json:"Hash"`
					Retries int             `json:"retries"`
					Error   string          `json:"error"`
				}
				_ = json.Unmarshal(v, &e)
				out = append(out, job{Sub: name, Ref: e.Hash.String(), Retries: e.Retries, Error: e.Error})
				return nil
			}, stoabs.BytesKey{})
		})
	}
	return out
}

// clearJobs empties the job shelves (start of a new script on the shared node: jobs of earlier scripts must not be
// replayed into this one).
func (f *fakeNet) clearJobs() {
	for _, name := range []string{"vcr_vcs", "vcr_revocations"} {
		shelf := "_" + name + "_jobs"
		var keys []stoabs.Key
		_ = f.kv.ReadShelf(context.Background(), shelf, func(r stoabs.Reader) error {
			return r.Iterate(func(k stoabs.Key, _ []byte) error {
				keys = append(keys, stoabs.BytesKey(append([]byte(nil), k.Bytes()...)))
				return nil
			}, stoabs.BytesKey{})
		})
		if len(keys) == 0 {
			continue
		}
		_ = f.kv.WriteShelf(context.Background(), shelf, func(w stoabs.Writer) error {
			for _, k := range keys {
				if err := w.Delete(k); err != nil {
					return err
				}
			}
			return nil
		})
	}
}

func (f *fakeNet) takeCalls() []call {
	f.mu.Lock()
	defer f.mu.Unlock()
	c := f.calls
	f.calls = nil
	return c
}

// ------------------------------------------------------------------------------------------ gated storage engine

type faults struct {
	mu    sync.Mutex
	shelf map[string]int // shelf -> number of WriteShelf calls that still have to fail
	hits  map[string]int
}

func (fl *faults) arm(shelf string, n int) {
	fl.mu.Lock()
	fl.shelf[shelf] = n
	fl.mu.Unlock()
}
func (fl *faults) decide(kind, shelf string) string {
	if kind != "write" {
		return "go"
	}
	fl.mu.Lock()
	defer fl.mu.Unlock()
	if fl.shelf[shelf] > 0 {
		fl.shelf[shelf]--
		fl.hits[shelf]++
		return "fail"
	}
	return "go"
}

type gatedEngine struct {
	storage.Engine
	fl *faults
}
type gatedProvider struct {
	storage.Provider
	fl *faults
}

func (g gatedEngine) GetProvider(module string) storage.Provider {
	return gatedProvider{g.Engine.GetProvider(module), g.fl}
}
func (p gatedProvider) GetKVStore(name string, class storage.Class) (stoabs.KVStore, error) {
	kv, err := p.Provider.GetKVStore(name, class)
	if err != nil {
		return nil, err
	}
	g := kvgate.Wrap(kv, gate.New())
	g.ShelfFault = p.fl.decide
	return g, nil
}

// ------------------------------------------------------------------------------------------ node

type node struct {
	t      *testing.T
	name   string
	dir    string
	keys   *nutsCrypto.Crypto
	dids   didstore.Store
	events events.Event
	net    *fakeNet
	fl     *faults
	engine storage.Engine
	vdr    *vdr.Module
	vcr    vcr.VCR
	ld     jsonld.JSONLD
	lc     uint32
}

func newNode(t *testing.T, name string, ldm jsonld.JSONLD) *node {
	n := &node{t: t, name: name}
	n.dir = filepath.Join(t.TempDir(), name)
	if err := os.MkdirAll(n.dir, 0o755); err != nil {
		t.Fatal(err)
	}
	n.keys = nutsCrypto.NewMemoryCryptoInstance(t)
	n.dids = didstore.NewTestStore(t)
	n.events = events.NewTestManager(t)
	n.ld = ldm
	n.net = newFakeNet(n.dir)
	n.fl = &faults{shelf: map[string]int{}, hits: map[string]int{}}
	n.start()
	return n
}

// start builds a new incarnation on the node's directory (first start or restart).
func (n *node) start() {
	t := n.t
	if err := n.net.open(); err != nil {
		panic(err)
	}
	n.engine = gatedEngine{storage.NewTestStorageEngineInDir(t, n.dir), n.fl}
	ctrl := gomock.NewController(t)
	n.vdr = vdr.NewVDR(n.keys, n.net, n.dids, n.events, n.engine, pki.NewMockValidator(ctrl))
	if err := n.vdr.Configure(core.TestServerConfig()); err != nil {
		panic(err)
	}
	n.vcr = vcr.NewVCRInstance(n.keys, n.vdr, n.net, n.ld, n.events, n.engine, pki.New())
	cfg := core.TestServerConfig(func(c *core.ServerConfig) { c.Datadir = n.dir })
	if err := n.vcr.(core.Configurable).Configure(cfg); err != nil {
		panic(err)
	}
	if err := n.vcr.(core.Runnable).Start(); err != nil {
		panic(err)
	}
}

// stop ends the incarnation in an orderly way (the job shelves, the stores and the trust file stay).
func (n *node) stop() {
	_ = n.vcr.(core.Runnable).Shutdown()
	n.net.close()
	_ = n.engine.(gatedEngine).Engine.Shutdown()
}

// ------------------------------------------------------------------------------------------ parties

type party struct {
	name string
	id   did.DID
	kids []string // verification methods (all generated in NI's key store)
}

func newDID(label string) did.DID {
	return did.MustParseDID("did:nuts:" + label + strings.ReplaceAll(uuid.NewString(), "-", ""))
}

func (n *node) newParty(name string, nkeys int) *party {
	p := &party{name: name, id: newDID(strings.ToLower(name))}
	for i := 0; i < nkeys; i++ {
		kid := fmt.Sprintf("%s#k%d", p.id.String(), i+1)
		if _, _, err := n.keys.New(audit.TestContext(), nutsCrypto.StringNamingFunc(kid)); err != nil {
			n.t.Fatal(err)
		}
		p.kids = append(p.kids, kid)
	}
	return p
}

type docSpec struct {
	kids     []string          // assertion (and capability invocation) methods
	nutsComm string            // "" none, "own" own endpoint, or a DID whose NutsComm service is referred to
	extra    map[string]string // further services: type -> endpoint
}

func (w *world) buildDoc(p *party, spec docSpec) did.Document {
	doc := did.Document{Context: []interface{}{did.DIDContextV1URI(), jsonld.JWS2020ContextV1URI()}, ID: p.id}
	for _, kid := range spec.kids {
		pub, err := w.NI.keys.Resolve(audit.TestContext(), kid)
		if err != nil {
			panic(err)
		}
		vm, err := did.NewVerificationMethod(did.MustParseDIDURL(kid), ssi.JsonWebKey2020, p.id, pub)
		if err != nil {
			panic(err)
		}
		doc.AddAssertionMethod(vm)
		doc.AddCapabilityInvocation(vm)
	}
	switch spec.nutsComm {
	case "":
	case "own":
		doc.Service = append(doc.Service, did.Service{ID: ssi.MustParseURI(p.id.String() + "#nc"), Type: transport.NutsCommServiceType,
			ServiceEndpoint: "grpc://" + strings.ToLower(p.name) + ".x07verif.nl:5555"})
	default:
		doc.Service = append(doc.Service, did.Service{ID: ssi.MustParseURI(p.id.String() + "#nc"), Type: transport.NutsCommServiceType,
			ServiceEndpoint: spec.nutsComm + "/serviceEndpoint?type=" + transport.NutsCommServiceType})
	}
	for typ, ep := range spec.extra {
		doc.Service = append(doc.Service, did.Service{ID: ssi.MustParseURI(p.id.String() + "#" + typ), Type: typ, ServiceEndpoint: ep})
	}
	return doc
}

// putDoc adds a version of a DID document to a node's did store (what the VDR ambassador does after its checks).
// The reference depends on the document and its time only, so that the same version has the same reference on every node.
func (n *node) putDoc(doc did.Document, at time.Time, prevs []hash.SHA256Hash) hash.SHA256Hash {
	raw, _ := json.Marshal(doc)
	n.lc++
	sum := sha256.Sum256([]byte(fmt.Sprintf("%s|%d|%s", doc.ID.String(), at.UnixNano(), raw)))
	tx := didstore.Transaction{Clock: n.lc, PayloadHash: hash.SHA256Sum(raw), Ref: hash.SHA256Hash(sum), SigningTime: at, Previous: prevs}
	if err := n.dids.Add(doc, tx); err != nil {
		panic(err)
	}
	return tx.Ref
}

type world struct {
	t      *testing.T
	NI, NR *node
	ctx    *ctxServer
	gate   *gateLoader
}

func newWorld(t *testing.T) *world {
	w := &world{t: t}
	w.ctx = newCtxServer()
	t.Cleanup(w.ctx.srv.Close)
	rl, gate, err := receiverLD(w.ctx)
	if err != nil {
		t.Fatal(err)
	}
	w.gate = gate
	w.NI = newNode(t, "NI", ldManager{penLoader{prefix: w.ctx.srv.URL, next: jsonld.NewTestJSONLDManager(t).DocumentLoader()}})
	w.NR = newNode(t, "NR", rl)
	return w
}

// ------------------------------------------------------------------------------------------ pen (documents made by the driver)

var (
	ctxVC   = ssi.MustParseURI("https://www.w3.org/2018/credentials/v1")
	ctxNuts = ssi.MustParseURI("https://nuts.nl/credentials/v1")
)

func orgCredentialMap(id string, issuer string, subject string, name string, at time.Time) map[string]interface{} {
	return map[string]interface{}{
		"@context":     []interface{}{ctxVC.String(), ctxNuts.String()},
		"id":           id,
		"type":         []interface{}{"NutsOrganizationCredential", "VerifiableCredential"},
		"issuer":       issuer,
		"issuanceDate": at.UTC().Format(time.RFC3339),
		"credentialSubject": map[string]interface{}{"id": subject,
			"organization": map[string]interface{}{"name": name, "city": "Verif"}},
	}
}

// signLD signs a JSON-LD document (credential or revocation) exactly as the issuer does, with an arbitrary key of NI.
func (w *world) signLD(doc map[string]interface{}, kid string, created time.Time) (map[string]interface{}, error) {
	suite := signature.JSONWebSignature2020{ContextLoader: w.NI.ld.DocumentLoader(), Signer: w.NI.keys}
	res, err := proof.NewLDProof(proof.ProofOptions{Created: created}).Sign(audit.TestContext(), doc, suite, kid)
	if err != nil {
		return nil, err
	}
	b, _ := json.Marshal(res)
	out := map[string]interface{}{}
	_ = json.Unmarshal(b, &out)
	return out, nil
}

func revocationMap(issuer, subject string, at time.Time) map[string]interface{} {
	r := credential.BuildRevocation(ssi.MustParseURI(issuer), ssi.MustParseURI(subject))
	r.Date = at.UTC().Truncate(time.Second)
	b, _ := json.Marshal(r)
	m := map[string]interface{}{}
	_ = json.Unmarshal(b, &m)
	return m
}

func flipJWS(doc map[string]interface{}) {
	p, _ := doc["proof"].(map[string]interface{})
	if p == nil {
		return
	}
	s, _ := p["jws"].(string)
	if len(s) < 8 {
		return
	}
	i := len(s) - 5
	c := byte('A')
	if s[i] == 'A' {
		c = 'B'
	}
	p["jws"] = s[:i] + string(c) + s[i+1:]
}

func mustJSON(v interface{}) []byte {
	b, err := json.Marshal(v)
	if err != nil {
		panic(err)
	}
	return b
}

func parseVC(m map[string]interface{}) vc.VerifiableCredential {
	var c vc.VerifiableCredential
	if err := json.Unmarshal(mustJSON(m), &c); err != nil {
		panic(err)
	}
	return c
}

func sortedKeys(m map[string]bool) []string {
	var out []string
	for k := range m {
		out = append(out, k)
	}
	sort.Strings(out)
	return out
}

var _ = resolver.ErrNotFound
