package vclife

import (
	"context"
	"fmt"
	"io"
	"os"
	"testing"
	"time"

	ssi "github.com/nuts-foundation/go-did"
	"github.com/nuts-foundation/go-did/vc"
	"github.com/nuts-foundation/nuts-node/audit"
	"github.com/nuts-foundation/nuts-node/network/dag"
	"github.com/nuts-foundation/nuts-node/vcr"
	"github.com/nuts-foundation/nuts-node/vcr/issuer"
	"github.com/sirupsen/logrus"
)

func TestProbe(t *testing.T) {
	if os.Getenv("VERIF_PROBE") == "" {
		t.Skip()
	}
	logrus.SetOutput(io.Discard)
	t0 := time.Now()
	w := newWorld(t)
	fmt.Println("world", time.Since(t0))
	I1 := w.NI.newParty("I1", 2)
	I2 := w.NI.newParty("I2", 1)
	S := w.NI.newParty("S", 1)
	past := time.Now().Add(-time.Hour)
	for _, n := range []*node{w.NI, w.NR} {
		n.putDoc(w.buildDoc(I1, docSpec{kids: I1.kids[:1], nutsComm: "own"}), past)
		n.putDoc(w.buildDoc(S, docSpec{kids: S.kids, nutsComm: I1.id.String()}), past)
	}
	w.NI.putDoc(w.buildDoc(I2, docSpec{kids: I2.kids}), past)

	show := func(what string) {
		for _, c := range w.NR.net.takeCalls() {
			fmt.Printf("  %s: call %s fin=%v fatal=%v err=%q\n", what, c.Sub, c.Finished, c.Fatal, c.Err)
		}
		for _, j := range w.NR.net.jobs() {
			fmt.Printf("  %s: job %s retries=%d err=%q\n", what, j.Sub, j.Retries, j.Error)
		}
	}
	observe := func(id string) {
		u := ssi.MustParseURI(id)
		c, err := w.NR.vcr.Resolve(u, nil)
		fmt.Printf("  Resolve -> cred=%v err=%v\n", c != nil, err)
		rev, err := w.NR.vcr.Verifier().IsRevoked(u)
		fmt.Printf("  IsRevoked -> %v %v\n", rev, err)
		for _, au := range []bool{false, true} {
			res, err := w.NR.vcr.Search(context.Background(), []vcr.SearchTerm{{IRIPath: []string{"https://www.w3.org/2018/credentials#issuer"}, Value: I1.id.String(), Type: vcr.Exact}}, au, nil)
			fmt.Printf("  Search(allowUntrusted=%v) -> %d %v\n", au, len(res), err)
		}
	}

	// 1. real issue + publish (public)
	tpl := vc.VerifiableCredential{Context: []ssi.URI{ctxNuts}, Type: []ssi.URI{ssi.MustParseURI("NutsOrganizationCredential")},
		Issuer: I1.id.URI(), CredentialSubject: []interface{}{map[string]interface{}{"id": S.id.String(), "organization": map[string]interface{}{"name": "Org", "city": "Verif"}}}}
	t1 := time.Now()
	c1, err := w.NI.vcr.Issuer().Issue(audit.TestContext(), tpl, issuer.CredentialOptions{Publish: true, Public: true})
	fmt.Println("issue public:", err, time.Since(t1))
	c2, err := w.NI.vcr.Issuer().Issue(audit.TestContext(), tpl, issuer.CredentialOptions{Publish: true, Public: false})
	fmt.Println("issue private:", err)
	for i, p := range w.NI.net.published {
		fmt.Printf("  published %d: type=%s kid=%s ts=%s prevs=%d participants=%v payload=%d\n", i, p.Type, p.KID, p.Timestamp, len(p.AdditionalPrevs), p.Participants, len(p.Payload))
	}
	_ = c2
	// deliver the first to NR
	tx := w.NI.net.publishedTx[0]
	t1 = time.Now()
	err = w.NR.net.deliver(dag.Event{Type: dag.PayloadEventType, Hash: tx.Ref(), Transaction: tx, Payload: w.NI.net.published[0].Payload})
	fmt.Println("deliver c1:", err, time.Since(t1))
	show("c1")
	observe(c1.ID.String())
	// transaction-type event must be ignored
	err = w.NR.net.deliver(dag.Event{Type: dag.TransactionEventType, Hash: tx.Ref(), Transaction: tx})
	show("c1-as-tx-event")
	// trust
	_ = w.NR.vcr.Trust(ssi.MustParseURI("NutsOrganizationCredential"), I1.id.URI())
	observe(c1.ID.String())
	// revoke
	rev, err := w.NI.vcr.Issuer().Revoke(audit.TestContext(), *c1.ID)
	fmt.Println("revoke:", rev != nil, err)
	n := len(w.NI.net.published) - 1
	p := w.NI.net.published[n]
	fmt.Printf("  published rev: type=%s kid=%s ts=%s participants=%v\n", p.Type, p.KID, p.Timestamp, p.Participants)
	rtx := w.NI.net.publishedTx[n]
	_ = w.NR.net.deliver(dag.Event{Type: dag.PayloadEventType, Hash: rtx.Ref(), Transaction: rtx, Payload: p.Payload})
	show("rev")
	observe(c1.ID.String())

	// 2. forged: same id, other content, signed by I1
	m := orgCredentialMap(c1.ID.String(), I1.id.String(), S.id.String(), "Other", time.Now().Add(-time.Minute))
	sm, err := w.signLD(m, I1.kids[0], time.Now().Add(-time.Minute))
	fmt.Println("sign:", err)
	ftx := w.NR.net.forgeTx(typeVC, mustJSON(sm), time.Now(), nil, nil)
	_ = w.NR.net.deliver(dag.Event{Type: dag.PayloadEventType, Hash: ftx.Ref(), Transaction: ftx, Payload: mustJSON(sm)})
	show("same-id-other-content")

	// 3. credential of I2 whose document NR does not know
	m = orgCredentialMap(I2.id.String()+"#0c2a4e2e-5a3e-4c3e-9d0e-111111111111", I2.id.String(), S.id.String(), "Two", time.Now().Add(-time.Minute))
	sm, _ = w.signLD(m, I2.kids[0], time.Now().Add(-time.Minute))
	ftx = w.NR.net.forgeTx(typeVC, mustJSON(sm), time.Now(), nil, nil)
	ev2 := dag.Event{Type: dag.PayloadEventType, Hash: ftx.Ref(), Transaction: ftx, Payload: mustJSON(sm)}
	_ = w.NR.net.deliver(ev2)
	show("unknown-key")
	w.NR.putDoc(w.buildDoc(I2, docSpec{kids: I2.kids}), past)
	w.NR.net.retry(ev2)
	show("unknown-key-retry-after-learn")
	// restart
	t1 = time.Now()
	w.NR.stop()
	w.NR.start()
	fmt.Println("restart", time.Since(t1))
	if err := w.NR.net.run(); err != nil {
		fmt.Println("run:", err)
	}
	show("after-restart")
	observe(c1.ID.String())
	observe(I2.id.String() + "#0c2a4e2e-5a3e-4c3e-9d0e-111111111111")
	tr, _ := w.NR.vcr.Trusted(ssi.MustParseURI("NutsOrganizationCredential"))
	ut, err := w.NR.vcr.Untrusted(ssi.MustParseURI("NutsOrganizationCredential"))
	fmt.Println("trusted", tr, "untrusted", ut, err)

	// 4. squat: id in I1's namespace, issued and signed by I2
	sq := I1.id.String() + "#0c2a4e2e-5a3e-4c3e-9d0e-222222222222"
	m = orgCredentialMap(sq, I2.id.String(), S.id.String(), "Squat", time.Now().Add(-time.Minute))
	sm, _ = w.signLD(m, I2.kids[0], time.Now().Add(-time.Minute))
	ftx = w.NR.net.forgeTx(typeVC, mustJSON(sm), time.Now(), nil, nil)
	_ = w.NR.net.deliver(dag.Event{Type: dag.PayloadEventType, Hash: ftx.Ref(), Transaction: ftx, Payload: mustJSON(sm)})
	show("squat")
	observe(sq)
	// 5. malformed (no organization name) signed by I1
	mf := I1.id.String() + "#0c2a4e2e-5a3e-4c3e-9d0e-333333333333"
	m = orgCredentialMap(mf, I1.id.String(), S.id.String(), "X", time.Now().Add(-time.Minute))
	delete(m["credentialSubject"].(map[string]interface{})["organization"].(map[string]interface{}), "name")
	sm, _ = w.signLD(m, I1.kids[0], time.Now().Add(-time.Minute))
	ftx = w.NR.net.forgeTx(typeVC, mustJSON(sm), time.Now(), nil, nil)
	_ = w.NR.net.deliver(dag.Event{Type: dag.PayloadEventType, Hash: ftx.Ref(), Transaction: ftx, Payload: mustJSON(sm)})
	show("malformed")
	observe(mf)
	// 6. store fault
	w.NR.fl.arm("credentials", 1)
	ok := I1.id.String() + "#0c2a4e2e-5a3e-4c3e-9d0e-444444444444"
	m = orgCredentialMap(ok, I1.id.String(), S.id.String(), "Fault", time.Now().Add(-time.Minute))
	sm, _ = w.signLD(m, I1.kids[0], time.Now().Add(-time.Minute))
	ftx = w.NR.net.forgeTx(typeVC, mustJSON(sm), time.Now(), nil, nil)
	ev6 := dag.Event{Type: dag.PayloadEventType, Hash: ftx.Ref(), Transaction: ftx, Payload: mustJSON(sm)}
	_ = w.NR.net.deliver(ev6)
	show("store-fault")
	observe(ok)
	w.NR.net.retry(ev6)
	show("store-fault-retry")
	// 7. JWT credential
	jw, err := w.NI.vcr.Issuer().Issue(audit.TestContext(), tpl, issuer.CredentialOptions{Format: "jwt_vc"})
	fmt.Println("jwt issue:", err)
	if err == nil {
		pl := mustJSON(jw)
		ftx = w.NR.net.forgeTx(typeVC, pl, time.Now(), nil, nil)
		_ = w.NR.net.deliver(dag.Event{Type: dag.PayloadEventType, Hash: ftx.Ref(), Transaction: ftx, Payload: pl})
		show("jwt")
		observe(jw.ID.String())
	}
	fmt.Println("total", time.Since(t0))
}
