// Mode "pub" of the VcLife driver: what the REAL issuer (vcr/issuer.Issue / Revoke -> networkPublisher) hands to
// network.Transactions.CreateTransaction for every configuration TLC enumerates (keys of the issuer, NutsComm service
// of issuer and subject: own / reference chain / missing / unknown DID / too deep), and whether the receiving node's
// ambassador accepts exactly that output.
package vclife

import (
	"encoding/json"
	"fmt"
	"sort"
	"strings"
	"time"

	ssi "github.com/nuts-foundation/go-did"
	"github.com/nuts-foundation/go-did/vc"
	"github.com/nuts-foundation/nuts-node/audit"
	"github.com/nuts-foundation/nuts-node/crypto/hash"
	"github.com/nuts-foundation/nuts-node/network"
	"github.com/nuts-foundation/nuts-node/network/dag"
	"github.com/nuts-foundation/nuts-node/vcr/credential"
	"github.com/nuts-foundation/nuts-node/vcr/issuer"
)

type pubExp struct {
	Kind         string   `json:"kind"`
	Subject      string   `json:"subject"`
	Public       bool     `json:"public"`
	OK           bool     `json:"ok"`
	Participants []string `json:"participants"`
	Keys         []string `json:"keys"`
}

type pubRun struct {
	w        *world
	in       input
	res      *result
	parties  map[string]*party
	latest   []hash.SHA256Hash // source transactions of the latest document of "I"
	keyName  map[string]string // real kid -> "k1" | "k2"
	lastCred *vc.VerifiableCredential
	reported map[string]bool
	stepNo   int
	steps    []step
}

func (r *pubRun) violate(kind, cause, detail string) {
	k := kind + "|" + cause
	if r.reported[k] {
		return
	}
	r.reported[k] = true
	r.res.Violations = append(r.res.Violations, violation{Kind: kind, Cause: cause, Detail: detail, Step: r.stepNo})
}

func (r *pubRun) setup(keys, icomm string) {
	w := r.w
	now := time.Now().UTC().Truncate(time.Second)
	T0, T1 := now.Add(-3*time.Hour), now.Add(-2*time.Hour)
	var names []string
	for n := range r.in.Tables.Comm {
		names = append(names, n)
	}
	sort.Strings(names)
	for _, n := range names {
		r.parties[n] = w.NI.newParty(n, 2)
	}
	commSpec := func(n string) string {
		row := r.in.Tables.Comm[n]
		if n == "I" {
			row = commRow{K: icomm, To: "V"}
		}
		switch row.K {
		case "own":
			return "own"
		case "ref":
			return r.parties[row.To].id.String()
		}
		return ""
	}
	for _, n := range names {
		if n == "I" || r.in.Tables.Comm[n].K == "ghost" {
			continue // a ghost has no document
		}
		p := r.parties[n]
		w.NI.putDoc(w.buildDoc(p, docSpec{kids: p.kids[:1], nutsComm: commSpec(n)}), T0, nil)
	}
	I := r.parties["I"]
	r.keyName = map[string]string{I.kids[0]: "k1", I.kids[1]: "k2"}
	for _, n := range []*node{w.NI, w.NR} {
		switch keys {
		case "one":
			r.latest = []hash.SHA256Hash{n.putDoc(w.buildDoc(I, docSpec{kids: I.kids[:1], nutsComm: commSpec("I")}), T0, nil)}
		case "two":
			r.latest = []hash.SHA256Hash{n.putDoc(w.buildDoc(I, docSpec{kids: I.kids, nutsComm: commSpec("I")}), T0, nil)}
		case "rotated":
			r1 := n.putDoc(w.buildDoc(I, docSpec{kids: I.kids[:1], nutsComm: commSpec("I")}), T0, nil)
			r.latest = []hash.SHA256Hash{n.putDoc(w.buildDoc(I, docSpec{kids: I.kids[1:], nutsComm: commSpec("I")}), T1, []hash.SHA256Hash{r1})}
		}
	}
}

func (r *pubRun) absParty(didStr string) string {
	for n, p := range r.parties {
		if p.id.String() == didStr {
			return n
		}
	}
	return "?"
}

// envFailure recognises the lock time-outs of go-stoabs (1 s in nuts-node) that CPU starvation of the sandbox causes.
func envFailure(msg string) bool {
	return strings.Contains(msg, "unable to obtain BBolt") || strings.Contains(msg, "context deadline exceeded")
}

func sameRefs(a, b []hash.SHA256Hash) bool {
	if len(a) != len(b) {
		return false
	}
	x, y := []string{}, []string{}
	for i := range a {
		x, y = append(x, a[i].String()), append(y, b[i].String())
	}
	sort.Strings(x)
	sort.Strings(y)
	return strings.Join(x, ",") == strings.Join(y, ",")
}

// checkTemplate compares what reached the network with the statement.
func (r *pubRun) checkTemplate(tpl network.Template, exp pubExp, wantType string, wantTime time.Time) (key string, parts []string) {
	if tpl.Type != wantType {
		r.violate("publish-wrong-type", exp.Kind, fmt.Sprintf("payload type %q, expected %q", tpl.Type, wantType))
	}
	key = r.keyName[tpl.KID]
	if key == "" {
		key = "?"
	}
	if !has(exp.Keys, key) {
		r.violate("publish-wrong-key", exp.Kind, fmt.Sprintf("signed with %s (%s); the assertion keys of the current document are %v", tpl.KID, key, exp.Keys))
	}
	if !tpl.Timestamp.Equal(wantTime) {
		r.violate("publish-wrong-timestamp", exp.Kind, fmt.Sprintf("transaction time %s, document time %s", tpl.Timestamp, wantTime))
	}
	if !sameRefs(tpl.AdditionalPrevs, r.latest) {
		r.violate("publish-wrong-prevs", exp.Kind, fmt.Sprintf("additional prevs %v, source transactions of the issuer's document %v", tpl.AdditionalPrevs, r.latest))
	}
	parts = []string{}
	for _, p := range tpl.Participants {
		parts = append(parts, r.absParty(p.String()))
	}
	if strings.Join(parts, ",") != strings.Join(exp.Participants, ",") {
		kind := "publish-wrong-participants"
		if exp.Public && len(parts) > 0 {
			kind = "publish-public-has-participants"
		} else if !exp.Public && len(parts) == 0 {
			kind = "publish-private-without-participants"
		}
		r.violate(kind, exp.Kind, fmt.Sprintf("participants %v, expected %v", parts, exp.Participants))
	}
	if tpl.PublicKey != nil {
		r.violate("publish-wrong-key", "attached", "a key is attached although the issuer's key is published in its DID document")
	}
	return
}

func (r *pubRun) take(mark int) (network.Template, dag.Transaction, int) {
	net := r.w.NI.net
	net.mu.Lock()
	defer net.mu.Unlock()
	n := len(net.published) - mark
	if n <= 0 {
		return network.Template{}, nil, n
	}
	return net.published[len(net.published)-1], net.publishedTx[len(net.publishedTx)-1], n
}

func (r *pubRun) exec() (err error) {
	defer func() {
		if p := recover(); p != nil {
			err = fmt.Errorf("panic: %v", p)
		}
	}()
	w := r.w
	for i, st := range r.res_steps() {
		r.stepNo = i
		var exp pubExp
		if raw, ok := st["exp"]; ok {
			b, _ := json.Marshal(raw)
			_ = json.Unmarshal(b, &exp)
		}
		switch st.str("a") {
		case "Config":
			r.setup(st.str("keys"), st.str("icomm"))
			r.res.Trace = append(r.res.Trace, map[string]any{"ev": "config", "keys": st.str("keys"), "icomm": st.str("icomm")})
		case "Issue":
			s := r.parties[st.str("s")]
			I := r.parties["I"]
			tpl := vc.VerifiableCredential{Context: []ssi.URI{ctxNuts}, Type: []ssi.URI{orgType}, Issuer: I.id.URI(),
				CredentialSubject: []interface{}{map[string]interface{}{"id": s.id.String(), "organization": map[string]interface{}{"name": "Org " + st.str("s"), "city": "Verif"}}}}
			mark := len(w.NI.net.published)
			cred, ierr := w.NI.vcr.Issuer().Issue(audit.TestContext(), tpl, issuer.CredentialOptions{Publish: true, Public: st.flag("public")})
			got, tx, n := r.take(mark)
			ev := map[string]any{"ev": "issue", "s": st.str("s"), "public": st.flag("public"), "ok": ierr == nil, "participants": []string{}, "key": ""}
			if ierr != nil && envFailure(ierr.Error()) {
				return ierr
			}
			switch {
			case ierr != nil && exp.OK:
				r.violate("publish-unexpected-error", "vc", ierr.Error())
			case ierr == nil && !exp.OK:
				r.violate("publish-unexpected-success", "vc", fmt.Sprintf("participants %v", got.Participants))
			}
			if ierr != nil && n > 0 {
				r.violate("publish-after-error", "vc", "Issue failed but a transaction was created")
			}
			if ierr == nil {
				if n != 1 {
					r.violate("publish-count", "vc", fmt.Sprintf("%d transactions created for one credential", n))
				}
				if n >= 1 {
					key, parts := r.checkTemplate(got, exp, typeVC, cred.IssuanceDate)
					ev["participants"], ev["key"] = parts, key
					var sent vc.VerifiableCredential
					if json.Unmarshal(got.Payload, &sent) != nil || contentKey(sent) != contentKey(*cred) {
						r.violate("publish-wrong-payload", "vc", "the payload is not the issued credential")
					}
					// own output is accepted by the second node (which is a participant, or the credential is public)
					if derr := w.NR.net.deliver(dag.Event{Type: dag.PayloadEventType, Hash: tx.Ref(), Transaction: tx, Payload: got.Payload}); derr != nil {
						return derr
					}
					calls := w.NR.net.takeCalls()
					stored, rerr := w.NR.vcr.Resolve(*cred.ID, nil)
					if stored == nil || contentKey(*stored) != contentKey(*cred) {
						msg := ""
						for _, cl := range calls {
							msg += cl.Err + ";"
						}
						if envFailure(msg) || (rerr != nil && envFailure(rerr.Error())) {
							return fmt.Errorf("storage time-out: %s %v", msg, rerr)
						}
						r.violate("own-output-rejected", "vc", fmt.Sprintf("the second node does not hold the published credential (Resolve: %v; receiver: %s)", rerr, msg))
					}
					r.lastCred = cred
				}
			}
			r.res.Trace = append(r.res.Trace, ev)
		case "Revoke":
			if r.lastCred == nil {
				r.res.Drift = append(r.res.Drift, "Revoke without a published credential")
				continue
			}
			mark := len(w.NI.net.published)
			rev, rerr := w.NI.vcr.Issuer().Revoke(audit.TestContext(), *r.lastCred.ID)
			got, tx, n := r.take(mark)
			ev := map[string]any{"ev": "revoke", "ok": rerr == nil, "participants": []string{}, "key": ""}
			if rerr != nil && envFailure(rerr.Error()) {
				return rerr
			}
			if rerr != nil {
				r.violate("publish-unexpected-error", "rev", rerr.Error())
			} else if n != 1 {
				r.violate("publish-count", "rev", fmt.Sprintf("%d transactions created for one revocation", n))
			} else {
				key, parts := r.checkTemplate(got, exp, typeRev, rev.Date)
				ev["participants"], ev["key"] = parts, key
				var sent credential.Revocation
				if json.Unmarshal(got.Payload, &sent) != nil || sent.Subject.String() != r.lastCred.ID.String() || sent.Issuer.String() != r.lastCred.Issuer.String() {
					r.violate("publish-wrong-payload", "rev", "the payload is not the revocation of the credential")
				}
				if derr := w.NR.net.deliver(dag.Event{Type: dag.PayloadEventType, Hash: tx.Ref(), Transaction: tx, Payload: got.Payload}); derr != nil {
					return derr
				}
				calls := w.NR.net.takeCalls()
				if is, _ := w.NR.vcr.Verifier().IsRevoked(*r.lastCred.ID); !is {
					msg := ""
					for _, cl := range calls {
						msg += cl.Err + ";"
					}
					if envFailure(msg) {
						return fmt.Errorf("storage time-out: %s", msg)
					}
					r.violate("own-output-rejected", "rev", "the second node does not register the published revocation: "+msg)
				}
				// the issuer refuses to revoke twice
				if _, again := w.NI.vcr.Issuer().Revoke(audit.TestContext(), *r.lastCred.ID); again == nil {
					r.violate("revoked-twice", "", "a second Revoke of the same credential published another revocation")
				}
			}
			r.res.Trace = append(r.res.Trace, ev)
		default:
			return fmt.Errorf("unknown step %q", st.str("a"))
		}
		r.res.Checks++
	}
	return nil
}

func (r *pubRun) res_steps() []step { return r.steps }

func runPub(w *world, in input, sc script) result {
	res := result{ID: sc.ID, Violations: []violation{}, Drift: []string{}}
	r := &pubRun{w: w, in: in, res: &res, parties: map[string]*party{}, reported: map[string]bool{}, steps: sc.Steps}
	w.NR.net.takeCalls()
	if err := r.exec(); err != nil {
		res.Error = err.Error()
	}
	return res
}
