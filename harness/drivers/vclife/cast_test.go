// The cast of one script: fresh issuers (own DIDs, two key generations each), fresh credential ids, and the concrete
// signed documents / transactions that realise the abstract credentials and revocations of MCVcLife.tla.
package vclife

import (
	"encoding/json"
	"fmt"
	"net/http"
	"net/http/httptest"
	"sort"
	"strings"
	"sync"
	"time"

	"github.com/google/uuid"
	ssi "github.com/nuts-foundation/go-did"
	"github.com/nuts-foundation/go-did/vc"
	"github.com/nuts-foundation/nuts-node/audit"
	"github.com/nuts-foundation/nuts-node/crypto/hash"
	"github.com/nuts-foundation/nuts-node/jsonld"
	"github.com/nuts-foundation/nuts-node/network/dag"
	"github.com/nuts-foundation/nuts-node/vcr/issuer"
	"github.com/piprate/json-gold/ld"
)

// ------------------------------------------------------------------------------------------ tables (printed by TLC)

type credRow struct {
	ID  string `json:"id"`
	Iss string `json:"iss"`
	Sig string `json:"sig"`
	WF  bool   `json:"wf"`
	Fmt string `json:"fmt"`
	Ctx string `json:"ctx"`
}
type revRow struct {
	ID  string `json:"id"`
	Iss string `json:"iss"`
	Sig string `json:"sig"`
}
type commRow struct {
	K  string `json:"k"`
	To string `json:"to"`
}
type tables struct {
	C     map[string]credRow `json:"C"`
	R     map[string]revRow  `json:"R"`
	Owner map[string]string  `json:"Owner"`
	Comm  map[string]commRow `json:"Comm"`
}

func (tb tables) wfType(c string) bool { x := tb.C[c]; return x.WF && tb.Owner[x.ID] == x.Iss }
func (tb tables) valid(c string) bool {
	x := tb.C[c]
	return x.Sig == "ok" && tb.wfType(c) && x.Fmt == "ld" && x.Ctx != "denied"
}
func (tb tables) authentic(r string) bool { x := tb.R[r]; return x.Sig == "ok" && tb.Owner[x.ID] == x.Iss }

// ------------------------------------------------------------------------------------------ scripted contexts

const deniedCtx = "https://denied.x07.nuts.nl/ctx/v1"

const tinyContext = `{"@context":{"@version":1.1,"x07note":"https://x07.nuts.nl/vocab#note"}}`

// ctxServer serves the "flaky" remote contexts: reachable only after the script said so.
type ctxServer struct {
	srv *httptest.Server
	mu  sync.Mutex
	up  map[string]bool
	n   int
}

func newCtxServer() *ctxServer {
	cs := &ctxServer{up: map[string]bool{}}
	cs.srv = httptest.NewServer(http.HandlerFunc(func(w http.ResponseWriter, r *http.Request) {
		cs.mu.Lock()
		up := cs.up[r.URL.Path]
		cs.mu.Unlock()
		if !up {
			http.Error(w, "context server is down", http.StatusServiceUnavailable)
			return
		}
		w.Header().Set("Content-Type", "application/ld+json")
		_, _ = w.Write([]byte(tinyContext))
	}))
	return cs
}
func (cs *ctxServer) url(i int) string { return fmt.Sprintf("%s/ctx/%d/v1", cs.srv.URL, i) }
func (cs *ctxServer) setUp(i int, up bool) {
	cs.mu.Lock()
	cs.up[fmt.Sprintf("/ctx/%d/v1", i)] = up
	cs.mu.Unlock()
}

// penLoader is the document loader of the issuing side: the scripted contexts are always available to the signer.
type penLoader struct {
	prefix string
	next   ld.DocumentLoader
}

func (p penLoader) LoadDocument(u string) (*ld.RemoteDocument, error) {
	if strings.HasPrefix(u, p.prefix) || u == deniedCtx {
		var doc interface{}
		_ = json.Unmarshal([]byte(tinyContext), &doc)
		return &ld.RemoteDocument{DocumentURL: u, Document: doc}, nil
	}
	return p.next.LoadDocument(u)
}

// gateLoader stops ONE goroutine at its next context look-up (StoreCredential: after the id look-up, inside the signature
// check, before the write) until the script lets it go on.
type gateLoader struct {
	next    ld.DocumentLoader
	mu      sync.Mutex
	armed   bool
	reached chan struct{}
	release chan struct{}
}

func (g *gateLoader) LoadDocument(u string) (*ld.RemoteDocument, error) {
	g.mu.Lock()
	if g.armed {
		g.armed = false
		reached, release := g.reached, g.release
		g.mu.Unlock()
		close(reached)
		<-release
	} else {
		g.mu.Unlock()
	}
	return g.next.LoadDocument(u)
}

func (g *gateLoader) arm() (reached, release chan struct{}) {
	g.mu.Lock()
	defer g.mu.Unlock()
	g.armed, g.reached, g.release = true, make(chan struct{}), make(chan struct{})
	return g.reached, g.release
}

func (g *gateLoader) disarm() {
	g.mu.Lock()
	g.armed = false
	g.mu.Unlock()
}

type ldManager struct{ loader ld.DocumentLoader }

func (m ldManager) DocumentLoader() ld.DocumentLoader { return m.loader }

const maxFlaky = 6000

// receiverLD builds the PRODUCTION loader chain (strict mode: only allow-listed remote contexts) with the flaky URLs allowed.
func receiverLD(cs *ctxServer) (jsonld.JSONLD, *gateLoader, error) {
	cfg := jsonld.DefaultContextConfig()
	for i := 0; i < maxFlaky; i++ {
		cfg.RemoteAllowList = append(cfg.RemoteAllowList, cs.url(i))
	}
	l, err := jsonld.NewContextLoader(false, cfg)
	if err != nil {
		return nil, nil, err
	}
	g := &gateLoader{next: l}
	return ldManager{g}, g, nil
}

// ------------------------------------------------------------------------------------------ cast

type built struct {
	name    string
	kind    string // "cred" | "rev"
	variant string
	payload []byte
	tx      dag.Transaction
	sigt    time.Time
	cred    *vc.VerifiableCredential
	key     string // content key (credentials)
}

func (b *built) event() dag.Event {
	return dag.Event{Type: dag.PayloadEventType, Hash: b.tx.Ref(), Transaction: b.tx, Payload: b.payload}
}

type cast struct {
	w        *world
	tab      tables
	iss      map[string]*party
	docRefs  map[string][]hash.SHA256Hash // issuer -> refs of its document versions on NI
	subj     *party
	ids      map[string]string // abstract id -> real id
	abs      map[string]string // real id -> abstract id
	built    map[string]*built
	byKey    map[string]string // content key -> abstract credential name
	byRef    map[string]string // tx ref -> abstract tx name
	variants map[string]string
	flaky    int
	T0, T1   time.Time
	TN       time.Time
	known    map[string]bool // issuers whose documents NR has
}

var flakyCounter int

func contentKey(c vc.VerifiableCredential) string {
	b, _ := json.Marshal(c)
	var m interface{}
	if json.Unmarshal(b, &m) != nil {
		return string(b)
	}
	out, _ := json.Marshal(m) // maps are written with sorted keys
	return string(out)
}

func (w *world) newCast(tab tables, issuers []string, initKeys []string, variants map[string]string) *cast {
	now := time.Now().UTC().Truncate(time.Second)
	c := &cast{w: w, tab: tab, iss: map[string]*party{}, docRefs: map[string][]hash.SHA256Hash{}, ids: map[string]string{}, abs: map[string]string{},
		built: map[string]*built{}, byKey: map[string]string{}, byRef: map[string]string{}, variants: variants, known: map[string]bool{},
		T0: now.Add(-3 * time.Hour), T1: now.Add(-2 * time.Hour), TN: now.Add(-1 * time.Hour)}
	flakyCounter++
	c.flaky = flakyCounter % maxFlaky
	w.ctx.setUp(c.flaky, false)
	c.subj = w.NI.newParty("S", 1)
	for _, n := range []*node{w.NI, w.NR} {
		n.putDoc(w.buildDoc(c.subj, docSpec{kids: c.subj.kids}), c.T0, nil)
	}
	sort.Strings(issuers)
	for _, name := range issuers {
		p := w.NI.newParty(name, 2)
		c.iss[name] = p
		c.docRefs[name] = c.giveDocs(w.NI, p)
	}
	for _, name := range initKeys {
		c.learn(name)
	}
	return c
}

// giveDocs adds the two document versions of an issuer: k0 from T0, replaced by k1 at T1.
func (c *cast) giveDocs(n *node, p *party) []hash.SHA256Hash {
	r1 := n.putDoc(c.w.buildDoc(p, docSpec{kids: p.kids[:1], nutsComm: "own"}), c.T0, nil)
	r2 := n.putDoc(c.w.buildDoc(p, docSpec{kids: p.kids[1:], nutsComm: "own"}), c.T1, []hash.SHA256Hash{r1})
	return []hash.SHA256Hash{r1, r2}
}

func (c *cast) learn(issuer string) {
	if c.known[issuer] {
		return
	}
	c.known[issuer] = true
	c.giveDocs(c.w.NR, c.iss[issuer])
}

func (c *cast) variant(t string) string {
	if v := c.variants[t]; v != "" {
		return v
	}
	return "plain"
}

func (c *cast) bindID(x, real string) {
	c.ids[x] = real
	c.abs[real] = x
}

// idOf returns the real id of an abstract credential id (inside the namespace of its owner).
func (c *cast) idOf(x string) string {
	if id, ok := c.ids[x]; ok {
		return id
	}
	// a credential made by the REAL issuer chooses its own id: build it first
	var names []string
	for n := range c.tab.C {
		names = append(names, n)
	}
	sort.Strings(names)
	for _, n := range names {
		row := c.tab.C[n]
		if row.ID == x && (c.variant(n) == "real" || row.Fmt == "jwt") && c.tab.Owner[x] == row.Iss {
			if _, err := c.get(n); err == nil {
				if id, ok := c.ids[x]; ok {
					return id
				}
			}
		}
	}
	owner := c.iss[c.tab.Owner[x]]
	c.bindID(x, owner.id.String()+"#"+uuid.NewString())
	return c.ids[x]
}

func (c *cast) get(name string) (*built, error) {
	if b, ok := c.built[name]; ok {
		return b, nil
	}
	var b *built
	var err error
	if _, ok := c.tab.C[name]; ok {
		b, err = c.buildCred(name)
	} else if _, ok := c.tab.R[name]; ok {
		b, err = c.buildRev(name)
	} else {
		return nil, fmt.Errorf("unknown transaction %s", name)
	}
	if err != nil {
		return nil, err
	}
	c.built[name] = b
	c.byRef[b.tx.Ref().String()] = name
	if b.cred != nil {
		b.key = contentKey(*b.cred)
		c.byKey[b.key] = name
	}
	return b, nil
}

func (c *cast) template(issuer *party, name string) vc.VerifiableCredential {
	return vc.VerifiableCredential{Context: []ssi.URI{ctxNuts}, Type: []ssi.URI{ssi.MustParseURI("NutsOrganizationCredential")},
		Issuer: issuer.id.URI(), CredentialSubject: []interface{}{map[string]interface{}{"id": c.subj.id.String(),
			"organization": map[string]interface{}{"name": "Org " + name, "city": "Verif"}}}}
}

// lastPublished returns what the real publisher of NI handed to the network since mark.
func (c *cast) lastPublished(mark int) ([]byte, dag.Transaction, error) {
	net := c.w.NI.net
	net.mu.Lock()
	defer net.mu.Unlock()
	if len(net.published) != mark+1 {
		return nil, nil, fmt.Errorf("expected exactly one published transaction, got %d", len(net.published)-mark)
	}
	return net.published[mark].Payload, net.publishedTx[mark], nil
}

func (c *cast) buildCred(name string) (*built, error) {
	row := c.tab.C[name]
	p := c.iss[row.Iss]
	v := c.variant(name)
	b := &built{name: name, kind: "cred", variant: v}
	if row.Fmt == "jwt" {
		cred, err := c.w.NI.vcr.Issuer().Issue(audit.TestContext(), c.template(p, name), issuer.CredentialOptions{Format: vc.JWTCredentialProofFormat})
		if err != nil {
			return nil, err
		}
		c.bindID(row.ID, cred.ID.String())
		b.cred, b.payload, b.sigt = cred, mustJSON(cred), cred.IssuanceDate
		b.tx = c.w.NI.net.forgeTx(typeVC, b.payload, b.sigt, nil, nil)
		return b, nil
	}
	if v == "real" {
		mark := len(c.w.NI.net.published)
		cred, err := c.w.NI.vcr.Issuer().Issue(audit.TestContext(), c.template(p, name), issuer.CredentialOptions{Publish: true, Public: true})
		if err != nil {
			return nil, err
		}
		payload, tx, err := c.lastPublished(mark)
		if err != nil {
			return nil, err
		}
		c.bindID(row.ID, cred.ID.String())
		b.cred, b.payload, b.tx, b.sigt = cred, payload, tx, tx.SigningTime()
		return b, nil
	}
	id := c.idOf(row.ID)
	at, kid := c.TN, p.kids[1]
	created := at
	switch v {
	case "oldkey": // signed with the first key while it was the key of the issuer
		at, kid = c.T0.Add(30*time.Minute), p.kids[0]
		created = at
	case "oldkey-late": // signed with the first key after it was removed
		kid = p.kids[0]
	case "proof-future": // the proof claims a creation time after the transaction was signed
		created = at.Add(time.Hour)
	case "vm-other-issuer":
		for _, n := range []string{"I2", "I1", "I3"} {
			if o := c.iss[n]; o != nil && o != p {
				kid = o.kids[1]
				break
			}
		}
	}
	m := orgCredentialMap(id, p.id.String(), c.subj.id.String(), "Org "+name, at)
	switch row.Ctx {
	case "flaky":
		m["@context"] = append(m["@context"].([]interface{}), c.w.ctx.url(c.flaky))
		m["credentialSubject"].(map[string]interface{})["x07note"] = "remote"
	case "denied":
		m["@context"] = append(m["@context"].([]interface{}), deniedCtx)
		m["credentialSubject"].(map[string]interface{})["x07note"] = "denied"
	}
	org := m["credentialSubject"].(map[string]interface{})["organization"].(map[string]interface{})
	switch v { // ways of not being well-formed (signed all the same)
	case "no-org-name":
		delete(org, "name")
	case "blank-city":
		org["city"] = " "
	case "three-types":
		m["type"] = append(m["type"].([]interface{}), "NutsAuthorizationCredential")
	case "no-organization":
		delete(m["credentialSubject"].(map[string]interface{}), "organization")
	}
	var signed map[string]interface{}
	if v == "no-proof" {
		signed = m
	} else {
		var err error
		signed, err = c.w.signLD(m, kid, created)
		if err != nil {
			return nil, fmt.Errorf("signing %s: %w", name, err)
		}
	}
	switch v {
	case "sig-flipped":
		flipJWS(signed)
	case "altered":
		signed["credentialSubject"].(map[string]interface{})["organization"].(map[string]interface{})["name"] = "Org altered " + name
	}
	cred := parseVC(signed)
	b.cred, b.payload, b.sigt = &cred, mustJSON(signed), at
	b.tx = c.w.NI.net.forgeTx(typeVC, b.payload, at, c.docRefs[row.Iss][1:], nil)
	return b, nil
}

func (c *cast) buildRev(name string) (*built, error) {
	row := c.tab.R[name]
	p := c.iss[row.Iss]
	v := c.variant(name)
	b := &built{name: name, kind: "rev", variant: v}
	id := c.idOf(row.ID)
	if v == "real" {
		mark := len(c.w.NI.net.published)
		if _, err := c.w.NI.vcr.Issuer().Revoke(audit.TestContext(), ssi.MustParseURI(id)); err != nil {
			return nil, err
		}
		payload, tx, err := c.lastPublished(mark)
		if err != nil {
			return nil, err
		}
		b.payload, b.tx, b.sigt = payload, tx, tx.SigningTime()
		return b, nil
	}
	at, kid := c.TN.Add(time.Minute), p.kids[1]
	if name == "ra2" {
		at = at.Add(time.Minute)
	}
	switch v {
	case "oldkey":
		at, kid = c.T0.Add(40*time.Minute), p.kids[0]
	case "oldkey-late":
		kid = p.kids[0]
	case "vm-other-issuer":
		for _, n := range []string{"I2", "I1", "I3"} {
			if o := c.iss[n]; o != nil && o != p {
				kid = o.kids[1]
				break
			}
		}
	}
	m := revocationMap(p.id.String(), id, at)
	var signed map[string]interface{}
	if v == "no-proof" {
		signed = m
	} else {
		var err error
		signed, err = c.w.signLD(m, kid, at)
		if err != nil {
			return nil, fmt.Errorf("signing %s: %w", name, err)
		}
	}
	switch v {
	case "sig-flipped":
		flipJWS(signed)
	case "date-altered":
		signed["date"] = at.Add(time.Second).Format(time.RFC3339)
	}
	b.payload, b.sigt = mustJSON(signed), at
	b.tx = c.w.NI.net.forgeTx(typeRev, b.payload, at, c.docRefs[row.Iss][1:], nil)
	return b, nil
}
