// Driver for VcLife.tla (X07): replays TLC behaviours on two REAL VCR instances (see world_test.go), evaluates the
// property statements on the real observables after every step with a self-contained reference (oracle below), and
// records one trace per script for validation by TLC against TraceVcLife.tla.
package vclife

import (
	"bufio"
	"context"
	"encoding/json"
	"errors"
	"fmt"
	"io"
	"os"
	"runtime"
	"sort"
	"strings"
	"testing"
	"time"

	ssi "github.com/nuts-foundation/go-did"
	"github.com/nuts-foundation/go-did/vc"
	"github.com/nuts-foundation/nuts-node/core"
	"github.com/nuts-foundation/nuts-node/vcr"
	"github.com/nuts-foundation/nuts-node/vcr/types"
	"github.com/nuts-foundation/nuts-node/vcr/verifier"
	"github.com/sirupsen/logrus"
)

// ------------------------------------------------------------------------------------------------ input / output

type step map[string]any

func (s step) str(k string) string { v, _ := s[k].(string); return v }
func (s step) flag(k string) bool  { v, _ := s[k].(bool); return v }

type script struct {
	ID       string            `json:"id"`
	Steps    []step            `json:"steps"`
	Variants map[string]string `json:"variants"`
}

type input struct {
	Mode      string   `json:"mode"` // "recv" | "pub"
	Tables    tables   `json:"tables"`
	Scripts   []script `json:"scripts"`
	Issuers   []string `json:"issuers"`
	InitTrust []string `json:"init_trust"`
	InitKeys  []string `json:"init_keys"`
	Corrupt   string   `json:"corrupt,omitempty"` // binding demonstration: corrupt one logged field
}

type violation struct {
	Kind   string `json:"kind"`
	Cause  string `json:"cause,omitempty"`
	Detail string `json:"detail"`
	Step   int    `json:"step"`
}

type result struct {
	ID         string            `json:"id"`
	Violations []violation       `json:"violations"`
	Drift      []string          `json:"drift"`
	Error      string            `json:"error,omitempty"`
	Trace      []map[string]any  `json:"trace"`
	Checks     int               `json:"checks"`
	Variants   map[string]string `json:"variants,omitempty"`
	Calls      int               `json:"calls"`
}

var orgType = ssi.MustParseURI("NutsOrganizationCredential")

// ------------------------------------------------------------------------------------------------ observation

type resolveAns struct {
	Cls string `json:"cls"`
	C   string `json:"c"`
}

type observation struct {
	Resolve   map[string]resolveAns `json:"resolve"`
	Revoked   []string              `json:"revoked"`
	Search    []string              `json:"search"`
	SearchAll []string              `json:"searchAll"`
	Trusted   []string              `json:"trusted"`
	Untrusted []string              `json:"untrusted"`
	NDocs     int                   `json:"ndocs"`
	NRevs     int                   `json:"nrevs"`
	verify    map[string]string     // presented credential -> verdict class
	dupIDs    []string              // ids returned twice by a search
	foreign   []string              // problems seen while observing
	inconsistent []string           // two ways of asking the same question gave different answers
}

func diagCount(n *node) (docs, revs int) {
	docs, revs = -1, -1
	d, ok := n.vcr.(core.ViewableDiagnostics)
	if !ok {
		return
	}
	for _, r := range d.Diagnostics() {
		switch r.Name() {
		case "credential_count":
			if v, ok := r.Result().(int); ok {
				docs = v
			}
		case "verifier":
			if items, ok := r.Result().(map[string]interface{}); ok {
				if v, ok := items["revocations_count"].(int); ok {
					revs = v
				}
			}
		}
	}
	return
}

type run struct {
	w        *world
	c        *cast
	in       input
	sc       script
	res      *result
	ids      []string // abstract ids in play
	txs      []string // abstract transactions in play
	docs0    int
	revs0    int
	trustRef map[string]bool
	ctxUp    bool
	deliv    map[string]bool
	jobState map[string]string // by the answers of the receivers: done | retry | dead
	lastCls  map[string]string // class of the last answer
	everRev  map[string]bool
	everHeld map[string]string
	reported map[string]bool
	dropped  map[string]string // transaction -> transient cause the receiver answered with a dropped job (already reported)
	stepNo   int
	envError string // the environment, not the code under test, failed (lock time-outs under CPU starvation)
	twoContents bool // an id was seen bound to two contents (reported; what follows from it is not reported again)
	overlap     bool // the script held a handler call between look-up and write
	blindOK     map[string]bool
	held     map[string]*heldCall
}

// heldCall is a delivery whose handler is stopped between the id look-up and the write.
type heldCall struct {
	release chan struct{}
	done    chan error
}

func classifyResolve(c *vc.VerifiableCredential, err error) string {
	switch {
	case err == nil && c != nil:
		return "ok"
	case errors.Is(err, types.ErrRevoked) && c != nil:
		return "revoked"
	case errors.Is(err, types.ErrUntrusted) && c != nil:
		return "untrusted"
	case errors.Is(err, types.ErrNotFound):
		return "notfound"
	case errors.Is(err, types.ErrRevoked):
		return "revoked-without-credential"
	case errors.Is(err, types.ErrUntrusted):
		return "untrusted-without-credential"
	}
	return "invalid"
}

func (r *run) absIssuer(didStr string) string {
	for n, p := range r.c.iss {
		if p.id.String() == didStr {
			return n
		}
	}
	return ""
}

func (r *run) observe(final bool) observation {
	v := r.w.NR.vcr
	o := observation{Resolve: map[string]resolveAns{}, verify: map[string]string{}}
	for _, x := range r.ids {
		id := ssi.MustParseURI(r.c.idOf(x))
		cred, err := v.Resolve(id, nil)
		a := resolveAns{Cls: classifyResolve(cred, err)}
		if cred != nil {
			if n, ok := r.c.byKey[contentKey(*cred)]; ok {
				a.C = n
			} else {
				a.C = "?"
			}
		}
		o.Resolve[x] = a
		rev, err := v.Verifier().IsRevoked(id)
		if err != nil {
			o.foreign = append(o.foreign, "IsRevoked: "+err.Error())
		}
		got, gerr := v.Verifier().GetRevocation(id)
		if rev != (gerr == nil && got != nil) {
			o.foreign = append(o.foreign, fmt.Sprintf("IsRevoked(%s)=%v but GetRevocation err=%v", x, rev, gerr))
		}
		if got != nil && got.Subject.String() != id.String() {
			o.foreign = append(o.foreign, fmt.Sprintf("GetRevocation(%s) returned a revocation of %s", x, got.Subject.String()))
		}
		if rev {
			o.Revoked = append(o.Revoked, x)
		}
	}
	var names []string
	for n := range r.c.iss {
		names = append(names, n)
	}
	sort.Strings(names)
	for _, au := range []bool{false, true} {
		seen := map[string]int{}
		var list []string
		for _, n := range names {
			terms := []vcr.SearchTerm{{IRIPath: []string{"https://www.w3.org/2018/credentials#issuer"}, Value: r.c.iss[n].id.String(), Type: vcr.Exact}}
			found, err := v.Search(context.Background(), terms, au, nil)
			if err != nil {
				o.foreign = append(o.foreign, "Search: "+err.Error())
			}
			for _, f := range found {
				name, ok := r.c.byKey[contentKey(f)]
				if !ok {
					name = "?"
				}
				list = append(list, name)
				if f.ID != nil {
					seen[f.ID.String()]++
					if seen[f.ID.String()] == 2 {
						o.dupIDs = append(o.dupIDs, r.c.abs[f.ID.String()])
					}
				}
			}
		}
		sort.Strings(list)
		if au {
			o.SearchAll = list
		} else {
			o.Search = list
		}
		// the same question asked through another index: by credential subject (every credential of a script is about
		// the script's own subject) together with the type
		if !final {
			continue // (no index serves this query: it scans the collection, so it is asked once per script)
		}
		terms := []vcr.SearchTerm{
			{IRIPath: []string{"https://www.w3.org/2018/credentials#credentialSubject"}, Value: r.c.subj.id.String(), Type: vcr.Exact},
			{IRIPath: []string{"https://www.w3.org/2018/credentials#issuer"}, Type: vcr.NotNil},
		}
		found, err := v.Search(context.Background(), terms, au, nil)
		if err != nil {
			o.foreign = append(o.foreign, "Search by subject: "+err.Error())
		}
		var bySubject []string
		for _, f := range found {
			name, ok := r.c.byKey[contentKey(f)]
			if !ok {
				name = "?"
			}
			bySubject = append(bySubject, name)
		}
		sort.Strings(bySubject)
		if strings.Join(bySubject, ",") != strings.Join(list, ",") {
			o.inconsistent = append(o.inconsistent, fmt.Sprintf("search by issuer (allowUntrusted=%v) returns %v, search by subject returns %v", au, list, bySubject))
		}
	}
	tr, _ := v.Trusted(orgType)
	for _, u := range tr {
		if n := r.absIssuer(u.String()); n != "" {
			o.Trusted = append(o.Trusted, n)
		}
	}
	ut, err := v.Untrusted(orgType)
	if err != nil {
		o.foreign = append(o.foreign, "Untrusted: "+err.Error())
	}
	for _, u := range ut {
		if n := r.absIssuer(u.String()); n != "" {
			o.Untrusted = append(o.Untrusted, n)
		}
	}
	sort.Strings(o.Trusted)
	sort.Strings(o.Untrusted)
	sort.Strings(o.Revoked)
	d, rv := diagCount(r.w.NR)
	o.NDocs, o.NRevs = d-r.docs0, rv-r.revs0
	// presented credentials (not taken from the store): every built JSON-LD credential with a proper signature
	for _, t := range r.txs {
		b := r.c.built[t]
		row, isCred := r.c.tab.C[t]
		if !isCred || b == nil || b.cred == nil || row.Sig != "ok" {
			continue
		}
		at := b.sigt
		err := v.Verifier().Verify(*b.cred, false, true, &at)
		switch {
		case err == nil:
			o.verify[t] = "ok"
		case errors.Is(err, types.ErrRevoked):
			o.verify[t] = "revoked"
		case errors.Is(err, types.ErrUntrusted):
			o.verify[t] = "untrusted"
		default:
			o.verify[t] = "invalid"
		}
	}
	return o
}

func nonNil(l []string) []string {
	if l == nil {
		return []string{}
	}
	return l
}

func (o observation) event() map[string]any {
	res := map[string]any{}
	for k, v := range o.Resolve {
		c := v.C
		if v.Cls == "invalid" || v.Cls == "notfound" {
			c = ""
		}
		res[k] = map[string]any{"cls": v.Cls, "c": c}
	}
	return map[string]any{"ev": "obs", "resolve": res, "revoked": nonNil(o.Revoked), "search": nonNil(o.Search), "searchAll": nonNil(o.SearchAll),
		"trusted": nonNil(o.Trusted), "untrusted": nonNil(o.Untrusted), "ndocs": o.NDocs, "nrevs": o.NRevs}
}

// ------------------------------------------------------------------------------------------------ oracle

func (r *run) violate(kind, cause, detail string) {
	k := kind + "|" + cause
	if r.reported[k] {
		return
	}
	r.reported[k] = true
	r.res.Violations = append(r.res.Violations, violation{Kind: kind, Cause: cause, Detail: detail, Step: r.stepNo})
}

func has(l []string, x string) bool {
	for _, y := range l {
		if y == x {
			return true
		}
	}
	return false
}

func (r *run) resolvable(c string) bool {
	row := r.c.tab.C[c]
	return r.c.known[row.Iss] && (row.Ctx != "flaky" || r.ctxUp)
}

// whyInvalid names the first reason a credential must not be stored.
func (r *run) whyInvalid(c string) string {
	row := r.c.tab.C[c]
	switch {
	case row.Sig != "ok":
		return "forged"
	case r.c.tab.Owner[row.ID] != row.Iss:
		return "foreign-id"
	case !row.WF:
		return "malformed"
	case row.Fmt != "ld":
		return "format"
	case row.Ctx == "denied":
		return "context-denied"
	}
	return ""
}

// judge evaluates the property statements on one observation. It knows which transactions were handed to the node,
// what they are (tables), which documents / contexts the node can resolve, and the trust the administrator set.
func (r *run) judge(o observation) {
	tab := r.c.tab
	r.res.Checks++
	for _, f := range o.foreign {
		// an API that fails while the node is only being looked at (in this sandbox: the 1 s lock time-out of go-stoabs
		// under CPU starvation) says nothing about the property: the script is abandoned as inconclusive
		if r.envError == "" {
			r.envError = "observation failed: " + f
		}
	}
	if r.envError != "" {
		return
	}
	holder := map[string]string{} // id -> stored content (abstract name) as far as Resolve reveals it
	present := map[string]bool{}
	for _, x := range r.ids {
		a := o.Resolve[x]
		if a.Cls != "notfound" {
			present[x] = true
		}
		if a.C != "" {
			holder[x] = a.C
		} else if a.Cls == "invalid" {
			// (nil, error): a stored document the validator refuses; it is the delivered, properly signed, not well-formed one
			var cand []string
			for _, t := range r.txs {
				if row, ok := tab.C[t]; ok && row.ID == x && r.deliv[t] && !tab.wfType(t) && row.Sig == "ok" {
					cand = append(cand, t)
				}
			}
			if len(cand) == 1 {
				holder[x] = cand[0]
			}
		}
	}
	// (1) only credentials that verify as of their issuance are stored
	for _, x := range r.ids {
		a := o.Resolve[x]
		if a.Cls == "notfound" {
			continue
		}
		switch {
		case a.C == "?":
			r.violate("stored-invalid", "unknown-content", fmt.Sprintf("id %s resolves to a document nobody signed", x))
		case a.C != "" && !tab.valid(a.C):
			r.violate("stored-invalid", r.whyInvalid(a.C), fmt.Sprintf("credential %s (%s) is stored under id %s", a.C, r.c.variant(a.C), x))
		case a.C == "":
			who := holder[x]
			if who != "" {
				r.violate("stored-invalid", r.whyInvalid(who), fmt.Sprintf("credential %s (%s) is stored under id %s (Resolve: validation error)", who, r.c.variant(who), x))
			} else {
				r.violate("stored-invalid", "unexplained", fmt.Sprintf("Resolve(%s) fails with an error other than not-found although no such document was delivered", x))
			}
		}
	}
	for _, m := range o.inconsistent {
		r.violate("search-inconsistent", "", m)
	}
	// (2) an id is never bound to two contents
	// cause "overlap": the script let two handler calls for one id overlap; "sequential": one call at a time
	how := "sequential"
	if r.overlap {
		how = "overlap"
	}
	for _, x := range o.dupIDs {
		r.twoContents = true
		r.violate("id-two-contents", how, fmt.Sprintf("a search returns two credentials with id %s", x))
	}
	// ... also where no search shows it (revoked, untrusted): the collection holds more documents than ids
	blind := len(r.blindOK) // JWT credentials a call (receiver or reprocess) accepted: written, never indexed
	if o.NDocs > len(present)+blind {
		r.twoContents = true
		r.violate("id-two-contents", how, fmt.Sprintf("%d documents in the collection for %d ids (+%d unindexed)", o.NDocs, len(present), blind))
	}
	// (3) the stored set is a function of the set of delivered transactions
	for _, t := range r.txs {
		row, isCred := tab.C[t]
		if !isCred || !r.deliv[t] || !tab.valid(t) || !r.resolvable(t) || r.jobState[t] == "retry" || r.jobState[t] == "busy" {
			continue
		}
		if r.dropped[t] != "" && r.dropped[t] == r.lastCls[t] && !present[row.ID] {
			continue // consequence of the dropped transient failure that was reported when the receiver answered
		}
		contested := false
		for _, d := range r.txs {
			if d != t && r.deliv[d] && tab.C[d].ID == row.ID && tab.valid(d) {
				contested = true
			}
		}
		switch {
		case !present[row.ID]:
			r.violate("valid-not-stored", r.lastCls[t], fmt.Sprintf("credential %s (%s) was delivered, verifies, and is not stored (last answer of the receiver: %s)", t, r.c.variant(t), r.lastCls[t]))
		case !contested && holder[row.ID] != t:
			cause := r.lastCls[t]
			if h := holder[row.ID]; h != "" && !tab.valid(h) {
				cause = "blocked-by-" + r.whyInvalid(h)
			} else if h == "" {
				cause = "blocked-by-unknown"
			}
			r.violate("valid-not-stored", cause, fmt.Sprintf("credential %s is the only valid claimant of id %s but %q holds it", t, row.ID, holder[row.ID]))
		}
	}
	// (4) revocations: registered iff signed by the issuer of the credential they name; never undone
	for _, x := range r.ids {
		rev := has(o.Revoked, x)
		authentic, owed := false, ""
		for _, t := range r.txs {
			row, isRev := tab.R[t]
			if !isRev || row.ID != x || !r.deliv[t] || !tab.authentic(t) {
				continue
			}
			authentic = true
			if r.c.known[row.Iss] && r.jobState[t] != "retry" && !(r.dropped[t] != "" && r.dropped[t] == r.lastCls[t]) {
				owed = t // (not owed: the consequence of a dropped transient failure that was reported when the receiver answered)
			}
		}
		if rev && !authentic {
			r.violate("forged-revocation-effective", "", fmt.Sprintf("id %s counts as revoked although no revocation signed by its issuer was delivered", x))
		}
		if !rev && owed != "" {
			r.violate("revocation-not-registered", r.lastCls[owed], fmt.Sprintf("revocation %s (%s) was delivered, is authentic, and is not registered (last answer: %s)", owed, r.c.variant(owed), r.lastCls[owed]))
		}
		if rev {
			r.everRev[x] = true
		} else if r.everRev[x] {
			r.violate("revocation-lost", "", fmt.Sprintf("id %s was revoked and is not any more", x))
		}
		if h := holder[x]; h != "" {
			if old := r.everHeld[x]; old != "" && old != h && !r.twoContents {
				r.violate("content-replaced", "", fmt.Sprintf("id %s held %s, now %s", x, old, h))
			}
			r.everHeld[x] = h
		} else if r.everHeld[x] != "" && !present[x] {
			r.violate("credential-lost", "", fmt.Sprintf("id %s held %s, now nothing", x, r.everHeld[x]))
		}
		// (5) what a caller gets for a stored, well-formed credential
		a := o.Resolve[x]
		if strings.HasSuffix(a.Cls, "without-credential") {
			r.violate("resolve-wrong-answer", a.Cls, fmt.Sprintf("Resolve(%s)", x))
		}
		if h := holder[x]; h != "" && tab.wfType(h) {
			want := "ok"
			if rev {
				want = "revoked"
			} else if !r.trustRef[tab.C[h].Iss] {
				want = "untrusted"
			}
			if a.Cls != want {
				kind := "resolve-wrong-answer"
				if rev && a.Cls == "ok" {
					kind = "revoked-returned-valid"
				} else if want == "untrusted" && a.Cls == "ok" {
					kind = "untrusted-returned-valid"
				}
				r.violate(kind, "resolve", fmt.Sprintf("Resolve(%s) answers %s, the statement demands %s", x, a.Cls, want))
			}
		}
		if rev && a.Cls != "notfound" && a.Cls != "invalid" && a.Cls != "revoked" {
			r.violate("revoked-returned-valid", "resolve", fmt.Sprintf("Resolve(%s) answers %s for a revoked id", x, a.Cls))
		}
	}
	// (6) searches
	for _, au := range []bool{false, true} {
		list, site := o.Search, "search"
		if au {
			list, site = o.SearchAll, "search-allow-untrusted"
		}
		for _, c := range list {
			if c == "?" {
				r.violate("stored-invalid", "unknown-content", "a search returns a document nobody signed")
				continue
			}
			row := tab.C[c]
			if has(o.Revoked, row.ID) {
				r.violate("revoked-returned-valid", site, fmt.Sprintf("%s returns revoked credential %s", site, c))
			}
			if !au && !r.trustRef[row.Iss] {
				r.violate("untrusted-returned-valid", site, fmt.Sprintf("search returns %s of issuer %s, which is not trusted", c, row.Iss))
			}
			if !tab.wfType(c) {
				r.violate("invalid-returned-valid", site, fmt.Sprintf("%s returns %s, which is not well-formed", site, c))
			}
		}
		for x, h := range holder {
			row := tab.C[h]
			if !tab.wfType(h) || has(o.Revoked, x) || (!au && !r.trustRef[row.Iss]) {
				continue
			}
			if !has(list, h) {
				r.violate("missing-in-search", site, fmt.Sprintf("stored credential %s (trusted issuer, not revoked) is not returned by %s", h, site))
			}
		}
	}
	// (7) trust administration
	var want []string
	for i, on := range r.trustRef {
		if on {
			want = append(want, i)
		}
	}
	sort.Strings(want)
	if strings.Join(want, ",") != strings.Join(o.Trusted, ",") {
		r.violate("trust-state-wrong", "", fmt.Sprintf("Trusted() = %v, the administrator set %v", o.Trusted, want))
	}
	wantU := map[string]bool{}
	for x := range present {
		// issuer of the stored document: of its content if Resolve shows it, else of the delivered malformed one
		if h := holder[x]; h != "" {
			wantU[tab.C[h].Iss] = true
		} else {
			for _, t := range r.txs {
				if row, ok := tab.C[t]; ok && row.ID == x && r.deliv[t] && row.Sig == "ok" && !tab.wfType(t) {
					wantU[row.Iss] = true
				}
			}
		}
	}
	for i := range wantU {
		if r.trustRef[i] {
			delete(wantU, i)
		}
	}
	if strings.Join(sortedKeys(wantU), ",") != strings.Join(o.Untrusted, ",") {
		r.violate("untrusted-list-wrong", "", fmt.Sprintf("Untrusted() = %v, issuers of stored credentials without trust: %v", o.Untrusted, sortedKeys(wantU)))
	}
	// (8) presented credentials
	for t, verdict := range o.verify {
		row := tab.C[t]
		if has(o.Revoked, row.ID) && verdict == "ok" {
			r.violate("revoked-returned-valid", "verify", fmt.Sprintf("Verify accepts %s although id %s is revoked", t, row.ID))
		}
		if !r.trustRef[row.Iss] && verdict == "ok" {
			r.violate("untrusted-returned-valid", "verify", fmt.Sprintf("Verify(allowUntrusted=false) accepts %s of issuer %s", t, row.Iss))
		}
		if tab.valid(t) && r.resolvable(t) && r.trustRef[row.Iss] && !has(o.Revoked, row.ID) && verdict != "ok" {
			r.violate("valid-refused", "verify", fmt.Sprintf("Verify refuses %s (%s): %s", t, r.c.variant(t), verdict))
		}
	}
}

// ------------------------------------------------------------------------------------------------ receiver answers

func classifyErr(msg string) string {
	switch {
	case msg == "":
		return "ok"
	case strings.Contains(msg, "same ID but different content"):
		return "conflict"
	case strings.Contains(msg, "injected write failure"):
		return "fault"
	case strings.Contains(msg, "issuer of revocation is not the same as issuer of credential"):
		return "notissuer"
	case strings.Contains(msg, "unable to find the DID document"):
		return "nokey"
	case strings.Contains(msg, "context not on the remoteallowlist"):
		return "ctxdenied"
	case strings.Contains(msg, "loading remote context failed"), strings.Contains(msg, "loading document failed"):
		return "ctxdown"
	case strings.Contains(msg, "validation failed") && !strings.Contains(msg, "'proof' is required"), strings.Contains(msg, "must list at most 2 types"):
		return "malformed"
	case strings.Contains(msg, "verification method is not of issuer"), strings.Contains(msg, "invalid signature"), strings.Contains(msg, "invalid proof signature"),
		strings.Contains(msg, "unable to verify revocation signature"), strings.Contains(msg, "not valid at"), strings.Contains(msg, "key not found"),
		strings.Contains(msg, "missing proof"), strings.Contains(msg, "'proof' is required"), strings.Contains(msg, "unsupported proof type"),
		strings.Contains(msg, "unable to resolve valid signing key"), strings.Contains(msg, "unable to resolve key for revocation"):
		return "badsig"
	}
	return "other"
}

// absorb turns the receiver calls of one step into trace events and feeds the subscriber-semantics part of the oracle.
// armed: the number of store faults the step armed per shelf.
func (r *run) absorb(evName string, calls []call, faultHit bool) (plain int) {
	tab := r.c.tab
	async := 0
	defer func() {
		if evName != "retry-async" && plain-async > 0 {
			r.settle(plain - async)
		}
	}()
	inBatch := map[string]bool{}
	for _, cl := range calls {
		t, ok := r.c.byRef[cl.Ref]
		if !ok {
			continue // a job of an earlier script on the shared node
		}
		r.res.Calls++
		wantSub := "vcr_vcs"
		if _, isRev := tab.R[t]; isRev {
			wantSub = "vcr_revocations"
		}
		if cl.Sub != wantSub {
			r.violate("subscriber-selection", cl.Sub, fmt.Sprintf("transaction %s was handed to subscriber %s", t, cl.Sub))
			continue
		}
		cls := classifyErr(cl.Err)
		if strings.Contains(cl.Err, "unable to obtain BBolt") || strings.Contains(cl.Err, "context deadline exceeded") {
			if r.envError == "" {
				r.envError = "receiver hit a storage time-out: " + cl.Err
			}
		}
		job := "retry"
		switch {
		case cl.Err == "" && cl.Finished:
			job = "done"
		case cl.Fatal:
			job = "dead"
		}
		r.jobState[t], r.lastCls[t] = job, cls
		if row, isCred := tab.C[t]; isCred && row.Fmt == "jwt" && cls == "ok" {
			r.blindOK[t] = true
		}
		if job == "retry" {
			plain++
		}
		f := faultHit && cls == "fault"
		name := evName
		if name == "retry-async" {
			name = "retry"
		} else if inBatch[t] {
			// the second call for one transaction inside a step is the immediate attempt of the retry goroutine
			name = "retry"
			async++
			if job == "retry" {
				plain--
			}
		}
		inBatch[t] = true
		r.res.Trace = append(r.res.Trace, map[string]any{"ev": name, "t": t, "f": f, "job": job, "res": cls})
		// subscriber semantics
		transient := cls == "fault" || cls == "ctxdown" || cls == "nokey"
		if transient && job != "retry" {
			r.dropped[t] = cls
			r.violate("transient-failure-dropped", cls, fmt.Sprintf("%s of %s: the receiver answered %q with job state %s", evName, t, cl.Err, job))
		}
		permanent := false
		if row, isCred := tab.C[t]; isCred {
			permanent = row.Sig != "ok" && r.c.known[row.Iss]
		} else {
			permanent = !tab.authentic(t) && r.c.known[tab.R[t].Iss]
		}
		if permanent && job == "retry" {
			r.violate("invalid-payload-retried", cls, fmt.Sprintf("%s of %s (%s): a payload that can never become valid is left for retries: %q", evName, t, r.c.variant(t), cl.Err))
		}
	}
	return plain
}

// settle waits for the attempts the notifier makes on its own: a plain error answered to Notify / Run starts a retry
// goroutine whose FIRST attempt is immediate (retry-go); the next one is an hour away in this driver.
func (r *run) settle(expect int) {
	deadline := time.Now().Add(3 * time.Second)
	got := 0
	for got < expect && time.Now().Before(deadline) {
		time.Sleep(2 * time.Millisecond)
		calls := r.w.NR.net.takeCalls()
		if len(calls) == 0 {
			continue
		}
		got += len(calls)
		r.absorb("retry-async", calls, false)
	}
	if got < expect {
		r.res.Drift = append(r.res.Drift, fmt.Sprintf("step %d: %d immediate retry attempts expected, %d seen", r.stepNo, expect, got))
	}
}

// ------------------------------------------------------------------------------------------------ script execution

func (r *run) shelfOf(t string) string {
	if _, ok := r.c.tab.R[t]; ok {
		return "revocations"
	}
	return "credentials"
}

func (r *run) hits() int {
	r.w.NR.fl.mu.Lock()
	defer r.w.NR.fl.mu.Unlock()
	n := 0
	for _, v := range r.w.NR.fl.hits {
		n += v
	}
	return n
}

func (r *run) disarm() {
	r.w.NR.fl.mu.Lock()
	for k := range r.w.NR.fl.shelf {
		r.w.NR.fl.shelf[k] = 0
	}
	r.w.NR.fl.mu.Unlock()
}

func (r *run) exec() (err error) {
	defer func() {
		if p := recover(); p != nil {
			err = fmt.Errorf("panic: %v", p)
		}
		// calls that are still held at their gate go on (whatever way the script ended)
		for t, hc := range r.held {
			close(hc.release)
			select {
			case <-hc.done:
			case <-time.After(10 * time.Second):
			}
			delete(r.held, t)
		}
		r.w.gate.disarm()
		r.w.NR.net.takeCalls()
	}()
	w, in, sc := r.w, r.in, r.sc
	// transactions and ids in play
	seenT, seenX := map[string]bool{}, map[string]bool{}
	for _, st := range sc.Steps {
		if t := st.str("t"); t != "" && !seenT[t] {
			seenT[t] = true
			r.txs = append(r.txs, t)
		}
	}
	sort.Strings(r.txs)
	r.c = w.newCast(in.Tables, in.Issuers, in.InitKeys, sc.Variants)
	for _, t := range r.txs {
		x := ""
		if row, ok := in.Tables.C[t]; ok {
			x = row.ID
		} else if row, ok := in.Tables.R[t]; ok {
			x = row.ID
		} else {
			return fmt.Errorf("unknown transaction %q", t)
		}
		if !seenX[x] {
			seenX[x] = true
			r.ids = append(r.ids, x)
		}
	}
	sort.Strings(r.ids)
	// build credentials first (a revocation made by the real issuer needs the id)
	for _, pass := range []string{"cred", "rev"} {
		for _, t := range r.txs {
			_, isCred := in.Tables.C[t]
			if (pass == "cred") != isCred {
				continue
			}
			if _, err := r.c.get(t); err != nil {
				return fmt.Errorf("building %s: %w", t, err)
			}
		}
	}
	for _, i := range in.InitTrust {
		if err := w.NR.vcr.Trust(orgType, r.c.iss[i].id.URI()); err != nil {
			return err
		}
		r.trustRef[i] = true
	}
	w.NR.net.clearJobs()
	w.NR.net.takeCalls()
	r.docs0, r.revs0 = diagCount(w.NR)
	r.res.Variants = map[string]string{}
	for _, t := range r.txs {
		r.res.Variants[t] = r.c.variant(t)
	}
	first := true
	for i := 0; i < len(sc.Steps); i++ {
		st := sc.Steps[i]
		r.stepNo = i
		a, t := st.str("a"), st.str("t")
		h0 := r.hits()
		switch a {
		case "Deliver":
			b := r.c.built[t]
			if first { // the transaction event of the same transaction is none of the ambassador's business
				first = false
				ev := b.event()
				ev.Type, ev.Payload = "transaction", nil
				_ = w.NR.net.deliver(ev)
				if cs := w.NR.net.takeCalls(); len(cs) > 0 {
					r.violate("subscriber-selection", "transaction-event", "a receiver of the ambassador was called for a transaction event")
				}
			}
			if st.flag("f") {
				w.NR.fl.arm(r.shelfOf(t), 1)
			}
			if err := w.NR.net.deliver(b.event()); err != nil {
				return err
			}
			r.disarm()
			r.deliv[t] = true
			calls := w.NR.net.takeCalls()
			subs := map[string]bool{} // (the same receiver may be called again at once by the retry goroutine)
			for _, cl := range calls {
				if r.c.byRef[cl.Ref] == t {
					subs[cl.Sub] = true
				}
			}
			if len(subs) != 1 {
				r.violate("subscriber-selection", "count", fmt.Sprintf("payload event of %s reached %d receivers", t, len(subs)))
			}
			r.absorb("deliver", calls, r.hits() > h0)
		case "Begin":
			b := r.c.built[t]
			reached, release := w.gate.arm()
			hc := &heldCall{release: release, done: make(chan error, 1)}
			go func() { hc.done <- w.NR.net.deliver(b.event()) }()
			select {
			case <-reached:
				r.overlap = true
				r.held[t] = hc
				r.deliv[t], r.jobState[t] = true, "busy"
				r.res.Trace = append(r.res.Trace, map[string]any{"ev": "begin", "t": t})
			case err := <-hc.done: // the handler never came to the signature check (the id is taken, ...): an ordinary delivery
				w.gate.disarm()
				if err != nil {
					return err
				}
				r.deliv[t] = true
				r.res.Drift = append(r.res.Drift, fmt.Sprintf("step %d: Begin(%s) did not reach the signature check", i, t))
				r.absorb("deliver", w.NR.net.takeCalls(), false)
			case <-time.After(10 * time.Second):
				return fmt.Errorf("Begin(%s): neither the gate nor the end of the call was reached", t)
			}
		case "Finish":
			hc := r.held[t]
			if hc == nil {
				continue
			}
			delete(r.held, t)
			close(hc.release)
			select {
			case err := <-hc.done:
				if err != nil {
					return err
				}
			case <-time.After(10 * time.Second):
				return fmt.Errorf("Finish(%s): the call does not return", t)
			}
			r.absorb("finish", w.NR.net.takeCalls(), false)
		case "Retry":
			if r.jobState[t] != "retry" {
				continue // the real job is not waiting for a retry (the code answered otherwise than the script assumed)
			}
			if st.flag("f") {
				w.NR.fl.arm(r.shelfOf(t), 1)
			}
			w.NR.net.retry(r.c.built[t].event())
			r.disarm()
			r.absorb("retry", w.NR.net.takeCalls(), r.hits() > h0)
		case "Restart":
			// faults of the replayed deliveries that follow in the script
			for j := i + 1; j < len(sc.Steps) && sc.Steps[j].str("a") == "Replay"; j++ {
				if sc.Steps[j].flag("f") {
					w.NR.fl.arm(r.shelfOf(sc.Steps[j].str("t")), 1)
				}
			}
			w.NR.stop()
			w.NR.start()
			r.res.Trace = append(r.res.Trace, map[string]any{"ev": "restart"})
			if err := w.NR.net.run(); err != nil {
				return err
			}
			r.disarm()
			r.absorb("replay", w.NR.net.takeCalls(), r.hits() > h0)
			for i+1 < len(sc.Steps) && sc.Steps[i+1].str("a") == "Replay" {
				i++
			}
		case "Replay":
			r.res.Drift = append(r.res.Drift, fmt.Sprintf("step %d: Replay outside a restart", i))
			continue
		case "Reprocess":
			b := r.c.built[t]
			err := vcr.VerifReprocessCallback(w.NR.vcr, b.tx, b.payload)
			msg := ""
			if err != nil {
				msg = err.Error()
			}
			if row, isCred := in.Tables.C[t]; isCred && row.Fmt == "jwt" && msg == "" {
				r.blindOK[t] = true
			}
			r.res.Trace = append(r.res.Trace, map[string]any{"ev": "reprocess", "t": t, "res": classifyErr(msg)})
		case "Trust", "Untrust":
			iss := st.str("i")
			var err error
			if a == "Trust" {
				err = w.NR.vcr.Trust(orgType, r.c.iss[iss].id.URI())
			} else {
				err = w.NR.vcr.Untrust(orgType, r.c.iss[iss].id.URI())
			}
			if err != nil {
				return err
			}
			r.trustRef[iss] = a == "Trust"
			r.res.Trace = append(r.res.Trace, map[string]any{"ev": strings.ToLower(a), "i": iss})
		case "LearnKey":
			r.c.learn(st.str("i"))
			r.res.Trace = append(r.res.Trace, map[string]any{"ev": "learnkey", "i": st.str("i")})
		case "CtxUp":
			w.ctx.setUp(r.c.flaky, true)
			r.ctxUp = true
			r.res.Trace = append(r.res.Trace, map[string]any{"ev": "ctxup"})
		default:
			return fmt.Errorf("unknown step %q", a)
		}
		if r.envError != "" {
			return errors.New(r.envError)
		}
		o := r.observe(i == len(sc.Steps)-1)
		r.judge(o)
		if r.envError != "" {
			return errors.New(r.envError)
		}
		ev := o.event()
		if in.Corrupt == "obs-revoked" && len(o.Revoked) > 0 {
			ev["revoked"] = []string{}
		}
		if in.Corrupt == "obs-trusted" && i == len(sc.Steps)-1 {
			ev["trusted"] = append(nonNil(o.Trusted), "I3")
		}
		r.res.Trace = append(r.res.Trace, ev)
	}
	if in.Corrupt == "job" {
		for _, e := range r.res.Trace {
			if e["ev"] == "deliver" && e["job"] == "dead" {
				e["job"] = "retry"
				break
			}
		}
	}
	return nil
}

func runRecv(w *world, in input, sc script) result {
	res := result{ID: sc.ID, Violations: []violation{}, Drift: []string{}}
	r := &run{w: w, in: in, sc: sc, res: &res, trustRef: map[string]bool{}, deliv: map[string]bool{}, jobState: map[string]string{}, lastCls: map[string]string{},
		everRev: map[string]bool{}, everHeld: map[string]string{}, reported: map[string]bool{}, dropped: map[string]string{}, held: map[string]*heldCall{}, blindOK: map[string]bool{}}
	if err := r.exec(); err != nil {
		res.Error = err.Error()
	}
	return res
}

func TestDriver(t *testing.T) {
	logrus.SetOutput(io.Discard)
	inPath, outPath := os.Getenv("VERIF_IN"), os.Getenv("VERIF_OUT")
	if inPath == "" || outPath == "" {
		t.Skip("VERIF_IN / VERIF_OUT not set")
	}
	data, err := os.ReadFile(inPath)
	if err != nil {
		t.Fatal(err)
	}
	var in input
	if err := json.Unmarshal(data, &in); err != nil {
		t.Fatal(err)
	}
	out, err := os.Create(outPath)
	if err != nil {
		t.Fatal(err)
	}
	defer out.Close()
	bw := bufio.NewWriterSize(out, 1<<20)
	defer bw.Flush()
	enc := json.NewEncoder(bw)
	// the storage engine announces itself on stdout: keep the driver's stdout quiet
	devnull, _ := os.OpenFile(os.DevNull, os.O_WRONLY, 0)
	stdout := os.Stdout
	os.Stdout = devnull
	defer func() { os.Stdout = stdout }()
	w := newWorld(t)
	for _, sc := range in.Scripts {
		// watchdog: a script that does not come back (a goroutine of the code under test or of a dependency is stuck)
		// is reported as an error of THIS script; the rest of the shard runs on a fresh world
		done := make(chan result, 1)
		go func(w *world, sc script) {
			if in.Mode == "pub" {
				done <- runPub(w, in, sc)
			} else {
				done <- runRecv(w, in, sc)
			}
		}(w, sc)
		var r result
		select {
		case r = <-done:
		case <-time.After(20 * time.Second):
			buf := make([]byte, 1<<20)
			buf = buf[:runtime.Stack(buf, true)]
			r = result{ID: sc.ID, Violations: []violation{}, Drift: []string{}, Error: "script did not return within 20 s; stuck goroutines:\n" + stuckFrames(string(buf))}
			w = newWorld(t)
		}
		if err := enc.Encode(r); err != nil {
			t.Fatal(err)
		}
		_ = bw.Flush()
	}
}

// stuckFrames keeps the goroutines of the dump that are inside the repository, the driver or go-stoabs.
func stuckFrames(dump string) string {
	var out []string
	for _, g := range strings.Split(dump, "\n\n") {
		if strings.Contains(g, "nuts-node/") || strings.Contains(g, "vclife") || strings.Contains(g, "go-stoabs") {
			lines := strings.Split(g, "\n")
			if len(lines) > 24 {
				lines = lines[:24]
			}
			out = append(out, strings.Join(lines, "\n"))
		}
		if len(out) >= 12 {
			break
		}
	}
	return strings.Join(out, "\n\n")
}

var _ = verifier.ErrNotFound
