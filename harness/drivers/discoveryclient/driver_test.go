// Driver for DiscoveryClient.tla (X05): replays TLC behaviours on the real discovery.Module used as CLIENT (real
// registration manager, real sqlite store, real SQL wallet) against a real discovery.Module used as server, and
// evaluates the X05 statement on the real observables: the presentations handed to the HTTP client, the
// discovery_presentation_refresh / discovery_presentation_error rows, GetServiceActivation, and the two lists.
//
// Time: the code reads time.Now() directly. The clock of the model is realised by SHIFTING every stored absolute time
// (next_refresh, last_occurrence, presentation_expiration) back by the advanced amount; presentation_expiration is
// re-derived from the signed expiry of each presentation after every step, so a row the client copies later carries
// the same shifted value. Boundaries of the model are >= 100 s away from every clock reading of a script.
package discoveryclient

import (
	"bufio"
	"context"
	"encoding/json"
	"errors"
	"fmt"
	"io"
	"os"
	"sort"
	"strings"
	"sync"
	"sync/atomic"
	"testing"
	"time"

	ssi "github.com/nuts-foundation/go-did"
	"github.com/nuts-foundation/go-did/did"
	"github.com/nuts-foundation/go-did/vc"
	"github.com/nuts-foundation/nuts-node/audit"
	"github.com/nuts-foundation/nuts-node/discovery"
	"github.com/nuts-foundation/nuts-node/vdr/didsubject"
	"github.com/sirupsen/logrus"

	"verifharness/gate"
)

type step map[string]any

func (s step) str(k string) string {
	v, _ := s[k].(string)
	return v
}

type script struct {
	ID    string `json:"id"`
	Steps []step `json:"steps"`
	Order string `json:"order,omitempty"` // "desc": ListDIDs answers in reverse order
}

type input struct {
	Scripts  []script `json:"scripts"`
	Workers  int      `json:"workers"`
	Probes   bool     `json:"probes"`             // run the timing-formula probe and the background-loop probe once
	Sabotage string   `json:"sabotage,omitempty"` // defect INTO THE HARNESS ADAPTER (self-test of the oracles)
}

type violation struct {
	Prop   string `json:"prop"`
	Kind   string `json:"kind"`
	Site   string `json:"site"`
	Detail string `json:"detail"`
	Step   int    `json:"step"`
}

type result struct {
	ID         string           `json:"id"`
	Violations []violation      `json:"violations"`
	Drift      []string         `json:"drift"`
	Error      string           `json:"error,omitempty"`
	Trace      []map[string]any `json:"trace"`
	Checks     int              `json:"checks"`
	Sent       int              `json:"sent"`
	Accepted   int              `json:"accepted"`
	Retracts   int              `json:"retractions"`
	Rounds     int              `json:"rounds"`
	MidLoop    int              `json:"mid_loop_api_calls"`
	Timely     bool             `json:"timely"`
	Blocked    bool             `json:"blocked,omitempty"` // an API call waited for the running round: the script was cut short
	Probe      []map[string]any `json:"probe,omitempty"`
	WallMs     int64            `json:"wall_ms"`
}

const failCap = 3 // Cap of the model

func slack(svc string) int {
	v := validity[svc]
	s := ((v - 1) - (v*45)/100) / tickLen
	if s > failCap {
		s = failCap
	}
	return s
}

// ---------------------------------------------------------------------------------------------- observation

type rowInfo struct {
	Next int64
	Par  string
	Auth string
}

type entry struct {
	JTI string
	Exp int64 // shifted
	Ret bool
	Raw string
}

type actInfo struct {
	Activated bool
	VPs       []string
	Err       string // RegistrationRefreshError text
	CallErr   string // any other error
}

type obs struct {
	now  int64
	rows map[string]rowInfo
	errs map[string]string
	act  map[string]actInfo
	srv  map[string]entry // "svc/d" -> latest entry of that signer on the server
	loc  map[string]entry // ... in the client's copy
}

func ckey(svc, s string) string { return svc + "/" + s }

type cand struct{ svc, s string }

type run struct {
	l     *lab
	in    *input
	res   *result
	ctx   context.Context
	sched *gate.Sched
	t0    time.Time
	shift int64
	// environment as scripted
	gone     map[string]bool
	dead     map[string]bool
	hasCred  map[string]bool   // d -> the member credential is in the wallet
	credRaw  map[string]string // d -> JWT of the member credential
	credID   map[string]string
	otherRaw map[string]string
	issueAt  map[string]int64 // jti -> shift at the time the presentation was made
	stepNo   int
	// loop
	loopActive bool
	loopStart  int
	loopNow    time.Time
	cands      []cand
	candIdx    int
	loopErr    atomic.Pointer[string]
	// bookkeeping of the reference oracle (fed by real observations only)
	deact        map[string]int    // c -> step of the Deactivate call
	apiActAt     map[string]int    // c -> step of the last successful API activation
	lastPar      map[string]string // c -> parameters of the last successful API activation
	pendingRetry map[string]bool
	retrySite    map[string]string
	raceTaint    map[string]string // c -> site of the first detected consequence of a stale candidate (later ones follow from it)
	parTaint     map[string]string
	fails        map[string]int
	lastFailKind map[string]string
	timely       bool
	roundDone    bool
	lapsed       map[string]bool
}

func (r *run) viol(kind, site, detail string) {
	for _, v := range r.res.Violations {
		if v.Kind == kind && v.Site == site {
			return
		}
	}
	r.res.Violations = append(r.res.Violations, violation{Prop: "X05", Kind: kind, Site: site, Detail: detail, Step: r.stepNo})
}

func (r *run) drift(f string, a ...any) {
	if len(r.res.Drift) < 20 {
		r.res.Drift = append(r.res.Drift, fmt.Sprintf("step %d: ", r.stepNo)+fmt.Sprintf(f, a...))
	}
}

func (r *run) svcOf(id string) string {
	for s, x := range serviceIDs {
		if x == id {
			return s
		}
	}
	return ""
}

func paramOf(raw []byte) (string, string) {
	if len(raw) == 0 {
		return "", ""
	}
	var m map[string]any
	if json.Unmarshal(raw, &m) != nil {
		return "?", ""
	}
	p, _ := m[paramField].(string)
	a, _ := m["authServerURL"].(string)
	return p, a
}

func (r *run) presentationRows(n *node) (map[string]entry, error) {
	rows, err := n.db.Raw("SELECT service_id, credential_subject_id, presentation_id, presentation_raw, presentation_expiration, lamport_timestamp FROM discovery_presentation ORDER BY lamport_timestamp").Rows()
	if err != nil {
		return nil, err
	}
	defer rows.Close()
	out := map[string]entry{}
	for rows.Next() {
		var sid, signer, jti, raw string
		var exp int64
		var ts int
		if err = rows.Scan(&sid, &signer, &jti, &raw, &exp, &ts); err != nil {
			return nil, err
		}
		svc, d := r.svcOf(sid), r.l.ppl.byDID[signer]
		if svc == "" || d == "" {
			continue
		}
		e := entry{JTI: jti, Exp: exp, Raw: raw}
		if vp, err := parseSent(raw); err == nil {
			e.Ret = vp.Retraction
		}
		out[svc+"/"+d] = e // one row per signer and service (the store deletes the previous one)
	}
	return out, rows.Err()
}

func (r *run) observe() (*obs, error) {
	o := &obs{now: time.Now().Unix(), rows: map[string]rowInfo{}, errs: map[string]string{}, act: map[string]actInfo{}}
	cli := r.l.cli
	rows, err := cli.db.Raw("SELECT service_id, subject_id, next_refresh, parameters FROM discovery_presentation_refresh").Rows()
	if err != nil {
		return nil, err
	}
	for rows.Next() {
		var sid, sub string
		var next int64
		var par []byte
		if err = rows.Scan(&sid, &sub, &next, &par); err != nil {
			rows.Close()
			return nil, err
		}
		if svc := r.svcOf(sid); svc != "" {
			p, a := paramOf(par)
			o.rows[ckey(svc, sub)] = rowInfo{Next: next, Par: p, Auth: a}
		}
	}
	rows.Close()
	rows, err = cli.db.Raw("SELECT service_id, subject_id, error FROM discovery_presentation_error").Rows()
	if err != nil {
		return nil, err
	}
	for rows.Next() {
		var sid, sub string
		var e *string
		if err = rows.Scan(&sid, &sub, &e); err != nil {
			rows.Close()
			return nil, err
		}
		if svc := r.svcOf(sid); svc != "" {
			txt := "-"
			if e != nil && *e != "" {
				txt = *e
			}
			o.errs[ckey(svc, sub)] = txt
		}
	}
	rows.Close()
	for _, svc := range modelServices {
		for _, s := range subjectNames {
			activated, vps, err := cli.module.GetServiceActivation(r.ctx, serviceIDs[svc], s)
			ai := actInfo{Activated: activated}
			for _, vp := range vps {
				if vp.ID != nil {
					ai.VPs = append(ai.VPs, vp.ID.String())
				}
			}
			sort.Strings(ai.VPs)
			if err != nil {
				var rre discovery.RegistrationRefreshError
				if errors.As(err, &rre) {
					ai.Err = err.Error()
				} else {
					ai.CallErr = err.Error()
				}
			}
			o.act[ckey(svc, s)] = ai
		}
	}
	if o.srv, err = r.presentationRows(r.l.srv); err != nil {
		return nil, err
	}
	if o.loc, err = r.presentationRows(r.l.cli); err != nil {
		return nil, err
	}
	return o, nil
}

func (e entry) liveReg(now int64) bool { return e.JTI != "" && !e.Ret && e.Exp > now }

// normalise re-derives presentation_expiration of every stored presentation from its signed expiry and the clock shift.
func (r *run) normalise() error {
	for _, n := range []*node{r.l.srv, r.l.cli} {
		type row struct {
			id  string
			exp int64
			jti string
			raw string
		}
		var all []row
		rows, err := n.db.Raw("SELECT id, presentation_id, presentation_raw, presentation_expiration FROM discovery_presentation").Rows()
		if err != nil {
			return err
		}
		for rows.Next() {
			var x row
			if err = rows.Scan(&x.id, &x.jti, &x.raw, &x.exp); err != nil {
				rows.Close()
				return err
			}
			all = append(all, x)
		}
		rows.Close()
		for _, x := range all {
			j, err := splitJWT(x.raw)
			if err != nil {
				continue
			}
			signed, ok := num(j.claims["exp"])
			if !ok {
				continue
			}
			at, known := r.issueAt[x.jti]
			if !known {
				at = r.shift
				r.issueAt[x.jti] = at
			}
			want := signed - (r.shift - at)
			if want != x.exp {
				if err := n.db.Exec("UPDATE discovery_presentation SET presentation_expiration = ? WHERE id = ?", want, x.id).Error; err != nil {
					return err
				}
			}
		}
	}
	return nil
}

func (r *run) noteIssued(calls []call) {
	for _, c := range calls {
		if c.VP != nil && c.VP.JTI != "" {
			if _, ok := r.issueAt[c.VP.JTI]; !ok {
				r.issueAt[c.VP.JTI] = r.shift
			}
		}
	}
}

// ---------------------------------------------------------------------------------------------- oracles

func sortedKeys[V any](m map[string]V, keep func(string, V) bool) []string {
	out := []string{}
	for k, v := range m {
		if keep == nil || keep(k, v) {
			out = append(out, k)
		}
	}
	sort.Strings(out)
	return out
}

// logEvent appends one trace event with the projected real state.
func (r *run) logEvent(ev string, kv map[string]any, o *obs, msgs []call) {
	kv["ev"] = ev
	if o != nil {
		kv["act"] = sortedKeys(o.rows, nil)
		kv["errs"] = sortedKeys(o.errs, nil)
		kv["due"] = sortedKeys(o.rows, func(_ string, v rowInfo) bool { return v.Next < o.now })
		kv["srv"] = sortedKeys(o.srv, func(_ string, e entry) bool { return e.liveReg(o.now) })
		kv["loc"] = sortedKeys(o.loc, func(_ string, e entry) bool { return e.liveReg(o.now) })
		pars := []string{}
		for _, k := range sortedKeys(o.rows, nil) {
			pars = append(pars, k+"="+o.rows[k].Par)
		}
		kv["pars"] = pars
	}
	sent := []string{}
	for _, c := range msgs {
		kind := "reg"
		if c.VP.Retraction {
			kind = "ret"
		}
		ok := "rejected"
		if c.OK {
			ok = "accepted"
		}
		sent = append(sent, c.Svc+"/"+r.l.ppl.byDID[c.VP.Signer]+"/"+kind+"/"+ok)
	}
	sort.Strings(sent)
	kv["sent"] = sent
	r.res.Trace = append(r.res.Trace, kv)
}

// regCalls returns the registration attempts of the step made for (svc, subject).
func (r *run) regCalls(msgs []call, svc, s string) (attempts []call, accepted int) {
	for _, c := range msgs {
		if c.Svc == svc && !c.VP.Retraction && ownerOf[r.l.ppl.byDID[c.VP.Signer]] == s {
			attempts = append(attempts, c)
			if c.OK {
				accepted++
			}
		}
	}
	return
}

// checkCredentials: a registration carries only credentials of its signer that the definition asks for (the member
// credential the harness put into THAT DID's wallet and the self-attested registration credential with the
// parameters); a retraction carries none.
func (r *run) checkCredentials(msgs []call, expectPar func(c call) (string, bool)) {
	for _, c := range msgs {
		r.res.Checks++
		r.res.Sent++
		if c.OK {
			r.res.Accepted++
		}
		if c.ParseErr != "" {
			r.viol("unreadable-presentation", "register", "the presentation handed to the HTTP client cannot be read: "+c.ParseErr)
			continue
		}
		d := r.l.ppl.byDID[c.VP.Signer]
		if d == "" {
			r.viol("foreign-signer", "register", "presentation signed by a DID that belongs to no subject of this node: "+c.VP.Signer)
			continue
		}
		if want := serviceIDs[c.Svc]; want != "" && !contains(c.VP.Aud, want) {
			r.viol("wrong-audience", "register", fmt.Sprintf("presentation sent to service %s is addressed to %v", c.Svc, c.VP.Aud))
		}
		if c.VP.Retraction {
			r.res.Retracts++
			if len(c.VP.Creds) > 0 {
				r.viol("retraction-with-credentials", "deregister", fmt.Sprintf("retraction of %s carries %d credentials", d, len(c.VP.Creds)))
			}
			continue
		}
		for _, cr := range c.VP.Creds {
			switch {
			case cr.Raw != "":
				if cr.Subject != c.VP.Signer {
					r.viol("foreign-credential", "register", fmt.Sprintf("presentation of %s carries a credential issued to %s", d, r.l.ppl.byDID[cr.Subject]))
				} else if !contains(cr.Types, credentialType) || cr.Issuer != r.l.ppl.authority.did {
					r.viol("non-matching-credential", "register", fmt.Sprintf("presentation of %s carries a credential of type %v the definition does not ask for", d, cr.Types))
				} else if cr.Raw != r.credRaw[d] || !r.hasCred[d] {
					r.viol("foreign-credential", "register", fmt.Sprintf("presentation of %s carries a member credential that is not in its wallet", d))
				}
			case contains(cr.Types, registrationType):
				if cr.Issuer != c.VP.Signer || cr.Subject != c.VP.Signer {
					r.viol("foreign-credential", "register", fmt.Sprintf("registration credential of %s names issuer %s / subject %s", d, cr.Issuer, cr.Subject))
				}
				got, _ := cr.Fields[paramField].(string)
				auth, _ := cr.Fields["authServerURL"].(string)
				if !strings.HasSuffix(auth, "/oauth2/"+ownerOf[d]) {
					r.viol("wrong-parameters", "register", fmt.Sprintf("registration credential of %s has authServerURL %q", d, auth))
				}
				if want, check := expectPar(c); check && c.OK && got != want {
					site := "other"
					cc := ckey(c.Svc, ownerOf[d])
					if c.Actor != "" && r.activatedSince(cc) {
						site = "refresh-in-flight"
					}
					if t, ok := r.parTaint[cc]; ok && c.Actor != "" {
						site = t // the stored parameters were overwritten by an earlier round that raced with the activation
					}
					r.parTaint[cc] = site
					r.viol("stale-parameters", site, fmt.Sprintf("registration of %s on %s carries parameters %q, the subject was last activated with %q", d, c.Svc, got, want))
				}
			default:
				r.viol("non-matching-credential", "register", fmt.Sprintf("presentation of %s carries a credential of type %v", d, cr.Types))
			}
		}
	}
}

// eligibleWithCreds: DIDs of the subject with a supported method, not deactivated, holding the member credential.
func (r *run) eligibleWithCreds(svc, s string) []string {
	var out []string
	for _, d := range didsOfSubject(s) {
		if methodOK(svc, d) && !r.dead[d] && r.hasCred[d] {
			out = append(out, d)
		}
	}
	return out
}

func (r *run) checkAllAttempted(svc, s string, attempts []call, what string) {
	r.res.Checks++
	for _, d := range r.eligibleWithCreds(svc, s) {
		found := false
		for _, c := range attempts {
			if r.l.ppl.byDID[c.VP.Signer] == d {
				found = true
			}
		}
		if !found {
			site := "no-attempt-at-all"
			if len(attempts) > 0 {
				site = "after-other-did"
				for _, c := range attempts {
					if !c.OK {
						site = "after-failed-did"
					}
				}
			}
			r.viol("eligible-did-not-attempted", site, fmt.Sprintf("%s of %s/%s: no registration was attempted for %s (eligible, holds the credential); attempts: %d", what, svc, s, d, len(attempts)))
		}
	}
}

// checkTiming: when the step (re)scheduled the refresh together with accepted registrations, next_refresh is strictly
// before the expiry of every one of them (both as the code stored / signed them).
func (r *run) checkTiming(c string, before, after *obs, attempts []call) {
	row, ok := after.rows[c]
	if !ok {
		return
	}
	if old, had := before.rows[c]; had && old.Next == row.Next {
		return
	}
	for _, a := range attempts {
		if !a.OK {
			continue
		}
		r.res.Checks++
		exp := a.VP.Exp - (r.shift - r.issueAt[a.VP.JTI])
		if !(row.Next < exp) {
			r.viol("refresh-not-before-expiry", "schedule", fmt.Sprintf("%s: next_refresh %d is not before the expiry %d of the registration made in the same activation (validity %d s)",
				c, row.Next, exp, validity[strings.Split(c, "/")[0]]))
		}
	}
}

func (r *run) checkIndependent(c string, before, after *obs) {
	r.res.Checks++
	for k, b := range before.rows {
		if k == c {
			continue
		}
		if a, ok := after.rows[k]; !ok || a != b {
			r.viol("unrelated-record-changed", "store", fmt.Sprintf("a step for %s changed the refresh record of %s (%v -> %v)", c, k, b, after.rows[k]))
		}
		if before.errs[k] != after.errs[k] {
			r.viol("unrelated-record-changed", "store", fmt.Sprintf("a step for %s changed the error row of %s", c, k))
		}
	}
	for k := range after.rows {
		if _, ok := before.rows[k]; !ok && k != c {
			r.viol("unrelated-record-changed", "store", fmt.Sprintf("a step for %s created a refresh record for %s", c, k))
		}
	}
}

func (r *run) updateFails(svc, s string, attempts []call, outcome string) {
	for _, d := range didsOfSubject(s) {
		k := svc + "/" + d
		var mine *call
		for i := range attempts {
			if r.l.ppl.byDID[attempts[i].VP.Signer] == d {
				mine = &attempts[i]
			}
		}
		switch {
		case mine != nil && mine.OK:
			r.fails[k] = 0
			delete(r.lapsed, k)
		case mine != nil:
			if r.fails[k] < failCap {
				r.fails[k]++
			}
			r.lastFailKind[k] = outcome
		default:
			r.fails[k] = failCap
		}
	}
}

// checkLapse (only while a complete refresh round ran in every clock slot): a registration of an activated subject
// does not expire before slack(svc) consecutive renewal attempts failed.
func (r *run) checkLapse(o *obs) {
	if !r.timely {
		return
	}
	for k, e := range o.srv {
		parts := strings.Split(k, "/")
		svc, d := parts[0], parts[1]
		c := ckey(svc, ownerOf[d])
		if _, on := o.rows[c]; !on || e.Ret || e.Exp > o.now || r.lapsed[k] {
			continue
		}
		if _, de := r.deact[c]; de {
			continue
		}
		r.res.Checks++
		f, known := r.fails[k]
		if !known {
			f = failCap
		}
		if f < slack(svc) {
			r.lapsed[k] = true
			site := "other"
			if r.lastFailKind[k] == "partial" {
				site = "partial-failure-reschedule"
			}
			r.viol("registration-lapsed", site, fmt.Sprintf("the registration of %s on %s expired although the subject is activated, a refresh round ran in every slot and only %d renewal attempt(s) failed (the schedule allows %d)", d, svc, f, slack(svc)))
		}
	}
}

// ------------------------------------------------------------------------------------------ steps

func (r *run) apiStepBegin() (*obs, int, error) {
	before, err := r.observe()
	if err != nil {
		return nil, 0, err
	}
	if r.loopActive {
		r.res.MidLoop++
	}
	return before, r.l.ad.mark(), nil
}

func (r *run) stepEnd(mark int) (*obs, []call, error) {
	msgs := r.l.ad.since(mark)
	r.noteIssued(msgs)
	if err := r.normalise(); err != nil {
		return nil, nil, err
	}
	after, err := r.observe()
	return after, msgs, err
}

var errBlocked = errors.New("the API call waits for the running refresh round")

// callAPI runs an API call. While a refresh round is parked at a gate the call runs on its own goroutine: a repaired
// implementation may serialise API calls and the loop body, in which case the call cannot return before the round goes on.
// Then the round is released, the call is awaited and errBlocked tells the caller to stop evaluating this script
// (the scripted interleaving does not exist in that implementation).
func (r *run) callAPI(fn func() error) error {
	if !r.loopActive {
		return fn()
	}
	done := make(chan error, 1)
	go func() { done <- fn() }()
	select {
	case err := <-done:
		return err
	case <-time.After(4 * time.Second):
	}
	for i := 0; i < 32; i++ {
		at := r.sched.Where("loop")
		if at == "done" {
			break
		}
		if at == "" {
			time.Sleep(5 * time.Millisecond)
			continue
		}
		if _, err := r.sched.Step("loop", at, "go"); err != nil {
			return err
		}
		if _, err := r.await(); err != nil {
			return err
		}
	}
	r.loopActive = false
	select {
	case <-done:
		return errBlocked
	case <-time.After(r.sched.GiveUp):
		return fmt.Errorf("the API call does not return")
	}
}

func (r *run) doActivate(st step) error {
	svc, s, p := st.str("svc"), st.str("s"), st.str("p")
	c := ckey(svc, s)
	before, mark, err := r.apiStepBegin()
	if err != nil {
		return err
	}
	delete(r.deact, c)
	delete(r.raceTaint, c)
	var apiErr error
	if err := r.callAPI(func() error {
		apiErr = r.l.cli.module.ActivateServiceForSubject(r.ctx, serviceIDs[svc], s, map[string]interface{}{paramField: p})
		return nil
	}); err != nil {
		return err
	}
	after, msgs, err := r.stepEnd(mark)
	if err != nil {
		return err
	}
	attempts, accepted := r.regCalls(msgs, svc, s)
	res := "ok"
	switch {
	case apiErr == nil && accepted < len(attempts):
		res = "partial"
	case apiErr == nil:
	case errors.Is(apiErr, didsubject.ErrSubjectNotFound):
		res = "notfound"
	case errors.Is(apiErr, discovery.ErrNoSupportedDIDMethods):
		res = "nomethod"
	case errors.Is(apiErr, discovery.ErrPresentationRegistrationFailed):
		res = "failed"
	default:
		res = "error"
		r.drift("ActivateServiceForSubject(%s) failed with an unexpected error: %v", c, apiErr)
	}
	if apiErr == nil {
		r.lastPar[c] = p
		r.apiActAt[c] = r.stepNo
		r.pendingRetry[c] = false
		delete(r.parTaint, c)
	}
	r.checkCredentials(msgs, func(call) (string, bool) { return p, true })
	if res != "notfound" && res != "nomethod" && res != "error" {
		r.checkAllAttempted(svc, s, attempts, "ActivateServiceForSubject")
		r.updateFails(svc, s, attempts, res)
	}
	r.checkTiming(c, before, after, attempts)
	r.checkIndependent(c, before, after)
	r.res.Checks++
	if (apiErr == nil) != (accepted > 0) {
		r.drift("ActivateServiceForSubject(%s) returned %v although %d of %d registrations were accepted", c, apiErr, accepted, len(attempts))
	}
	if apiErr == nil {
		if !after.act[c].Activated {
			r.viol("not-activated-after-activate", "activate", fmt.Sprintf("ActivateServiceForSubject(%s) succeeded but GetServiceActivation says not activated (%s)", c, after.act[c].CallErr))
		}
		if res == "ok" && after.act[c].Err != "" {
			r.viol("stale-error-after-success", "activate", fmt.Sprintf("%s: every registration succeeded but GetServiceActivation still reports %q", c, after.act[c].Err))
		}
		if res == "partial" && after.act[c].Err == "" {
			r.viol("partial-failure-not-visible", "activate", fmt.Sprintf("%s: the registration of %d DID(s) was refused, ActivateServiceForSubject returned success and GetServiceActivation reports no error", c, len(attempts)-accepted))
		}
		if row, ok := after.rows[c]; ok && row.Par != p {
			r.viol("stale-parameters", "other", fmt.Sprintf("%s activated with parameters %q, the stored record says %q", c, p, row.Par))
		}
	}
	if want := st.str("res"); want != "" && want != res {
		r.drift("Activate(%s): the model says %s, the code did %s (%v)", c, want, res, apiErr)
	}
	r.checkLapse(after)
	r.logEvent("activate", map[string]any{"svc": svc, "s": s, "p": p, "res": res}, after, msgs)
	return nil
}

func (r *run) doDeactivate(st step) error {
	svc, s := st.str("svc"), st.str("s")
	c := ckey(svc, s)
	before, mark, err := r.apiStepBegin()
	if err != nil {
		return err
	}
	var apiErr error
	if err := r.callAPI(func() error {
		apiErr = r.l.cli.module.DeactivateServiceForSubject(r.ctx, serviceIDs[svc], s)
		return nil
	}); err != nil {
		return err
	}
	after, msgs, err := r.stepEnd(mark)
	if err != nil {
		return err
	}
	res := "ok"
	switch {
	case apiErr == nil:
	case errors.Is(apiErr, didsubject.ErrSubjectNotFound):
		res = "notfound"
	case errors.Is(apiErr, discovery.ErrPresentationRegistrationFailed):
		res = "incomplete"
	default:
		res = "error"
		r.drift("DeactivateServiceForSubject(%s) failed with an unexpected error: %v", c, apiErr)
	}
	r.checkCredentials(msgs, func(call) (string, bool) { return "", false })
	if res == "ok" || res == "incomplete" {
		r.deact[c] = r.stepNo
		r.pendingRetry[c] = false
		for _, d := range didsOfSubject(s) {
			r.fails[svc+"/"+d] = failCap
		}
		r.res.Checks++
		if after.act[c].Activated {
			r.viol("still-activated-after-deactivate", "deactivate", fmt.Sprintf("DeactivateServiceForSubject(%s) returned %v but GetServiceActivation still says activated", c, apiErr))
		}
		// a retraction for every DID that has a live registration on the server which the client's copy of the list knows of
		for _, d := range didsOfSubject(s) {
			if !methodOK(svc, d) {
				continue
			}
			e := before.loc[svc+"/"+d]
			if !e.liveReg(before.now) || !before.srv[svc+"/"+d].liveReg(before.now) {
				// nothing known to retract, or the copy is stale and the registration is gone from the server already
				continue
			}
			r.res.Checks++
			found := false
			for _, m := range msgs {
				// naming the registration: the one in the copy, or the one the server lists now (an implementation may
				// fetch the list before it retracts)
				if m.Svc == svc && m.VP.Retraction && m.VP.Signer == r.l.ppl.dids[d].did &&
					(m.VP.RetractJTI == e.JTI || (m.VP.RetractJTI != "" && m.VP.RetractJTI == before.srv[svc+"/"+d].JTI)) {
					found = true
				}
			}
			if !found {
				r.viol("live-registration-not-retracted", "deactivate", fmt.Sprintf("Deactivate(%s): the client's copy of the list holds a live registration of %s but no retraction naming it was sent", c, d))
			}
		}
		for _, m := range msgs {
			if !m.VP.Retraction {
				r.viol("registration-after-deactivate", "inside-deactivate", fmt.Sprintf("Deactivate(%s) sent a registration", c))
			}
		}
		if apiErr == nil {
			for _, d := range didsOfSubject(s) {
				r.res.Checks++
				if e := after.srv[svc+"/"+d]; e.liveReg(after.now) {
					site := "other"
					if l := before.loc[svc+"/"+d]; !l.liveReg(before.now) || l.JTI != e.JTI {
						site = "local-copy-behind"
					}
					r.viol("deactivate-ok-but-still-listed", site, fmt.Sprintf("DeactivateServiceForSubject(%s) returned success but the server still lists a live registration of %s", c, d))
				}
			}
		}
		r.checkIndependent(c, before, after)
	}
	if want := st.str("res"); want != "" && want != res {
		r.drift("Deactivate(%s): the model says %s, the code did %s (%v)", c, want, res, apiErr)
	}
	r.checkLapse(after)
	r.logEvent("deactivate", map[string]any{"svc": svc, "s": s, "res": res}, after, msgs)
	return nil
}

func (r *run) await() (string, error) {
	at, ok := r.sched.Await("loop", r.sched.GiveUp)
	if !ok {
		return "", fmt.Errorf("the refresh loop does not reach a gate")
	}
	return at, nil
}

// dueCandidates reads what getSubjectsToBeRefreshed reads, with the same statement shape (so in the same order).
func (r *run) dueCandidates(now time.Time) ([]cand, error) {
	rows, err := r.l.cli.db.Raw("SELECT * FROM discovery_presentation_refresh WHERE next_refresh < ?", now.Unix()).Rows()
	if err != nil {
		return nil, err
	}
	defer rows.Close()
	var out []cand
	for rows.Next() {
		m := map[string]any{}
		if err := r.l.cli.db.ScanRows(rows, &m); err != nil {
			return nil, err
		}
		sid, _ := m["service_id"].(string)
		sub, _ := m["subject_id"].(string)
		out = append(out, cand{svc: r.svcOf(sid), s: sub})
	}
	return out, rows.Err()
}

func (r *run) doRefreshStart() error {
	if r.loopActive {
		return fmt.Errorf("RefreshStart while a round is running")
	}
	before, err := r.observe()
	if err != nil {
		return err
	}
	now := time.Now()
	m := r.l.cli.module
	r.loopErr.Store(nil)
	r.sched.Go("loop", func(ctx context.Context) {
		ctx = audit.Context(ctx, "app", discovery.ModuleName, "RefreshDiscoveryClient")
		// the body of Module.update()'s do(), one call at a time
		if err := m.VerifRefreshRegistrations(ctx, now); err != nil {
			msg := err.Error()
			r.loopErr.Store(&msg)
		}
		if r.sched.At("loop", "sync") == "dead" {
			return
		}
		_ = m.VerifUpdate(ctx)
		_ = m.VerifValidate()
		_ = m.VerifRemoveRevoked()
	})
	if _, err := r.sched.Step("loop", "start", "go"); err != nil {
		return err
	}
	at, err := r.await()
	if err != nil {
		return err
	}
	r.loopActive, r.loopStart, r.loopNow, r.candIdx = true, r.stepNo, now, 0
	if r.cands, err = r.dueCandidates(now); err != nil {
		return err
	}
	r.res.Rounds++
	// a failed refresh is retried by the next round
	for c, pending := range r.pendingRetry {
		if !pending {
			continue
		}
		if _, on := before.rows[c]; !on {
			continue
		}
		r.res.Checks++
		found := false
		for _, x := range r.cands {
			if ckey(x.svc, x.s) == c {
				found = true
			}
		}
		if !found {
			r.viol("failed-refresh-not-retried", r.retrySite[c], fmt.Sprintf("the last refresh of %s failed, the subject is still activated, but the next round does not consider it (next_refresh %d, now %d)", c, before.rows[c].Next, now.Unix()))
		}
	}
	if len(r.cands) == 0 && at != "sync" {
		r.drift("no candidate is due but the loop stopped at %q", at)
	}
	names := []string{}
	for _, x := range r.cands {
		names = append(names, ckey(x.svc, x.s))
	}
	sort.Strings(names)
	r.logEvent("refresh.start", map[string]any{"cands": names}, before, nil)
	return nil
}

func (r *run) doRefreshOne(st step) error {
	if !r.loopActive {
		return fmt.Errorf("RefreshOne without a running round")
	}
	at := r.sched.Where("loop")
	if !strings.HasPrefix(at, "cand:") {
		// the code did not come to a further candidate (e.g. a repaired loop skipped it): nothing to release
		// (usually: the real loop took the candidates in another order than the behaviour, at another clock reading)
		r.drift("order: RefreshOne(%s/%s): the loop is at %q, not before a candidate", st.str("svc"), st.str("s"), at)
		return nil
	}
	if r.candIdx >= len(r.cands) {
		return fmt.Errorf("the loop asks for a candidate the driver did not predict (at %s)", at)
	}
	cd := r.cands[r.candIdx]
	r.candIdx++
	if "cand:"+cd.s != at {
		return fmt.Errorf("candidate order: predicted %s/%s, the loop is at %s", cd.svc, cd.s, at)
	}
	svc, s := cd.svc, cd.s
	c := ckey(svc, s)
	before, err := r.observe()
	if err != nil {
		return err
	}
	mark := r.l.ad.mark()
	if _, err := r.sched.Step("loop", at, "go"); err != nil {
		return err
	}
	if _, err := r.await(); err != nil {
		return err
	}
	after, msgs, err := r.stepEnd(mark)
	if err != nil {
		return err
	}
	attempts, accepted := r.regCalls(msgs, svc, s)
	rowB, hadRow := before.rows[c]
	rowA, hasRow := after.rows[c]
	dueBefore := hadRow && rowB.Next < r.loopNow.Unix()
	// the outcome class of the loop body, from what the code did (and, where nothing at all was done, from what the
	// scripted environment makes possible)
	res := "ok"
	switch {
	case len(attempts) == 0 && !hasRow && (r.gone[s] || len(r.eligibleDIDs(svc, s)) == 0):
		res = "removed"
	case len(attempts) == 0 && len(r.eligibleWithCreds(svc, s)) == 0:
		res = "failed" // no credentials
	case len(attempts) == 0 && (!hadRow || !dueBefore) && rowA == rowB && before.errs[c] == after.errs[c]:
		res = "skipped"
	case accepted == 0:
		res = "failed"
	case accepted < len(attempts):
		res = "partial"
	}
	_, deactivated := r.deact[c]
	site := "other"
	if deactivated && r.deact[c] > r.loopStart {
		site = "refresh-in-flight"
	}
	if t, ok := r.raceTaint[c]; ok && deactivated {
		site = t // the record this round works on was re-created by an earlier round that raced with the Deactivate call
	}
	if deactivated && (len(attempts) > 0 || hasRow) {
		r.raceTaint[c] = site
	}
	if deactivated {
		r.res.Checks++
		if len(attempts) > 0 {
			r.viol("registration-after-deactivate", site, fmt.Sprintf("%s was deactivated at step %d; the refresh round (started at step %d) nevertheless sent %d registration(s) for it", c, r.deact[c], r.loopStart, len(attempts)))
		}
		if hasRow {
			r.viol("reactivated-without-activate", site, fmt.Sprintf("%s was deactivated at step %d; the refresh round (started at step %d) re-created its refresh record", c, r.deact[c], r.loopStart))
		}
	}
	r.checkCredentials(msgs, func(call) (string, bool) { return r.lastPar[c], !deactivated })
	if !deactivated && hasRow && accepted > 0 && rowA.Par != r.lastPar[c] {
		psite := "other"
		if r.activatedSince(c) {
			psite = "refresh-in-flight"
		}
		if t, ok := r.parTaint[c]; ok {
			psite = t
		}
		r.parTaint[c] = psite
		r.viol("stale-parameters", psite, fmt.Sprintf("%s was last activated with parameters %q; after the refresh the stored record says %q", c, r.lastPar[c], rowA.Par))
	}
	if res != "removed" && res != "skipped" {
		if hadRow && dueBefore && !r.gone[s] {
			r.checkAllAttempted(svc, s, attempts, "refresh")
		}
		r.updateFails(svc, s, attempts, res)
	}
	if res == "removed" {
		for _, d := range didsOfSubject(s) {
			r.fails[svc+"/"+d] = failCap
		}
		r.pendingRetry[c] = false
	}
	r.res.Checks++
	if _, de := r.deact[c]; hadRow && !hasRow && !de && !r.gone[s] && len(r.eligibleDIDs(svc, s)) > 0 {
		r.viol("activation-removed", "refresh", fmt.Sprintf("the refresh removed the activation of %s although the subject exists and has a DID the service supports", c))
	}
	r.checkTiming(c, before, after, attempts)
	r.checkIndependent(c, before, after)
	if hasRow && !deactivated {
		r.res.Checks++
		switch res {
		case "failed":
			r.pendingRetry[c] = true
			r.retrySite[c] = "refresh"
			if r.activatedSince(c) {
				// the candidate was read before an API activation rescheduled the subject
				r.retrySite[c] = "refresh-in-flight"
			}
			if after.act[c].Err == "" {
				r.viol("failed-refresh-not-visible", "refresh", fmt.Sprintf("the refresh of %s failed (%d attempts, none accepted) but GetServiceActivation reports no error", c, len(attempts)))
			}
		case "partial":
			r.pendingRetry[c] = false
			if after.act[c].Err == "" {
				r.viol("partial-failure-not-visible", "refresh", fmt.Sprintf("the refresh of %s: %d of %d registrations were refused but GetServiceActivation reports no error", c, len(attempts)-accepted, len(attempts)))
			}
		case "ok":
			r.pendingRetry[c] = false
			if after.act[c].Err != "" {
				r.viol("stale-error-after-success", "refresh", fmt.Sprintf("%s: every registration succeeded but GetServiceActivation still reports %q", c, after.act[c].Err))
			}
		}
	}
	if want := st.str("res"); want != "" && (st.str("svc") == svc && st.str("s") == s) {
		w := want
		if w == "nomethod" || w == "notfound" {
			w = "removed"
		}
		if w != res {
			r.drift("RefreshOne(%s): the model says %s, the code did %s", c, want, res)
		}
	}
	r.checkLapse(after)
	r.logEvent("refresh.one", map[string]any{"svc": svc, "s": s, "res": res}, after, msgs)
	return nil
}

// activatedSince: an API activation of c succeeded after the running refresh round read its candidates.
func (r *run) activatedSince(c string) bool {
	at, ok := r.apiActAt[c]
	return ok && at > r.loopStart
}

func (r *run) eligibleDIDs(svc, s string) []string {
	var out []string
	for _, d := range didsOfSubject(s) {
		if methodOK(svc, d) && !r.dead[d] {
			out = append(out, d)
		}
	}
	return out
}

func (r *run) doRefreshSync() error {
	if !r.loopActive {
		return fmt.Errorf("RefreshSync without a running round")
	}
	// a repaired loop may have skipped candidates the model still lists: let the round run to its end
	for n := 0; n < 8; n++ {
		at := r.sched.Where("loop")
		if !strings.HasPrefix(at, "cand:") {
			break
		}
		if err := r.doRefreshOne(step{}); err != nil {
			return err
		}
	}
	at := r.sched.Where("loop")
	if at != "sync" {
		return fmt.Errorf("RefreshSync: the loop is at %q", at)
	}
	// every record that was due when the round started (and still is) has been considered by the round
	if r.candIdx < len(r.cands) {
		cur, err := r.observe()
		if err != nil {
			return err
		}
		for _, cd := range r.cands[r.candIdx:] {
			c := ckey(cd.svc, cd.s)
			r.res.Checks++
			if row, on := cur.rows[c]; on && row.Next < r.loopNow.Unix() {
				r.viol("due-subject-not-refreshed", "refresh", fmt.Sprintf("%s is activated and due (next_refresh %d < %d) but the refresh round did not consider it", c, row.Next, r.loopNow.Unix()))
			}
		}
	}
	mark := r.l.ad.mark()
	if _, err := r.sched.Step("loop", "sync", "go"); err != nil {
		return err
	}
	if at, err := r.await(); err != nil {
		return err
	} else if at != "done" {
		return fmt.Errorf("after the synchronisation the loop is at %q", at)
	}
	r.loopActive, r.roundDone = false, true
	after, msgs, err := r.stepEnd(mark)
	if err != nil {
		return err
	}
	for range msgs {
		r.drift("the synchronisation step sent a presentation")
	}
	r.checkLapse(after)
	r.logEvent("refresh.sync", map[string]any{}, after, msgs)
	return nil
}

func (r *run) drainLoop() error {
	if !r.loopActive {
		return nil
	}
	return r.doRefreshSync()
}

func (r *run) doRestart() error {
	if err := r.drainLoop(); err != nil {
		return err
	}
	before, err := r.observe()
	if err != nil {
		return err
	}
	if err := r.l.cli.module.Shutdown(); err != nil {
		return err
	}
	if err := r.l.cli.start(0); err != nil {
		return err
	}
	after, err := r.observe()
	if err != nil {
		return err
	}
	r.res.Checks++
	for _, svc := range modelServices {
		for _, s := range subjectNames {
			c := ckey(svc, s)
			b, a := before.act[c], after.act[c]
			if b.Activated != a.Activated || before.rows[c] != after.rows[c] || (b.Err == "") != (a.Err == "") || strings.Join(b.VPs, ",") != strings.Join(a.VPs, ",") {
				r.viol("state-lost-on-restart", "restart", fmt.Sprintf("%s before the restart: activated=%v record=%v error=%q; after: activated=%v record=%v error=%q",
					c, b.Activated, before.rows[c], b.Err, a.Activated, after.rows[c], a.Err))
			}
		}
	}
	r.logEvent("restart", map[string]any{}, after, nil)
	return nil
}

func (r *run) doAdvance() error {
	if !r.roundDone || r.loopActive {
		r.timely = false
	}
	r.roundDone = false
	r.shift += tickLen
	if err := exec(r.l.cli.db, fmt.Sprintf("UPDATE discovery_presentation_refresh SET next_refresh = next_refresh - %d", tickLen),
		fmt.Sprintf("UPDATE discovery_presentation_error SET last_occurrence = last_occurrence - %d", tickLen)); err != nil {
		return err
	}
	if err := r.normalise(); err != nil {
		return err
	}
	after, err := r.observe()
	if err != nil {
		return err
	}
	r.checkLapse(after)
	r.logEvent("advance", map[string]any{}, after, nil)
	return nil
}

func (r *run) walletPut(d string, raw string) error {
	cred, err := vc.ParseVerifiableCredential(raw)
	if err != nil {
		return err
	}
	return r.l.cli.wallet.Put(r.ctx, *cred)
}

func (r *run) doEnv(st step) error {
	ad := r.l.ad
	kv := map[string]any{}
	ev := ""
	switch st.str("a") {
	case "ToggleReg":
		ad.mu.Lock()
		ad.regUp = !ad.regUp
		ad.mu.Unlock()
		ev = "toggle.reg"
	case "ToggleGet":
		ad.mu.Lock()
		ad.getUp = !ad.getUp
		ad.mu.Unlock()
		ev = "toggle.get"
	case "Refuse":
		d := st.str("d")
		id := r.l.ppl.dids[d]
		if id == nil {
			return fmt.Errorf("unknown DID %q", d)
		}
		ad.mu.Lock()
		ad.refuse[id.did] = !ad.refuse[id.did]
		ad.mu.Unlock()
		ev, kv["d"] = "refuse", d
	case "WalletFlip":
		d := st.str("d")
		id := r.l.ppl.dids[d]
		if id == nil {
			return fmt.Errorf("unknown DID %q", d)
		}
		if r.hasCred[d] {
			if err := r.l.cli.wallet.Remove(r.ctx, did.MustParseDID(id.did), ssi.MustParseURI(r.credID[d])); err != nil {
				return err
			}
		} else if err := r.walletPut(d, r.credRaw[d]); err != nil {
			return err
		}
		r.hasCred[d] = !r.hasCred[d]
		ev, kv["d"] = "wallet.flip", d
	case "KillDID":
		d := st.str("d")
		id := r.l.ppl.dids[d]
		if id == nil {
			return fmt.Errorf("unknown DID %q", d)
		}
		r.l.cli.res.mu.Lock()
		r.l.cli.res.dead[id.did] = true
		r.l.cli.res.mu.Unlock()
		r.dead[d] = true
		ev, kv["d"] = "kill.did", d
	case "RemoveSubject":
		s := st.str("s")
		r.l.cli.subj.mu.Lock()
		r.l.cli.subj.gone[s] = true
		r.l.cli.subj.mu.Unlock()
		r.gone[s] = true
		ev, kv["s"] = "remove.subject", s
	default:
		return fmt.Errorf("unknown action %v", st)
	}
	o, err := r.observe()
	if err != nil {
		return err
	}
	r.logEvent(ev, kv, o, nil)
	return nil
}

// ------------------------------------------------------------------------------------------ script

func (l *lab) runScript(in *input, sc script) *result {
	t0 := time.Now()
	res := &result{ID: sc.ID, Violations: []violation{}, Drift: []string{}, Trace: []map[string]any{}}
	r := &run{l: l, in: in, res: res, ctx: audit.TestContext(), sched: gate.New(), t0: t0,
		gone: map[string]bool{}, dead: map[string]bool{}, hasCred: map[string]bool{}, credRaw: map[string]string{}, credID: map[string]string{},
		otherRaw: map[string]string{}, issueAt: map[string]int64{}, deact: map[string]int{}, apiActAt: map[string]int{}, lastPar: map[string]string{},
		pendingRetry: map[string]bool{}, retrySite: map[string]string{}, raceTaint: map[string]string{}, parTaint: map[string]string{}, fails: map[string]int{}, lastFailKind: map[string]string{}, timely: true, lapsed: map[string]bool{}}
	r.sched.BlockedAfter = 5 * time.Millisecond
	r.loopStart = -1
	defer func() {
		r.sched.Kill()
		l.cli.subj.sched.Store(nil)
		res.Timely = r.timely
		res.WallMs = time.Since(t0).Milliseconds()
	}()
	// a fresh world
	if l.cli.module != nil {
		_ = l.cli.module.Shutdown()
	}
	if err := l.srv.wipe(); err != nil {
		res.Error = err.Error()
		return res
	}
	if err := l.cli.wipe(); err != nil {
		res.Error = err.Error()
		return res
	}
	l.ad.reset()
	l.ad.sabotage = in.Sabotage
	l.cli.subj.mu.Lock()
	l.cli.subj.gone, l.cli.subj.reverse = map[string]bool{}, sc.Order == "desc"
	l.cli.subj.mu.Unlock()
	l.cli.res.mu.Lock()
	l.cli.res.dead = map[string]bool{}
	l.cli.res.mu.Unlock()
	l.cli.subj.sched.Store(r.sched)
	if err := l.cli.start(0); err != nil {
		res.Error = err.Error()
		return res
	}
	vcExp := time.Now().Add(10 * 365 * 24 * time.Hour)
	for _, d := range didOrder {
		id := l.ppl.dids[d]
		r.credRaw[d], r.credID[d] = forgeVC(l.ppl.authority, id.did, credentialType, vcExp)
		r.otherRaw[d], _ = forgeVC(l.ppl.authority, id.did, otherCredType, vcExp)
		// every wallet always holds a credential the definition does not ask for; the member credential as InitWallet says
		if err := r.walletPut(d, r.otherRaw[d]); err != nil {
			res.Error = "wallet: " + err.Error()
			return res
		}
		if err := r.walletPut(d, r.credRaw[d]); err != nil {
			res.Error = "wallet: " + err.Error()
			return res
		}
		r.hasCred[d] = true
	}

	for i, st := range sc.Steps {
		r.stepNo = i
		var err error
		switch st.str("a") {
		case "Activate":
			err = r.doActivate(st)
		case "Deactivate":
			err = r.doDeactivate(st)
		case "RefreshStart":
			err = r.doRefreshStart()
		case "RefreshOne":
			err = r.doRefreshOne(st)
		case "RefreshSync":
			err = r.doRefreshSync()
		case "Restart":
			err = r.doRestart()
		case "Advance":
			err = r.doAdvance()
		default:
			err = r.doEnv(st)
		}
		if errors.Is(err, errBlocked) {
			res.Blocked = true
			res.Trace = nil // the recorded prefix does not end in a quiescent state
			return res
		}
		if err != nil {
			res.Error = fmt.Sprintf("step %d %v: %v", i, st, err)
			return res
		}
		if time.Since(t0) > 60*time.Second {
			res.Error = "timing: the script took longer than the margin of the clock boundaries allows"
			return res
		}
	}
	r.stepNo = len(sc.Steps)
	if err := r.drainLoop(); err != nil {
		res.Error = "final round: " + err.Error()
	}
	return res
}

// ------------------------------------------------------------------------------------------ probes

// runProbes: (1) the refresh/expiry formula of the code for a range of validities, against a recording endpoint;
// (2) the real background goroutine of Module.Start refreshes a due registration.
func (l *lab) runProbes(in *input) *result {
	t0 := time.Now()
	res := &result{ID: "probes", Violations: []violation{}, Drift: []string{}, Trace: []map[string]any{}, Timely: true}
	r := &run{l: l, in: in, res: res, ctx: audit.TestContext(), sched: gate.New(), hasCred: map[string]bool{}, credRaw: map[string]string{}, credID: map[string]string{}}
	defer func() { res.WallMs = time.Since(t0).Milliseconds() }()
	fail := func(err error) *result { res.Error = "probe: " + err.Error(); return res }
	if l.cli.module != nil {
		_ = l.cli.module.Shutdown()
	}
	if err := l.srv.wipe(); err != nil {
		return fail(err)
	}
	if err := l.cli.wipe(); err != nil {
		return fail(err)
	}
	l.ad.reset()
	l.cli.subj.mu.Lock()
	l.cli.subj.gone, l.cli.subj.reverse = map[string]bool{}, false
	l.cli.subj.mu.Unlock()
	l.cli.subj.sched.Store(nil)
	if err := l.cli.start(0); err != nil {
		return fail(err)
	}
	vcExp := time.Now().Add(10 * 365 * 24 * time.Hour)
	for _, d := range didOrder {
		r.credRaw[d], r.credID[d] = forgeVC(l.ppl.authority, l.ppl.dids[d].did, credentialType, vcExp)
		if err := r.walletPut(d, r.credRaw[d]); err != nil {
			return fail(err)
		}
	}
	for _, v := range probeValidity {
		mark := l.ad.mark()
		before := time.Now().Unix()
		err := l.cli.module.ActivateServiceForSubject(r.ctx, probeServiceID(v), "s2", map[string]interface{}{paramField: "p1"})
		if err != nil {
			return fail(fmt.Errorf("activation on the probe service with validity %d: %w", v, err))
		}
		var next int64
		if err := l.cli.db.Raw("SELECT next_refresh FROM discovery_presentation_refresh WHERE service_id = ? AND subject_id = ?", probeServiceID(v), "s2").Row().Scan(&next); err != nil {
			return fail(err)
		}
		for _, c := range l.ad.since(mark) {
			res.Checks++
			p := map[string]any{"validity": v, "refresh_after": next - before, "expires_after": c.VP.Exp - before, "did": l.ppl.byDID[c.VP.Signer]}
			res.Probe = append(res.Probe, p)
			if !(next < c.VP.Exp) {
				if v == 1 {
					res.Drift = append(res.Drift, fmt.Sprintf("presentation_max_validity = 1 (allowed by the schema): next_refresh %d is not before the expiry %d (a presentation that is born expired)", next, c.VP.Exp))
				} else {
					r.viol("refresh-not-before-expiry", "formula", fmt.Sprintf("validity %d s: next_refresh = t+%d, expiry = t+%d", v, next-before, c.VP.Exp-before))
				}
			}
			// (measured from the END of the call: a slow machine must not look like a long validity)
			if after := time.Now().Unix(); c.VP.Exp-after > int64(v) {
				r.viol("validity-exceeded", "formula", fmt.Sprintf("validity %d s: the presentation expires %d s after the activation returned", v, c.VP.Exp-after))
			}
		}
	}
	// background loop: a due record must be refreshed by the goroutine Module.Start launches
	if err := l.cli.module.ActivateServiceForSubject(r.ctx, serviceIDs["a"], "s2", map[string]interface{}{paramField: "p1"}); err != nil {
		return fail(err)
	}
	if err := exec(l.cli.db, "UPDATE discovery_presentation_refresh SET next_refresh = next_refresh - 1500"); err != nil {
		return fail(err)
	}
	_ = l.cli.module.Shutdown()
	mark := l.ad.mark()
	m, err := l.cli.newModule(40 * time.Millisecond)
	if err != nil {
		return fail(err)
	}
	if err := m.Start(); err != nil {
		return fail(err)
	}
	seen := false
	for deadline := time.Now().Add(15 * time.Second); time.Now().Before(deadline) && !seen; time.Sleep(20 * time.Millisecond) {
		for _, c := range l.ad.since(mark) {
			if c.Svc == "a" && !c.VP.Retraction && c.OK {
				seen = true
			}
		}
	}
	_ = m.Shutdown()
	res.Checks++
	if !seen {
		r.viol("background-loop-does-not-refresh", "update", "a due registration was not renewed within 15 s by the goroutine Module.Start launches (refresh interval 40 ms)")
	}
	l.cli.module = nil
	return res
}

// ------------------------------------------------------------------------------------------ main

func TestDriver(t *testing.T) {
	inPath, outPath := os.Getenv("VERIF_IN"), os.Getenv("VERIF_OUT")
	if inPath == "" {
		t.Skip("VERIF_IN not set")
	}
	logrus.SetLevel(logrus.PanicLevel)
	logrus.SetOutput(io.Discard)
	raw, err := os.ReadFile(inPath)
	if err != nil {
		t.Fatal(err)
	}
	var in input
	if err := json.Unmarshal(raw, &in); err != nil {
		t.Fatal(err)
	}
	if in.Workers <= 0 {
		in.Workers = 4
	}
	if in.Workers > len(in.Scripts) {
		in.Workers = len(in.Scripts)
	}
	if in.Workers == 0 {
		in.Workers = 1
	}
	ppl := newPeople()
	defDir := t.TempDir()
	if err := writeDefinitions(defDir, ppl.authority.did); err != nil {
		t.Fatal(err)
	}
	// silence the "Created test storage engine" chatter and the audit logger (a logrus instance created on first use
	// that writes to whatever os.Stderr is at that moment)
	stdout, stderr := os.Stdout, os.Stderr
	if devnull, err := os.OpenFile(os.DevNull, os.O_WRONLY, 0); err == nil {
		os.Stdout, os.Stderr = devnull, devnull
		defer func() { os.Stdout, os.Stderr = stdout, stderr }()
	}
	labs := make([]*lab, in.Workers)
	for i := range labs {
		if labs[i], err = newLab(t, defDir, ppl); err != nil {
			t.Fatal(err)
		}
	}
	out, err := os.Create(outPath)
	if err != nil {
		t.Fatal(err)
	}
	defer out.Close()
	bw := bufio.NewWriter(out)
	defer bw.Flush()
	enc := json.NewEncoder(bw)
	var mu sync.Mutex
	var wg sync.WaitGroup
	next := atomic.Int64{}
	for _, l := range labs {
		wg.Add(1)
		go func(l *lab) {
			defer wg.Done()
			for {
				i := int(next.Add(1)) - 1
				if i >= len(in.Scripts) {
					return
				}
				res := l.runScript(&in, in.Scripts[i])
				mu.Lock()
				_ = enc.Encode(res)
				mu.Unlock()
			}
		}(l)
	}
	wg.Wait()
	if in.Probes {
		_ = enc.Encode(labs[0].runProbes(&in))
	}
}
