package discoveryclient

// Construction of the real objects: a discovery.Module as SERVER (real verifier) and a discovery.Module as CLIENT on
// two sqlite databases. The client has a real SQL wallet (holder.NewSQLWallet) with a real key store and a real
// verifier; the subject manager (ListDIDs) and the deactivation status of DIDs are scripted; the HTTP client is an
// in-memory adapter that records every presentation, can be scripted to fail and otherwise calls the real server
// through its real API wrapper.

import (
	"context"
	"encoding/json"
	"errors"
	"fmt"
	"os"
	"path/filepath"
	"runtime"
	"sync"
	"sync/atomic"
	"testing"
	"time"

	ssi "github.com/nuts-foundation/go-did"
	"github.com/nuts-foundation/go-did/did"
	"github.com/nuts-foundation/go-did/vc"
	"github.com/nuts-foundation/nuts-node/audit"
	"github.com/nuts-foundation/nuts-node/core"
	nutsCrypto "github.com/nuts-foundation/nuts-node/crypto"
	"github.com/nuts-foundation/nuts-node/discovery"
	discoserver "github.com/nuts-foundation/nuts-node/discovery/api/server"
	discoclient "github.com/nuts-foundation/nuts-node/discovery/api/server/client"
	"github.com/nuts-foundation/nuts-node/jsonld"
	"github.com/nuts-foundation/nuts-node/storage"
	"github.com/nuts-foundation/nuts-node/vcr"
	"github.com/nuts-foundation/nuts-node/vcr/credential"
	"github.com/nuts-foundation/nuts-node/vcr/holder"
	"github.com/nuts-foundation/nuts-node/vcr/revocation"
	"github.com/nuts-foundation/nuts-node/vcr/trust"
	"github.com/nuts-foundation/nuts-node/vcr/verifier"
	"github.com/nuts-foundation/nuts-node/vdr/didjwk"
	"github.com/nuts-foundation/nuts-node/vdr/didkey"
	"github.com/nuts-foundation/nuts-node/vdr/didsubject"
	"github.com/nuts-foundation/nuts-node/vdr/resolver"
	"gorm.io/gorm"

	"verifharness/gate"
)

// ---- the universe of MCDiscoveryClient.tla ----------------------------------------------------------

const tickLen = 1000 // seconds: TickLen

var (
	modelServices = []string{"a", "b"}
	serviceIDs    = map[string]string{"a": "urn:verif:usecase:x05a", "b": "urn:verif:usecase:x05b"}
	validity      = map[string]int{"a": 2000, "b": 4000}   // MCValidity
	methodsOf     = map[string][]string{"a": {"jwk"}, "b": {}} // MCMethods ({} = every method)
	ownerOf       = map[string]string{"d1": "s1", "d2": "s1", "d3": "s2", "k3": "s2", "k4": "s3"}
	didOrder      = []string{"d1", "d2", "d3", "k3", "k4"}
	subjectNames  = []string{"s1", "s2", "s3"}
	probeValidity = []int{1, 2, 3, 7, 100, 1000, 86400}
)

func endpointOf(id string) string { return "https://discovery.verif.example/" + id }

type people struct {
	authority *identity
	dids      map[string]*identity // model name -> identity
	byDID     map[string]string    // did -> model name
}

func newPeople() *people {
	p := &people{authority: newJWKIdentity("authority"), dids: map[string]*identity{}, byDID: map[string]string{}}
	for _, n := range didOrder {
		if n[0] == 'k' {
			p.dids[n] = newKeyIdentity(n)
		} else {
			p.dids[n] = newJWKIdentity(n)
		}
		p.byDID[p.dids[n].did] = n
	}
	return p
}

func didsOfSubject(s string) []string {
	var out []string
	for _, d := range didOrder {
		if ownerOf[d] == s {
			out = append(out, d)
		}
	}
	return out
}

func methodOK(svc, d string) bool {
	ms := methodsOf[svc]
	if len(ms) == 0 {
		return true
	}
	m := "jwk"
	if d[0] == 'k' {
		m = "key"
	}
	return contains(ms, m)
}

// ---- vcr.VCR with a real wallet and a real verifier ------------------------------------------------

type noRevocations struct{}

func (noRevocations) Diagnostics() []core.DiagnosticResult { return nil }
func (noRevocations) GetRevocations(ssi.URI) ([]*credential.Revocation, error) {
	return nil, verifier.ErrNotFound
}
func (noRevocations) StoreRevocation(credential.Revocation) error { return nil }
func (noRevocations) Close() error                                { return nil }

type fakeVCR struct {
	vcr.VCR // nil: only Wallet() and Verifier() are used by the code under test
	v       verifier.Verifier
	w       holder.Wallet
}

func (f *fakeVCR) Verifier() verifier.Verifier { return f.v }
func (f *fakeVCR) Wallet() holder.Wallet       { return f.w }

func newRouter() *resolver.DIDResolverRouter {
	router := &resolver.DIDResolverRouter{}
	router.Register(didjwk.MethodName, didjwk.NewResolver())
	router.Register(didkey.MethodName, didkey.NewResolver())
	return router
}

func newRealVerifier(t testing.TB, db *gorm.DB, dir string) verifier.Verifier {
	router := newRouter()
	keyResolver := resolver.DIDKeyResolver{Resolver: router}
	status := revocation.NewStatusList2021(db, nil, "https://verif.example")
	return verifier.NewVerifier(noRevocations{}, router, keyResolver, jsonld.NewTestJSONLDManager(t), trust.NewConfig(filepath.Join(dir, "trust.yaml")), status)
}

// ---- scripted environment of the client ---------------------------------------------------------------

// fakeSubjects is the didsubject.Manager of the client: only ListDIDs is used by the code under test. When it is
// called by the refresh loop (an actor of the scheduler) it is the gate "before the body of the loop for one candidate".
type fakeSubjects struct {
	didsubject.Manager
	mu      sync.Mutex
	ppl     *people
	gone    map[string]bool
	reverse bool
	sched   atomic.Pointer[gate.Sched]
}

func (f *fakeSubjects) ListDIDs(ctx context.Context, subject string) ([]did.DID, error) {
	if a := gate.Actor(ctx); a != "" {
		if s := f.sched.Load(); s != nil {
			if s.At(a, "cand:"+subject) == "dead" {
				runtime.Goexit()
			}
		}
	}
	f.mu.Lock()
	defer f.mu.Unlock()
	names := didsOfSubject(subject)
	if f.gone[subject] || len(names) == 0 {
		return nil, didsubject.ErrSubjectNotFound
	}
	out := make([]did.DID, 0, len(names))
	for _, n := range names {
		out = append(out, did.MustParseDID(f.ppl.dids[n].did))
	}
	if f.reverse {
		for i, j := 0, len(out)-1; i < j; i, j = i+1, j-1 {
			out[i], out[j] = out[j], out[i]
		}
	}
	return out, nil
}

// seamResolver answers ErrDeactivated for the DIDs the script has deactivated.
type seamResolver struct {
	inner resolver.DIDResolver
	mu    sync.Mutex
	dead  map[string]bool
}

func (s *seamResolver) Resolve(id did.DID, md *resolver.ResolveMetadata) (*did.Document, *resolver.DocumentMetadata, error) {
	s.mu.Lock()
	dead := s.dead[id.String()]
	s.mu.Unlock()
	if dead {
		return nil, nil, resolver.ErrDeactivated
	}
	return s.inner.Resolve(id, md)
}

// ---- nodes --------------------------------------------------------------------------------------------------

type node struct {
	engine storage.Engine
	db     *gorm.DB
	vfy    verifier.Verifier
	module *discovery.Module
	// client only
	wallet holder.Wallet
	subj   *fakeSubjects
	res    *seamResolver
	defDir string
	ad     *adapter
}

var engineMu sync.Mutex // storage engines set process-wide state while they are configured

func newServer(t testing.TB, defDir string) (*node, error) {
	engineMu.Lock()
	engine := storage.NewTestStorageEngine(t)
	engineMu.Unlock()
	n := &node{engine: engine, db: engine.GetSQLDatabase(), defDir: defDir}
	n.vfy = newRealVerifier(t, n.db, t.TempDir())
	m := discovery.New(n.engine, &fakeVCR{v: n.vfy}, nil, nil)
	cfg := m.Config().(*discovery.Config)
	cfg.Definitions.Directory = defDir
	cfg.Client.RefreshInterval = 0
	cfg.Server.IDs = []string{serviceIDs["a"], serviceIDs["b"]}
	if err := m.Configure(core.TestServerConfig()); err != nil {
		return nil, err
	}
	if err := m.Start(); err != nil {
		return nil, err
	}
	n.module = m
	return n, nil
}

func newClient(t testing.TB, defDir string, ppl *people, ad *adapter) (*node, error) {
	engineMu.Lock()
	engine := storage.NewTestStorageEngine(t)
	engineMu.Unlock()
	n := &node{engine: engine, db: engine.GetSQLDatabase(), defDir: defDir, ad: ad}
	n.vfy = newRealVerifier(t, n.db, t.TempDir())
	// real key store holding the harness' keys under the key ids the DID documents name
	mem := nutsCrypto.NewMemoryStorage()
	keys := nutsCrypto.NewTestCryptoInstance(n.db, mem)
	ctx := audit.TestContext()
	for name, id := range ppl.dids {
		if err := mem.SavePrivateKey(ctx, "key-"+name, id.key); err != nil {
			return nil, err
		}
		if err := keys.Link(ctx, id.kid, "key-"+name, "1"); err != nil {
			return nil, err
		}
	}
	router := newRouter()
	n.wallet = holder.NewSQLWallet(resolver.DIDKeyResolver{Resolver: router}, keys, n.vfy, jsonld.NewTestJSONLDManager(t), n.engine)
	n.subj = &fakeSubjects{ppl: ppl, gone: map[string]bool{}}
	n.res = &seamResolver{inner: router, dead: map[string]bool{}}
	if err := n.start(0); err != nil {
		return nil, err
	}
	return n, nil
}

// start creates a NEW discovery.Module on the node's database (the restart of the model).
func (n *node) start(refreshInterval time.Duration) error {
	m, err := n.newModule(refreshInterval)
	if err != nil {
		return err
	}
	if err := m.Start(); err != nil {
		return err
	}
	n.module = m
	return nil
}

func (n *node) newModule(refreshInterval time.Duration) (*discovery.Module, error) {
	m := discovery.New(n.engine, &fakeVCR{v: n.vfy, w: n.wallet}, n.subj, n.res)
	cfg := m.Config().(*discovery.Config)
	cfg.Definitions.Directory = n.defDir
	cfg.Client.RefreshInterval = refreshInterval // 0: no background goroutine, the driver decides when the loop runs
	if err := m.Configure(core.TestServerConfig()); err != nil {
		return nil, err
	}
	m.VerifSetHTTPClient(n.ad)
	return m, nil
}

func exec(db *gorm.DB, qs ...string) error {
	for _, q := range qs {
		if err := db.Exec(q).Error; err != nil {
			return fmt.Errorf("%s: %w", q, err)
		}
	}
	return nil
}

// wipe empties the discovery and wallet tables: a database that has never been used.
func (n *node) wipe() error {
	return exec(n.db, "DELETE FROM discovery_presentation_error", "DELETE FROM discovery_presentation_refresh",
		"DELETE FROM discovery_credential", "DELETE FROM discovery_presentation", "DELETE FROM wallet_credential",
		"DELETE FROM credential_prop", "DELETE FROM credential",
		"UPDATE discovery_service SET seed = '', last_lamport_timestamp = 0")
}

func definition(id string, authority string, methods []string, maxValidity int) map[string]any {
	def := map[string]any{
		"id":                        id,
		"endpoint":                  endpointOf(id),
		"presentation_max_validity": maxValidity,
		"presentation_definition": map[string]any{
			"id": "pd_" + id,
			"format": map[string]any{
				"jwt_vc": map[string]any{"alg": []string{"ES256"}},
				"jwt_vp": map[string]any{"alg": []string{"ES256"}},
				"ldp_vc": map[string]any{"proof_type": []string{"JsonWebSignature2020"}},
			},
			"input_descriptors": []any{
				map[string]any{
					"id": "id_member",
					"constraints": map[string]any{"fields": []any{
						map[string]any{"path": []string{"$.type"}, "filter": map[string]any{"type": "string", "const": credentialType}},
						map[string]any{"path": []string{"$.issuer"}, "filter": map[string]any{"type": "string", "const": authority}},
					}},
				},
				map[string]any{
					"id": "id_registration_parameters",
					"constraints": map[string]any{"fields": []any{
						map[string]any{"path": []string{"$.type"}, "filter": map[string]any{"type": "string", "const": registrationType}},
						map[string]any{"id": "auth_server_url", "path": []string{"$.credentialSubject.authServerURL"}},
					}},
				},
			},
		},
	}
	if len(methods) > 0 {
		def["did_methods"] = methods
	}
	return def
}

func probeServiceID(v int) string { return fmt.Sprintf("urn:verif:usecase:x05t%d", v) }

func writeDefinitions(dir string, authority string) error {
	defs := map[string]map[string]any{}
	for _, s := range modelServices {
		defs["x05"+s+".json"] = definition(serviceIDs[s], authority, methodsOf[s], validity[s])
	}
	for _, v := range probeValidity {
		defs[fmt.Sprintf("x05t%d.json", v)] = definition(probeServiceID(v), authority, nil, v)
	}
	for name, def := range defs {
		b, _ := json.MarshalIndent(def, "", " ")
		if err := os.WriteFile(filepath.Join(dir, name), b, 0o644); err != nil {
			return err
		}
	}
	return nil
}

// ---- in-memory HTTP adapter: client module -> (scripted faults) -> real API wrapper of the server module -------

type call struct {
	Svc      string // model service ("a", "b") or the probe service id
	VP       *sentVP
	OK       bool
	Err      string
	At       time.Time
	Actor    string
	ParseErr string
}

type adapter struct {
	mu      sync.Mutex
	wrapper *discoserver.Wrapper
	byEP    map[string]string // endpoint -> model service
	probeEP map[string]bool   // endpoints without a server: every presentation is accepted and recorded
	regUp   bool
	getUp   bool
	refuse  map[string]bool // DID -> the server refuses its presentations
	calls   []call
	gets    int
	// sabotage makes the ADAPTER misbehave (self-test of the oracles): "drop-retraction" answers success to a
	// retraction without passing it on
	sabotage string
}

var _ discoclient.HTTPClient = (*adapter)(nil)

func newAdapter(server *node) *adapter {
	a := &adapter{wrapper: &discoserver.Wrapper{Server: server.module}, byEP: map[string]string{}, probeEP: map[string]bool{},
		regUp: true, getUp: true, refuse: map[string]bool{}}
	for _, s := range modelServices {
		a.byEP[endpointOf(serviceIDs[s])] = s
	}
	for _, v := range probeValidity {
		a.probeEP[endpointOf(probeServiceID(v))] = true
	}
	return a
}

func (a *adapter) Register(ctx context.Context, endpoint string, presentation vc.VerifiablePresentation) error {
	c := call{At: time.Now(), Actor: gate.Actor(ctx)}
	raw := presentation.Raw()
	vp, perr := parseSent(raw)
	if perr != nil {
		c.ParseErr = perr.Error()
		vp = &sentVP{Raw: raw}
	}
	c.VP = vp
	a.mu.Lock()
	svc, known := a.byEP[endpoint]
	probe := a.probeEP[endpoint]
	up, refused, sabotage := a.regUp, a.refuse[vp.Signer], a.sabotage
	a.mu.Unlock()
	c.Svc = svc
	var err error
	switch {
	case probe:
		c.Svc = endpoint
	case !known:
		err = fmt.Errorf("no discovery server at %s", endpoint)
	case !up:
		err = errors.New("dial tcp: connection refused (scripted)")
	case refused:
		err = errors.New("server returned HTTP 400: presentation refused (scripted)")
	case sabotage == "drop-retraction" && vp.Retraction:
	default:
		err = a.forward(ctx, serviceIDs[svc], presentation)
	}
	c.OK = err == nil
	if err != nil {
		c.Err = err.Error()
	}
	a.mu.Lock()
	a.calls = append(a.calls, c)
	a.mu.Unlock()
	return err
}

// forward sends the presentation the way the HTTP API receives it: as a JSON document.
func (a *adapter) forward(ctx context.Context, serviceID string, presentation vc.VerifiablePresentation) error {
	body, err := json.Marshal(presentation)
	if err != nil {
		return err
	}
	var parsed vc.VerifiablePresentation
	if err := json.Unmarshal(body, &parsed); err != nil {
		return fmt.Errorf("unparsable request body: %w", err)
	}
	resp, err := a.wrapper.RegisterPresentation(ctx, discoserver.RegisterPresentationRequestObject{ServiceID: serviceID, Body: &parsed})
	if err != nil {
		return err
	}
	if _, ok := resp.(discoserver.RegisterPresentation201Response); !ok {
		return errors.New("unexpected response type")
	}
	return nil
}

func (a *adapter) Get(ctx context.Context, endpoint string, timestamp int) (map[string]vc.VerifiablePresentation, string, int, error) {
	a.mu.Lock()
	svc, known := a.byEP[endpoint]
	probe := a.probeEP[endpoint]
	up := a.getUp
	a.gets++
	a.mu.Unlock()
	if probe {
		return map[string]vc.VerifiablePresentation{}, "probe", 0, nil
	}
	if !known {
		return nil, "", 0, fmt.Errorf("no discovery server at %s", endpoint)
	}
	if !up {
		return nil, "", 0, errors.New("dial tcp: connection refused (scripted)")
	}
	resp, err := a.wrapper.GetPresentations(ctx, discoserver.GetPresentationsRequestObject{ServiceID: serviceIDs[svc],
		Params: discoserver.GetPresentationsParams{Timestamp: &timestamp}})
	if err != nil {
		return nil, "", 0, err
	}
	wire, err := json.Marshal(resp)
	if err != nil {
		return nil, "", 0, err
	}
	var result discoclient.PresentationsResponse
	if err = json.Unmarshal(wire, &result); err != nil {
		return nil, "", 0, err
	}
	return result.Entries, result.Seed, result.Timestamp, nil
}

func (a *adapter) mark() int {
	a.mu.Lock()
	defer a.mu.Unlock()
	return len(a.calls)
}

func (a *adapter) since(mark int) []call {
	a.mu.Lock()
	defer a.mu.Unlock()
	return append([]call{}, a.calls[mark:]...)
}

func (a *adapter) reset() {
	a.mu.Lock()
	defer a.mu.Unlock()
	a.regUp, a.getUp, a.refuse, a.calls, a.gets, a.sabotage = true, true, map[string]bool{}, nil, 0, ""
}

// ---- lab ---------------------------------------------------------------------------------------------------

type lab struct {
	srv, cli *node
	ad       *adapter
	ppl      *people
}

func newLab(t *testing.T, defDir string, ppl *people) (*lab, error) {
	srv, err := newServer(t, defDir)
	if err != nil {
		return nil, err
	}
	ad := newAdapter(srv)
	cli, err := newClient(t, defDir, ppl, ad)
	if err != nil {
		return nil, err
	}
	return &lab{srv: srv, cli: cli, ad: ad, ppl: ppl}, nil
}
