package discoveryclient

// Identities (real P-256 keys; did:jwk and did:key), harness-issued JWT credentials, and the harness' own parser of
// the presentations the code under test sends (no code of the repository is involved in reading them).

import (
	"crypto/ecdsa"
	"crypto/elliptic"
	"crypto/rand"
	"crypto/sha256"
	"encoding/base64"
	"encoding/json"
	"errors"
	"fmt"
	"math/big"
	"strings"
	"sync/atomic"
	"time"

	"github.com/mr-tron/base58"
)

const (
	credentialType   = "VerifMemberCredential"
	otherCredType    = "VerifOtherCredential"
	registrationType = "DiscoveryRegistrationCredential"
	retractionType   = "RetractedVerifiablePresentation"
	paramField       = "verifParam"
)

type identity struct {
	name string
	did  string
	kid  string
	key  *ecdsa.PrivateKey
}

var b64 = base64.RawURLEncoding

func alnum(s string) bool {
	for _, c := range s {
		if !(c >= 'a' && c <= 'z' || c >= 'A' && c <= 'Z' || c >= '0' && c <= '9') {
			return false
		}
	}
	return true
}

func fixed32(b *big.Int) []byte {
	out := make([]byte, 32)
	b.FillBytes(out)
	return out
}

// newJWKIdentity creates a did:jwk identity. The nuts-node resolver decodes the method specific id with
// base64.RawStdEncoding while the specification says base64url; keys are drawn until both encodings agree.
func newJWKIdentity(name string) *identity {
	for {
		k, err := ecdsa.GenerateKey(elliptic.P256(), rand.Reader)
		if err != nil {
			panic(err)
		}
		jwk := fmt.Sprintf(`{"crv":"P-256","kty":"EC","x":"%s","y":"%s"}`, b64.EncodeToString(fixed32(k.X)), b64.EncodeToString(fixed32(k.Y)))
		enc := b64.EncodeToString([]byte(jwk))
		if !alnum(enc) {
			continue
		}
		d := "did:jwk:" + enc
		return &identity{name: name, did: d, kid: d + "#0", key: k}
	}
}

// newKeyIdentity creates a did:key identity (P-256): a DID method service "a" does not allow.
func newKeyIdentity(name string) *identity {
	k, err := ecdsa.GenerateKey(elliptic.P256(), rand.Reader)
	if err != nil {
		panic(err)
	}
	pub := elliptic.MarshalCompressed(elliptic.P256(), k.X, k.Y)
	mb := "z" + base58.Encode(append([]byte{0x80, 0x24}, pub...))
	d := "did:key:" + mb
	return &identity{name: name, did: d, kid: d + "#" + mb, key: k}
}

func signCompact(key *ecdsa.PrivateKey, header, payload map[string]any) string {
	h, _ := json.Marshal(header)
	p, _ := json.Marshal(payload)
	signingInput := b64.EncodeToString(h) + "." + b64.EncodeToString(p)
	digest := sha256.Sum256([]byte(signingInput))
	r, s, err := ecdsa.Sign(rand.Reader, key, digest[:])
	if err != nil {
		panic(err)
	}
	sig := append(fixed32(r), fixed32(s)...)
	return signingInput + "." + b64.EncodeToString(sig)
}

var idCounter atomic.Int64

func freshID() string {
	var b [12]byte
	_, _ = rand.Read(b[:])
	return fmt.Sprintf("%d-%x", idCounter.Add(1), b)
}

// forgeVC issues a JWT credential of the given type from issuer to subject; returns the JWT and the credential id.
func forgeVC(issuer *identity, subject string, typ string, exp time.Time) (string, string) {
	now := time.Now()
	id := issuer.did + "#" + freshID()
	claims := map[string]any{
		"iss": issuer.did, "sub": subject, "jti": id, "nbf": now.Add(-time.Minute).Unix(), "exp": exp.Unix(),
		"vc": map[string]any{
			"@context":          []string{"https://www.w3.org/2018/credentials/v1"},
			"type":              []string{"VerifiableCredential", typ},
			"credentialSubject": map[string]any{"id": subject, "member": "yes"},
		},
	}
	return signCompact(issuer.key, map[string]any{"alg": "ES256", "typ": "JWT", "kid": issuer.kid}, claims), id
}

// ------------------------------------------------------------------------------ reading what was sent

type jwtParts struct {
	header map[string]any
	claims map[string]any
}

func splitJWT(raw string) (*jwtParts, error) {
	parts := strings.Split(raw, ".")
	if len(parts) != 3 {
		return nil, errors.New("not a compact JWS")
	}
	var out jwtParts
	hb, err := b64.DecodeString(parts[0])
	if err != nil {
		return nil, err
	}
	pb, err := b64.DecodeString(parts[1])
	if err != nil {
		return nil, err
	}
	if err = json.Unmarshal(hb, &out.header); err != nil {
		return nil, err
	}
	if err = json.Unmarshal(pb, &out.claims); err != nil {
		return nil, err
	}
	return &out, nil
}

func didOfKid(kid string) string {
	if i := strings.Index(kid, "#"); i >= 0 {
		return kid[:i]
	}
	return kid
}

func didMethod(did string) string {
	p := strings.Split(did, ":")
	if len(p) < 3 {
		return ""
	}
	return p[1]
}

func num(v any) (int64, bool) {
	f, ok := v.(float64)
	return int64(f), ok
}

func strList(v any) []string {
	switch a := v.(type) {
	case string:
		return []string{a}
	case []any:
		var out []string
		for _, x := range a {
			if s, ok := x.(string); ok {
				out = append(out, s)
			}
		}
		return out
	}
	return nil
}

func contains(l []string, s string) bool {
	for _, x := range l {
		if x == s {
			return true
		}
	}
	return false
}

// sentCred is one credential found in a presentation.
type sentCred struct {
	Types   []string
	Issuer  string
	Subject string
	Raw     string         // the JWT, for harness-issued credentials
	Fields  map[string]any // credentialSubject
}

// sentVP is what the harness reads from a presentation the code handed to the HTTP client.
type sentVP struct {
	Signer     string
	JTI        string
	Exp        int64
	Aud        []string
	Retraction bool
	RetractJTI string
	Creds      []sentCred
	Raw        string
}

func parseSent(raw string) (*sentVP, error) {
	j, err := splitJWT(raw)
	if err != nil {
		return nil, err
	}
	out := &sentVP{Raw: raw}
	kid, _ := j.header["kid"].(string)
	out.Signer = didOfKid(kid)
	out.JTI, _ = j.claims["jti"].(string)
	out.Exp, _ = num(j.claims["exp"])
	out.Aud = strList(j.claims["aud"])
	out.RetractJTI, _ = j.claims["retract_jti"].(string)
	vp, _ := j.claims["vp"].(map[string]any)
	out.Retraction = contains(strList(vp["type"]), retractionType)
	var list []any
	switch c := vp["verifiableCredential"].(type) {
	case nil:
	case []any:
		list = c
	default:
		list = []any{c}
	}
	for _, x := range list {
		switch c := x.(type) {
		case string:
			cj, err := splitJWT(c)
			if err != nil {
				return nil, fmt.Errorf("unparsable credential in presentation: %w", err)
			}
			sc := sentCred{Raw: c}
			sc.Issuer, _ = cj.claims["iss"].(string)
			sc.Subject, _ = cj.claims["sub"].(string)
			if cvc, ok := cj.claims["vc"].(map[string]any); ok {
				sc.Types = strList(cvc["type"])
				sc.Fields, _ = cvc["credentialSubject"].(map[string]any)
			}
			out.Creds = append(out.Creds, sc)
		case map[string]any:
			sc := sentCred{Types: strList(c["type"])}
			switch iss := c["issuer"].(type) {
			case string:
				sc.Issuer = iss
			case map[string]any:
				sc.Issuer, _ = iss["id"].(string)
			}
			switch cs := c["credentialSubject"].(type) {
			case map[string]any:
				sc.Fields = cs
			case []any:
				if len(cs) > 0 {
					sc.Fields, _ = cs[0].(map[string]any)
				}
			}
			if sc.Fields != nil {
				sc.Subject, _ = sc.Fields["id"].(string)
			}
			out.Creds = append(out.Creds, sc)
		default:
			return nil, errors.New("credential of unknown shape in presentation")
		}
	}
	return out, nil
}
