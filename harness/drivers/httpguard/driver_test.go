// Driver for HttpGuard.tla (C04): every abstract case enumerated by TLC becomes a raw TCP request against the real
// http.Engine (real MultiEcho, real tokenV2 middleware, real authorized_keys file) with a freshly forged credential.
package httpguard

import (
	"bufio"
	"crypto/rand"
	"crypto/sha256"
	"crypto/x509"
	"crypto/x509/pkix"
	"encoding/base64"
	"encoding/json"
	"fmt"
	"io"
	"math/big"
	"net"
	"net/http"
	"os"
	"path/filepath"
	"sort"
	"strings"
	"sync"
	"testing"
	"time"

	"github.com/labstack/echo/v4"
	"github.com/nuts-foundation/nuts-node/core"
	nutshttp "github.com/nuts-foundation/nuts-node/http"
	"github.com/sirupsen/logrus"
	"golang.org/x/crypto/ssh"

	"verifharness/txforge"
)

const audience = "verif-audience"

type tok struct {
	Shape  string `json:"shape"`
	Ser    string `json:"ser"`
	Alg    string `json:"alg"`
	Signer string `json:"signer"`
	Hdr    string `json:"hdr"`
	Aud    string `json:"aud"`
	Iss    string `json:"iss"`
	Sub    string `json:"sub"`
	Jti    string `json:"jti"`
	Nbf    string `json:"nbf"`
	Iat    string `json:"iat"`
	Life   string `json:"life"`
	// exact values of the time claims (filled from the case's "tv"; part of the cache key)
	TV  timeValues `json:"-"`
	Len string     `json:"len"`
}

// timeValues: durations in seconds as decimal text, computed by the specification (HttpGuard.tla TimeValues)
type timeValues struct {
	Nbf  string `json:"nbf"`  // now - nbf, or "missing"
	Base string `json:"base"` // now - (start of the window exp is placed after)
	Iat  string `json:"iat"`  // nbf - iat, or "missing" / "later" (between nbf and now) / "future" (now + 1 h)
	Exp  string `json:"exp"`  // "rel:<exp - base>", "abs:<NumericDate>", "relstr:<exp - base>" (JSON string), "missing"
}

// rat parses a decimal ("NOW" = seconds since the epoch).
func rat(v string, now int64) *big.Rat {
	if v == "NOW" {
		return new(big.Rat).SetInt64(now)
	}
	r, ok := new(big.Rat).SetString(v)
	if !ok {
		panic("bad number " + v)
	}
	return r
}

// numericDate renders r as a JSON number without loss (integers in full, halves as .5).
func numericDate(r *big.Rat) json.Number {
	if r.IsInt() {
		return json.Number(r.Num().String())
	}
	return json.Number(r.FloatString(1))
}

// timeClaims computes iat/nbf/exp exactly from the abstract values (nil = claim absent).
func timeClaims(tv timeValues, now int64) (iat, nbf, exp any) {
	n := new(big.Rat).SetInt64(now)
	base := new(big.Rat).Sub(n, rat(tv.Base, now))
	if tv.Nbf != "missing" {
		nbf = numericDate(new(big.Rat).Sub(n, rat(tv.Nbf, now)))
	}
	switch tv.Iat {
	case "missing":
	case "later": // strictly between nbf and now (when nbf is in the past)
		half := new(big.Rat).Quo(rat(tv.Base, now), big.NewRat(2, 1))
		half = new(big.Rat).SetInt(new(big.Int).Quo(half.Num(), half.Denom()))
		iat = numericDate(new(big.Rat).Add(base, half))
	case "future":
		iat = numericDate(new(big.Rat).SetInt64(now + 3600))
	default:
		iat = numericDate(new(big.Rat).Sub(base, rat(tv.Iat, now)))
	}
	switch {
	case tv.Exp == "missing":
	case strings.HasPrefix(tv.Exp, "abs:"):
		exp = json.Number(tv.Exp[4:])
	case strings.HasPrefix(tv.Exp, "relrfc:"):
		r := new(big.Rat).Add(base, rat(tv.Exp[7:], now))
		exp = time.Unix(new(big.Int).Quo(r.Num(), r.Denom()).Int64(), 0).UTC().Format(time.RFC3339)
	case strings.HasPrefix(tv.Exp, "relstr:"):
		exp = string(numericDate(new(big.Rat).Add(base, rat(tv.Exp[7:], now))))
	default:
		exp = numericDate(new(big.Rat).Add(base, rat(tv.Exp[4:], now)))
	}
	return
}

type caseIn struct {
	ID     string     `json:"id"`
	Cfg    string     `json:"cfg"`
	Port   string     `json:"port"`
	Form   string     `json:"form"`
	Method string     `json:"method"`
	Target []string   `json:"target"`
	Tok    tok        `json:"tok"`
	TV     timeValues `json:"tv"`
	// histories: the relation of this request to the earlier one(s) of the behaviour ("none" = a single request)
	Rel  string   `json:"rel"`
	Past []pastIn `json:"past"`
}

// pastIn is an earlier request of the history: the same listener and target, with this credential (described at ITS time)
type pastIn struct {
	Tok tok        `json:"tok"`
	TV  timeValues `json:"tv"`
}

type input struct {
	Cases []caseIn `json:"cases"`
}

type obs struct {
	Real    string   `json:"real"`
	Line    string   `json:"line"`
	Auth    []string `json:"auth,omitempty"` // only kept for replay / samples (shortened)
	Status  int      `json:"status"`
	Reached []string `json:"reached"`
	User    string   `json:"user"`
	Err     string   `json:"err,omitempty"`
	// histories: what the earlier request of the behaviour did, when the two requests were sent (Unix seconds) and the
	// exp claim of the earlier request's token
	First       *obs    `json:"first,omitempty"`
	SentAt      float64 `json:"sent_at,omitempty"`
	FirstSentAt float64 `json:"first_sent_at,omitempty"`
	FirstExp    float64 `json:"first_exp,omitempty"`
}

type result struct {
	ID    string `json:"id"`
	Obs   []obs  `json:"obs"`
	Error string `json:"error,omitempty"`
}

// ------------------------------------------------------------------------------------------------ keys

type user struct {
	name string
	key  txforge.AnyKey
	kid  string // SSH SHA256 fingerprint
	jkt  string // RFC 7638 thumbprint
}

var kinds = []string{"ed25519", "p256", "p384", "p521", "rsa"}
var names = map[string]string{"ed25519": "alice@verif", "p256": "bob@verif", "p384": "carol@verif", "p521": "dave@verif", "rsa": "erin@verif"}

func thumbprint(k txforge.AnyKey) string {
	j := k.PublicJWK()
	var s string
	switch j["kty"] {
	case "EC":
		s = fmt.Sprintf(`{"crv":"%s","kty":"EC","x":"%s","y":"%s"}`, j["crv"], j["x"], j["y"])
	case "OKP":
		s = fmt.Sprintf(`{"crv":"%s","kty":"OKP","x":"%s"}`, j["crv"], j["x"])
	default:
		s = fmt.Sprintf(`{"e":"%s","kty":"RSA","n":"%s"}`, j["e"], j["n"])
	}
	h := sha256.Sum256([]byte(s))
	return base64.RawURLEncoding.EncodeToString(h[:])
}

func newUser(kind, name string) user {
	k := txforge.NewAnyKey(kind)
	sp, err := ssh.NewPublicKey(k.Public())
	if err != nil {
		panic(err)
	}
	return user{name: name, key: k, kid: ssh.FingerprintSHA256(sp), jkt: thumbprint(k)}
}

func (u user) authorizedLine() string {
	sp, _ := ssh.NewPublicKey(u.key.Public())
	return strings.TrimSpace(string(ssh.MarshalAuthorizedKey(sp))) + " " + u.name
}

type world struct {
	auth     map[string]user
	attacker map[string]user
	keysFile string
	engines  map[string]*inst
	cache    map[tok][]cred
	cert     map[string]string
}

// ------------------------------------------------------------------------------------------------ engine

type inst struct {
	engine   *nutshttp.Engine
	internal string
	public   string
	mu       sync.Mutex
	hits     []string
	user     string
}

var routes = map[string]string{"internal": "/internal/x", "iparam": "/internal/p/:id", "iwild": "/internal/w/*", "iroot": "/internal",
	"status": "/status", "metrics": "/metrics", "health": "/health", "public": "/pub/x"}

func freePort() int {
	l, err := net.Listen("tcp", "127.0.0.1:0")
	if err != nil {
		panic(err)
	}
	defer l.Close()
	return l.Addr().(*net.TCPAddr).Port
}

func canDial(addr string) bool {
	c, err := net.DialTimeout("tcp", addr, 300*time.Millisecond)
	if err != nil {
		return false
	}
	c.Close()
	return true
}

func startEngine(same bool, keysFile string) (*inst, error) {
	var lastErr error
	for attempt := 0; attempt < 8; attempt++ {
		in := &inst{}
		in.internal = fmt.Sprintf("127.0.0.1:%d", freePort())
		in.public = in.internal
		if !same {
			in.public = fmt.Sprintf("127.0.0.1:%d", freePort())
		}
		stopped := make(chan struct{}, 4)
		e := nutshttp.New(func() { stopped <- struct{}{} }, nil)
		cfg := e.Config().(*nutshttp.Config)
		cfg.Internal.Address = in.internal
		cfg.Public.Address = in.public
		cfg.Internal.Auth = nutshttp.AuthConfig{Type: nutshttp.BearerTokenAuthV2, AuthorizedKeysPath: keysFile, Audience: audience}
		if err := e.Configure(*core.NewServerConfig()); err != nil {
			return nil, fmt.Errorf("Configure: %w", err)
		}
		for fam, pattern := range routes {
			fam := fam
			h := func(c echo.Context) error {
				in.mu.Lock()
				in.hits = append(in.hits, fam)
				if u, ok := c.Get(core.UserContextKey).(string); ok {
					in.user = u
				}
				in.mu.Unlock()
				return c.String(http.StatusOK, "handler:"+fam)
			}
			for _, m := range []string{http.MethodGet, http.MethodPost, http.MethodConnect, http.MethodOptions} {
				e.Router().Add(m, pattern, h)
			}
		}
		if err := e.Start(); err != nil {
			return nil, err
		}
		ok := false
		deadline := time.Now().Add(5 * time.Second)
	wait:
		for time.Now().Before(deadline) {
			select {
			case <-stopped:
				break wait
			default:
			}
			if canDial(in.internal) && canDial(in.public) {
				ok = true
				break
			}
			time.Sleep(10 * time.Millisecond)
		}
		if ok {
			// make sure it is OUR engine that answers on both ports (another process may have grabbed a port in between)
			_, r1, _, e1 := in.request("internal", http.MethodGet, "/status", nil)
			_, r2, _, e2 := in.request("public", http.MethodGet, "/pub/x", nil)
			if e1 == nil && e2 == nil && len(r1) == 1 && r1[0] == "status" && len(r2) == 1 && r2[0] == "public" {
				in.engine = e
				return in, nil
			}
			lastErr = fmt.Errorf("listeners %s / %s are not served by this engine", in.internal, in.public)
			_ = e.Shutdown()
			continue
		}
		lastErr = fmt.Errorf("listeners %s / %s did not come up", in.internal, in.public)
		_ = e.Shutdown()
	}
	return nil, lastErr
}

func (in *inst) request(port, method, target string, authHeaders []string) (status int, reached []string, usr string, err error) {
	k, err := in.dial(port)
	if err != nil {
		return 0, nil, "", err
	}
	defer k.Close()
	return k.exchange(method, target, authHeaders, true)
}

// link is one TCP connection to a listener of the engine; several requests can be sent over it (keep-alive)
type link struct {
	in   *inst
	addr string
	conn net.Conn
	br   *bufio.Reader
}

func (k *link) Close() { k.conn.Close() }

func (in *inst) dial(port string) (*link, error) {
	addr := in.internal
	if port == "public" {
		addr = in.public
	}
	var conn net.Conn
	var err error
	for i := 0; i < 5; i++ {
		conn, err = net.DialTimeout("tcp", addr, 2*time.Second)
		if err == nil {
			break
		}
		time.Sleep(20 * time.Millisecond)
	}
	if err != nil {
		return nil, err
	}
	return &link{in: in, addr: addr, conn: conn, br: bufio.NewReader(conn)}, nil
}

// exchange sends one request over the connection and reads the answer; last = ask the server to close afterwards
func (k *link) exchange(method, target string, authHeaders []string, last bool) (status int, reached []string, usr string, err error) {
	in := k.in
	in.mu.Lock()
	in.hits, in.user = nil, ""
	in.mu.Unlock()
	_ = k.conn.SetDeadline(time.Now().Add(10 * time.Second))
	var sb strings.Builder
	sb.WriteString(method + " " + target + " HTTP/1.1\r\nHost: " + k.addr + "\r\n")
	for _, h := range authHeaders {
		sb.WriteString(h + "\r\n")
	}
	if last {
		sb.WriteString("Connection: close\r\n")
	}
	sb.WriteString("\r\n")
	if _, err = io.WriteString(k.conn, sb.String()); err != nil {
		return 0, nil, "", err
	}
	resp, err := http.ReadResponse(k.br, nil)
	if err != nil {
		return 0, nil, "", err
	}
	_, _ = io.Copy(io.Discard, resp.Body)
	resp.Body.Close()
	in.mu.Lock()
	reached = append([]string{}, in.hits...)
	usr = in.user
	in.mu.Unlock()
	sort.Strings(reached)
	return resp.StatusCode, reached, usr, nil
}

// ------------------------------------------------------------------------------------------------ credentials

type cred struct {
	real    string
	headers []string
}

func (w *world) selfSigned(u user) string {
	if c, ok := w.cert[u.kid]; ok {
		return c
	}
	tpl := &x509.Certificate{SerialNumber: big.NewInt(1), Subject: pkix.Name{CommonName: u.name},
		NotBefore: time.Now().Add(-time.Hour), NotAfter: time.Now().Add(time.Hour)}
	der, err := x509.CreateCertificate(rand.Reader, tpl, tpl, u.key.Public(), u.key.Priv)
	if err != nil {
		panic(err)
	}
	w.cert[u.kid] = txforge.StdB64(der)
	return w.cert[u.kid]
}

func uuid4() string {
	b := make([]byte, 16)
	_, _ = rand.Read(b)
	b[6] = (b[6] & 0x0f) | 0x40
	b[8] = (b[8] & 0x3f) | 0x80
	return fmt.Sprintf("%x-%x-%x-%x-%x", b[0:4], b[4:6], b[6:8], b[8:10], b[10:])
}

// tokens builds the JWS text(s) for the attributes (several realisations for MAC algorithms).
func (w *world) tokens(t tok) map[string]string {
	out, _ := w.tokensOver(t, nil)
	return out
}

// tokensOver is tokens, but the claims are the given payload when there is one (histories: the claims of an earlier token
// under another signature); it also returns the payload that was signed.
func (w *world) tokensOver(t tok, over []byte) (map[string]string, []byte) {
	kind, alg := "ed25519", t.Alg
	if i := strings.IndexByte(t.Alg, '/'); i > 0 {
		kind, alg = t.Alg[:i], t.Alg[i+1:]
	}
	authU := w.auth[kind]
	signer, kid := authU, authU.kid
	hasKid := true
	switch t.Signer {
	case "authorised-kid-thumb":
		kid = authU.jkt
	case "attacker":
		signer = w.attacker[kind]
		kid = signer.kid
	case "attacker-kid-auth":
		signer = w.attacker[kind]
	case "authorised-kid-unknown":
		kid = "SHA256:AAAAAAAAAAAAAAAAAAAAAAAAAAAAAAAAAAAAAAAAAAA"
	case "authorised-no-kid":
		hasKid = false
	}
	now := time.Now().Unix()
	claims := map[string]any{"sub": "verif-subject", "jti": uuid4(), "aud": audience, "iss": authU.name,
		"iat": now - 60, "nbf": now - 60, "exp": now + 3600}
	switch t.Aud {
	case "array-ok":
		claims["aud"] = []string{"somebody-else", audience}
	case "wrong":
		claims["aud"] = "another-node"
	case "missing":
		delete(claims, "aud")
	}
	switch t.Iss {
	case "other-user":
		other := "p256"
		if kind == "p256" {
			other = "ed25519"
		}
		claims["iss"] = w.auth[other].name
	case "unknown":
		claims["iss"] = "mallory@verif"
	case "missing":
		delete(claims, "iss")
	}
	switch t.Sub {
	case "empty":
		claims["sub"] = ""
	case "missing":
		delete(claims, "sub")
	}
	switch t.Jti {
	case "text":
		claims["jti"] = "not-a-uuid"
	case "missing":
		delete(claims, "jti")
	}
	if over == nil {
		iat, nbf, exp := timeClaims(t.TV, now)
		for name, v := range map[string]any{"iat": iat, "nbf": nbf, "exp": exp} {
			if v == nil {
				delete(claims, name)
			} else {
				claims[name] = v
			}
		}
	}
	if t.Len == "long" {
		claims["pad"] = strings.Repeat("a", 4200)
	}
	payload, _ := json.Marshal(claims)
	if over != nil {
		payload = over
	}
	hdr := map[string]any{"typ": "JWT", "alg": alg}
	if hasKid {
		hdr["kid"] = kid
	}
	switch t.Hdr {
	case "jwk":
		hdr["jwk"] = signer.key.PublicJWK()
	case "jku":
		hdr["jku"] = "https://attacker.example/jwks.json"
	case "x5c":
		hdr["x5c"] = []string{w.selfSigned(signer)}
	case "x5u":
		hdr["x5u"] = "https://attacker.example/cert.pem"
	}
	compacts := map[string]string{}
	switch {
	case alg == "none":
		compacts[""] = txforge.CompactNone(txforge.Header(hdr), payload)
	case strings.HasPrefix(alg, "HS"):
		// the classical confusion: the MAC secret is some encoding of an authorised PUBLIC key
		for _, k := range []string{"rsa", "ed25519", "p256"} {
			h2 := map[string]any{}
			for a, b := range hdr {
				h2[a] = b
			}
			if hasKid && (t.Signer == "authorised" || t.Signer == "attacker-kid-auth") {
				h2["kid"] = w.auth[k].kid
			}
			for enc, secret := range w.auth[k].key.PublicEncodings() {
				compacts[k+"-"+enc] = txforge.CompactMAC(txforge.Header(h2), payload, alg, secret)
			}
		}
	default:
		compacts[""] = txforge.CompactAlg(txforge.Header(hdr), payload, signer.key, alg)
	}
	out := map[string]string{}
	for name, c := range compacts {
		switch t.Ser {
		case "compact":
			out[name] = c
		case "flattened":
			out[name] = txforge.FlattenedOf(c)
		case "general1":
			out[name] = txforge.GeneralOf(c)
		case "general0":
			out[name] = txforge.GeneralEmpty(c)
		case "general2af", "general2uf":
			att := w.attacker["ed25519"]
			ah := txforge.Header(map[string]any{"typ": "JWT", "alg": "EdDSA", "kid": att.kid})
			ac := txforge.CompactAlg(ah, payload, att.key, "EdDSA")
			if t.Ser == "general2af" {
				out[name] = txforge.GeneralOf(ac, c)
			} else {
				out[name] = txforge.GeneralOf(c, ac)
			}
		}
	}
	return out, payload
}

func (w *world) credentials(t tok) []cred {
	if c, ok := w.cache[t]; ok {
		return c
	}
	var out []cred
	if t.Shape == "absent" {
		out = []cred{{"", nil}}
	} else if t.Shape == "empty" {
		out = []cred{{"", []string{"Authorization: "}}}
	} else if t.Shape == "scheme-only" {
		out = []cred{{"", []string{"Authorization: Bearer"}}, {"trailing-space", []string{"Authorization: Bearer "}}}
	} else {
		toks := w.tokens(t)
		names := make([]string, 0, len(toks))
		for n := range toks {
			names = append(names, n)
		}
		sort.Strings(names)
		for _, n := range names {
			jws := toks[n]
			switch t.Shape {
			case "bearer":
				out = append(out, cred{n, []string{"Authorization: Bearer " + jws}})
			case "bearer-lower":
				out = append(out, cred{n, []string{"authorization: bearer " + jws}})
			case "basic":
				out = append(out, cred{n + "raw", []string{"Authorization: Basic " + jws}})
				out = append(out, cred{n + "userpass", []string{"Authorization: Basic " + base64.StdEncoding.EncodeToString([]byte("alice@verif:"+jws))}})
			case "nospace":
				out = append(out, cred{n, []string{"Authorization: Bearer" + jws}})
			case "extra-field":
				out = append(out, cred{n, []string{"Authorization: Bearer " + jws + " x"}})
			case "dup-garbage-first":
				out = append(out, cred{n, []string{"Authorization: Bearer garbage", "Authorization: Bearer " + jws}})
			default:
				panic("unknown shape " + t.Shape)
			}
		}
	}
	w.cache[t] = out
	return out
}

func short(hs []string) []string {
	out := []string{}
	for _, h := range hs {
		if len(h) > 160 {
			h = h[:120] + "..." + h[len(h)-30:]
		}
		out = append(out, h)
	}
	return out
}

func (w *world) run(c caseIn) (res result) {
	res.ID = c.ID
	defer func() {
		if r := recover(); r != nil {
			res.Error = fmt.Sprint("driver panic: ", r)
		}
	}()
	in := w.engines[c.Cfg]
	if in == nil {
		res.Error = "unknown cfg " + c.Cfg
		return
	}
	addr := in.internal
	if c.Port == "public" {
		addr = in.public
	}
	var sb strings.Builder
	for _, a := range c.Target {
		if a == "HOST" {
			a = addr
		}
		sb.WriteString(a)
	}
	target := sb.String()
	c.Tok.TV = c.TV
	for _, cr := range w.credentials(c.Tok) {
		st, reached, usr, err := in.request(c.Port, c.Method, target, cr.headers)
		o := obs{Real: cr.real, Line: c.Method + " " + target + " HTTP/1.1", Auth: short(cr.headers), Status: st, Reached: reached, User: usr}
		if err != nil {
			o.Err = err.Error()
		}
		res.Obs = append(res.Obs, o)
	}
	return
}

// ------------------------------------------------------------------------------------------------ histories

func isHistory(c caseIn) bool { return c.Rel != "" && c.Rel != "none" && len(c.Past) > 0 }

func unixNow() float64 { return float64(time.Now().UnixNano()) / 1e9 }

// pending is a history whose first request has been made and whose second request waits for the lapse of time
type pending struct {
	c       caseIn
	target  string
	first   obs
	headers []string // the credential of the first request
	payload []byte   // its claims
	sentAt  float64
	exp     float64
}

func (w *world) targetOf(c caseIn) (in *inst, target string) {
	in = w.engines[c.Cfg]
	addr := in.internal
	if c.Port == "public" {
		addr = in.public
	}
	var sb strings.Builder
	for _, a := range c.Target {
		if a == "HOST" {
			a = addr
		}
		sb.WriteString(a)
	}
	return in, sb.String()
}

// first makes the first request of a history (and, for the relations that need no lapse of time, the second one on the same
// connection: then the result is complete and returned).
func (w *world) first(c caseIn) (p *pending, res *result) {
	res = &result{ID: c.ID}
	defer func() {
		if r := recover(); r != nil {
			res.Error = fmt.Sprint("driver panic: ", r)
			p = nil
		}
	}()
	in, target := w.targetOf(c)
	ft := c.Past[0].Tok
	ft.TV = c.Past[0].TV
	toks, payload := w.tokensOver(ft, nil)
	jws, ok := toks[""]
	if !ok {
		panic("history: the first credential has no single realisation")
	}
	var claims map[string]any
	_ = json.Unmarshal(payload, &claims)
	exp, _ := claims["exp"].(float64)
	p = &pending{c: c, target: target, headers: []string{"Authorization: Bearer " + jws}, payload: payload, exp: exp}
	line := c.Method + " " + target + " HTTP/1.1"
	k, err := in.dial(c.Port)
	if err != nil {
		res.Error = err.Error()
		return nil, res
	}
	defer k.Close()
	sameConn := c.Rel == "absent-keepalive"
	p.sentAt = unixNow()
	st, reached, usr, err := k.exchange(c.Method, target, p.headers, !sameConn)
	p.first = obs{Line: line, Auth: short(p.headers), Status: st, Reached: reached, User: usr}
	if err != nil {
		p.first.Err = err.Error()
	}
	if !sameConn {
		return p, nil
	}
	o := obs{Real: c.Rel, Line: line + " (second request on the connection)", First: &p.first, FirstSentAt: p.sentAt, FirstExp: p.exp, SentAt: unixNow()}
	if err == nil {
		o.Status, o.Reached, o.User, err = k.exchange(c.Method, target, nil, true)
	}
	if err != nil {
		o.Err = err.Error()
	}
	res.Obs = []obs{o}
	return nil, res
}

// second makes the second request of a history after the lapse of time.
func (w *world) second(p *pending) (res result) {
	res.ID = p.c.ID
	defer func() {
		if r := recover(); r != nil {
			res.Error = fmt.Sprint("driver panic: ", r)
		}
	}()
	c := p.c
	in := w.engines[c.Cfg]
	headers := p.headers
	switch c.Rel {
	case "same-later":
	case "resigned-later": // the claims of the first token under the signature the attributes describe
		toks, _ := w.tokensOver(c.Tok, p.payload)
		headers = []string{"Authorization: Bearer " + toks[""]}
	default:
		panic("unknown relation " + c.Rel)
	}
	o := obs{Real: c.Rel, Line: c.Method + " " + p.target + " HTTP/1.1", Auth: short(headers), First: &p.first, FirstSentAt: p.sentAt, FirstExp: p.exp, SentAt: unixNow()}
	var err error
	o.Status, o.Reached, o.User, err = in.request(c.Port, c.Method, p.target, headers)
	if err != nil {
		o.Err = err.Error()
	}
	res.Obs = []obs{o}
	return
}

func TestDriver(t *testing.T) {
	inPath, outPath := os.Getenv("VERIF_IN"), os.Getenv("VERIF_OUT")
	if inPath == "" {
		t.Skip("VERIF_IN not set")
	}
	logrus.SetLevel(logrus.PanicLevel)
	logrus.SetOutput(io.Discard)
	raw, err := os.ReadFile(inPath)
	if err != nil {
		t.Fatal(err)
	}
	var in input
	if err := json.Unmarshal(raw, &in); err != nil {
		t.Fatal(err)
	}
	w := &world{auth: map[string]user{}, attacker: map[string]user{}, engines: map[string]*inst{}, cache: map[tok][]cred{}, cert: map[string]string{}}
	lines := []string{"# authorised API users (verif)"}
	for _, k := range kinds {
		w.auth[k] = newUser(k, names[k])
		w.attacker[k] = newUser(k, "mallory@verif")
		lines = append(lines, w.auth[k].authorizedLine())
	}
	w.keysFile = filepath.Join(t.TempDir(), "authorized_keys")
	if err := os.WriteFile(w.keysFile, []byte(strings.Join(lines, "\n")+"\n"), 0o600); err != nil {
		t.Fatal(err)
	}
	for _, cfg := range []string{"same", "diff"} {
		e, err := startEngine(cfg == "same", w.keysFile)
		if err != nil {
			t.Fatal(err)
		}
		w.engines[cfg] = e
		defer e.engine.Shutdown()
	}
	out, err := os.Create(outPath)
	if err != nil {
		t.Fatal(err)
	}
	defer out.Close()
	bw := bufio.NewWriter(out)
	defer bw.Flush()
	enc := json.NewEncoder(bw)
	// histories: all first requests now; the second requests as soon as every short-lived token of a first request has
	// expired (exp is a whole second; 300 ms later the token is expired for everybody); the other cases fill the wait
	var pend []*pending
	var due time.Time
	for _, c := range in.Cases {
		if !isHistory(c) {
			continue
		}
		p, res := w.first(c)
		if p == nil {
			if err := enc.Encode(res); err != nil {
				t.Fatal(err)
			}
			continue
		}
		pend = append(pend, p)
		if p.c.Past[0].Tok.Life == "short" {
			if d := time.Unix(int64(p.exp), 0).Add(300 * time.Millisecond); d.After(due) {
				due = d
			}
		}
	}
	flush := func() {
		for _, p := range pend {
			if err := enc.Encode(w.second(p)); err != nil {
				t.Fatal(err)
			}
		}
		pend = nil
	}
	for _, c := range in.Cases {
		if isHistory(c) {
			continue
		}
		if pend != nil && time.Now().After(due) {
			flush()
		}
		if err := enc.Encode(w.run(c)); err != nil {
			t.Fatal(err)
		}
	}
	if pend != nil {
		if d := time.Until(due); d > 0 {
			time.Sleep(d)
		}
		flush()
	}
}
