package pkicrl

import (
	"fmt"
	"sync"

	"github.com/nuts-foundation/nuts-node/pki"
)

// runStress: the check-then-act of addEndpoints (sync.Map Load; Store) has no seam, so the lost update of the revocation
// list map that the model shows with FineAdd cannot be replayed step by step. Here 8 goroutines validate L1 for the first
// time at once, nothing is gated; only the FIRST request of the endpoint is answered (with a list that revokes L1), every
// later one fails. A download completed, so the map must hold that list afterwards and L1 must stay revoked. A hit is
// real behaviour of the code; no hit proves nothing.
func runStress(w *world, n int) resultT {
	res := resultT{ID: "stress", Verdicts: map[string]int{}}
	lost, accepted := 0, 0
	for trial := 0; trial < n; trial++ {
		sc := scriptT{ID: "stress", Soft: true, InitSrv: map[string]string{"eR": "R.1", "e1": "A.2", "e1b": "B.1", "e2": "C.1", "eX": "X.fail"}, InitDl: "dfail"}
		r, cleanup, err := newRunner(w, sc, "")
		if err != nil {
			cleanup()
			res.Error = "stress set-up: " + err.Error()
			return res
		}
		r.e.ungated = true
		r.e.firstOnly = map[string]int{}
		var wg sync.WaitGroup
		start := make(chan struct{})
		for g := 0; g < 8; g++ {
			wg.Add(1)
			go func() {
				defer wg.Done()
				<-start
				_ = r.engine.CheckCRL(w.chain([]string{"L1"}))
			}()
		}
		close(start)
		wg.Wait()
		stored := "nothing"
		for _, c := range pki.VerifX06CRLs(r.engine) {
			if urlKey(c.Endpoint) == "e1" && !c.LastUpdated.IsZero() {
				stored = w.idOfRaw(c.List.Raw)
			}
		}
		if stored != "A.2" {
			lost++
			if r.engine.CheckCRL(w.chain([]string{"L1"})) == nil {
				accepted++
			}
		}
		cleanup()
	}
	res.Validations = n * 8
	res.Stress = map[string]int{"trials": n, "list_lost": lost, "revoked_accepted_afterwards": accepted}
	if lost > 0 {
		res.Violations = append(res.Violations, violation{Prop: PROP, Kind: "list-lost", Site: "concurrent-first-validations",
			Detail: fmt.Sprintf("8 concurrent first validations of L1, the endpoint answers once (A.2, revokes L1): in %d of %d trials the map holds no list afterwards although a download completed; in %d of them L1 is accepted by the next validation", lost, n, accepted)})
	}
	return res
}
