package pkicrl

import (
	"bufio"
	"crypto/tls"
	"crypto/x509"
	"encoding/json"
	"errors"
	"fmt"
	"io"
	"net/http"
	"os"
	"runtime"
	"sort"
	"strings"
	"testing"
	"time"

	"github.com/nuts-foundation/go-did/did"
	"github.com/nuts-foundation/nuts-node/core"
	"github.com/nuts-foundation/nuts-node/network/transport"
	ngrpc "github.com/nuts-foundation/nuts-node/network/transport/grpc"
	"github.com/nuts-foundation/nuts-node/pki"
	"github.com/sirupsen/logrus"
)

const PROP = "X06"

type stepT struct {
	A   string   `json:"a"`
	T   string   `json:"t,omitempty"`
	Ch  []string `json:"ch,omitempty"`
	Via string   `json:"via,omitempty"`
	Cn  bool     `json:"cn,omitempty"`
	E   string   `json:"e,omitempty"`
	O   string   `json:"o,omitempty"`
	Res string   `json:"res,omitempty"`
	At  string   `json:"at,omitempty"`
	Pc  string   `json:"pc,omitempty"`
	Req []string `json:"req,omitempty"`
}

type scriptT struct {
	ID      string            `json:"id"`
	Steps   []stepT           `json:"steps"`
	UseDl   bool              `json:"usedl"`
	Soft    bool              `json:"soft"`
	InitSrv map[string]string `json:"initsrv"`
	InitDl  string            `json:"initdl"`
	Trusted []string          `json:"trusted"`
}

type inputT struct {
	Catalogue catalogue `json:"catalogue"`
	Scripts   []scriptT `json:"scripts"`
	Sabotage  string    `json:"sabotage"`
	Stress    int       `json:"stress"`
}

type violation struct {
	Prop   string `json:"prop"`
	Kind   string `json:"kind"`
	Site   string `json:"site"`
	Detail string `json:"detail"`
	Step   int    `json:"step"`
}

type resultT struct {
	ID          string           `json:"id"`
	Violations  []violation      `json:"violations"`
	Trace       []map[string]any `json:"trace"`
	Drift       []string         `json:"drift"`
	Error       string           `json:"error,omitempty"`
	Checks      int              `json:"checks"`
	Validations int              `json:"validations"`
	Exact       int              `json:"exact"`
	Downloads   int              `json:"downloads"`
	Verdicts    map[string]int   `json:"verdicts"`
	Notes       []string         `json:"notes,omitempty"`
	Stress      map[string]int   `json:"stress,omitempty"`
}

type thread struct {
	name   string
	ch     []string
	via    string
	mode   string
	cn     bool
	snap   map[string]crlObj
	seen   map[string]bool
	t0     int
	clean  bool
	result chan error
	done   bool
	err    error
	active bool
	judged bool
	rolled map[string]bool // endpoints whose stored list was older than the newest downloaded one at some moment of the call
}

type runner struct {
	w        *world
	sc       scriptT
	e        *env
	res      *resultT
	engine   *pki.PKI
	cm       transport.ConnectionManager
	tlsCfg   *tls.Config
	trusted  map[string]bool
	threads  map[string]*thread
	syncDone chan struct{}
	syncing  bool
	best     map[string]crlObj   // newest good list per endpoint whose download completed
	ever     map[string][]crlObj // good lists handed out at all
	dlCur    *dlObj
	dlEver   []dlObj
	conns    map[string]ngrpc.Connection
	stepNo   int
	notified int
	wasLive  map[string]bool // connections that were open before the current step
	looping  bool
}

func (r *runner) violate(kind, site, detail string) {
	for _, v := range r.res.Violations {
		if v.Kind == kind && v.Site == site {
			return
		}
	}
	r.res.Violations = append(r.res.Violations, violation{Prop: PROP, Kind: kind, Site: site, Detail: detail, Step: r.stepNo})
}

func (r *runner) drift(f string, a ...any) {
	if len(r.res.Drift) < 12 {
		r.res.Drift = append(r.res.Drift, fmt.Sprintf("step %d: ", r.stepNo)+fmt.Sprintf(f, a...))
	}
}

func classOf(err error) string {
	switch {
	case err == nil:
		return "ok"
	case errors.Is(err, pki.ErrCertRevoked):
		return "revoked"
	case errors.Is(err, pki.ErrCertBanned):
		return "banned"
	case errors.Is(err, pki.ErrCertUntrusted):
		return "untrusted"
	case errors.Is(err, pki.ErrCRLMissing):
		return "crlmissing"
	case errors.Is(err, pki.ErrCRLExpired):
		return "crlexpired"
	case errors.Is(err, pki.ErrDenylistMissing):
		return "dlmissing"
	}
	return "other"
}

func has(l []string, s string) bool {
	for _, x := range l {
		if x == s {
			return true
		}
	}
	return false
}

func (r *runner) goodFor(e string, o crlObj) bool {
	return o.Kind == "good" && o.Iss == r.w.epIssuer[e]
}

func newRunner(w *world, sc scriptT, sabot string) (*runner, func(), error) {
	e := &env{w: w, g: newGates(), srv: map[string]string{}, actor: map[int64]string{}, free: map[int64]bool{}, sabot: sabot}
	for k, v := range sc.InitSrv {
		e.srv[k] = v
	}
	e.srv["dl"] = sc.InitDl
	r := &runner{w: w, sc: sc, e: e, res: &resultT{ID: sc.ID, Verdicts: map[string]int{}}, threads: map[string]*thread{}, best: map[string]crlObj{},
		ever: map[string][]crlObj{}, conns: map[string]ngrpc.Connection{}, trusted: map[string]bool{}}
	theTransport.set(e)
	restore1 := pki.VerifX06SetNow(e.clock)
	restore2 := ngrpc.VerifX06SetNow(e.clock)
	cleanup := func() {
		e.g.drainAll()
		if r.looping && r.engine != nil {
			_ = r.engine.Shutdown()
		}
		if r.syncDone != nil {
			select {
			case <-r.syncDone:
			case <-time.After(15 * time.Second):
			}
		}
		for _, t := range r.threads {
			if t.active && !t.done {
				select {
				case <-t.result:
				case <-time.After(15 * time.Second):
				}
			}
		}
		restore1()
		restore2()
		theTransport.set(nil)
	}
	trusted := sc.Trusted
	if len(trusted) == 0 {
		trusted = []string{"R", "CA1", "CA2"}
	}
	for _, c := range trusted {
		r.trusted[c] = true
	}
	r.engine = pki.New()
	cfg := r.engine.Config().(*pki.Config)
	*cfg = pki.Config{Softfail: sc.Soft, MaxUpdateFailHours: 4}
	if sc.UseDl {
		cfg.Denylist = pki.DenylistConfig{URL: dlURL, TrustedSigner: w.dlPubPEM}
	}
	if err := r.engine.Configure(core.ServerConfig{}); err != nil {
		return r, cleanup, err
	}
	// subscribers run synchronously inside denylist.Update: downloads made by them are not gated (one atomic step of the model)
	r.engine.SubscribeDenied(func() {
		e.mu.Lock()
		e.free[goid()] = true
		r.notified++
		e.mu.Unlock()
	})
	ts, err := core.ParseTrustStore(w.truststorePEM(trusted))
	if err != nil {
		return r, cleanup, err
	}
	gcfg, err := ngrpc.NewConfig("", "x06", ngrpc.WithTLS(tls.Certificate{Certificate: [][]byte{w.certs["L2"].Raw}}, ts, r.engine))
	if err != nil {
		return r, cleanup, err
	}
	cm, err := ngrpc.NewGRPCConnectionManager(gcfg, nil, did.DID{}, nil)
	if err != nil {
		return r, cleanup, err
	}
	r.cm = cm
	r.engine.SubscribeDenied(func() {
		e.mu.Lock()
		delete(e.free, goid())
		e.mu.Unlock()
	})
	r.tlsCfg, err = ngrpc.NewClientTLSConfig(&tls.Certificate{}, ts.CertPool, r.engine)
	if err != nil {
		return r, cleanup, err
	}
	return r, cleanup, nil
}

func (r *runner) addConn(c string) {
	if _, ok := r.conns[c]; ok && !ngrpc.VerifX06Closed(r.conns[c]) {
		return
	}
	peer := transport.Peer{ID: transport.PeerID(fmt.Sprintf("peer-%s-%d", c, r.stepNo)), Address: strings.ToLower(c) + ".x06.test:5555", Certificate: r.w.certs[c]}
	r.conns[c] = ngrpc.VerifX06AddConnection(r.cm, peer)
}

func (r *runner) liveConns() []string {
	out := []string{}
	for c, conn := range r.conns {
		if !ngrpc.VerifX06Closed(conn) {
			out = append(out, c)
		}
	}
	sort.Strings(out)
	return out
}

// ------------------------------------------------------------------------------------------------ reference

type cond struct{ cert, what string }

// conditions of a chain in checking order (CA first; per certificate the denylist, then its distribution points), from
// the oracle's own knowledge: the newest good list per endpoint whose download completed, the last good denylist, the clock
func (r *runner) conditions(ch []string, best map[string]crlObj, dl *dlObj, now int) []cond {
	var out []cond
	for i := len(ch) - 1; i >= 0; i-- {
		c := ch[i]
		if r.sc.UseDl {
			if dl == nil {
				out = append(out, cond{c, "dlmissing"})
			} else if has(dl.Ban, c) {
				out = append(out, cond{c, "banned"})
			}
		}
		for _, e := range r.w.cat.Dps[c] {
			b, ok := best[e]
			switch {
			case !r.trusted[r.w.cat.Issuer[c]]:
				out = append(out, cond{c, "untrusted"})
			case !ok:
				out = append(out, cond{c, "crlmissing"})
			case has(b.Rev, c):
				out = append(out, cond{c, "revoked"})
			case now >= b.Nxt:
				out = append(out, cond{c, "crlexpired"})
			}
		}
	}
	return out
}

func final(what string) bool { return what == "revoked" || what == "banned" || what == "untrusted" }

func prescribed(conds []cond, mode string) string {
	for _, c := range conds {
		if mode == "hard" || final(c.what) {
			return c.what
		}
	}
	return "ok"
}

// ------------------------------------------------------------------------------------------------ observation

func (r *runner) projection() (crls []string, dl string, stored map[string]string) {
	stored = map[string]string{}
	for _, c := range pki.VerifX06CRLs(r.engine) {
		key := urlKey(c.Endpoint)
		id := "empty"
		if !c.LastUpdated.IsZero() {
			id = r.w.idOfRaw(c.List.Raw)
		} else if c.List != nil && len(c.List.Raw) > 0 {
			id = "?unloaded-with-list"
		}
		iss := "?"
		if c.Issuer != nil {
			iss = c.Issuer.Subject.CommonName
		}
		stored[key] = id
		crls = append(crls, key+"="+iss+"/"+id)
	}
	sort.Strings(crls)
	dl = "none"
	if r.sc.UseDl {
		lu, entries, _ := pki.VerifX06Denylist(r.engine)
		if !lu.IsZero() {
			dl = "?unknown"
			for _, en := range entries {
				if en.Issuer == markerIssuer {
					dl = en.SerialNumber
				}
			}
		}
	}
	return
}

// absorb takes the completed downloads into the oracle's knowledge and evaluates the state properties.
func (r *runner) absorb(completedActor string) {
	e := r.e
	e.mu.Lock()
	var fresh []*delivery
	for _, d := range e.ledg {
		if d.Done {
			continue
		}
		if d.Free || (completedActor != "" && d.Actor == completedActor && d.PastEOF) {
			d.Done = true
			fresh = append(fresh, d)
		}
	}
	e.mu.Unlock()
	// the lists first (downloads made by the revalidation inside Update belong to the same step), then the denylist
	sort.SliceStable(fresh, func(i, j int) bool { return fresh[i].Key != "dl" && fresh[j].Key == "dl" })
	for _, d := range fresh {
		r.res.Downloads++
		if d.Key == "dl" {
			o, ok := r.w.dlByID[d.Obj]
			if ok && o.Kind == "good" {
				oc := o
				r.dlCur = &oc
				r.dlEver = append(r.dlEver, o)
				for _, t := range r.threads {
					if t.active && !t.done {
						t.seen[o.ID] = true
					}
				}
				// live connections whose certificate the list bans are closed by the time Update returns; connections with
				// nothing against them (or only a condition that soft-fail bypasses) stay open
				mode := "hard"
				if r.sc.Soft {
					mode = "soft"
				}
				_, _, stored := r.projection()
				for c, conn := range r.conns {
					closed := ngrpc.VerifX06Closed(conn)
					if has(o.Ban, c) && !closed {
						r.violate("banned-connection-open", "leaf", fmt.Sprintf("denylist %s bans %s, its connection is still open after the update", o.ID, c))
					}
					if closed && r.wasLive[c] {
						rolled := false
						for _, ep := range r.w.cat.Dps[c] {
							if b, ok := r.best[ep]; ok && stored[ep] != b.ID {
								rolled = true
							}
						}
						if want := prescribed(r.conditions([]string{c}, r.best, &oc, r.e.now), mode); want == "ok" && !rolled {
							r.violate("connection-closed-without-cause", mode, fmt.Sprintf("the connection of %s was closed by the revalidation after denylist %s was loaded; lists %v, clock %d", c, o.ID, r.bestIDs(), r.e.now))
						}
					}
				}
			}
			continue
		}
		o, ok := r.w.crlByID[d.Obj]
		if ok && r.goodFor(d.Key, o) {
			if b, have := r.best[d.Key]; !have || o.Num > b.Num {
				r.best[d.Key] = o
			}
		}
	}
}

func (r *runner) checkState() {
	r.res.Checks++
	_, dl, stored := r.projection()
	for e, b := range r.best {
		id, ok := stored[e]
		if !ok || id == "empty" {
			r.violate("list-lost", "crl", fmt.Sprintf("endpoint %s: %s was downloaded, the map holds %q", e, b.ID, id))
			continue
		}
		o, known := r.w.crlByID[id]
		switch {
		case !known:
			r.violate("bad-list-stored", "unknown", fmt.Sprintf("endpoint %s holds %s", e, id))
		case !r.goodFor(e, o):
			r.violate("bad-list-stored", o.Kind+"/"+map[bool]string{true: "right-issuer", false: "other-issuer"}[o.Iss == r.w.epIssuer[e]], fmt.Sprintf("endpoint %s holds %s", e, id))
		case o.Num < b.Num:
			for _, t := range r.threads {
				if t.active && !t.done {
					t.rolled[e] = true
				}
			}
			r.violate("older-replaced-newer", "crl", fmt.Sprintf("endpoint %s: list number %d (%s) was downloaded, the validator now holds number %d (%s)", e, b.Num, b.ID, o.Num, id))
		}
	}
	for e, id := range stored {
		if _, have := r.best[e]; have || id == "empty" {
			continue
		}
		// something is stored although no good list was ever handed out for this endpoint
		o := r.w.crlByID[id]
		r.violate("bad-list-stored", o.Kind+"/"+map[bool]string{true: "right-issuer", false: "other-issuer"}[o.Iss == r.w.epIssuer[e]], fmt.Sprintf("endpoint %s holds %s", e, id))
	}
	if r.sc.UseDl {
		want := "none"
		if r.dlCur != nil {
			want = r.dlCur.ID
		}
		if dl != want {
			kind := "denylist-not-last-good"
			site := "other"
			if o, ok := r.w.dlByID[dl]; ok && o.Kind != "good" {
				site = o.Kind + "-stored"
			} else if dl == "?unknown" {
				site = "unknown-content"
			} else if dl == "none" {
				site = "lost"
			} else if want == "none" {
				site = "stored-without-download"
			} else {
				site = "older-kept"
			}
			r.violate(kind, site, fmt.Sprintf("the last good denylist handed to Update is %s, the validator holds %s", want, dl))
		}
	}
}

func (r *runner) event(ev string, kv map[string]any) {
	crls, dl, _ := r.projection()
	m := map[string]any{"ev": ev, "crls": crls, "dl": dl, "conns": r.liveConns(), "now": r.e.now}
	for k, v := range kv {
		m[k] = v
	}
	r.res.Trace = append(r.res.Trace, m)
}

func (r *runner) others(except string) {
	for n, t := range r.threads {
		if n != except && t.active && !t.done {
			t.clean = false
		}
	}
}

// position of a validation goroutine after a step: gate -> (pc, at)
func (r *runner) pos(t *thread) (string, string) {
	if !t.done {
		select {
		case err := <-t.result:
			t.done, t.err = true, err
		default:
		}
	}
	if t.done {
		if !t.judged {
			t.judged = true
			r.judge(t)
		}
		return "done", "-"
	}
	at := r.e.g.where(t.name)
	switch {
	case strings.HasPrefix(at, "rt:"):
		return "req", at[3:]
	case strings.HasPrefix(at, "eof:"):
		return "resp", at[4:]
	}
	if len(r.res.Notes) < 2 {
		buf := make([]byte, 1<<20)
		n := runtime.Stack(buf, true)
		r.res.Notes = append(r.res.Notes, "actor "+t.name+" nowhere after settle:\n"+string(buf[:n]))
	}
	return "?" + at, "-"
}

func (r *runner) call(t *thread) error {
	chain := r.w.chain(t.ch)
	switch t.via {
	case "strict":
		return r.engine.CheckCRLStrict(chain)
	case "tls":
		return r.tlsCfg.VerifyPeerCertificate(nil, [][]*x509.Certificate{chain})
	}
	return r.engine.CheckCRL(chain)
}

const giveUp = 20 * time.Second

func (r *runner) step(i int, s stepT) error {
	r.stepNo = i
	e := r.e
	r.wasLive = map[string]bool{}
	for _, c := range r.liveConns() {
		r.wasLive[c] = true
	}
	switch s.A {
	case "Serve":
		e.mu.Lock()
		e.srv[s.E] = s.O
		e.mu.Unlock()
		r.others("")
		r.event("serve", map[string]any{"e": s.E, "o": s.O})
	case "ServeDl":
		e.mu.Lock()
		e.srv["dl"] = s.O
		e.mu.Unlock()
		r.others("")
		r.event("servedl", map[string]any{"o": s.O})
	case "Tick":
		e.mu.Lock()
		e.now++
		e.mu.Unlock()
		r.others("")
		r.event("tick", nil)
	case "VBegin":
		if t := r.threads[s.T]; t != nil && t.active && !t.done {
			r.drift("VBegin(%s): the previous validation of this goroutine has not returned", s.T)
			return nil
		}
		mode := "hard"
		if s.Via != "strict" && r.sc.Soft {
			mode = "soft"
		}
		t := &thread{name: s.T, ch: s.Ch, via: s.Via, mode: mode, cn: s.Cn, snap: map[string]crlObj{}, seen: map[string]bool{}, t0: e.now,
			clean: true, result: make(chan error, 1), active: true, rolled: map[string]bool{}}
		_, _, st0 := r.projection()
		for ep, b := range r.best {
			if cur, ok := r.w.crlByID[st0[ep]]; ok && r.goodFor(ep, cur) && cur.Num < b.Num {
				t.rolled[ep] = true
			}
		}
		for k, v := range r.best {
			t.snap[k] = v
		}
		if r.dlCur != nil {
			t.seen[r.dlCur.ID] = true
		} else {
			t.seen["none"] = true
		}
		r.threads[s.T] = t
		r.others(s.T)
		started := make(chan struct{})
		go func() {
			e.mu.Lock()
			e.actor[goid()] = t.name
			e.mu.Unlock()
			close(started)
			t.result <- r.call(t)
		}()
		<-started
		if err := settle(giveUp); err != nil {
			return err
		}
		r.absorb(t.name)
		pc, at := r.pos(t)
		if s.Pc != "" && (pc != s.Pc || at != s.At) {
			r.drift("VBegin(%s,%v,%s): the code is at %s/%s, the model at %s/%s", s.T, s.Ch, s.Via, pc, at, s.Pc, s.At)
		}
		r.checkState()
		r.event("vbegin", map[string]any{"t": s.T, "ch": s.Ch, "via": s.Via, "cn": s.Cn, "soft": r.sc.Soft, "pc": pc, "at": at})
	case "VFetch", "VStore":
		t := r.threads[s.T]
		if t == nil || !t.active {
			r.drift("%s(%s): no validation is running", s.A, s.T)
			return nil
		}
		pc, at := r.pos(t)
		want := map[string]string{"VFetch": "req", "VStore": "resp"}[s.A]
		if pc != want {
			r.drift("%s(%s): the code is at %s/%s", s.A, s.T, pc, at)
			return nil
		}
		gate := map[string]string{"req": "rt:", "resp": "eof:"}[pc] + at
		if s.A == "VStore" {
			e.mu.Lock()
			for _, d := range e.ledg {
				if d.Actor == t.name && !d.Done && !d.Free {
					d.PastEOF = true
				}
			}
			e.mu.Unlock()
		}
		r.others(s.T)
		if err := e.g.release(t.name, gate); err != nil {
			return err
		}
		if err := settle(giveUp); err != nil {
			return err
		}
		if s.A == "VStore" {
			r.absorb(t.name)
		} else {
			r.absorb("")
		}
		pc2, at2 := r.pos(t)
		if s.A == "VStore" && s.Pc != "" && (pc2 != s.Pc || at2 != s.At) {
			r.drift("VStore(%s): the code is at %s/%s, the model at %s/%s", s.T, pc2, at2, s.Pc, s.At)
		}
		r.checkState()
		r.event(strings.ToLower(s.A), map[string]any{"t": s.T, "pc": pc2, "at": at2, "from": at})
	case "VEnd":
		t := r.threads[s.T]
		if t == nil || !t.active {
			r.drift("VEnd(%s): no validation is running", s.T)
			return nil
		}
		if pc, at := r.pos(t); pc != "done" {
			r.drift("VEnd(%s): the code is still at %s/%s; it is run to its end", s.T, pc, at)
			if err := r.finish(t); err != nil {
				return err
			}
		}
		if got := classOf(t.err); s.Res != "" && s.Res != got {
			r.drift("VEnd(%s) chain %v via %s: the code answers %s, the model %s", t.name, t.ch, t.via, got, s.Res)
		}
		t.active = false
		if t.cn && t.err == nil {
			r.addConn(t.ch[0])
		}
		r.event("vend", map[string]any{"t": s.T, "res": classOf(t.err)})
	case "SyncStart":
		if r.syncing {
			r.drift("SyncStart: the previous round has not ended")
			return nil
		}
		r.others("")
		// which endpoints a round has to download: every known endpoint whose issuer is valid by time, and the denylist
		want := map[string]bool{}
		for _, c := range pki.VerifX06CRLs(r.engine) {
			if c.Issuer != nil && !e.clock().Before(c.Issuer.NotBefore) && !e.clock().After(c.Issuer.NotAfter) {
				want["S:"+urlKey(c.Endpoint)] = true
			}
		}
		if r.sc.UseDl {
			want["S:dl"] = true
		}
		r.syncDone = make(chan struct{})
		r.syncing = true
		done := r.syncDone
		if s.Via == "loop" {
			// the round is the first one of the real sync loop (PKI.Start); SyncEnd stops the loop again (PKI.Shutdown)
			r.looping = true
			close(done)
			if err := r.engine.Start(); err != nil {
				return err
			}
		} else {
			go func() {
				pki.VerifX06Sync(r.engine)
				close(done)
			}()
		}
		if err := settle(giveUp); err != nil {
			return err
		}
		got := []string{}
		for try := 0; ; try++ {
			got = got[:0]
			missing := 0
			for a := range want {
				if !strings.HasPrefix(e.g.where(a), "rt:") {
					missing++
				}
			}
			for a, p := range e.g.blocked() {
				if strings.HasPrefix(a, "S:") && strings.HasPrefix(p, "rt:") {
					got = append(got, a[2:])
				}
			}
			if missing == 0 || try >= 30 {
				break
			}
			// not a verdict before the round had every chance to ask
			time.Sleep(50 * time.Millisecond)
			if err := settle(giveUp); err != nil {
				return err
			}
		}
		for _, x := range got {
			delete(want, "S:"+x)
		}
		sort.Strings(got)
		for a := range want {
			site := "crl"
			if a == "S:dl" {
				site = "denylist"
			}
			r.violate("sync-skipped-endpoint", site, fmt.Sprintf("a sync round started at clock %d does not download %s (requests: %v)", e.now, a[2:], got))
		}
		model := append([]string{}, s.Req...)
		if r.sc.UseDl {
			model = append(model, "dl")
		}
		sort.Strings(model)
		if s.Req != nil && strings.Join(model, ",") != strings.Join(got, ",") {
			r.drift("SyncStart: the round requests %v, the model %v", got, model)
		}
		req := []string{}
		for _, x := range got {
			if x != "dl" {
				req = append(req, x)
			}
		}
		r.event("syncstart", map[string]any{"req": req, "dlreq": has(got, "dl")})
	case "SyncFetch", "SyncStore", "SyncDlFetch", "SyncDlStore":
		key := s.E
		if strings.HasPrefix(s.A, "SyncDl") {
			key = "dl"
		}
		actor := "S:" + key
		gate := "rt:" + key
		if strings.HasSuffix(s.A, "Store") {
			gate = "eof:" + key
		}
		if e.g.where(actor) != gate {
			r.drift("%s(%s): the round's goroutine is at %q", s.A, key, e.g.where(actor))
			return nil
		}
		if strings.HasSuffix(s.A, "Store") {
			e.mu.Lock()
			for _, d := range e.ledg {
				if d.Actor == actor && !d.Done && !d.Free {
					d.PastEOF = true
				}
			}
			e.mu.Unlock()
		}
		r.others("")
		if err := e.g.release(actor, gate); err != nil {
			return err
		}
		if err := settle(giveUp); err != nil {
			return err
		}
		if strings.HasSuffix(s.A, "Store") {
			r.absorb(actor)
		} else {
			r.absorb("")
		}
		r.checkState()
		r.event(strings.ToLower(s.A), map[string]any{"e": key})
	case "SyncEnd":
		if !r.syncing {
			r.drift("SyncEnd: no round is running")
			return nil
		}
		if err := r.endSync(true); err != nil {
			return err
		}
		r.event("syncend", nil)
	default:
		return fmt.Errorf("unknown step %q", s.A)
	}
	return nil
}

// endSync lets every goroutine of the round that is still waiting run to its end and waits for sync() to return.
func (r *runner) endSync(scripted bool) error {
	for n := 0; n < 40; n++ {
		rel := false
		for a, p := range r.e.g.blocked() {
			if strings.HasPrefix(a, "S:") {
				if n == 0 && scripted {
					r.drift("SyncEnd: %s is still at %s", a, p)
				}
				r.e.mu.Lock()
				for _, d := range r.e.ledg {
					if d.Actor == a && !d.Done && !d.Free && strings.HasPrefix(p, "eof:") {
						d.PastEOF = true
					}
				}
				r.e.mu.Unlock()
				_ = r.e.g.release(a, p)
				rel = true
				if err := settle(giveUp); err != nil {
					return err
				}
				r.absorb(a)
			}
		}
		if !rel {
			break
		}
	}
	select {
	case <-r.syncDone:
	case <-time.After(giveUp):
		return errors.New("sync() does not return although all its downloads have ended")
	}
	if r.looping {
		r.looping = false
		if err := r.engine.Shutdown(); err != nil {
			return err
		}
		if err := settle(giveUp); err != nil {
			return err
		}
		for a, p := range r.e.g.blocked() {
			if strings.HasPrefix(a, "S:") {
				r.drift("the stopped sync loop asks again: %s at %s", a, p)
			}
		}
	}
	r.syncing = false
	r.checkState()
	return nil
}

// finish releases a validation goroutine until it returns.
func (r *runner) finish(t *thread) error {
	for n := 0; n < 40; n++ {
		pc, at := r.pos(t)
		if pc == "done" {
			return nil
		}
		gate := r.e.g.where(t.name)
		if gate == "" {
			return fmt.Errorf("validation %s is neither at a gate nor done (%s/%s)", t.name, pc, at)
		}
		if strings.HasPrefix(gate, "eof:") {
			r.e.mu.Lock()
			for _, d := range r.e.ledg {
				if d.Actor == t.name && !d.Done && !d.Free {
					d.PastEOF = true
				}
			}
			r.e.mu.Unlock()
		}
		if err := r.e.g.release(t.name, gate); err != nil {
			return err
		}
		if err := settle(giveUp); err != nil {
			return err
		}
		r.absorb(t.name)
	}
	return fmt.Errorf("validation %s does not end", t.name)
}

// judge evaluates the statement on the verdict the real validator returned.
func (r *runner) judge(t *thread) {
	got := classOf(t.err)
	r.res.Validations++
	r.res.Verdicts[t.mode+":"+got]++
	if got == "other" {
		r.violate("unknown-error", t.mode, fmt.Sprintf("chain %v: %v", t.ch, t.err))
	}
	_, _, stored := r.projection()
	now := r.e.now
	before := len(r.res.Violations)
	if got == "ok" {
		// never accept what the newest list known when the validation began revokes
		for _, c := range t.ch {
			for k, e := range r.w.cat.Dps[c] {
				if b, ok := t.snap[e]; ok && has(b.Rev, c) {
					site := "other"
					cur, isStored := r.w.crlByID[stored[e]]
					switch {
					case (isStored && r.goodFor(e, cur) && cur.Num < b.Num) || t.rolled[e]:
						site = "stored-list-is-older"
					case t.mode == "soft" && r.sc.UseDl && r.dlCur == nil:
						site = "skipped-after-denylist-missing"
					case t.mode == "soft" && k > 0:
						site = "skipped-after-earlier-distribution-point"
					}
					r.violate("revoked-accepted", site, fmt.Sprintf("chain %v via %s (%s): %s is revoked by %s (downloaded before the validation began), verdict ok", t.ch, t.via, t.mode, c, b.ID))
				}
			}
		}
		// ... nor what every denylist that was current during the call bans
		allBan := len(t.seen) > 0
		for id := range t.seen {
			if id == "none" {
				allBan = false
				continue
			}
			o := r.w.dlByID[id]
			hit := false
			for _, c := range t.ch {
				hit = hit || has(o.Ban, c)
			}
			allBan = allBan && hit
		}
		if allBan {
			r.violate("banned-accepted", t.mode, fmt.Sprintf("chain %v via %s: banned by the loaded denylist %v, verdict ok", t.ch, t.via, keys(t.seen)))
		}
		if t.mode == "hard" {
			if r.sc.UseDl && r.dlCur == nil {
				r.violate("hardfail-accepted", "no-denylist", fmt.Sprintf("chain %v via %s accepted although no denylist was ever loaded", t.ch, t.via))
			}
			for _, c := range t.ch {
				for _, e := range r.w.cat.Dps[c] {
					b, ok := r.best[e]
					switch {
					case !r.trusted[r.w.cat.Issuer[c]]:
						r.violate("unknown-issuer-not-untrusted", r.epKnown(stored, e), fmt.Sprintf("chain %v via %s (hard): the issuer of %s is not in the trust store, verdict ok", t.ch, t.via, c))
					case !ok:
						r.violate("hardfail-accepted", "no-list", fmt.Sprintf("chain %v via %s: no correctly signed list was ever downloaded from %s", t.ch, t.via, e))
					case b.Nxt <= t.t0:
						r.violate("hardfail-accepted", "expired-list", fmt.Sprintf("chain %v via %s: the newest list of %s (%s) expired at %d, clock %d", t.ch, t.via, e, b.ID, b.Nxt, t.t0))
					}
				}
			}
		}
	} else {
		if t.mode == "soft" && (got == "crlmissing" || got == "crlexpired" || got == "dlmissing") {
			r.violate("softfail-rejected", got, fmt.Sprintf("chain %v via %s rejected with %v in soft-fail mode", t.ch, t.via, t.err))
		}
		cause := true
		switch got {
		case "revoked":
			cause = false
			for _, c := range t.ch {
				for _, e := range r.w.cat.Dps[c] {
					for _, o := range r.allGood(e) {
						cause = cause || has(o.Rev, c)
					}
				}
			}
		case "banned":
			cause = false
			for _, o := range r.dlEver {
				for _, c := range t.ch {
					cause = cause || has(o.Ban, c)
				}
			}
		case "untrusted":
			cause = false
			for _, c := range t.ch {
				cause = cause || !r.trusted[r.w.cat.Issuer[c]]
			}
		}
		if !cause {
			r.violate("rejected-without-cause", got, fmt.Sprintf("chain %v via %s (%s): verdict %s, but no downloaded list / trust store content justifies it", t.ch, t.via, t.mode, got))
		}
	}
	// a validation that ran alone: the verdict is a function of the downloaded lists, the clock and the mode
	if t.clean && len(r.res.Violations) == before {
		rolled := false
		for _, c := range t.ch {
			for _, e := range r.w.cat.Dps[c] {
				if b, ok := r.best[e]; ok && (stored[e] != b.ID || t.rolled[e]) {
					rolled = true
				}
			}
		}
		if !rolled {
			r.res.Exact++
			conds := r.conditions(t.ch, r.best, r.dlCur, now)
			want := prescribed(conds, t.mode)
			if len(conds) > 0 && conds[0].what == "untrusted" && got != "untrusted" {
				// an unknown issuer is ErrCertUntrusted (nothing else is wrong with the certificates checked before it)
				r.violate("unknown-issuer-not-untrusted", r.epKnown(stored, r.w.cat.Dps[conds[0].cert][0]), fmt.Sprintf("chain %v via %s (%s): the issuer of %s is not in the trust store, the validator answers %s",
					t.ch, t.via, t.mode, conds[0].cert, got))
				return
			}
			kinds := map[string]bool{}
			for _, c := range conds {
				kinds[c.what] = true
			}
			switch {
			case want == "revoked" && got != "ok" && !final(got):
				// CA first: what is known to be revoked is reported as revoked, not as "cannot be established"
				r.violate("revoked-not-reported", got, fmt.Sprintf("chain %v via %s (%s), clock %d, lists %v: a certificate of the chain is revoked and nothing is wrong with the certificates above it, the validator answers %s",
					t.ch, t.via, t.mode, now, r.bestIDs(), got))
			case (want == "ok") != (got == "ok"):
				r.violate("verdict-differs", want+"->"+got, fmt.Sprintf("chain %v via %s (%s), clock %d, lists %v, denylist %v: expected %s, the validator answers %s",
					t.ch, t.via, t.mode, now, r.bestIDs(), r.dlID(), want, got))
			case want != got && len(kinds) == 1:
				r.violate("verdict-differs", want+"->"+got, fmt.Sprintf("chain %v via %s (%s): the only condition present is %s, the validator answers %s", t.ch, t.via, t.mode, want, got))
			}
		}
	}
}

func (r *runner) epKnown(stored map[string]string, e string) string {
	if _, ok := stored[e]; ok {
		return "known-endpoint"
	}
	return "unknown-endpoint"
}

func (r *runner) allGood(e string) []crlObj {
	var out []crlObj
	r.e.mu.Lock()
	for _, d := range r.e.ledg {
		if d.Key == e {
			if o, ok := r.w.crlByID[d.Obj]; ok && r.goodFor(e, o) {
				out = append(out, o)
			}
		}
	}
	r.e.mu.Unlock()
	return out
}

func keys(m map[string]bool) []string {
	out := []string{}
	for k := range m {
		out = append(out, k)
	}
	sort.Strings(out)
	return out
}

func (r *runner) bestIDs() []string {
	out := []string{}
	for e, b := range r.best {
		out = append(out, e+"="+b.ID)
	}
	sort.Strings(out)
	return out
}

func (r *runner) dlID() string {
	if r.dlCur == nil {
		return "none"
	}
	return r.dlCur.ID
}

func runScript(w *world, sc scriptT, sabot string) (res resultT) {
	r, cleanup, err := newRunner(w, sc, sabot)
	res0 := r.res
	defer func() {
		cleanup()
		res = *res0
		if p := recover(); p != nil {
			res.Error = fmt.Sprintf("panic: %v", p)
		}
	}()
	if err != nil {
		res0.Error = "setup: " + err.Error()
		return
	}
	r.event("init", map[string]any{"soft": sc.Soft, "usedl": sc.UseDl, "srv": sc.InitSrv, "dlsrv": sc.InitDl})
	for i, s := range sc.Steps {
		if err := r.step(i, s); err != nil {
			res0.Error = fmt.Sprintf("step %d (%s): %v", i, s.A, err)
			return
		}
	}
	// the script may end in the middle of a round or a validation: let everything run to its end and judge it
	r.stepNo = len(sc.Steps)
	if r.syncing {
		if err := r.endSync(false); err != nil {
			res0.Error = err.Error()
			return
		}
	}
	for _, n := range []string{"v1", "v2", "v3"} {
		if t := r.threads[n]; t != nil && t.active {
			t.clean = false
			if err := r.finish(t); err != nil {
				res0.Error = err.Error()
				return
			}
			r.pos(t)
			t.active = false
		}
	}
	return
}

func TestDriver(t *testing.T) {
	logrus.SetOutput(io.Discard)
	logrus.SetLevel(logrus.PanicLevel)
	inPath, outPath := os.Getenv("VERIF_IN"), os.Getenv("VERIF_OUT")
	if inPath == "" {
		t.Skip("VERIF_IN not set")
	}
	raw, err := os.ReadFile(inPath)
	if err != nil {
		t.Fatal(err)
	}
	var in inputT
	if err := json.Unmarshal(raw, &in); err != nil {
		t.Fatal(err)
	}
	w, err := newWorld(in.Catalogue)
	if err != nil {
		t.Fatal(err)
	}
	oldTransport := http.DefaultTransport
	http.DefaultTransport = theTransport
	defer func() { http.DefaultTransport = oldTransport }()
	out, err := os.Create(outPath)
	if err != nil {
		t.Fatal(err)
	}
	defer out.Close()
	bw := bufio.NewWriter(out)
	defer bw.Flush()
	if in.Stress > 0 {
		b, _ := json.Marshal(runStress(w, in.Stress))
		bw.Write(b)
		bw.WriteString("\n")
		bw.Flush()
	}
	wedged := ""
	for _, sc := range in.Scripts {
		var res resultT
		if wedged != "" {
			// goroutines of an earlier script are stuck inside the code under test: nothing that follows can be trusted
			res = resultT{ID: sc.ID, Error: "not run: " + wedged}
		} else {
			res = runScript(w, sc, in.Sabotage)
			if strings.Contains(res.Error, "do not come to rest") || strings.Contains(res.Error, "does not return") {
				wedged = res.Error
			}
		}
		b, _ := json.Marshal(res)
		bw.Write(b)
		bw.WriteString("\n")
		bw.Flush()
	}
}
