// Package pkicrl is the conformance driver of the X06 check (spec/PkiCrl.tla): the real PKI engine (pki.New / Configure /
// AddTruststore / CheckCRL / CheckCRLStrict / SetVerifyPeerCertificateFunc / sync), the real denylist and the real gRPC
// connection manager's revalidatePeers, fed with generated X.509 certificates, CRLs and JWS denylists through a scripted
// in-memory HTTP transport that is also the scheduling seam (every download blocks before the response is determined and
// again before the body ends).
package pkicrl

import (
	"bytes"
	"crypto/ecdsa"
	"crypto/ed25519"
	"crypto/elliptic"
	"crypto/rand"
	"crypto/sha256"
	"crypto/x509"
	"crypto/x509/pkix"
	"encoding/hex"
	"encoding/json"
	"encoding/pem"
	"errors"
	"fmt"
	"io"
	"math/big"
	"net/http"
	"runtime"
	"sort"
	"strconv"
	"strings"
	"sync"
	"time"

	"github.com/lestrrat-go/jwx/v2/jwa"
	"github.com/lestrrat-go/jwx/v2/jws"
	"github.com/nuts-foundation/nuts-node/pki"
)

// ------------------------------------------------------------------------------------------------ the universe

// T0 is clock value 0 of the model; one clock unit is one hour.
var T0 = time.Date(2031, 3, 1, 12, 0, 0, 0, time.UTC)

func slot(n int) time.Time { return T0.Add(time.Duration(n) * time.Hour) }

type crlObj struct {
	ID   string   `json:"id"`
	Kind string   `json:"kind"`
	Iss  string   `json:"iss"`
	Num  int      `json:"num"`
	Nxt  int      `json:"nxt"`
	Rev  []string `json:"rev"`
}

type dlObj struct {
	ID   string   `json:"id"`
	Kind string   `json:"kind"`
	Ban  []string `json:"ban"`
}

type catalogue struct {
	Crl    map[string][]crlObj `json:"crl"`
	Dl     []dlObj             `json:"dl"`
	Issuer map[string]string   `json:"issuer"`
	Dps    map[string][]string `json:"dps"`
}

const crlHost = "http://crl.x06.test/"
const dlURL = "http://denylist.x06.test/denylist.jws"

func epURL(e string) string { return crlHost + e + ".crl" }
func urlKey(u string) string {
	if u == dlURL {
		return "dl"
	}
	if strings.HasPrefix(u, crlHost) && strings.HasSuffix(u, ".crl") {
		return strings.TrimSuffix(strings.TrimPrefix(u, crlHost), ".crl")
	}
	return "?" + u
}

// serial numbers whose decimal, hexadecimal and byte renderings all differ; M1 has the serial of L1 under another issuer
var serials = map[string]int64{"R": 1001, "CA1": 1002, "CA2": 1003, "X": 1004, "L1": 1007, "L2": 1008, "K1": 1009, "M1": 1007, "U1": 1011, "U2": 1012, "N1": 1013}
var caNotAfter = map[string]time.Duration{"CA2": 2*time.Hour + 30*time.Minute}

type world struct {
	cat      catalogue
	epIssuer map[string]string
	keys     map[string]*ecdsa.PrivateKey
	certs    map[string]*x509.Certificate
	shadow   map[string]*x509.Certificate // same subject as the CA, another key (lists that do not verify)
	shadowK  map[string]*ecdsa.PrivateKey
	crlByID  map[string]crlObj
	dlByID   map[string]dlObj
	dlKey    ed25519.PrivateKey
	dlBadKey ed25519.PrivateKey
	dlPubPEM string

	mu       sync.Mutex
	crlBytes map[string][]byte // object id -> DER
	rawID    map[string]string // sha256(DER) -> object id
	dlBytes  map[string][]byte
	failRot  int
}

func newWorld(cat catalogue) (*world, error) {
	w := &world{cat: cat, keys: map[string]*ecdsa.PrivateKey{}, certs: map[string]*x509.Certificate{}, shadow: map[string]*x509.Certificate{},
		shadowK: map[string]*ecdsa.PrivateKey{}, crlByID: map[string]crlObj{}, dlByID: map[string]dlObj{}, crlBytes: map[string][]byte{},
		rawID: map[string]string{}, dlBytes: map[string][]byte{}, epIssuer: map[string]string{}}
	for e, objs := range cat.Crl {
		for _, o := range objs {
			w.crlByID[o.ID] = o
		}
		_ = e
	}
	for _, o := range cat.Dl {
		w.dlByID[o.ID] = o
	}
	// the CA that really publishes at an endpoint: the issuer of the certificates that name it (U2 borrows CA1's endpoint)
	for c, dps := range cat.Dps {
		for _, e := range dps {
			if c == "U2" {
				continue
			}
			w.epIssuer[e] = cat.Issuer[c]
		}
	}
	// certificates: issuers first
	names := make([]string, 0, len(cat.Issuer))
	for c := range cat.Issuer {
		names = append(names, c)
	}
	sort.Slice(names, func(i, j int) bool {
		di, dj := w.depth(names[i]), w.depth(names[j])
		if di != dj {
			return di < dj
		}
		return names[i] < names[j]
	})
	isCA := map[string]bool{}
	for _, iss := range cat.Issuer {
		isCA[iss] = true
	}
	for _, c := range names {
		if err := w.makeCert(c, isCA[c]); err != nil {
			return nil, fmt.Errorf("certificate %s: %w", c, err)
		}
	}
	for ca := range isCA {
		k, _ := ecdsa.GenerateKey(elliptic.P256(), rand.Reader)
		tpl := *w.certs[ca]
		tpl.PublicKey = &k.PublicKey
		tpl.SubjectKeyId = []byte{9, 9, 9, byte(serials[ca] % 251)}
		w.shadow[ca], w.shadowK[ca] = &tpl, k
	}
	_, w.dlKey, _ = ed25519.GenerateKey(rand.Reader)
	_, w.dlBadKey, _ = ed25519.GenerateKey(rand.Reader)
	der, err := x509.MarshalPKIXPublicKey(w.dlKey.Public())
	if err != nil {
		return nil, err
	}
	w.dlPubPEM = string(pem.EncodeToMemory(&pem.Block{Type: "PUBLIC KEY", Bytes: der}))
	return w, nil
}

func (w *world) depth(c string) int {
	d := 0
	for w.cat.Issuer[c] != c && d < 10 {
		c = w.cat.Issuer[c]
		d++
	}
	return d
}

func (w *world) makeCert(name string, ca bool) error {
	key, err := ecdsa.GenerateKey(elliptic.P256(), rand.Reader)
	if err != nil {
		return err
	}
	w.keys[name] = key
	notAfter := T0.Add(100 * time.Hour)
	if d, ok := caNotAfter[name]; ok {
		notAfter = T0.Add(d)
	}
	tpl := &x509.Certificate{
		SerialNumber: big.NewInt(serials[name]),
		Subject:      pkix.Name{CommonName: name, Organization: []string{"x06"}},
		NotBefore:    T0.Add(-48 * time.Hour), NotAfter: notAfter,
		BasicConstraintsValid: true, IsCA: ca,
		SubjectKeyId: []byte{1, 2, 3, byte(serials[name] % 251), byte(len(name)), name[0], name[len(name)-1]},
	}
	if ca {
		tpl.KeyUsage = x509.KeyUsageCertSign | x509.KeyUsageCRLSign
	} else {
		tpl.KeyUsage = x509.KeyUsageDigitalSignature
		tpl.ExtKeyUsage = []x509.ExtKeyUsage{x509.ExtKeyUsageClientAuth, x509.ExtKeyUsageServerAuth}
		tpl.DNSNames = []string{strings.ToLower(name) + ".x06.test"}
	}
	for _, e := range w.cat.Dps[name] {
		tpl.CRLDistributionPoints = append(tpl.CRLDistributionPoints, epURL(e))
	}
	issName := w.cat.Issuer[name]
	parent, pkey := tpl, key
	if issName != name {
		parent, pkey = w.certs[issName], w.keys[issName]
		if parent == nil {
			return errors.New("issuer " + issName + " not made yet")
		}
	}
	der, err := x509.CreateCertificate(rand.Reader, tpl, parent, &key.PublicKey, pkey)
	if err != nil {
		return err
	}
	w.certs[name], err = x509.ParseCertificate(der)
	return err
}

func (w *world) chain(names []string) []*x509.Certificate {
	out := make([]*x509.Certificate, 0, len(names))
	for _, n := range names {
		out = append(out, w.certs[n])
	}
	return out
}

func (w *world) truststorePEM(cas []string) []byte {
	var b bytes.Buffer
	for _, c := range cas {
		_ = pem.Encode(&b, &pem.Block{Type: "CERTIFICATE", Bytes: w.certs[c].Raw})
	}
	return b.Bytes()
}

// crl returns the DER of a catalogue object (generated once per process).
func (w *world) crl(id string) ([]byte, error) {
	w.mu.Lock()
	defer w.mu.Unlock()
	if b, ok := w.crlBytes[id]; ok {
		return b, nil
	}
	o, ok := w.crlByID[id]
	if !ok {
		return nil, errors.New("unknown CRL object " + id)
	}
	if o.Kind != "good" && o.Kind != "badsig" {
		return nil, errors.New("object " + id + " has no bytes")
	}
	tpl := &x509.RevocationList{
		Number:     big.NewInt(int64(o.Num)),
		ThisUpdate: T0.Add(-40*time.Hour + time.Duration(o.Num)*time.Hour),
		NextUpdate: slot(o.Nxt),
	}
	for _, c := range o.Rev {
		tpl.RevokedCertificateEntries = append(tpl.RevokedCertificateEntries,
			x509.RevocationListEntry{SerialNumber: big.NewInt(serials[c]), RevocationTime: T0.Add(-41 * time.Hour)})
	}
	issuer, key := w.certs[o.Iss], w.keys[o.Iss]
	flip := false
	if o.Kind == "badsig" {
		// two realisations of "does not verify": signed by another key under the CA's name, or a good list with a damaged signature
		if o.Num%2 == 1 {
			issuer, key = w.shadow[o.Iss], w.shadowK[o.Iss]
		} else {
			flip = true
		}
	}
	der, err := x509.CreateRevocationList(rand.Reader, tpl, issuer, key)
	if err != nil {
		return nil, err
	}
	if flip {
		der[len(der)-3] ^= 0x55
	}
	w.crlBytes[id] = der
	sum := sha256.Sum256(der)
	w.rawID[hex.EncodeToString(sum[:])] = id
	return der, nil
}

func (w *world) idOfRaw(raw []byte) string {
	if len(raw) == 0 {
		return "empty"
	}
	sum := sha256.Sum256(raw)
	w.mu.Lock()
	defer w.mu.Unlock()
	if id, ok := w.rawID[hex.EncodeToString(sum[:])]; ok {
		return id
	}
	return "?unknown"
}

type dlEntry struct {
	Issuer        string `json:"issuer"`
	SerialNumber  string `json:"serialnumber"`
	JWKThumbprint string `json:"jwkthumbprint"`
	Reason        string `json:"reason"`
}

const markerIssuer = "x06-marker"

// denylist returns the compact JWS of a catalogue object. Besides the banned certificates every list carries a marker
// entry (its id) and near misses that must not match anything: L1's serial under M1's issuer (M1 has the same serial as
// L1), L2's issuer and serial with L1's key thumbprint.
func (w *world) denylist(id string) ([]byte, error) {
	w.mu.Lock()
	defer w.mu.Unlock()
	if b, ok := w.dlBytes[id]; ok {
		return b, nil
	}
	o, ok := w.dlByID[id]
	if !ok {
		return nil, errors.New("unknown denylist object " + id)
	}
	entries := []dlEntry{{Issuer: markerIssuer, SerialNumber: id, JWKThumbprint: "-", Reason: "marker"}}
	if l1, m1, l2 := w.certs["L1"], w.certs["M1"], w.certs["L2"]; l1 != nil && m1 != nil && l2 != nil {
		entries = append(entries,
			dlEntry{Issuer: m1.Issuer.String(), SerialNumber: l1.SerialNumber.String(), JWKThumbprint: pki.VerifX06Thumbprint(l1), Reason: "near miss: issuer"},
			dlEntry{Issuer: l2.Issuer.String(), SerialNumber: l2.SerialNumber.String(), JWKThumbprint: pki.VerifX06Thumbprint(l1), Reason: "near miss: thumbprint"},
			dlEntry{Issuer: l2.Issuer.String(), SerialNumber: "3f0", JWKThumbprint: pki.VerifX06Thumbprint(l2), Reason: "near miss: serial"})
	}
	for _, c := range o.Ban {
		cert := w.certs[c]
		entries = append(entries, dlEntry{Issuer: cert.Issuer.String(), SerialNumber: cert.SerialNumber.String(),
			JWKThumbprint: pki.VerifX06Thumbprint(cert), Reason: "banned " + c})
	}
	payload, _ := json.Marshal(entries)
	key := w.dlKey
	if o.Kind == "badsig" {
		key = w.dlBadKey
	}
	signed, err := jws.Sign(payload, jws.WithKey(jwa.EdDSA, key))
	if err != nil {
		return nil, err
	}
	w.dlBytes[id] = signed
	return signed, nil
}

// ------------------------------------------------------------------------------------------------ gates

// gates: every goroutine that takes part in a schedule blocks at named points until the script releases it.
type gates struct {
	mu    sync.Mutex
	at    map[string]string
	rel   map[string]chan struct{}
	drain bool
}

func newGates() *gates { return &gates{at: map[string]string{}, rel: map[string]chan struct{}{}} }

func (g *gates) block(actor, point string) {
	g.mu.Lock()
	if g.drain {
		g.mu.Unlock()
		return
	}
	ch := make(chan struct{})
	g.at[actor], g.rel[actor] = point, ch
	g.mu.Unlock()
	<-ch
}

func (g *gates) where(actor string) string {
	g.mu.Lock()
	defer g.mu.Unlock()
	return g.at[actor]
}

func (g *gates) blocked() map[string]string {
	g.mu.Lock()
	defer g.mu.Unlock()
	out := map[string]string{}
	for a, p := range g.at {
		if p != "" {
			out[a] = p
		}
	}
	return out
}

func (g *gates) release(actor, expect string) error {
	g.mu.Lock()
	at := g.at[actor]
	if at == "" || (expect != "" && at != expect) {
		g.mu.Unlock()
		return fmt.Errorf("actor %s is at %q, expected %q", actor, at, expect)
	}
	ch := g.rel[actor]
	g.at[actor] = ""
	delete(g.rel, actor)
	g.mu.Unlock()
	close(ch)
	return nil
}

func (g *gates) drainAll() {
	g.mu.Lock()
	g.drain = true
	for a, ch := range g.rel {
		close(ch)
		g.at[a] = ""
		delete(g.rel, a)
	}
	g.mu.Unlock()
}

func goid() int64 {
	var buf [64]byte
	n := runtime.Stack(buf[:], false)
	f := strings.Fields(string(buf[:n]))
	if len(f) < 2 {
		return -1
	}
	id, _ := strconv.ParseInt(f[1], 10, 64)
	return id
}

// goroutine states in which a goroutine cannot go on by itself
var parked = map[string]bool{"chan receive": true, "semacquire": true, "sync.WaitGroup.Wait": true}

// settle waits until no goroutine other than the caller is RUNNING code of the repository or of this driver: every such
// goroutine is parked (at a gate, in WaitGroup.Wait, ...) or gone. It is the "the released goroutine has done all it can
// do" signal of the scheduler and does not depend on any observable of the code under test.
func settle(giveUp time.Duration) error {
	self := goid()
	deadline := time.Now().Add(giveUp)
	buf := make([]byte, 1<<20)
	for {
		n := runtime.Stack(buf, true)
		for n == len(buf) {
			buf = make([]byte, 2*len(buf))
			n = runtime.Stack(buf, true)
		}
		active := ""
		for _, g := range strings.Split(string(buf[:n]), "\n\n") {
			nl := strings.IndexByte(g, '\n')
			if nl < 0 {
				continue
			}
			head, body := g[:nl], g[nl:]
			f := strings.Fields(head)
			if len(f) < 3 {
				continue
			}
			if id, _ := strconv.ParseInt(f[1], 10, 64); id == self {
				continue
			}
			if !strings.Contains(body, "nuts-foundation/nuts-node/") && !strings.Contains(body, "drivers/pkicrl.") {
				continue
			}
			// at rest = waiting at one of the driver's gates, or sync() waiting for its goroutines; a goroutine that is parked
			// anywhere else (a library waiting for a helper goroutine, a mutex) is on its way
			state := strings.TrimSpace(strings.SplitN(strings.Trim(strings.Join(f[2:], " "), "[]:"), ",", 2)[0])
			atRest := parked[state] && (strings.Contains(body, "pkicrl.(*gates).block") || strings.Contains(body, "sync.(*WaitGroup).Wait"))
			if state == "select" && strings.Contains(body, "pki.(*validator).syncLoop") && !strings.Contains(body, "pki.(*validator).sync(") {
				atRest = true // the real sync loop waiting for its next tick
			}
			if !atRest {
				active = head
			}
		}
		if active == "" {
			return nil
		}
		if time.Now().After(deadline) {
			return errors.New("goroutines of the code under test do not come to rest: " + active)
		}
		runtime.Gosched()
		time.Sleep(50 * time.Microsecond)
	}
}

// ------------------------------------------------------------------------------------------------ environment

type delivery struct {
	Actor   string
	Key     string // endpoint or "dl"
	Obj     string
	Free    bool // made inside the synchronous denylist subscribers (not gated)
	PastEOF bool // the script released the end of the body
	Done    bool // the goroutine has processed the response
	gid     int64
}

// env is what one script's validator sees of the outside world: clock, endpoints, scheduler, and the ledger of what was
// handed to it (the oracle's knowledge of "which lists had been downloaded").
type env struct {
	w     *world
	g     *gates
	mu    sync.Mutex
	now   int
	srv   map[string]string // endpoint / "dl" -> object id
	actor map[int64]string  // registered goroutines
	free  map[int64]bool    // goroutines that are inside the denylist subscribers (synchronous revalidation): not gated
	ledg  []*delivery
	reqs  []string // actor names in order of their requests
	sabot string
	// stress probe: nothing is gated; the first request of an endpoint gets what is served, every later one fails
	ungated   bool
	firstOnly map[string]int
}

func (e *env) clock() time.Time {
	e.mu.Lock()
	defer e.mu.Unlock()
	return slot(e.now)
}

type transportT struct {
	mu  sync.Mutex
	cur *env
}

var theTransport = &transportT{}

func (t *transportT) set(e *env) {
	t.mu.Lock()
	t.cur = e
	t.mu.Unlock()
}

type gatedBody struct {
	data  []byte
	pos   int
	atEOF func()
	once  sync.Once
}

func (b *gatedBody) Read(p []byte) (int, error) {
	if b.pos < len(b.data) {
		n := copy(p, b.data[b.pos:])
		b.pos += n
		return n, nil
	}
	b.once.Do(b.atEOF)
	return 0, io.EOF
}
func (b *gatedBody) Close() error { return nil }

func (t *transportT) RoundTrip(req *http.Request) (*http.Response, error) {
	t.mu.Lock()
	e := t.cur
	t.mu.Unlock()
	if e == nil {
		return nil, errors.New("x06: no environment")
	}
	key := urlKey(req.URL.String())
	gid := goid()
	e.mu.Lock()
	actor, registered := e.actor[gid]
	free := e.free[gid]
	if !registered {
		actor = "S:" + key
	}
	e.reqs = append(e.reqs, actor+">"+key)
	e.mu.Unlock()
	if e.ungated {
		free = true
	}
	if !free {
		e.g.block(actor, "rt:"+key)
	}
	// the response is determined now
	e.mu.Lock()
	id := e.srv[key]
	if e.firstOnly != nil {
		e.firstOnly[key]++
		if e.firstOnly[key] > 1 {
			id = "none"
		}
	}
	d := &delivery{Actor: actor, Key: key, Obj: id, gid: gid, Free: free}
	e.ledg = append(e.ledg, d)
	e.mu.Unlock()
	if e.sabot == "serve-stale" && key != "dl" {
		// oracle self-test: the environment hands out the oldest list whenever the script says a revoking one is served
		if o, ok := e.w.crlByID[id]; ok && len(o.Rev) > 0 {
			for _, alt := range e.w.cat.Crl[key] {
				if alt.Kind == "good" && alt.Iss == o.Iss && len(alt.Rev) == 0 {
					id = alt.ID
				}
			}
		}
	}
	second := func() {
		if !free {
			e.g.block(actor, "eof:"+key)
		}
	}
	var data []byte
	status := 200
	kind := "fail"
	if key == "dl" {
		if o, ok := e.w.dlByID[id]; ok {
			kind = o.Kind
		}
		if kind != "fail" {
			b, err := e.w.denylist(id)
			if err != nil {
				return nil, err
			}
			data = b
		}
	} else {
		if o, ok := e.w.crlByID[id]; ok {
			kind = o.Kind
		}
		if kind != "fail" {
			b, err := e.w.crl(id)
			if err != nil {
				return nil, err
			}
			data = b
		}
	}
	if kind == "fail" {
		e.w.mu.Lock()
		e.w.failRot++
		rot := e.w.failRot % 5
		e.w.mu.Unlock()
		switch rot {
		case 0:
			second()
			return nil, errors.New("x06: connection refused")
		case 1:
			status, data = 404, []byte("<html>not found</html>")
		case 2:
			data = []byte("this is not a list")
		case 3:
			data = []byte{}
		case 4: // the beginning of something real
			var b []byte
			if key == "dl" {
				b, _ = e.w.denylist("d0")
			} else {
				for _, o := range e.w.cat.Crl[key] {
					if o.Kind == "good" {
						b, _ = e.w.crl(o.ID)
						break
					}
				}
			}
			if len(b) > 40 {
				data = b[:len(b)/2]
			}
		}
	}
	return &http.Response{StatusCode: status, Status: strconv.Itoa(status) + " x", Proto: "HTTP/1.1", ProtoMajor: 1, ProtoMinor: 1,
		Header: http.Header{}, ContentLength: int64(len(data)), Request: req,
		Body: &gatedBody{data: data, atEOF: second}}, nil
}
