// Driver for Dag.tla (C06, C08, C14): replays TLC behaviours on the real dag.State over real bbolt.
package dagdrv

import (
	"bufio"
	"bytes"
	"context"
	"crypto/sha256"
	"encoding/base64"
	"encoding/hex"
	"encoding/json"
	"errors"
	"fmt"
	"io"
	"os"
	"path/filepath"
	"sort"
	"strings"
	"sync"
	"testing"
	"time"

	ssi "github.com/nuts-foundation/go-did"
	"github.com/nuts-foundation/go-did/did"
	"github.com/nuts-foundation/go-stoabs"
	"github.com/nuts-foundation/go-stoabs/bbolt"
	"github.com/nuts-foundation/nuts-node/core"
	"github.com/nuts-foundation/nuts-node/crypto/hash"
	"github.com/nuts-foundation/nuts-node/jsonld"
	"github.com/nuts-foundation/nuts-node/network/dag"
	"github.com/nuts-foundation/nuts-node/network/dag/tree"
	"github.com/nuts-foundation/nuts-node/vdr/resolver"
	"github.com/sirupsen/logrus"

	"verifharness/gate"
	"verifharness/kvgate"
	"verifharness/txforge"
)

type attr struct {
	Prevs []string `json:"prevs"`
	Lc    int      `json:"lc"`
	Sig   bool     `json:"sig"`
	WF    bool     `json:"wf"`
	// Defect optionally names a concrete defect class realising wf=false / sig=false
	Defect string `json:"defect,omitempty"`
	// PayloadOf: this transaction declares the payload (hash) of another transaction of the universe
	PayloadOf string `json:"payload_of,omitempty"`
}

type subSpec struct {
	Name   string   `json:"name"`
	Type   string   `json:"type"`
	Select []string `json:"select,omitempty"` // nil = everything
}

type step map[string]any

type script struct {
	ID    string `json:"id"`
	Steps []step `json:"steps"`
	// Default[""] is the receiver answer once the scripted answers are used up (default "ok")
	Default map[string]string `json:"default,omitempty"`
	Restarts int `json:"restarts,omitempty"` // extra clean restarts at the end (budget scenarios)
	// Defects selects, per abstract class, the concrete defect (or valid variant) used in this script
	Defects map[string]string `json:"defects,omitempty"`
}

type input struct {
	Universe map[string]attr `json:"universe"`
	Base     int             `json:"base"`
	Subs     []subSpec       `json:"subs"`
	Scripts  []script        `json:"scripts"`
	Props    []string        `json:"props"`
}

type violation struct {
	Prop   string `json:"prop"`
	Kind   string `json:"kind"`
	Detail string `json:"detail"`
	Step   int    `json:"step"`
}

type result struct {
	ID         string           `json:"id"`
	Violations []violation      `json:"violations"`
	Drift      []string         `json:"drift"`
	Deferred   int              `json:"deferred"`
	Error      string           `json:"error,omitempty"`
	Trace      []map[string]any `json:"trace"`
	Checks     int              `json:"checks"`
}

type ctx struct {
	name    string
	a       attr
	raw     []byte
	tx      dag.Transaction // nil if it does not parse
	ref     hash.SHA256Hash
	payload []byte
	clock   uint32
}

type world struct {
	props    map[string]bool
	in       input
	txs      map[string]*ctx
	byRef    map[hash.SHA256Hash]*ctx
	baseTxs  []dag.Transaction
	template string
	dir      string
}

func (s step) str(k string) string {
	v, _ := s[k].(string)
	return v
}

func buildWorld(t *testing.T, in input) *world {
	w := &world{in: in, props: map[string]bool{}, txs: map[string]*ctx{}, byRef: map[hash.SHA256Hash]*ctx{}, dir: t.TempDir()}
	for _, p := range in.Props {
		w.props[p] = true
	}
	// base chain: real root + chain up to clock Base-1; the abstract universe hangs off its top
	var top dag.Transaction
	for i := 0; i < in.Base; i++ {
		var tx dag.Transaction
		if top == nil {
			tx = dag.CreateSignedTestTransaction(uint32(1000000+i), time.Now(), nil, "application/x-verif", true)
		} else {
			tx = dag.CreateSignedTestTransaction(uint32(1000000+i), time.Now(), nil, "application/x-verif", true, top)
		}
		w.baseTxs = append(w.baseTxs, tx)
		top = tx
	}
	// concrete transactions in dependency order
	names := make([]string, 0, len(in.Universe))
	for n := range in.Universe {
		names = append(names, n)
	}
	sort.Strings(names)
	done := map[string]bool{}
	for len(done) < len(names) {
		progress := false
		for _, n := range names {
			if done[n] {
				continue
			}
			a := in.Universe[n]
			ready := true
			for _, p := range a.Prevs {
				if _, known := in.Universe[p]; known && !done[p] {
					ready = false
				}
			}
			if !ready {
				continue
			}
			w.build(n, a, top)
			done[n] = true
			progress = true
		}
		if !progress {
			t.Fatalf("cyclic universe")
		}
	}
	// template database containing the base chain
	w.template = filepath.Join(w.dir, "template.db")
	if in.Base > 0 {
		db, err := bbolt.CreateBBoltStore(w.template, stoabs.WithNoSync())
		if err != nil {
			t.Fatal(err)
		}
		st, err := dag.NewState(db, dag.NewPrevTransactionsVerifier(), dag.NewTransactionSignatureVerifier(keyResolver()))
		if err != nil {
			t.Fatal(err)
		}
		_ = st.Configure(core.ServerConfig{})
		for _, tx := range w.baseTxs {
			if err := st.Add(context.Background(), tx, nil); err != nil {
				t.Fatal(err)
			}
		}
		_ = st.Shutdown()
		_ = db.Close(context.Background())
	}
	return w
}

func (w *world) build(n string, a attr, top dag.Transaction) {
	key := txforge.NewKey()
	var prevs []string
	for _, p := range a.Prevs {
		if c, ok := w.txs[p]; ok {
			prevs = append(prevs, c.ref.String())
		} else {
			g := sha256.Sum256([]byte("ghost-" + p))
			prevs = append(prevs, hex.EncodeToString(g[:]))
		}
	}
	lc := a.Lc
	if w.in.Base > 0 {
		// the abstract root of the universe hangs off the base chain; a "second root" stays a real root
		if len(a.Prevs) == 0 && n == "r" {
			prevs = append(prevs, top.Ref().String())
		}
		if !(len(a.Prevs) == 0 && n != "r") {
			lc += w.in.Base
		}
	}
	payload := []byte("payload-of-" + n)
	if a.PayloadOf != "" {
		payload = []byte("payload-of-" + a.PayloadOf)
	}
	ph := sha256.Sum256(payload)
	phHex := []byte(hex.EncodeToString(ph[:]))
	h := txforge.TxHeaders(key, prevs, lc, time.Now().Unix(), "application/x-verif")
	raw := txforge.Compact(h, phHex, key)
	other := txforge.NewKey()
	rawHeader := func(mut func(string) string) []byte {
		hb, _ := json.Marshal(h)
		return txforge.CompactRaw([]byte(mut(string(hb))), phHex, key)
	}
	switch a.Defect {
	case "":
		if !a.WF {
			h["alg"] = "none"
			raw = txforge.Compact(h, phHex, key)
		}
	// ---- malformed: must never be admitted
	case "alg-none":
		h["alg"] = "none"
		raw = txforge.Compact(h, phHex, key)
		hs, ps, _ := txforge.Split(raw)
		raw = []byte(hs + "." + ps + ".")
	case "alg-hs256":
		h["alg"] = "HS256"
		jb, _ := json.Marshal(key.JWK())
		raw = txforge.HS256(h, phHex, jb)
	case "alg-rs256", "alg-es256k", "alg-eddsa":
		h["alg"] = map[string]string{"alg-rs256": "RS256", "alg-es256k": "ES256K", "alg-eddsa": "EdDSA"}[a.Defect]
		raw = txforge.Compact(h, phHex, key)
	case "no-crit":
		delete(h, "crit")
		raw = txforge.Compact(h, phHex, key)
	case "crit-without-lc":
		h["crit"] = []string{"sigt", "ver", "prevs"}
		raw = txforge.Compact(h, phHex, key)
	case "missing-sigt", "missing-ver", "missing-prevs", "missing-lc", "missing-cty":
		delete(h, strings.TrimPrefix(a.Defect, "missing-"))
		raw = txforge.Compact(h, phHex, key)
	case "sigt-string":
		h["sigt"] = "1700000000"
		raw = txforge.Compact(h, phHex, key)
	case "ver-string":
		h["ver"] = "2"
		raw = txforge.Compact(h, phHex, key)
	case "ver-3":
		h["ver"] = 3
		raw = txforge.Compact(h, phHex, key)
	case "ver-fraction":
		raw = rawHeader(func(s string) string { return strings.Replace(s, `"ver":2`, `"ver":2.9`, 1) })
	case "prevs-string":
		h["prevs"] = "abc"
		raw = txforge.Compact(h, phHex, key)
	case "prevs-nonhex":
		h["prevs"] = []string{strings.Repeat("zz", 32)}
		raw = txforge.Compact(h, phHex, key)
	case "prevs-short":
		h["prevs"] = []string{"abcd"}
		raw = txforge.Compact(h, phHex, key)
	case "prevs-number":
		h["prevs"] = []any{1}
		raw = txforge.Compact(h, phHex, key)
	case "lc-string":
		h["lc"] = fmt.Sprint(lc)
		raw = txforge.Compact(h, phHex, key)
	case "lc-fraction":
		raw = rawHeader(func(s string) string { return strings.Replace(s, fmt.Sprintf(`"lc":%d`, lc), fmt.Sprintf(`"lc":%d.5`, lc), 1) })
	case "lc-plus-2-32":
		raw = rawHeader(func(s string) string {
			return strings.Replace(s, fmt.Sprintf(`"lc":%d`, lc), fmt.Sprintf(`"lc":%d`, int64(lc)+4294967296), 1)
		})
	case "lc-minus-2-32":
		raw = rawHeader(func(s string) string {
			return strings.Replace(s, fmt.Sprintf(`"lc":%d`, lc), fmt.Sprintf(`"lc":%d`, int64(lc)-4294967296), 1)
		})
	case "lc-negative":
		h["lc"] = -1
		raw = txforge.Compact(h, phHex, key)
	case "kid-and-jwk":
		h["kid"] = "did:nuts:x#k"
		raw = txforge.Compact(h, phHex, key)
	case "no-kid-no-jwk":
		delete(h, "jwk")
		raw = txforge.Compact(h, phHex, key)
	case "jwk-private":
		h["jwk"] = key.PrivJWK()
		raw = txforge.Compact(h, phHex, key)
	case "cty-no-slash":
		h["cty"] = "foo"
		raw = txforge.Compact(h, phHex, key)
	case "payload-nonhex":
		raw = txforge.Compact(h, []byte("not a hash"), key)
	case "two-signatures":
		h2 := txforge.TxHeaders(other, prevs, lc, time.Now().Unix(), "application/x-verif")
		raw = txforge.GeneralJSON(phHex, []map[string]any{h, h2}, []txforge.Key{key, other})
	case "zero-signatures":
		raw = []byte(`{"payload":"` + hex.EncodeToString(ph[:]) + `","signatures":[]}`)
	case "truncated":
		raw = raw[:len(raw)/2]
	case "empty":
		raw = []byte{}
	// ---- re-encodings of a valid transaction (same signature, different bytes => different ref)
	case "flattened-json":
		raw = txforge.Flattened(raw)
	case "general-json":
		raw = txforge.General(raw)
	// ---- signature does not verify
	case "sig-flipped":
		raw = txforge.FlipSig(raw)
	case "sig-other-key":
		raw = txforge.Compact(h, phHex, other) // embedded jwk is key, signed by other
	case "sig-header-altered":
		hs, ps, ss := txforge.Split(raw)
		h["sigt"] = time.Now().Unix() + 7
		hb, _ := json.Marshal(h)
		_ = hs
		raw = []byte(base64url(hb) + "." + ps + "." + ss)
	case "sig-payload-altered":
		hs, _, ss := txforge.Split(raw)
		ph2 := sha256.Sum256([]byte("other payload"))
		raw = []byte(hs + "." + base64url([]byte(hex.EncodeToString(ph2[:]))) + "." + ss)
	case "kid-unknown":
		delete(h, "jwk")
		h["kid"] = "did:nuts:unknown#k1"
		raw = txforge.Compact(h, phHex, key)
	case "kid-wrong-key":
		delete(h, "jwk")
		h["kid"] = "did:nuts:known#k1" // resolver returns knownKey, signed by other
		raw = txforge.Compact(h, phHex, other)
	case "kid-later-key":
		// the key is in the CURRENT version of the signer's document only, not in the version the prevs point at
		delete(h, "jwk")
		h["kid"] = "did:nuts:known#k2"
		raw = txforge.Compact(h, phHex, laterKey)
	case "kid-late-doc":
		// none of the prevs is a source transaction of the signer's document (it was created later)
		delete(h, "jwk")
		h["kid"] = "did:nuts:late#k3"
		raw = txforge.Compact(h, phHex, lateDocKey)
	// ---- valid variants
	case "kid-ok":
		delete(h, "jwk")
		h["kid"] = "did:nuts:known#k1"
		raw = txforge.Compact(h, phHex, knownKey)
	default:
		panic("unknown defect " + a.Defect)
	}
	if !a.Sig && a.Defect == "" {
		raw = txforge.FlipSig(raw)
	}
	c := &ctx{name: n, a: a, raw: raw, payload: payload, clock: uint32(lc)}
	tx, err := dag.ParseTransaction(raw)
	if err == nil {
		c.tx = tx
		c.ref = tx.Ref()
	} else {
		c.ref = hash.SHA256Sum(raw)
	}
	w.txs[n] = c
	w.byRef[c.ref] = c
}

// variant returns a world whose universe is rebuilt with the given concrete defects (same base chain/template).
func (w *world) variant(defects map[string]string) *world {
	if len(defects) == 0 {
		return w
	}
	v := *w
	v.txs = map[string]*ctx{}
	v.byRef = map[hash.SHA256Hash]*ctx{}
	uni := map[string]attr{}
	for n, a := range w.in.Universe {
		if d, ok := defects[n]; ok {
			a.Defect = d
		}
		uni[n] = a
	}
	var top dag.Transaction
	if len(w.baseTxs) > 0 {
		top = w.baseTxs[len(w.baseTxs)-1]
	}
	names := make([]string, 0, len(uni))
	for n := range uni {
		names = append(names, n)
	}
	sort.Strings(names)
	done := map[string]bool{}
	for len(done) < len(names) {
		for _, n := range names {
			if done[n] {
				continue
			}
			ready := true
			for _, p := range uni[n].Prevs {
				if _, known := uni[p]; known && !done[p] {
					ready = false
				}
			}
			if ready {
				v.build(n, uni[n], top)
				done[n] = true
			}
		}
	}
	return &v
}

func copyFile(src, dst string) error {
	in, err := os.Open(src)
	if err != nil {
		if os.IsNotExist(err) {
			return nil
		}
		return err
	}
	defer in.Close()
	out, err := os.Create(dst)
	if err != nil {
		return err
	}
	defer out.Close()
	_, err = io.Copy(out, in)
	return err
}

// ---------------------------------------------------------------------------------------------

type incarnation struct {
	inner stoabs.KVStore
	g     *kvgate.Store
	sched *gate.Sched
	st    dag.State
	nots  map[string]dag.Notifier
}

type run struct {
	w        *world
	res      *result
	path     string
	inc      *incarnation
	mu       sync.Mutex
	ledger   map[string][]string // sub -> delivered tx names (in order)
	finished map[string]bool     // sub/tx completion reported ok by the receiver and recorded
	okAnswered map[string]bool   // sub/tx: the receiver answered "ok" (completion) at least once
	readFail   map[string]int    // sub/tx -> number of job-shelf reads of that job that still have to fail (NotifyReadFail steps)
	respQ    map[string][]string // sub/tx -> scripted responses (consumed per call)
	addErr   map[string]error
	stepNo   int
	defResp  string
	onlyOK   bool // every receiver answer in this script is "ok" and the process never stops
	corrupt  map[uint32]bool // pages whose XOR leaf the environment corrupted and the repair has not visited yet
	fatalGen map[string]int
	wpOK     map[string]bool            // WritePayload returned nil for this transaction
	inflight map[string]int             // Add calls of this transaction that have not returned yet
	dupWP    map[string]bool            // WritePayload was called although the payload event of this transaction had been published before
	offered  map[string]map[string]bool // payload kinds this transaction was offered with
	killed   bool // the incarnation died inside a receiver; steps until the scripted Crash cannot happen
	restarts int
	actors   map[string]bool
	gen      int
}

var knownKey = txforge.NewKey()

func base64url(b []byte) string { return base64.RawURLEncoding.EncodeToString(b) }

// Key resolution runs through the REAL dag.SourceTXKeyResolver (network/dag/keys.go); only the DID store behind it is scripted
// (the resolution history itself is the business of the VDR, see DidStore.tla):
//   did:nuts:known  every transaction is a source transaction of a version holding key k1; the CURRENT version also holds k2
//                   (a key added later: a transaction may only be signed with a key of the version its prevs point at)
//   did:nuts:late   no version belongs to any source transaction (the document was created later); the current version holds k3
var laterKey, lateDocKey = txforge.NewKey(), txforge.NewKey()

type scriptedDocs struct{}

func docWith(id string, keys map[string]txforge.Key) *did.Document {
	d := did.MustParseDID(id)
	doc := &did.Document{ID: d}
	for frag, k := range keys {
		kid := did.DIDURL{DID: d, Fragment: frag}
		vm, err := did.NewVerificationMethod(kid, ssi.JsonWebKey2020, d, &k.Priv.PublicKey)
		if err != nil {
			panic(err)
		}
		doc.VerificationMethod.Add(vm)
	}
	return doc
}

func (scriptedDocs) Resolve(id did.DID, md *resolver.ResolveMetadata) (*did.Document, *resolver.DocumentMetadata, error) {
	atSource := md != nil && md.SourceTransaction != nil
	switch id.String() {
	case "did:nuts:known":
		if atSource {
			return docWith("did:nuts:known", map[string]txforge.Key{"k1": knownKey}), &resolver.DocumentMetadata{}, nil
		}
		return docWith("did:nuts:known", map[string]txforge.Key{"k1": knownKey, "k2": laterKey}), &resolver.DocumentMetadata{}, nil
	case "did:nuts:late":
		if atSource {
			return nil, nil, resolver.ErrNotFound
		}
		return docWith("did:nuts:late", map[string]txforge.Key{"k3": lateDocKey}), &resolver.DocumentMetadata{}, nil
	}
	return nil, nil, resolver.ErrNotFound
}

func keyResolver() dag.SourceTXKeyResolver { return dag.SourceTXKeyResolver{Resolver: scriptedDocs{}} }

func (w *world) open(r *run) error {
	db, err := bbolt.CreateBBoltStore(r.path, stoabs.WithNoSync())
	if err != nil {
		return err
	}
	sched := gate.New()
	g := kvgate.Wrap(db, sched)
	g.Obs = func(actor, ev string, f map[string]any) {
		if actor == "" {
			return
		}
		e := map[string]any{"ev": ev, "p": actor}
		for k, v := range f {
			e[k] = v
		}
		r.mu.Lock()
		r.res.Trace = append(r.res.Trace, e)
		r.mu.Unlock()
	}
	g.ShelfGetFault = func(shelf string, key []byte) string {
		// NotifyReadFail(s, t): the next read of the job of transaction t on the shelf of subscriber s fails
		if !strings.HasPrefix(shelf, "_") || !strings.HasSuffix(shelf, "_jobs") || len(key) != hash.SHA256HashSize {
			return "go"
		}
		sub := strings.TrimSuffix(strings.TrimPrefix(shelf, "_"), "_jobs")
		r.mu.Lock()
		defer r.mu.Unlock()
		k := sub + "/" + r.name(hash.FromSlice(key))
		if r.readFail[k] > 0 {
			r.readFail[k]--
			r.res.Trace = append(r.res.Trace, map[string]any{"ev": "jobreadfail", "s": sub, "t": r.name(hash.FromSlice(key))})
			return "fail"
		}
		return "go"
	}
	g.InTx = func(tx stoabs.WriteTx, f map[string]any) {
		// projected state: names of the universe transactions in the write set of this transaction
		names := []string{}
		for n, c := range w.txs {
			if _, err := tx.GetShelfReader("documents").Get(stoabs.NewHashKey(c.ref)); err == nil {
				names = append(names, n)
			}
		}
		sort.Strings(names)
		f["stored"] = names
	}
	st, err := dag.NewState(g, dag.NewPrevTransactionsVerifier(), dag.NewTransactionSignatureVerifier(keyResolver()))
	if err != nil {
		return err
	}
	inc := &incarnation{inner: db, g: g, sched: sched, st: st, nots: map[string]dag.Notifier{}}
	r.gen++
	gen := r.gen
	for _, s := range w.in.Subs {
		s := s
		sel := map[string]bool{}
		for _, n := range s.Select {
			sel[n] = true
		}
		filter := func(ev dag.Event) bool {
			if ev.Type != s.Type {
				return false
			}
			if s.Select == nil {
				return true
			}
			c := w.byRef[ev.Hash]
			return c != nil && sel[c.name]
		}
		n, err := st.Notifier(s.Name, func(ev dag.Event) (bool, error) {
			return r.receive(gen, s.Name, ev)
		}, dag.WithPersistency(g), dag.WithRetryDelay(time.Nanosecond), dag.WithSelectionFilter(filter))
		if err != nil {
			return err
		}
		inc.nots[s.Name] = n
	}
	if err := st.Configure(core.ServerConfig{}); err != nil {
		return err
	}
	r.inc = inc
	return nil
}

func (r *run) name(h hash.SHA256Hash) string {
	if c := r.w.byRef[h]; c != nil {
		return c.name
	}
	return "?" + h.String()[:8]
}

// receive is the scripted subscriber.
func (r *run) receive(gen int, sub string, ev dag.Event) (bool, error) {
	r.mu.Lock()
	if gen != r.gen || r.inc == nil {
		r.mu.Unlock()
		return false, errors.New("dead incarnation")
	}
	n := r.name(ev.Hash)
	key := sub + "/" + n
	r.ledger[sub] = append(r.ledger[sub], n)
	if g, ok := r.fatalGen[key]; ok && g == gen && r.w.props["C14"] {
		r.viol("C14", "retried-after-fatal", fmt.Sprintf("subscriber %s reported a fatal error for %s and was called again without a restart", sub, n))
	}
	if r.finished[key] && r.w.props["C14"] {
		isPayloadSub := false
		for _, sd := range r.w.in.Subs {
			if sd.Name == sub && sd.Type == "payload" {
				isPayloadSub = true
			}
		}
		if isPayloadSub && r.dupWP[n] {
			// the payload of this transaction was written a second time (answers of several participants to the broadcast
			// payload query): State.WritePayload publishes the payload event again
			r.viol("C14", "recalled-after-duplicate-payload", fmt.Sprintf("subscriber %s was called again for the payload of %s after its completion had been recorded, because the same payload was written a second time", sub, n))
		} else {
			r.viol("C14", "recalled-after-completion", fmt.Sprintf("subscriber %s was called again for %s after its completion had been recorded", sub, n))
		}
	}
	resp := "ok"
	if r.defResp != "" {
		resp = r.defResp
	}
	if q := r.respQ[key]; len(q) > 0 {
		resp = q[0]
		r.respQ[key] = q[1:]
	}
	r.res.Trace = append(r.res.Trace, map[string]any{"ev": "receive", "s": sub, "t": n, "res": resp, "retries": ev.Retries})
	inc := r.inc
	r.mu.Unlock()
	switch resp {
	case "ok":
		r.mu.Lock()
		r.okAnswered[key] = true
		r.mu.Unlock()
		return true, nil
	case "fail":
		return false, errors.New("scripted failure")
	case "failctx":
		// the error text Run() recognises at start-up: such a job is not retried after a restart, but it stays on the shelf
		return false, fmt.Errorf("scripted failure: %w", jsonld.ContextURLNotAllowedErr)
	case "incomplete":
		return false, nil
	case "fatal":
		r.mu.Lock()
		r.fatalGen[key] = gen
		r.mu.Unlock()
		if sub != "s1" {
			// like handlePrivateTxRetry: the fatal error is wrapped in another error
			return false, fmt.Errorf("scripted failure: %w", dag.EventFatal{Err: errors.New("scripted fatal")})
		}
		return false, dag.EventFatal{Err: errors.New("scripted fatal")}
	case "crash":
		// the process stops while the receiver runs: completion is never recorded
		r.mu.Lock()
		r.killed = true
		r.mu.Unlock()
		inc.g.Kill()
		return true, nil
	}
	return true, nil
}

func (r *run) viol(prop, kind, detail string) {
	for _, v := range r.res.Violations {
		if v.Prop == prop && v.Kind == kind {
			return
		}
	}
	r.res.Violations = append(r.res.Violations, violation{prop, kind, detail, r.stepNo})
}

func (r *run) violL(prop, kind, detail string) {
	r.mu.Lock()
	defer r.mu.Unlock()
	r.viol(prop, kind, detail)
}

// ---------------------------------------------------------------------------------------------
// oracle: everything is computed from the raw "documents" shelf (the stored set) and compared with
// what the State reports.

type stored struct {
	refs   []hash.SHA256Hash
	clock  map[hash.SHA256Hash]uint32
	prevs  map[hash.SHA256Hash][]hash.SHA256Hash
	maxLc  uint32
	parsed map[hash.SHA256Hash]dag.Transaction
}

func readStored(db stoabs.KVStore) (*stored, error) {
	s := &stored{clock: map[hash.SHA256Hash]uint32{}, prevs: map[hash.SHA256Hash][]hash.SHA256Hash{}, parsed: map[hash.SHA256Hash]dag.Transaction{}}
	err := db.ReadShelf(context.Background(), "documents", func(reader stoabs.Reader) error {
		return reader.Iterate(func(k stoabs.Key, v []byte) error {
			ref := hash.FromSlice(k.Bytes())
			tx, err := dag.ParseTransaction(append([]byte{}, v...))
			if err != nil {
				return fmt.Errorf("stored transaction %s does not parse: %w", ref, err)
			}
			if !tx.Ref().Equals(ref) {
				return fmt.Errorf("stored under %s but hashes to %s", ref, tx.Ref())
			}
			s.refs = append(s.refs, ref)
			s.clock[ref] = tx.Clock()
			s.prevs[ref] = tx.Previous()
			s.parsed[ref] = tx
			if tx.Clock() > s.maxLc {
				s.maxLc = tx.Clock()
			}
			return nil
		}, stoabs.HashKey{})
	})
	return s, err
}

func shelfKeys(db stoabs.KVStore, shelf string, kt stoabs.Key) ([][]byte, error) {
	var out [][]byte
	err := db.ReadShelf(context.Background(), shelf, func(reader stoabs.Reader) error {
		return reader.Iterate(func(k stoabs.Key, v []byte) error {
			out = append(out, append([]byte{}, k.Bytes()...))
			return nil
		}, kt)
	})
	return out, err
}

func foldXor(s *stored, upto uint32) hash.SHA256Hash {
	x := tree.NewXor()
	for _, r := range s.refs {
		if s.clock[r] <= upto {
			x.Insert(r)
		}
	}
	return x.Hash()
}

func foldIblt(s *stored, upto uint32) *tree.Iblt {
	x := tree.NewIblt(dag.IbltNumBuckets)
	for _, r := range s.refs {
		if s.clock[r] <= upto {
			x.Insert(r)
		}
	}
	return x
}

func pageEnd(c uint32) uint32 { return (c/dag.PageSize+1)*dag.PageSize - 1 }

// checkDerived evaluates C08 on a State against the stored set.
func (r *run) checkDerived(st dag.State, db stoabs.KVStore, when string, skipXorPages map[uint32]bool) {
	s, err := readStored(db)
	if err != nil {
		r.violL("C08", "stored-unreadable", err.Error())
		return
	}
	r.mu.Lock()
	r.res.Checks++
	r.mu.Unlock()
	bg := context.Background()
	// clock-ordered listing
	list, err := st.FindBetweenLC(bg, 0, dag.MaxLamportClock)
	if err != nil {
		r.violL("C08", "listing-error", when+": "+err.Error())
		return
	}
	seen := map[hash.SHA256Hash]bool{}
	var last uint32
	for _, tx := range list {
		if tx.Clock() < last {
			r.violL("C08", "listing-order", when+": clock-ordered listing is not ordered")
		}
		last = tx.Clock()
		if seen[tx.Ref()] {
			r.violL("C08", "listing-duplicate", when+": listing contains "+r.name(tx.Ref())+" twice")
		}
		seen[tx.Ref()] = true
		if _, ok := s.clock[tx.Ref()]; !ok {
			r.violL("C08", "listing-ghost", when+": listing contains a transaction that is not stored")
		}
	}
	if len(seen) != len(s.refs) {
		r.violL("C08", "listing-incomplete", fmt.Sprintf("%s: listing has %d transactions, stored set has %d", when, len(seen), len(s.refs)))
	}
	// count, highest clock, head
	for _, d := range st.Diagnostics() {
		switch d.Name() {
		case dag.TransactionCountDiagnostic:
			if fmt.Sprint(d.Result()) != fmt.Sprint(len(s.refs)) {
				r.violL("C08", "count", fmt.Sprintf("%s: transaction_count=%v, stored=%d", when, d.Result(), len(s.refs)))
			}
		case "dag_lc_high":
			if fmt.Sprint(d.Result()) != fmt.Sprint(s.maxLc) {
				r.violL("C08", "lc-high", fmt.Sprintf("%s: dag_lc_high=%v, highest stored clock=%d", when, d.Result(), s.maxLc))
			}
		}
	}
	head, err := st.Head(bg)
	if err != nil {
		r.violL("C08", "head-error", err.Error())
	} else if len(s.refs) > 0 {
		if c, ok := s.clock[head]; !ok || c != s.maxLc {
			r.violL("C08", "head", fmt.Sprintf("%s: head %s is not a stored transaction with the highest clock %d", when, r.name(head), s.maxLc))
		}
	}
	// digests for every page boundary and the total
	clocks := []uint32{dag.MaxLamportClock}
	for c := uint32(0); c <= s.maxLc; c += dag.PageSize {
		clocks = append(clocks, c, pageEnd(c))
	}
	for _, c := range clocks {
		upto := pageEnd(c)
		if c == dag.MaxLamportClock || upto >= s.maxLc {
			upto = s.maxLc
		}
		skip := false
		for pg := range skipXorPages {
			// a digest up to the highest clock is the tree root and covers every leaf, also one beyond the highest clock
			if pg*dag.PageSize <= upto || upto >= s.maxLc {
				skip = true
			}
		}
		gx, gc := st.XOR(c)
		if gc != upto {
			r.violL("C08", "xor-clock", fmt.Sprintf("%s: XOR(%d) reports clock %d, expected %d", when, c, gc, upto))
		}
		if !skip && !gx.Equals(foldXor(s, upto)) {
			r.violL("C08", "xor", fmt.Sprintf("%s: XOR(%d) differs from the XOR of the stored transactions with clock <= %d (stored=%s)", when, c, upto, r.names(s)))
			// C06: is the difference exactly a transaction of the universe that is NOT stored (rejected / rolled back)?
			want := foldXor(s, upto)
			for n, cand := range r.w.txs {
				if cand == nil || cand.tx == nil {
					continue
				}
				if _, isStored := s.clock[cand.ref]; isStored {
					continue
				}
				if want.Xor(cand.ref).Equals(gx) {
					r.violL("C06", "unstored-in-xor", fmt.Sprintf("%s: the XOR digest contains %s, which is not stored (rejected or rolled back)", when, n))
				}
			}
		}
		gi, gic := st.IBLT(c)
		if gic != upto {
			r.violL("C08", "iblt-clock", fmt.Sprintf("%s: IBLT(%d) reports clock %d, expected %d", when, c, gic, upto))
		}
		ref := foldIblt(s, upto)
		if err := gi.Subtract(ref); err != nil || !gi.Empty() {
			r.violL("C08", "iblt", fmt.Sprintf("%s: IBLT(%d) differs from the IBLT of the stored transactions with clock <= %d", when, c, upto))
			// C06: the surplus decodes to transactions that are not stored (rejected / rolled back)
			if err == nil {
				if extra, _, derr := gi.Decode(); derr == nil {
					for _, ref := range extra {
						if _, isStored := s.clock[ref]; !isStored {
							r.violL("C06", "unstored-in-iblt", fmt.Sprintf("%s: the IBLT contains %s, which is not stored (rejected or rolled back)", when, r.name(ref)))
						}
					}
				}
			}
		}
	}
}

func (r *run) names(s *stored) string {
	var ns []string
	for _, ref := range s.refs {
		n := r.name(ref)
		if !strings.HasPrefix(n, "?") {
			ns = append(ns, n)
		}
	}
	sort.Strings(ns)
	return strings.Join(ns, ",")
}

// checkAdmission evaluates C06 on the stored set.
func (r *run) checkAdmission(db stoabs.KVStore, when string) {
	s, err := readStored(db)
	if err != nil {
		r.violL("C06", "stored-unparseable", err.Error())
		return
	}
	roots := 0
	for _, ref := range s.refs {
		if len(s.prevs[ref]) == 0 {
			roots++
		}
		exp := -1
		for _, p := range s.prevs[ref] {
			pc, ok := s.clock[p]
			if !ok {
				r.violL("C06", "missing-prev", fmt.Sprintf("%s: stored transaction %s references a transaction that is not stored", when, r.name(ref)))
				continue
			}
			if int(pc) > exp {
				exp = int(pc)
			}
		}
		if int(s.clock[ref]) != exp+1 {
			r.violL("C06", "clock", fmt.Sprintf("%s: stored transaction %s has clock %d, expected %d", when, r.name(ref), s.clock[ref], exp+1))
		}
		if c := r.w.byRef[ref]; c != nil {
			if !c.a.WF || !c.a.Sig {
				r.violL("C06", "invalid-admitted:"+c.a.Defect, fmt.Sprintf("%s: %s (wf=%v sig=%v defect=%s) was admitted", when, c.name, c.a.WF, c.a.Sig, c.a.Defect))
			}
		}
	}
	if roots > 1 {
		r.violL("C06", "two-roots", fmt.Sprintf("%s: %d root transactions stored", when, roots))
	}
	// no trace of anything that is not stored: payloads, subscriber jobs
	for _, sub := range r.w.in.Subs {
		keys, _ := shelfKeys(db, "_"+sub.Name+"_jobs", stoabs.BytesKey{})
		for _, k := range keys {
			if _, ok := s.clock[hash.FromSlice(k)]; !ok {
				r.violL("C06", "job-of-unstored", fmt.Sprintf("%s: subscriber %s has a queued job for a transaction that is not stored", when, sub.Name))
			}
		}
	}
	pkeys, _ := shelfKeys(db, "payloads", stoabs.HashKey{})
	for _, k := range pkeys {
		ok := false
		for _, tx := range s.parsed {
			if bytes.Equal(tx.PayloadHash().Slice(), k) {
				ok = true
			}
		}
		if !ok {
			r.violL("C06", "payload-of-unstored", when+": payload store holds a payload no stored transaction declares")
		}
	}
	r.mu.Lock()
	if r.onlyOK {
		for sub, l := range r.ledger {
			seenOnce := map[string]bool{}
			for _, n := range l {
				if seenOnce[n] {
					r.viol("C06", "notified-twice", fmt.Sprintf("%s: subscriber %s (which always reports completion) was notified twice of %s", when, sub, n))
				}
				seenOnce[n] = true
			}
		}
	}
	for sub, l := range r.ledger {
		for _, n := range l {
			c := r.w.txs[n]
			if c == nil {
				continue
			}
			if _, ok := s.clock[c.ref]; !ok {
				r.viol("C06", "notified-unstored", fmt.Sprintf("%s: subscriber %s was notified of %s which is not stored", when, sub, n))
			}
		}
	}
	r.mu.Unlock()
}

// ---------------------------------------------------------------------------------------------

var quietGates = map[string]bool{"start": true, "read.begin": true, "write.begin": true, "done": true}

func (r *run) quiescent(actors map[string]bool) bool {
	for a := range actors {
		if !quietGates[r.inc.sched.Where(a)] {
			return false
		}
	}
	return true
}

func (w0 *world) runScript(t *testing.T, sc script) *result {
	w := w0.variant(sc.Defects)
	res := &result{ID: sc.ID, Violations: []violation{}, Drift: []string{}, Trace: []map[string]any{}}
	r := &run{w: w, res: res, actors: map[string]bool{}, corrupt: map[uint32]bool{}, fatalGen: map[string]int{}, wpOK: map[string]bool{}, inflight: map[string]int{}, dupWP: map[string]bool{}, offered: map[string]map[string]bool{}, ledger: map[string][]string{}, finished: map[string]bool{}, okAnswered: map[string]bool{}, readFail: map[string]int{}, respQ: map[string][]string{}, addErr: map[string]error{}}
	r.path = filepath.Join(w.dir, "run-"+sc.ID+".db")
	defer os.Remove(r.path)
	if err := copyFile(w.template, r.path); err != nil {
		res.Error = err.Error()
		return res
	}
	if err := w.open(r); err != nil {
		res.Error = err.Error()
		return res
	}
	// scripted receiver responses, in order of appearance
	for i, s := range sc.Steps {
		if s.str("a") == "NotifyCall" && s.str("res") != "gone" {
			k := s.str("s") + "/" + s.str("t")
			resp := s.str("res")
			// the process stops between this delivery and its completion marking?
			for _, nx := range sc.Steps[i+1:] {
				if nx.str("a") == "NotifyMark" && nx.str("s") == s.str("s") && nx.str("t") == s.str("t") {
					break
				}
				if nx.str("a") == "Crash" {
					resp = "crash"
					break
				}
			}
			r.respQ[k] = append(r.respQ[k], resp)
		}
	}
	for _, s := range sc.Steps {
		if s.str("a") == "NotifyReadFail" {
			r.readFail[s.str("s")+"/"+s.str("t")]++
		}
	}
	if d, ok := sc.Default[""]; ok {
		r.defResp = d
	}
	r.onlyOK = r.defResp == "" || r.defResp == "ok"
	for _, s := range sc.Steps {
		if s.str("a") == "Crash" || (s.str("a") == "NotifyCall" && s.str("res") != "ok" && s.str("res") != "gone") {
			r.onlyOK = false
		}
	}
	r.restarts = sc.Restarts
	expectedCalls := map[string]int{}
	actors := r.actors
	lastLW := map[string]string{}
	corruptPages := r.corrupt
	var deferred []step
	props := map[string]bool{}
	for _, p := range w.in.Props {
		props[p] = true
	}
	isKilled := func() bool {
		r.mu.Lock()
		defer r.mu.Unlock()
		return r.killed
	}
	check := func(when string) {
		if r.inc == nil || isKilled() || !r.quiescent(actors) {
			return
		}
		r.mu.Lock()
		nBefore := len(r.res.Violations)
		r.mu.Unlock()
		defer func() {
			// an asynchronous retry goroutine may have stopped the process (scripted crash inside a receiver) while
			// this evaluation was running: what it saw then is not an observation of a quiescent state
			if isKilled() {
				r.mu.Lock()
				r.res.Violations = r.res.Violations[:nBefore]
				r.mu.Unlock()
			}
		}()
		if props["C08"] {
			r.checkDerived(r.inc.st, r.inc.inner, when, corruptPages)
		}
		if props["C06"] {
			r.checkAdmission(r.inc.inner, when)
		}
		if props["C14"] {
			r.checkJobs(when)
		}
	}
	// try executes one scripted step; returns false if the actor is blocked inside the code under test
	// (the step is deferred), or an error for inconclusive situations
	var try func(s step) (bool, error)
	try = func(s step) (bool, error) {
		a := s.str("a")
		p := s.str("p")
		sched := r.inc.sched
		gateOf := map[string]string{"ReadVerify": "read.begin", "LockWrite": "write.begin", "Commit": "write.fnEnd", "Rollback": "write.fnEnd", "OnRollback": "rollback.hook", "AfterCommit": "commit.hook"}
		switch a {
		case "Offer":
			c := w.txs[s.str("t")]
			if c == nil || c.tx == nil {
				return true, fmt.Errorf("offer of unparseable %s", s.str("t"))
			}
			var payload []byte
			switch s.str("pl") {
			case "good":
				payload = c.payload
			case "bad":
				payload = []byte("not the payload")
			}
			if actors[p] {
				// the previous Add of this goroutine must have returned (it may be blocked inside the code under test)
				if at, ok := sched.Await(p, sched.BlockedAfter); !ok {
					return false, nil
				} else if at != "done" {
					return false, nil
				}
			}
			actors[p] = true
			inc := r.inc
			r.mu.Lock()
			r.res.Trace = append(r.res.Trace, map[string]any{"ev": "add.begin", "p": p, "t": c.name, "pl": s.str("pl")})
			r.mu.Unlock()
			plKind := s.str("pl")
			if r.offered[c.name] == nil {
				r.offered[c.name] = map[string]bool{}
			}
			r.offered[c.name][plKind] = true
			r.mu.Lock()
			r.inflight[c.name]++
			r.mu.Unlock()
			present0 := false
			if st0, e0 := readStored(inc.inner); e0 == nil {
				_, present0 = st0.clock[c.ref]
			}
			sched.Go(p, func(cx context.Context) {
				err := inc.st.Add(cx, c.tx, payload)
				if err == nil && plKind == "bad" && !present0 {
					if st1, e1 := readStored(inc.inner); e1 == nil {
						if _, now := st1.clock[c.ref]; now {
							r.violL("C06", "payload-mismatch-admitted", fmt.Sprintf("%s was admitted together with a payload that does not hash to its declared payload hash", c.name))
						}
					}
				}
				r.mu.Lock()
				if r.inc == inc {
					r.inflight[c.name]--
				}
				r.addErr[p] = err
				res := "ok"
				if err != nil {
					res = "err"
				}
				if !inc.g.Dead() {
					r.res.Trace = append(r.res.Trace, map[string]any{"ev": "add.return", "p": p, "t": c.name, "res": res})
				}
				r.mu.Unlock()
			})
			_, err := sched.Step(p, "start", "go")
			return true, err
		case "ParseReject":
			c := w.txs[s.str("t")]
			if c.tx != nil {
				// the bytes parse although the model classifies them as malformed: offer them for real
				err := r.inc.st.Add(context.Background(), c.tx, nil)
				r.res.Trace = append(r.res.Trace, map[string]any{"ev": "parse.accepted", "t": c.name, "adderr": fmt.Sprint(err)})
			}
			return true, nil
		case "ReadVerify", "LockWrite", "Commit", "Rollback", "OnRollback", "AfterCommit":
			at, ok := sched.Await(p, sched.BlockedAfter)
			if !ok {
				return false, nil // blocked inside the code under test
			}
			want := gateOf[a]
			if at != want {
				if at == "done" || at == "start" {
					r.res.Drift = append(r.res.Drift, fmt.Sprintf("step %d %s(%s): actor already %s", r.stepNo, a, p, at))
					return true, nil
				}
				// the actor is at an earlier gate because a previous step was deferred: not yet
				return false, nil
			}
			dir := "go"
			if a == "Rollback" && !strings.HasPrefix(lastLW[p], "error") {
				dir = "fail" // injected commit failure; an error of the write function itself is left to the real code
			}
			if a == "LockWrite" && strings.HasPrefix(s.str("res"), "error-") {
				// a storage error in the middle of the write function: every Put on that shelf fails
				shelf := map[string]string{"tx": "documents", "iblt": "ibltBucket", "xor": "xorBucket"}[strings.TrimPrefix(s.str("res"), "error-")]
				dir = "failput:" + shelf
			}
			now, err := sched.Step(p, want, dir)
			if err != nil {
				return true, err
			}
			// the no-op commit of an already present transaction still runs the (empty) hook: drain it
			if a == "LockWrite" {
				lastLW[p] = s.str("res")
			}
			if a == "Commit" && lastLW[p] == "present" && now == "commit.hook" {
				_, err = sched.Step(p, "commit.hook", "go")
			}
			// conformance with the model's prediction of the outcome
			if a == "ReadVerify" {
				exp := s.str("res")
				got := "verified"
				if now == "done" {
					got = "returned"
				} else if now == "" {
					got = "blocked"
				}
				if (exp == "verified") != (got == "verified") && got != "blocked" {
					r.res.Drift = append(r.res.Drift, fmt.Sprintf("step %d ReadVerify(%s,%s): model %s, code %s", r.stepNo, p, s.str("t"), exp, got))
				}
			}
			return true, err
		case "NotifyCall":
			if s.str("res") != "gone" {
				expectedCalls[s.str("s")+"/"+s.str("t")]++
			}
			return true, nil // the first notifyNow runs inside AfterCommit; retries run on their own goroutines
		case "NotifyMark", "NotifyReadFail":
			return true, nil // NotifyReadFail is realised by the fault plan installed at the start of the script
		case "WritePayload":
			c := w.txs[s.str("t")]
			// the model writes the payload of a STORED transaction; when the Add that stores it is still blocked inside the
			// code under test (deferred steps), wait for it
			if st0, e0 := readStored(r.inc.inner); e0 == nil {
				if _, present := st0.clock[c.ref]; !present {
					r.mu.Lock()
					busy := r.inflight[c.name] > 0
					r.mu.Unlock()
					if busy {
						return false, nil
					}
					r.res.Drift = append(r.res.Drift, "WritePayload("+c.name+"): the transaction is not stored, step skipped")
					return true, nil
				}
			}
			dup := false
			for _, sd := range w.in.Subs {
				if sd.Type != "payload" {
					continue
				}
				if _, queued := r.jobs(sd.Name)[c.name]; queued {
					dup = true
				}
				r.mu.Lock()
				for _, n := range r.ledger[sd.Name] {
					if n == c.name {
						dup = true
					}
				}
				r.mu.Unlock()
			}
			r.mu.Lock()
			ev := map[string]any{"ev": "writepayload", "t": c.name}
			if dup {
				r.dupWP[c.name] = true
				ev["dup"] = true
			}
			r.res.Trace = append(r.res.Trace, ev)
			r.mu.Unlock()
			err := r.inc.st.WritePayload(context.Background(), c.tx, hash.SHA256Sum(c.payload), c.payload)
			if err != nil {
				r.res.Drift = append(r.res.Drift, "WritePayload: "+err.Error())
			} else {
				r.wpOK[c.name] = true
			}
			return true, nil
		case "Corrupt":
			c := w.txs[s.str("g")]
			if err := dagVerifCorrupt(r.inc.st, c.ref, c.clock); err != nil {
				return true, err
			}
			corruptPages[c.clock/dag.PageSize] = true
			r.res.Trace = append(r.res.Trace, map[string]any{"ev": "corrupt", "g": c.name, "pg": s["pg"]})
			return true, nil
		case "CheckPage":
			pg := uint32(s["pg"].(float64))
			real := r.realPage(pg)
			r.repairUntil(real)
			r.res.Trace = append(r.res.Trace, map[string]any{"ev": "checkpage", "pg": s["pg"]})
			return true, nil
		case "Crash":
			// let the asynchronous retry goroutines catch up with the deliveries the model has already seen
			dl := time.Now().Add(300 * time.Millisecond)
			for time.Now().Before(dl) {
				r.mu.Lock()
				behind := false
				for k, n := range expectedCalls {
					parts := strings.SplitN(k, "/", 2)
					cnt := 0
					for _, t := range r.ledger[parts[0]] {
						if t == parts[1] {
							cnt++
						}
					}
					if cnt < n {
						behind = true
					}
				}
				r.mu.Unlock()
				if !behind {
					break
				}
				time.Sleep(time.Millisecond)
			}
			return true, r.crash()
		}
		return true, fmt.Errorf("unknown action %q", a)
	}
	for i, s := range sc.Steps {
		r.stepNo = i
		if r.inc == nil {
			break
		}
		// retry deferred steps first (in order), then the scripted one
		progress := !isKilled()
		if isKilled() {
			deferred = nil
		}
		for progress && len(deferred) > 0 {
			progress = false
			tried := map[string]bool{}
			for j, d := range deferred {
				if tried[d.str("p")] {
					continue
				}
				tried[d.str("p")] = true
				okd, err := try(d)
				if err != nil {
					res.Error = err.Error()
					return r.finish(actors)
				}
				if okd {
					deferred = append(deferred[:j], deferred[j+1:]...)
					progress = true
					break
				}
			}
		}
		if isKilled() && s.str("a") != "Crash" {
			continue // the process is already dead (stopped inside a receiver)
		}
		done, err := false, error(nil)
		blockedActor := false
		for _, d := range deferred {
			if d.str("p") != "" && d.str("p") == s.str("p") {
				blockedActor = true // keep the program order of one goroutine
			}
		}
		if !blockedActor {
			done, err = try(s)
		}
		if err != nil {
			res.Error = fmt.Sprintf("step %d %v: %v", i, s, err)
			return r.finish(actors)
		}
		if !done {
			deferred = append(deferred, s)
			res.Deferred++
		}
		check(fmt.Sprintf("after step %d %s", i, s.str("a")))
	}
	// drain: deferred steps, then every actor to completion
	deadline := time.Now().Add(20 * time.Second)
	for len(deferred) > 0 && time.Now().Before(deadline) {
		tried := map[string]bool{}
		progress := false
		for j, d := range deferred {
			if tried[d.str("p")] {
				continue
			}
			tried[d.str("p")] = true
			okd, err := try(d)
			if err != nil {
				res.Error = err.Error()
				return r.finish(actors)
			}
			if okd {
				deferred = append(deferred[:j], deferred[j+1:]...)
				progress = true
				break
			}
		}
		if !progress {
			time.Sleep(5 * time.Millisecond)
		}
	}
	return r.finish(actors)
}

// repairUntil lets the REAL repair loop run (page cursor included) until it has visited the wanted page; the loop
// must get there within one cycle over the pages. Every round may only change the leaf of the page it visits.
func (r *run) repairUntil(want uint32) {
	s, err := readStored(r.inc.inner)
	if err != nil {
		return
	}
	pages := s.maxLc/dag.PageSize + 1
	for pg := range r.corrupt {
		if pg+1 > pages {
			pages = pg + 1
		}
	}
	visited := false
	for i := uint32(0); i < 2*pages+2 && !visited; i++ {
		before := r.leafSnapshot()
		pg := dagVerifRepairRound(r.inc.st)
		after := r.leafSnapshot()
		for k, v := range after {
			if k != pg && !bytes.Equal(before[k], v) {
				r.viol("C08", "repair-not-local", fmt.Sprintf("the repair round on page %d changed the stored leaf of page %d", pg, k))
			}
		}
		// the page counts as repaired only if the STORED leaf now equals the XOR of the stored transactions of that page
		// (a round that runs between a rollback and its reload compares a temporarily different in-memory leaf)
		if r.diskLeafClean(pg, after[pg]) {
			delete(r.corrupt, pg)
		}
		if pg == want {
			visited = true
		}
	}
	if !visited && want*dag.PageSize <= s.maxLc {
		r.viol("C08", "repair-skips-page", fmt.Sprintf("the repair loop never visits page %d (highest clock %d)", want, s.maxLc))
	}
}

func (r *run) diskLeafClean(pg uint32, leaf []byte) bool {
	s, err := readStored(r.inc.inner)
	if err != nil {
		return false
	}
	x := tree.NewXor()
	for _, ref := range s.refs {
		if s.clock[ref]/dag.PageSize == pg {
			x.Insert(ref)
		}
	}
	want, _ := x.MarshalBinary()
	if leaf == nil {
		return x.Empty()
	}
	return bytes.Equal(want, leaf)
}

func (r *run) realPage(abstract uint32) uint32 {
	// model P=2 with Base ≡ 510 (mod 512): abstract clock c -> real Base+c
	return (uint32(r.w.in.Base) + abstract*2) / dag.PageSize
}

func (r *run) leafSnapshot() map[uint32][]byte {
	out := map[uint32][]byte{}
	_ = r.inc.inner.ReadShelf(context.Background(), "xorBucket", func(reader stoabs.Reader) error {
		return reader.Iterate(func(k stoabs.Key, v []byte) error {
			kb := k.Bytes()
			split := uint32(kb[0]) | uint32(kb[1])<<8 | uint32(kb[2])<<16 | uint32(kb[3])<<24
			out[split/dag.PageSize] = append([]byte{}, v...)
			return nil
		}, stoabs.BytesKey{})
	})
	return out
}

func (r *run) crash() error {
	inc := r.inc
	inc.g.Kill()
	// wait for the dying goroutines to leave the database, then reopen the same file
	time.Sleep(2 * time.Millisecond)
	for _, n := range inc.nots {
		_ = n.Close()
	}
	_ = inc.st.Shutdown()
	if err := inc.inner.Close(context.Background()); err != nil {
		return err
	}
	r.mu.Lock()
	r.inc = nil
	r.killed = false
	r.inflight = map[string]int{}
	for a := range r.actors {
		delete(r.actors, a) // the goroutines of the dead incarnation are gone
	}
	r.res.Trace = append(r.res.Trace, map[string]any{"ev": "crash"})
	r.mu.Unlock()
	if err := r.w.open(r); err != nil {
		return err
	}
	// restart: replay stored jobs (Notifier.Run), as network.Start does
	for _, n := range r.inc.nots {
		if err := n.Run(); err != nil {
			return err
		}
	}
	return nil
}

func (r *run) finish(actors map[string]bool) *result {
	if r.inc == nil {
		return r.res
	}
	r.mu.Lock()
	k := r.killed
	r.mu.Unlock()
	if k {
		// the script ended with the process dead inside a receiver: restart once more so the end state is observable
		if err := r.crash(); err != nil {
			r.res.Error = err.Error()
			return r.res
		}
	}
	sched := r.inc.sched
	// run every actor to completion in a fixed order
	deadline := time.Now().Add(20 * time.Second)
	for time.Now().Before(deadline) {
		busy := false
		names := make([]string, 0, len(actors))
		for a := range actors {
			names = append(names, a)
		}
		sort.Strings(names)
		for _, a := range names {
			at := sched.Where(a)
			if at == "done" {
				continue
			}
			busy = true
			if at != "" {
				_, _ = sched.Step(a, at, "go")
			}
		}
		if !busy {
			break
		}
		time.Sleep(time.Millisecond)
	}
	for a := range actors {
		if sched.Where(a) != "done" {
			if r.res.Error == "" {
				r.res.Error = "actor " + a + " did not finish (at " + sched.Where(a) + ")"
			}
			r.inc.g.Kill()
			return r.res
		}
	}
	props := map[string]bool{}
	for _, p := range r.w.in.Props {
		props[p] = true
	}
	r.settle()
	// pages the environment corrupted and the script did not repair: the repair procedure must restore them
	for pg := range r.corrupt {
		r.repairUntil(pg) // at a quiescent moment the repair must restore the page
		if _, still := r.corrupt[pg]; still {
			r.viol("C08", "repair-ineffective", fmt.Sprintf("the repair loop visited page %d at a quiescent moment but its stored leaf still differs from the recomputed value", pg))
			delete(r.corrupt, pg)
		}
	}
	for i := 0; i < r.restarts; i++ {
		if err := r.crash(); err != nil {
			r.res.Error = err.Error()
			return r.res
		}
		r.settle()
		if props["C14"] {
			r.checkJobs(fmt.Sprintf("after clean restart %d", i+1))
		}
	}
	if props["C08"] {
		r.checkDerived(r.inc.st, r.inc.inner, "at the end", nil)
	}
	if props["C06"] {
		r.checkAdmission(r.inc.inner, "at the end")
	}
	if props["C14"] {
		r.checkJobs("at the end")
		r.checkDelivery()
	}
	// restart from disk: a fresh State over the same store must report the same
	if props["C08"] {
		st2, err := dag.NewState(r.inc.inner, dag.NewPrevTransactionsVerifier(), dag.NewTransactionSignatureVerifier(keyResolver()))
		if err == nil {
			_ = st2.Configure(core.ServerConfig{})
			r.checkDerived(st2, r.inc.inner, "after reload from disk", nil)
			_ = st2.Shutdown()
		}
	}
	for _, n := range r.inc.nots {
		_ = n.Close()
	}
	_ = r.inc.st.Shutdown()
	_ = r.inc.inner.Close(context.Background())
	return r.res
}

// settle waits until the retry goroutines have drained (retry delay is nanoseconds).
func (r *run) settle() {
	if len(r.w.in.Subs) == 0 {
		return
	}
	prev, stable := -1, 0
	for i := 0; i < 1200; i++ {
		time.Sleep(3 * time.Millisecond)
		r.mu.Lock()
		n := 0
		for _, l := range r.ledger {
			n += len(l)
		}
		r.mu.Unlock()
		if n == prev {
			stable++
		} else {
			stable = 0
		}
		if stable >= 25 && i > 10 { // no delivery for 75 ms
			return
		}
		prev = n
	}
}

type jobRec struct {
	Retries int    `json:"retries"`
	Error   string `json:"error"`
}

func (r *run) jobs(sub string) map[string]jobRec {
	out := map[string]jobRec{}
	_ = r.inc.inner.ReadShelf(context.Background(), "_"+sub+"_jobs", func(reader stoabs.Reader) error {
		return reader.Iterate(func(k stoabs.Key, v []byte) error {
			var j jobRec
			_ = json.Unmarshal(v, &j)
			out[r.name(hash.FromSlice(k.Bytes()))] = j
			return nil
		}, stoabs.BytesKey{})
	})
	return out
}

// checkJobs: C14 safety at a quiescent point.
func (r *run) checkJobs(when string) {
	s, err := readStored(r.inc.inner)
	if err != nil {
		return
	}
	for _, sub := range r.w.in.Subs {
		jobs := r.jobs(sub.Name)
		failed, _ := r.inc.nots[sub.Name].GetFailedEvents()
		vis := map[string]bool{}
		for _, e := range failed {
			vis[r.name(e.Hash)] = true
		}
		for n, j := range jobs {
			if j.Retries >= 10 && !vis[n] {
				r.violL("C14", "failed-not-visible", fmt.Sprintf("%s: %s/%s has %d retries but is not reported as failed", when, sub.Name, n, j.Retries))
			}
		}
		r.mu.Lock()
		for _, n := range r.ledger[sub.Name] {
			if _, queued := jobs[n]; !queued {
				r.finished[sub.Name+"/"+n] = true // delivered and the job is gone: completion was recorded
			}
			c := r.w.txs[n]
			if c == nil {
				continue
			}
			if _, ok := s.clock[c.ref]; !ok {
				r.viol("C14", "delivered-unadmitted", fmt.Sprintf("%s: %s was delivered to %s but is not in the DAG", when, n, sub.Name))
			}
		}
		r.mu.Unlock()
	}
}

// checkDelivery: C14 at the end of a script (all retries drained): every admitted, selected event was
// delivered at least once, and is either completed, fatally refused or still queued with its counter.
func (r *run) checkDelivery() {
	s, err := readStored(r.inc.inner)
	if err != nil {
		return
	}
	// a payload event is owed for a transaction whose payload was admitted FOR THAT TRANSACTION (Add with payload, or
	// WritePayload): when two stored transactions declare the same payload hash, presence of the bytes alone does not tell
	// for which of them they were admitted
	payloadPresent := map[string]bool{}
	pkeys, _ := shelfKeys(r.inc.inner, "payloads", stoabs.HashKey{})
	for _, k := range pkeys {
		var sharers []string
		for ref, tx := range s.parsed {
			if bytes.Equal(tx.PayloadHash().Slice(), k) {
				sharers = append(sharers, r.name(ref))
			}
		}
		for _, n := range sharers {
			onlyGood := len(r.offered[n]) == 1 && r.offered[n]["good"]
			if len(sharers) == 1 || r.wpOK[n] || onlyGood {
				payloadPresent[n] = true
			}
		}
	}
	for _, sub := range r.w.in.Subs {
		jobs := r.jobs(sub.Name)
		sel := map[string]bool{}
		for _, n := range sub.Select {
			sel[n] = true
		}
		r.mu.Lock()
		delivered := map[string]int{}
		for _, n := range r.ledger[sub.Name] {
			delivered[n]++
		}
		r.mu.Unlock()
		for _, ref := range s.refs {
			n := r.name(ref)
			if strings.HasPrefix(n, "?") {
				continue
			}
			if sub.Select != nil && !sel[n] {
				if delivered[n] > 0 {
					r.violL("C14", "delivered-unselected", fmt.Sprintf("%s was delivered to %s whose filter does not select it", n, sub.Name))
				}
				continue
			}
			if sub.Type == "payload" && !payloadPresent[n] {
				continue
			}
			j, queued := jobs[n]
			if delivered[n] == 0 {
				r.violL("C14", "never-delivered", fmt.Sprintf("admitted %s was never delivered to subscriber %s (queued=%v)", n, sub.Name, queued))
				continue
			}
			r.mu.Lock()
			fin := r.finished[sub.Name+"/"+n]
			r.mu.Unlock()
			_ = fin
			if !queued {
				// the job is gone: only a completion reported by the subscriber may remove it ("an undelivered event stays
				// visible as failed rather than vanishing")
				r.mu.Lock()
				okd := r.okAnswered[sub.Name+"/"+n]
				r.mu.Unlock()
				if !okd {
					r.violL("C14", "vanished-without-completion", fmt.Sprintf("the job %s/%s is gone although the subscriber never reported completion (%d deliveries, all failed)", sub.Name, n, delivered[n]))
				}
				continue // completion recorded
			}
			// still queued: must be visible with a retry count that reflects the attempts
			failedList, _ := r.inc.nots[sub.Name].GetFailedEvents()
			visible := false
			for _, e := range failedList {
				if r.name(e.Hash) == n {
					visible = true
				}
			}
			r.mu.Lock()
			_, wasFatal := r.fatalGen[sub.Name+"/"+n]
			keepsFailing := r.defResp == "fail" || r.defResp == "incomplete"
			r.mu.Unlock()
			if wasFatal && !visible {
				r.violL("C14", "fatal-not-visible-as-failed", fmt.Sprintf("%s/%s was refused with a fatal error but is not reported as a failed event (retries=%d)", sub.Name, n, j.Retries))
			}
			if !wasFatal && keepsFailing && j.Retries < 20 {
				// the retry goroutines of the code under test run on their own (nanosecond delay); on a loaded machine they can be
				// descheduled for longer than settle() waits: give the budget up to 10 s to be spent before judging
				for w := 0; w < 200 && j.Retries < 20; w++ {
					time.Sleep(50 * time.Millisecond)
					if jj, still := r.jobs(sub.Name)[n]; still {
						j = jj
					} else {
						break
					}
				}
			}
			if !wasFatal && keepsFailing && j.Retries < 20 {
				r.violL("C14", "retries-stopped-before-budget", fmt.Sprintf("%s/%s is still undelivered, the receiver keeps failing, but retrying stopped after %d of 20 attempts", sub.Name, n, j.Retries))
			}
			if j.Retries == 0 {
				r.violL("C14", "retry-count-lost", fmt.Sprintf("%s/%s was delivered %d times without completion but its job shows 0 retries", sub.Name, n, delivered[n]))
			}
		}
	}
}

// ---------------------------------------------------------------------------------------------

func TestDriver(t *testing.T) {
	inPath, outPath := os.Getenv("VERIF_IN"), os.Getenv("VERIF_OUT")
	if inPath == "" {
		t.Skip("VERIF_IN not set")
	}
	logrus.SetLevel(logrus.PanicLevel)
	logrus.SetOutput(io.Discard)
	raw, err := os.ReadFile(inPath)
	if err != nil {
		t.Fatal(err)
	}
	var in input
	if err := json.Unmarshal(raw, &in); err != nil {
		t.Fatal(err)
	}
	w := buildWorld(t, in)
	out, err := os.Create(outPath)
	if err != nil {
		t.Fatal(err)
	}
	defer out.Close()
	bw := bufio.NewWriter(out)
	defer bw.Flush()
	enc := json.NewEncoder(bw)
	for _, sc := range in.Scripts {
		res := w.runScript(t, sc)
		if err := enc.Encode(res); err != nil {
			t.Fatal(err)
		}
	}
}
