package dagdrv

import (
	"github.com/nuts-foundation/nuts-node/crypto/hash"
	"github.com/nuts-foundation/nuts-node/network/dag"
)

func dagVerifCorrupt(st dag.State, ref hash.SHA256Hash, clock uint32) error {
	return dag.VerifCorruptXor(st, ref, clock)
}

func dagVerifCheckPage(st dag.State, page uint32) { dag.VerifCheckPage(st, page) }

func dagVerifRepairRound(st dag.State) uint32 { return dag.VerifRepairRound(st) }
