// Driver for Revocation.tla (C11): replays TLC behaviours on the real vcr/revocation.StatusList2021 (sqlite),
// vcr/issuer, vcr/verifier (+ leia revocation store) and the vcr ambassador, with real keys.
//
// One issuer node hosts all issuers of a script; every verifier node has its own database, status-list client and
// revocation store. Status lists travel through an in-memory core.HTTPRequestDoer that calls the issuer node's
// issuer.StatusList (what the GET handler of the node does). Network revocations travel as the payload produced by the
// real network publisher into the receiver the real ambassador subscribed.
// Time: the revocation package reads time.Now() directly, so a Tick rewrites the persisted `expires`/`created_at`
// columns of status_list_credential on every node (the persisted field is the state the code compares against).
package revdrv

import (
	"bufio"
	"bytes"
	"compress/gzip"
	"context"
	"database/sql"
	"encoding/base64"
	"encoding/json"
	"errors"
	"fmt"
	"io"
	"math/rand"
	"net/http"
	"os"
	"path/filepath"
	"sort"
	"strconv"
	"strings"
	"sync"
	"testing"
	"time"

	"github.com/google/uuid"
	ssi "github.com/nuts-foundation/go-did"
	"github.com/nuts-foundation/go-did/did"
	"github.com/nuts-foundation/go-did/vc"
	"github.com/nuts-foundation/nuts-node/audit"
	nutsCrypto "github.com/nuts-foundation/nuts-node/crypto"
	"github.com/nuts-foundation/nuts-node/crypto/hash"
	"github.com/nuts-foundation/nuts-node/jsonld"
	"github.com/nuts-foundation/nuts-node/network"
	"github.com/nuts-foundation/nuts-node/network/dag"
	"github.com/nuts-foundation/nuts-node/storage"
	"github.com/nuts-foundation/nuts-node/vcr"
	"github.com/nuts-foundation/nuts-node/vcr/credential"
	"github.com/nuts-foundation/nuts-node/vcr/issuer"
	"github.com/nuts-foundation/nuts-node/vcr/revocation"
	"github.com/nuts-foundation/nuts-node/vcr/signature"
	"github.com/nuts-foundation/nuts-node/vcr/signature/proof"
	"github.com/nuts-foundation/nuts-node/vcr/trust"
	"github.com/nuts-foundation/nuts-node/vcr/types"
	"github.com/nuts-foundation/nuts-node/vcr/verifier"
	"github.com/nuts-foundation/nuts-node/vdr/resolver"
	"github.com/sirupsen/logrus"
	"gorm.io/gorm"
)

const (
	maxIndex    = 16*1024*8 - 1 // revocation.maxBitstringIndex (unexported); checked against the real code in calibrate()
	defaultTick = 6 * 3600      // one model tick = a quarter of statusListValidity (24h); re-measured by calibrate()
	issuerBase  = "https://issuer.example"
	extBase     = "https://ext.example" // external (scripted) issuers serve their own lists here
)

// ------------------------------------------------------------------------------------------------ input / output

type step map[string]any

func (s step) str(k string) string { v, _ := s[k].(string); return v }
func (s step) num(k string) int    { v, _ := s[k].(float64); return int(v) }

type script struct {
	ID    string `json:"id"`
	Steps []step `json:"steps"`
	Jump  string `json:"jump"` // "end": slots are the last indexes of a page; "mid": random middle indexes
	Seed  int64  `json:"seed"`
}

type smokeSpec struct {
	Goroutines int `json:"goroutines"`
	Per        int `json:"per"`
}

type input struct {
	Scripts       []script   `json:"scripts"`
	B             int        `json:"b"`              // slots per page in the model
	ForeignTarget string     `json:"foreign_target"` // issuer whose list the outsider's credential fx names
	Smoke         *smokeSpec `json:"smoke,omitempty"`
}

type violation struct {
	Prop   string `json:"prop"`
	Kind   string `json:"kind"`
	Site   string `json:"site,omitempty"`
	Detail string `json:"detail"`
	Step   int    `json:"step"`
}

type result struct {
	ID         string           `json:"id"`
	Violations []violation      `json:"violations"`
	Drift      []string         `json:"drift"`
	Error      string           `json:"error,omitempty"`
	Trace      []map[string]any `json:"trace"`
	Checks     int              `json:"checks"`
	Stats      map[string]int   `json:"stats,omitempty"`
}

// ------------------------------------------------------------------------------------------------ world

type memResolver struct {
	mu   sync.RWMutex
	docs map[string]*did.Document
}

func (m *memResolver) Resolve(id did.DID, _ *resolver.ResolveMetadata) (*did.Document, *resolver.DocumentMetadata, error) {
	m.mu.RLock()
	defer m.mu.RUnlock()
	d, ok := m.docs[id.String()]
	if !ok {
		return nil, nil, resolver.ErrNotFound
	}
	return d, &resolver.DocumentMetadata{}, nil
}

func (m *memResolver) add(ctx context.Context, ks *nutsCrypto.Crypto, id did.DID) (string, error) {
	kid := id.String() + "#k1"
	_, pub, err := ks.New(ctx, nutsCrypto.StringNamingFunc(kid))
	if err != nil {
		return "", err
	}
	doc := &did.Document{ID: id, Context: []interface{}{did.DIDContextV1URI()}}
	vm, err := did.NewVerificationMethod(did.MustParseDIDURL(kid), ssi.JsonWebKey2020, id, pub)
	if err != nil {
		return "", err
	}
	doc.AddAssertionMethod(vm)
	m.mu.Lock()
	m.docs[id.String()] = doc
	m.mu.Unlock()
	return kid, nil
}

// fakeNet is the network.Transactions seam: it records what the real publisher hands to the network and the
// receivers the real ambassador subscribes.
type fakeNet struct {
	network.Transactions
	mu        sync.Mutex
	published []network.Template
	receivers map[string]dag.ReceiverFn
}

func (f *fakeNet) Subscribe(name string, receiver dag.ReceiverFn, _ ...network.SubscriberOption) error {
	f.mu.Lock()
	defer f.mu.Unlock()
	if f.receivers == nil {
		f.receivers = map[string]dag.ReceiverFn{}
	}
	f.receivers[name] = receiver
	return nil
}
func (f *fakeNet) WithPersistency() network.SubscriberOption { return nil }
func (f *fakeNet) Disabled() bool                            { return false }
func (f *fakeNet) CreateTransaction(_ context.Context, spec network.Template) (dag.Transaction, error) {
	f.mu.Lock()
	defer f.mu.Unlock()
	f.published = append(f.published, spec)
	return dag.CreateTestTransactionWithJWK(uint32(len(f.published))), nil
}

type nopWriter struct{}

func (nopWriter) StoreCredential(vc.VerifiableCredential, *time.Time) error { return nil }

// txGate stops ONE goroutine at the point where it opens its next SQL transaction on the status-list database handle
// (every read the operation made before its transaction lies before the gate, the locked section behind it).
type txGate struct {
	mu      sync.Mutex
	armed   bool
	reached chan struct{}
	release chan struct{}
}

// arm: the next goroutine that opens a transaction stops; it goes on when the returned release channel is closed.
func (g *txGate) arm() (reached, release chan struct{}) {
	g.mu.Lock()
	g.armed, g.reached, g.release = true, make(chan struct{}), make(chan struct{})
	reached, release = g.reached, g.release
	g.mu.Unlock()
	return
}

func (g *txGate) disarm() {
	g.mu.Lock()
	g.armed = false
	g.mu.Unlock()
}

func (g *txGate) enter() {
	g.mu.Lock()
	if !g.armed {
		g.mu.Unlock()
		return
	}
	g.armed = false
	reached, release := g.reached, g.release
	g.mu.Unlock()
	close(reached)
	<-release
}

// gatedPool is the gorm.ConnPool of the issuer node's StatusList2021: the real *sql.DB, with BeginTx passing the gate.
type gatedPool struct {
	*sql.DB
	gate *txGate
}

func (p *gatedPool) BeginTx(ctx context.Context, opts *sql.TxOptions) (*sql.Tx, error) {
	p.gate.enter()
	return p.DB.BeginTx(ctx, opts)
}
func (p *gatedPool) GetDBConn() (*sql.DB, error) { return p.DB, nil }

// pending is an operation of the issuer node that was started in its own goroutine and stands at the gate.
type pending struct {
	done      chan error
	release   chan struct{}
	cred      *vc.VerifiableCredential
	url       string
	beginSeq  int
	published int
}

func (pd *pending) open() {
	select {
	case <-pd.release:
	default:
		close(pd.release)
	}
}

type fetchRec struct {
	URL    string
	Mode   string
	Target string // list actually produced by the issuer node ("" = none)
	Status int
	Served *servedDoc
}

// doer is the core.HTTPRequestDoer of one node's StatusList2021.
type doer struct {
	w       *world
	node    string
	mode    string // outcome of the next GET
	other   string // URL answered instead when mode == "otherlist"
	forgeIx []int  // bits set in a forged list
	fetches []fetchRec
}

func (d *doer) Do(req *http.Request) (*http.Response, error) {
	u := req.URL.String()
	mode := d.mode
	if mode == "" {
		mode = "up"
	}
	d.mode = "up"
	rec := fetchRec{URL: u, Mode: mode}
	respond := func(code int, body []byte) (*http.Response, error) {
		rec.Status = code
		d.fetches = append(d.fetches, rec)
		return &http.Response{StatusCode: code, Status: strconv.Itoa(code), Body: io.NopCloser(bytes.NewReader(body)),
			Header: http.Header{"Content-Type": []string{"application/json"}}, Request: req}, nil
	}
	x := d.w.run.extByURL(u)
	nbytes := 16 * 1024
	if x != nil {
		nbytes = x.bytes
	}
	switch mode {
	case "down":
		d.fetches = append(d.fetches, rec)
		return nil, errors.New("verif: connection refused")
	case "forged-set", "forged-clear":
		var ix []int
		if mode == "forged-set" {
			ix = d.forgeIx
		}
		body, err := d.w.forgeList(u, ix, nbytes)
		if err != nil {
			return nil, err
		}
		return respond(200, body)
	}
	if x != nil { // the list of an external issuer, served by that issuer
		if mode != "up" {
			return respond(404, []byte(`{"title":"not found"}`))
		}
		body, sd, err := d.w.run.extList(x)
		if err != nil {
			return nil, err
		}
		rec.Target, rec.Served = u, sd
		return respond(200, body)
	}
	target := u
	if mode == "otherlist" {
		target = d.other
	}
	if target == "" {
		return respond(404, []byte(`{"title":"not found"}`))
	}
	issuerDID, page, ok := parseListURL(target)
	if !ok {
		return respond(404, []byte(`{"title":"not found"}`))
	}
	// what auth/api/iam StatusList does: vcr.Issuer().StatusList(ctx, did, page) -> 200 JSON
	cred, err := d.w.inode.iss.StatusList(audit.TestContext(), issuerDID, page)
	if err != nil {
		return respond(404, []byte(`{"title":"`+err.Error()+`"}`))
	}
	body, _ := json.Marshal(cred)
	rec.Target = target
	rec.Served = d.w.run.onServed(target, body, d.w.run.opSeq+1)
	return respond(200, body)
}

func parseListURL(u string) (did.DID, int, bool) {
	rest, ok := strings.CutPrefix(u, issuerBase+"/statuslist/")
	if !ok {
		return did.DID{}, 0, false
	}
	i := strings.LastIndex(rest, "/")
	if i < 0 {
		return did.DID{}, 0, false
	}
	page, err := strconv.Atoi(rest[i+1:])
	if err != nil {
		return did.DID{}, 0, false
	}
	d, err := did.ParseDID(rest[:i])
	if err != nil {
		return did.DID{}, 0, false
	}
	return *d, page, true
}

type issuerNode struct {
	gate *txGate
	db   *gorm.DB
	ks   *nutsCrypto.Crypto
	sl   *revocation.StatusList2021
	iss  issuer.Issuer
	ver  verifier.Verifier
	net  *fakeNet
	doer *doer
}

type verifierNode struct {
	name string
	db   *gorm.DB
	sl   *revocation.StatusList2021
	ver  verifier.Verifier
	recv dag.ReceiverFn
	doer *doer
}

type world struct {
	t     *testing.T
	ctx   context.Context
	in    input
	res   *memResolver
	jl    jsonld.JSONLD
	inode *issuerNode
	nodes map[string]*verifierNode
	atkKS *nutsCrypto.Crypto
	extKS *nutsCrypto.Crypto
	run   *runState
	seq   int
	// tick: seconds of one model tick = a quarter of the validity window of the list credentials the node issues
	tick int64
	// lastIndex: the highest index Entry() hands out on a page (discovered by calibrate(); maxIndex in the code as it is)
	lastIndex int
}

func buildWorld(t *testing.T, in input) *world {
	w := &world{t: t, lastIndex: maxIndex, tick: defaultTick, ctx: audit.TestContext(), in: in, res: &memResolver{docs: map[string]*did.Document{}}, nodes: map[string]*verifierNode{}}
	w.jl = jsonld.NewTestJSONLDManager(t)
	dir := t.TempDir()
	keyRes := resolver.DIDKeyResolver{Resolver: w.res}
	{ // issuer node
		eng := storage.NewTestStorageEngineInDir(t, filepath.Join(dir, "issuer"))
		n := &issuerNode{db: eng.GetSQLDatabase(), net: &fakeNet{}}
		n.ks = nutsCrypto.NewDatabaseCryptoInstance(n.db)
		n.doer = &doer{w: w, node: "local"}
		// the status list works on the same database through a handle whose transactions pass the gate
		sqlDB, err := n.db.DB()
		must(t, err)
		n.gate = &txGate{}
		gdb := n.db.Session(&gorm.Session{Context: context.Background()})
		gdb.Statement.ConnPool = &gatedPool{DB: sqlDB, gate: n.gate}
		n.sl = revocation.NewStatusList2021(gdb, n.doer, issuerBase)
		backup, err := eng.GetProvider("vcr").GetKVStore("backup-issued-credentials", storage.PersistentStorageClass)
		must(t, err)
		istore, err := issuer.NewStore(n.db, filepath.Join(dir, "issuer", "issued-credentials.db"), backup)
		must(t, err)
		t.Cleanup(func() { _ = istore.Close() })
		tc := trust.NewConfig(filepath.Join(dir, "issuer", "trust.yaml"))
		publisher := issuer.NewNetworkPublisher(n.net, w.res, n.ks)
		n.iss = issuer.NewIssuer(istore, nopWriter{}, publisher, nil, w.res, n.ks, w.jl, tc, n.sl)
		vb, err := eng.GetProvider("vcr").GetKVStore("backup-revoked-credentials", storage.PersistentStorageClass)
		must(t, err)
		vstore, err := verifier.NewLeiaVerifierStore(filepath.Join(dir, "issuer", "verifier-store.db"), vb)
		must(t, err)
		t.Cleanup(func() { _ = vstore.Close() })
		n.ver = verifier.NewVerifier(vstore, w.res, keyRes, w.jl, tc, n.sl)
		w.inode = n
	}
	for _, name := range []string{"n1", "n2"} {
		eng := storage.NewTestStorageEngineInDir(t, filepath.Join(dir, name))
		n := &verifierNode{name: name, db: eng.GetSQLDatabase()}
		n.doer = &doer{w: w, node: name}
		n.sl = revocation.NewStatusList2021(n.db, n.doer, "https://"+name+".example")
		vb, err := eng.GetProvider("vcr").GetKVStore("backup-revoked-credentials", storage.PersistentStorageClass)
		must(t, err)
		vstore, err := verifier.NewLeiaVerifierStore(filepath.Join(dir, name, "verifier-store.db"), vb)
		must(t, err)
		t.Cleanup(func() { _ = vstore.Close() })
		tc := trust.NewConfig(filepath.Join(dir, name, "trust.yaml"))
		n.ver = verifier.NewVerifier(vstore, w.res, keyRes, w.jl, tc, n.sl)
		fn := &fakeNet{}
		amb := vcr.NewAmbassador(fn, nopWriter{}, n.ver, nil)
		must(t, amb.Configure())
		n.recv = fn.receivers["vcr_revocations"]
		if n.recv == nil {
			t.Fatal("ambassador did not subscribe vcr_revocations")
		}
		w.nodes[name] = n
	}
	w.atkKS = nutsCrypto.NewMemoryCryptoInstance(t)
	w.extKS = nutsCrypto.NewMemoryCryptoInstance(t)
	return w
}

func must(t *testing.T, err error) {
	t.Helper()
	if err != nil {
		t.Fatal(err)
	}
}

// ------------------------------------------------------------------------------------------------ documents

func compressBits(ix []int, nbytes int) string {
	bs := make([]byte, nbytes)
	for _, i := range ix {
		if i/8 < nbytes {
			bs[i/8] |= 1 << (7 - uint(i%8))
		}
	}
	var buf bytes.Buffer
	gz := gzip.NewWriter(&buf)
	_, _ = gz.Write(bs)
	_ = gz.Close()
	return base64.RawURLEncoding.EncodeToString(buf.Bytes())
}

func expandBits(enc string) ([]int, int, error) {
	e := base64.RawURLEncoding
	if len(enc)%4 == 0 {
		e = base64.URLEncoding
	}
	raw, err := e.DecodeString(enc)
	if err != nil {
		return nil, 0, err
	}
	gz, err := gzip.NewReader(bytes.NewReader(raw))
	if err != nil {
		return nil, 0, err
	}
	bs, err := io.ReadAll(gz)
	if err != nil {
		return nil, 0, err
	}
	var out []int
	for q, b := range bs {
		if b == 0 {
			continue
		}
		for r := 0; r < 8; r++ {
			if b>>(7-uint(r))&1 == 1 {
				out = append(out, q*8+r)
			}
		}
	}
	return out, len(bs) * 8, nil
}

// signLD signs a JSON-LD document the way vcr/issuer.buildJSONLDCredential does, with an arbitrary key store.
func (w *world) signLD(ks *nutsCrypto.Crypto, doc any, kid string, created time.Time) ([]byte, error) {
	m := map[string]interface{}{}
	b, _ := json.Marshal(doc)
	if err := json.Unmarshal(b, &m); err != nil {
		return nil, err
	}
	res, err := proof.NewLDProof(proof.ProofOptions{Created: created}).Sign(w.ctx, m, signature.JSONWebSignature2020{ContextLoader: w.jl.DocumentLoader(), Signer: ks}, kid)
	if err != nil {
		return nil, err
	}
	return json.Marshal(res)
}

// forgeList: a StatusList2021Credential for url, issued and validly signed by the OUTSIDER.
func (w *world) forgeList(url string, ix []int, nbytes int) ([]byte, error) {
	r := w.run
	now := time.Now()
	exp := now.Add(24 * time.Hour)
	// the other party is, per script, unrelated to / a prefix of / the parent of / an extension of the list's issuer
	signer, signerKid := r.atkWeb, r.atkWebKid
	if victim, _, ok := parseListURL(url); ok {
		rel := []string{"unrelated", "prefix", "parent", "extension"}[int(r.sc.Seed%4+4)%4]
		var err error
		if signer, signerKid, err = r.forger(victim, rel); err != nil {
			return nil, err
		}
	}
	r.forgedBy = signer.String()
	id := ssi.MustParseURI(signer.String() + "#" + uuid.NewString())
	tpl := vc.VerifiableCredential{
		Context:        []ssi.URI{vc.VCContextV1URI(), revocation.StatusList2021ContextURI},
		Type:           []ssi.URI{vc.VerifiableCredentialTypeV1URI(), ssi.MustParseURI(revocation.StatusList2021CredentialType)},
		ID:             &id,
		Issuer:         signer.URI(),
		IssuanceDate:   now,
		ExpirationDate: &exp,
		CredentialSubject: []any{revocation.StatusList2021CredentialSubject{ID: url, Type: revocation.StatusList2021CredentialSubjectType,
			StatusPurpose: revocation.StatusPurposeRevocation, EncodedList: compressBits(ix, nbytes)}},
	}
	return w.signLD(w.atkKS, tpl, signerKid, now)
}

// ------------------------------------------------------------------------------------------------ one script

type credInfo struct {
	name       string
	kind       string // sl | net | foreign
	iss        string // model issuer
	vc         *vc.VerifiableCredential
	url        string // status list named by the credential
	index      int
	page       int
	slot       int
	revoked    bool   // ground truth: the issuer revoked it
	revokedSeq int    // .. as the n-th completed revocation of the script
	payload    []byte // published network revocation
}

type servedDoc struct {
	URL    string
	ID     string
	Issuer string
	Bits   []int
	Left   int // ceil(remaining virtual validity / tick)
	SigOK  bool
}

type tickMark struct {
	at    time.Time
	total int64
}

type runState struct {
	w          *world
	sc         script
	sid        string
	res        *result
	stepNo     int
	web, nuts  map[string]did.DID
	atkWeb     did.DID
	atkNuts    did.DID
	atkWebKid  string
	atkNutsKid string
	creds      map[string]*credInfo
	order      []string
	slotIndex  []int
	alloc      map[string][]int           // issuer -> entries handed out per page (reference)
	lastURL    map[string]string          // issuer -> list URL of the last entry
	usedSlots  map[string]string          // url#index -> credential
	must       map[string]map[string]bool // node -> credentials the node is obliged to reject
	lastBits   map[string][]int           // url -> bits of the previous served version
	opSeq      int                        // number of completed revocations
	ext        map[string]*extIssuer      // external issuers of the script, by the size class of their list
	forgedBy   string                     // issuer of the last forged status list
	pend       map[string]*pending        // operations standing at the transaction gate, by name
	forgers    map[string]string          // lookalike DID -> key id
	delivered  map[string]string          // node|url -> mode of the last list document the node received for the URL
	aged       int64
	timeline   []tickMark
	dummyRev   map[string][]byte
}

func (r *runState) viol(kind, site, detail string) {
	r.res.Violations = append(r.res.Violations, violation{Prop: "C11", Kind: kind, Site: site, Detail: detail, Step: r.stepNo})
}
func (r *runState) drift(f string, a ...any) {
	r.res.Drift = append(r.res.Drift, fmt.Sprintf("step %d: ", r.stepNo)+fmt.Sprintf(f, a...))
}
func (r *runState) ev(e map[string]any) { e["step"] = r.stepNo; r.res.Trace = append(r.res.Trace, e) }

func (w *world) newRun(sc script) (*runState, error) {
	w.seq++
	r := &runState{w: w, sc: sc, sid: fmt.Sprintf("z%dq%d", os.Getpid(), w.seq), res: &result{ID: sc.ID, Violations: []violation{}, Drift: []string{}, Stats: map[string]int{}},
		web: map[string]did.DID{}, nuts: map[string]did.DID{}, creds: map[string]*credInfo{}, alloc: map[string][]int{}, lastURL: map[string]string{},
		usedSlots: map[string]string{}, must: map[string]map[string]bool{"n1": {}, "n2": {}}, lastBits: map[string][]int{}, dummyRev: map[string][]byte{}, delivered: map[string]string{}, pend: map[string]*pending{}, forgers: map[string]string{}, ext: map[string]*extIssuer{}}
	w.run = r
	r.timeline = []tickMark{{at: time.Time{}, total: 0}}
	for _, i := range []string{"i1", "i2"} {
		r.web[i] = did.MustParseDID("did:web:issuer.example:iam:" + r.sid + i)
		r.nuts[i] = did.MustParseDID("did:nuts:" + r.sid + i)
		for _, d := range []did.DID{r.web[i], r.nuts[i]} {
			if _, err := w.res.add(w.ctx, w.inode.ks, d); err != nil {
				return nil, err
			}
		}
		if err := w.inode.db.Exec("INSERT INTO did ( subject, id ) VALUES ( ?, ? )", r.web[i].String(), r.web[i].String()).Error; err != nil {
			return nil, err
		}
	}
	r.atkWeb = did.MustParseDID("did:web:attacker.example:iam:" + r.sid + "x")
	r.atkNuts = did.MustParseDID("did:nuts:" + r.sid + "x")
	var err error
	if r.atkWebKid, err = w.res.add(w.ctx, w.atkKS, r.atkWeb); err != nil {
		return nil, err
	}
	if r.atkNutsKid, err = w.res.add(w.ctx, w.atkKS, r.atkNuts); err != nil {
		return nil, err
	}
	// real indexes standing for the model slots 0..B-1 of a page: first index, ..., last index of the bitstring
	b := w.in.B
	if b < 2 {
		b = 2
	}
	rnd := rand.New(rand.NewSource(sc.Seed))
	r.slotIndex = make([]int, b)
	r.slotIndex[b-1] = w.lastIndex
	mids := map[int]bool{}
	for k := 1; k < b-1; k++ {
		if sc.Jump == "mid" {
			for {
				v := 1 + rnd.Intn(w.lastIndex-2)
				if !mids[v] {
					mids[v] = true
					break
				}
			}
		} else {
			mids[w.lastIndex-(b-1-k)] = true
		}
	}
	var ms []int
	for v := range mids {
		ms = append(ms, v)
	}
	sort.Ints(ms)
	copy(r.slotIndex[1:], ms)
	return r, nil
}

func (r *runState) slotOf(index int) int {
	for k, v := range r.slotIndex {
		if v == index {
			return k
		}
	}
	return -1
}

func (r *runState) agedAt(t time.Time) int64 {
	var total int64
	for _, m := range r.timeline {
		if !m.at.After(t) {
			total = m.total
		}
	}
	return total
}

func template(issuerDID did.DID) vc.VerifiableCredential {
	return vc.VerifiableCredential{
		Context:           []ssi.URI{credential.NutsV1ContextURI},
		Type:              []ssi.URI{ssi.MustParseURI("HumanCredential")},
		Issuer:            issuerDID.URI(),
		CredentialSubject: []interface{}{map[string]interface{}{"id": "did:web:holder.example"}},
	}
}

func entryOf(c *vc.VerifiableCredential) (*revocation.StatusList2021Entry, error) {
	sts, err := c.CredentialStatuses()
	if err != nil {
		return nil, err
	}
	for _, s := range sts {
		if s.Type == revocation.StatusList2021EntryType {
			var e revocation.StatusList2021Entry
			if err := json.Unmarshal(s.Raw(), &e); err != nil {
				return nil, err
			}
			return &e, nil
		}
	}
	return nil, errors.New("no StatusList2021Entry")
}

// onServed: oracle over every list credential the issuer node serves (explicit Serve and GETs made by verifier nodes).
// beginSeq: revocations completed before the GET began are numbered < beginSeq; their bits are owed.
func (r *runState) onServed(url string, body []byte, beginSeq int) *servedDoc {
	w := r.w
	sd := &servedDoc{URL: url}
	var cred vc.VerifiableCredential
	if err := json.Unmarshal(body, &cred); err != nil {
		r.viol("served-list-unparsable", "StatusList2021.Credential", err.Error())
		return sd
	}
	r.res.Checks++
	if cred.ID != nil {
		sd.ID = cred.ID.String()
	}
	sd.Issuer = cred.Issuer.String()
	wantIssuer, _, _ := parseListURL(url)
	var subj []revocation.StatusList2021CredentialSubject
	if err := cred.UnmarshalCredentialSubject(&subj); err != nil || len(subj) != 1 {
		r.viol("served-list-malformed", "StatusList2021.Credential", fmt.Sprintf("credentialSubject: %v", err))
		return sd
	}
	bits, n, err := expandBits(subj[0].EncodedList)
	if err != nil || n < 16*1024*8 {
		r.viol("served-list-malformed", "StatusList2021.Credential", fmt.Sprintf("encodedList: %v (%d bits)", err, n))
		return sd
	}
	sd.Bits = bits
	// validly signed, by the issuer the list belongs to, for this URL, and a StatusList2021Credential
	sigErr := w.nodes["n1"].ver.VerifySignature(cred, nil)
	sd.SigOK = sigErr == nil
	if sigErr != nil {
		r.viol("served-list-bad-signature", "StatusList2021.Credential", sigErr.Error())
	}
	if sd.Issuer != wantIssuer.String() || subj[0].ID != url || subj[0].StatusPurpose != "revocation" ||
		!cred.IsType(ssi.MustParseURI(revocation.StatusList2021CredentialType)) {
		r.viol("served-list-wrong-identity", "StatusList2021.Credential", fmt.Sprintf("issuer=%s subject=%s purpose=%s for %s", sd.Issuer, subj[0].ID, subj[0].StatusPurpose, url))
	}
	// not about to expire: more than a quarter of its validity window is left (in virtual time)
	now := time.Now()
	if cred.ExpirationDate == nil {
		r.viol("served-list-about-to-expire", "StatusList2021.Credential", "no expirationDate")
	} else {
		window := cred.ExpirationDate.Sub(cred.IssuanceDate)
		agedSince := r.aged - r.agedAt(cred.IssuanceDate)
		remaining := cred.ExpirationDate.Sub(now) - time.Duration(agedSince)*time.Second
		issuedAgo := now.Sub(cred.IssuanceDate) + time.Duration(agedSince)*time.Second
		tick := time.Duration(w.tick) * time.Second
		sd.Left = int((remaining + tick - 1) / tick)
		if remaining < 0 {
			sd.Left = 0
		}
		if remaining <= window/4 || issuedAgo < -5*time.Second {
			r.viol("served-list-about-to-expire", "StatusList2021.Credential", fmt.Sprintf("%s left of a validity window of %s (issued %s ago)", remaining, window, issuedAgo))
		}
	}
	// a set bit is never cleared
	if prev, ok := r.lastBits[url]; ok {
		have := map[int]bool{}
		for _, b := range bits {
			have[b] = true
		}
		for _, b := range prev {
			if !have[b] {
				r.viol("bit-cleared", "StatusList2021.Credential", fmt.Sprintf("bit %d of %s was set in the previous served version and is clear now", b, url))
			}
		}
	}
	r.lastBits[url] = bits
	// bits of credentials the issuer did not revoke / missing bits of revoked credentials
	have := map[int]bool{}
	for _, b := range bits {
		have[b] = true
		if cn, ok := r.usedSlots[url+"#"+strconv.Itoa(b)]; ok {
			if !r.creds[cn].revoked {
				r.viol("bit-set-without-revocation", "StatusList2021.Revoke", fmt.Sprintf("bit %d of %s (credential %s) is set but the issuer did not revoke it", b, url, cn))
			}
		} else {
			r.drift("served list %s has bit %d set which was not handed to any credential of this script", url, b)
		}
	}
	for _, c := range r.creds {
		if c.kind == "sl" && c.url == url && c.revoked && !have[c.index] {
			if c.revokedSeq < beginSeq {
				r.viol("bit-cleared", "StatusList2021.Credential", fmt.Sprintf("bit %d of %s (credential %s) was set by the issuer before this GET began and is clear in the served list", c.index, url, c.name))
			} else {
				r.drift("served list %s lacks the bit %d of credential %s, revoked while the GET was under way", url, c.index, c.name)
			}
		}
	}
	return sd
}

// extIssuer is an EXTERNAL issuer (not hosted on the issuer node): scripted here, with real keys and a resolvable DID; it
// issues credentials with a StatusList2021Entry in its own list and serves that list itself. Its list has the minimum size
// (16kB), one byte more, or twice the size; entries sit at position classes 0 first, 1 last of a minimum list, 2 first beyond
// it, 3 last of the list, 4 beyond the list.
type extIssuer struct {
	size  string
	did   did.DID
	kid   string
	url   string
	bytes int
	bits  map[int]bool
}

func (x *extIssuer) index(pos int) int {
	switch pos {
	case 0:
		return 0
	case 1:
		return 16*1024*8 - 1
	case 2:
		return 16 * 1024 * 8
	case 3:
		return x.bytes*8 - 1
	}
	return x.bytes * 8
}

func (x *extIssuer) posOf(index int) int {
	for _, pos := range []int{0, 1, 2, 3, 4} {
		if x.index(pos) == index {
			return pos
		}
	}
	return 99
}

func (r *runState) extIssuerOf(size string) (*extIssuer, error) {
	if x := r.ext[size]; x != nil {
		return x, nil
	}
	nbytes, ok := map[string]int{"min": 16 * 1024, "odd": 16*1024 + 1, "double": 32 * 1024}[size]
	if !ok {
		return nil, fmt.Errorf("unknown list size class %q", size)
	}
	x := &extIssuer{size: size, bytes: nbytes, bits: map[int]bool{}, did: did.MustParseDID("did:web:ext.example:iam:" + r.sid + size)}
	x.url = extBase + "/statuslist/" + x.did.String() + "/1"
	var err error
	if x.kid, err = r.w.res.add(r.w.ctx, r.w.extKS, x.did); err != nil {
		return nil, err
	}
	r.ext[size] = x
	return x, nil
}

func (r *runState) extByURL(url string) *extIssuer {
	for _, x := range r.ext {
		if x.url == url {
			return x
		}
	}
	return nil
}

// extList: the external issuer's list credential as it serves it now (always signed afresh, valid for 24h).
func (r *runState) extList(x *extIssuer) ([]byte, *servedDoc, error) {
	now := time.Now()
	exp := now.Add(24 * time.Hour)
	var ix []int
	for i := range x.bits {
		ix = append(ix, i)
	}
	sort.Ints(ix)
	id := ssi.MustParseURI(x.did.String() + "#" + uuid.NewString())
	tpl := vc.VerifiableCredential{
		Context:        []ssi.URI{vc.VCContextV1URI(), revocation.StatusList2021ContextURI},
		Type:           []ssi.URI{vc.VerifiableCredentialTypeV1URI(), ssi.MustParseURI(revocation.StatusList2021CredentialType)},
		ID:             &id,
		Issuer:         x.did.URI(),
		IssuanceDate:   now,
		ExpirationDate: &exp,
		CredentialSubject: []any{revocation.StatusList2021CredentialSubject{ID: x.url, Type: revocation.StatusList2021CredentialSubjectType,
			StatusPurpose: revocation.StatusPurposeRevocation, EncodedList: compressBits(ix, x.bytes)}},
	}
	body, err := r.w.signLD(r.w.extKS, tpl, x.kid, now)
	return body, &servedDoc{URL: x.url, ID: id.String(), Issuer: x.did.String(), Bits: ix, Left: 4, SigOK: true}, err
}

func (r *runState) modelBits(url string, bits []int) []int {
	out := []int{}
	if x := r.extByURL(url); x != nil {
		for _, b := range bits {
			out = append(out, x.posOf(b))
		}
		return out
	}
	for _, b := range bits {
		if s := r.slotOf(b); s >= 0 {
			out = append(out, s)
		} else {
			out = append(out, 99)
		}
	}
	return out
}

func verdictOf(err error) string {
	if err == nil {
		return "valid"
	}
	if errors.Is(err, types.ErrRevoked) {
		return "revoked"
	}
	return "error: " + err.Error()
}

// revocable: may this credential legitimately fail as revoked?
func (r *runState) revocable(c *credInfo) bool {
	if c.kind != "foreign" {
		return c.revoked
	}
	// the outsider's credential names a slot of another issuer's list: only that issuer's revocation of the slot counts
	if cn, ok := r.usedSlots[c.url+"#"+strconv.Itoa(c.index)]; ok {
		return r.creds[cn].revoked
	}
	return false
}

func (r *runState) judge(c *credInfo, node, src, verdict string, fetched bool) {
	r.res.Checks++
	// the most recent list document this node received for the URL the credential names
	last := r.delivered[node+"|"+c.url]
	forged := last == "forged-set" || last == "forged-clear"
	other := last == "otherlist"
	if forged || other {
		src = last
	}
	site := "verifier.Verify"
	if verdict != "revoked" && verdict != "valid" {
		r.res.Error = fmt.Sprintf("step %d: verification of %s on %s failed for another reason: %s", r.stepNo, c.name, node, verdict)
		return
	}
	mustSet := r.must[node]
	if node == "local" {
		mustSet = map[string]bool{}
		for _, d := range r.creds {
			if d.kind == "sl" && d.revoked {
				mustSet[d.name] = true
			}
		}
	}
	if mustSet[c.name] && verdict != "revoked" {
		switch {
		case forged:
			r.viol("forged-list-honoured", "statuslist2021_verifier.update", fmt.Sprintf("%s: revoked credential %s verifies again on %s after a status list issued by another party (%s) was served for %s", src, c.name, node, r.forgedBy, c.url))
		case other:
			r.viol("other-list-honoured", "statuslist2021_verifier.update", fmt.Sprintf("revoked credential %s verifies again on %s after another list was served for %s", c.name, node, c.url))
		default:
			r.viol("revoked-credential-accepted", site, fmt.Sprintf("%s (%s) was revoked by its issuer and %s has received the revocation / refreshed the list, but verification says %s (src=%s)", c.name, c.kind, node, verdict, src))
		}
	}
	if verdict == "revoked" && !r.revocable(c) {
		switch {
		case forged:
			r.viol("forged-list-honoured", "statuslist2021_verifier.update", fmt.Sprintf("%s: credential %s fails as revoked on %s although its issuer never revoked it: a status list issued by another party (%s) served for %s was honoured", src, c.name, node, r.forgedBy, c.url))
		case other:
			r.viol("other-list-honoured", "statuslist2021_verifier.update", fmt.Sprintf("credential %s fails as revoked on %s by a list other than the one it names (%s)", c.name, node, c.url))
		default:
			r.viol("revoked-without-issuer", site, fmt.Sprintf("%s (%s) fails as revoked on %s but its issuer never revoked it (src=%s)", c.name, c.kind, node, src))
		}
	}
}

func (r *runState) ageRows(seconds int64) error {
	dbs := []*gorm.DB{r.w.inode.db, r.w.nodes["n1"].db, r.w.nodes["n2"].db}
	for _, db := range dbs {
		if err := db.Exec("UPDATE status_list_credential SET expires = expires - ?, created_at = created_at - ? WHERE subject_id LIKE ?", seconds, seconds, "%"+r.sid+"%").Error; err != nil {
			return err
		}
	}
	r.aged += seconds
	r.timeline = append(r.timeline, tickMark{at: time.Now(), total: r.aged})
	return nil
}

func (r *runState) doStep(st step) error {
	w := r.w
	switch st.str("a") {
	case "Issue":
		i, kind := st.str("i"), st.str("kind")
		name := fmt.Sprintf("c%d", len(r.order)+1)
		ci := &credInfo{name: name, kind: kind, iss: i}
		if kind == "ext" {
			x, err := r.extIssuerOf(i)
			if err != nil {
				return err
			}
			pos := st.num("slot")
			id := ssi.MustParseURI(x.did.String() + "#" + uuid.NewString())
			now := time.Now()
			tpl := template(x.did)
			tpl.Context = []ssi.URI{vc.VCContextV1URI(), credential.NutsV1ContextURI, revocation.StatusList2021ContextURI}
			tpl.Type = append(tpl.Type, vc.VerifiableCredentialTypeV1URI())
			tpl.ID = &id
			tpl.IssuanceDate = now
			idx := strconv.Itoa(x.index(pos))
			tpl.CredentialStatus = []any{revocation.StatusList2021Entry{ID: x.url + "#" + idx, Type: revocation.StatusList2021EntryType, StatusPurpose: "revocation", StatusListIndex: idx, StatusListCredential: x.url}}
			b, err := w.signLD(w.extKS, tpl, x.kid, now)
			if err != nil {
				return err
			}
			c, err := vc.ParseVerifiableCredential(string(b))
			if err != nil {
				return err
			}
			ci.vc, ci.url, ci.index, ci.page, ci.slot = c, x.url, x.index(pos), 1, pos
		} else if kind == "sl" {
			// a long history of issuances: move last_issued_index so that the next entry is the real index of the next model slot
			if pages := r.alloc[i]; len(pages) > 0 {
				k := pages[len(pages)-1]
				if k >= 1 && k < len(r.slotIndex) {
					if err := w.inode.db.Exec("UPDATE status_list SET last_issued_index = ? WHERE subject_id = ?", r.slotIndex[k]-1, r.lastURL[i]).Error; err != nil {
						return err
					}
				}
			}
			c, err := w.inode.iss.Issue(w.ctx, template(r.web[i]), issuer.CredentialOptions{WithStatusListRevocation: true})
			if err != nil {
				return fmt.Errorf("issue: %w", err)
			}
			e, err := entryOf(c)
			if err != nil {
				return err
			}
			ci.vc, ci.url = c, e.StatusListCredential
			ci.index, _ = strconv.Atoi(e.StatusListIndex)
			listIssuer, page, okURL := parseListURL(ci.url)
			if !okURL {
				return fmt.Errorf("status list URL %q does not have the form <base>/statuslist/<did>/<page> this driver serves", ci.url)
			}
			ci.page = page
			ci.slot = r.slotOf(ci.index)
			r.res.Checks++
			key := ci.url + "#" + strconv.Itoa(ci.index)
			if other, dup := r.usedSlots[key]; dup {
				r.viol("slot-shared", "StatusList2021.Entry", fmt.Sprintf("%s and %s were both handed %s", other, name, key))
			} else {
				r.usedSlots[key] = name
			}
			if listIssuer.String() != r.web[i].String() || ci.index < 0 || ci.index > maxIndex {
				r.viol("slot-outside-own-list", "StatusList2021.Entry", fmt.Sprintf("%s issued by %s got entry %s", name, r.web[i], key))
			}
			// reference allocation
			for len(r.alloc[i]) < ci.page {
				r.alloc[i] = append(r.alloc[i], 0)
			}
			if ci.page >= 1 {
				r.alloc[i][ci.page-1]++
			}
			r.lastURL[i] = ci.url
			if ci.slot < 0 {
				r.drift("entry index %d of %s is not one of the indexes standing for model slots %v", ci.index, name, r.slotIndex)
				ci.slot = 99
			}
		} else {
			c, err := w.inode.iss.Issue(w.ctx, template(r.nuts[i]), issuer.CredentialOptions{})
			if err != nil {
				return fmt.Errorf("issue: %w", err)
			}
			ci.vc = c
		}
		r.creds[name] = ci
		r.order = append(r.order, name)
		r.ev(map[string]any{"ev": "issue", "i": i, "kind": kind, "c": name, "page": ci.page, "slot": ci.slot})
	case "RevokeStatus", "RevokeNet":
		c := r.creds[st.str("c")]
		if c == nil {
			return fmt.Errorf("unknown credential %s", st.str("c"))
		}
		if c.kind == "ext" { // the external issuer sets the bit in its own list
			x := r.ext[c.iss]
			res := "ok"
			if c.index >= x.bytes*8 {
				return fmt.Errorf("%s has an index outside the list of its issuer: cannot be revoked", c.name)
			}
			if x.bits[c.index] {
				res = "already"
			} else {
				x.bits[c.index] = true
				r.opSeq++
				c.revoked, c.revokedSeq = true, r.opSeq
			}
			r.ev(map[string]any{"ev": "revoke.status", "c": c.name, "res": res})
			return nil
		}
		var err error
		before := len(w.inode.net.published)
		switch st.str("phase") {
		case "begin": // run the operation up to the point where it opens its transaction; other steps come in between
			pd := &pending{done: make(chan error, 1), published: before}
			reached, release := w.inode.gate.arm()
			pd.release = release
			go func() { _, e := w.inode.iss.Revoke(w.ctx, *c.vc.ID); pd.done <- e }()
			select {
			case <-reached:
				r.pend["revoke:"+c.name] = pd
				return nil
			case e := <-pd.done: // ended without a transaction (e.g. refused before)
				w.inode.gate.disarm()
				pd.done <- e
				r.pend["revoke:"+c.name] = pd
				return nil
			case <-time.After(30 * time.Second):
				return fmt.Errorf("revoke %s neither reached its transaction nor returned", c.name)
			}
		case "end":
			pd := r.pend["revoke:"+c.name]
			if pd == nil {
				return fmt.Errorf("no pending revoke of %s", c.name)
			}
			delete(r.pend, "revoke:"+c.name)
			before = pd.published
			pd.open()
			select {
			case err = <-pd.done:
			case <-time.After(30 * time.Second):
				return fmt.Errorf("pending revoke of %s does not return", c.name)
			}
		default:
			_, err = w.inode.iss.Revoke(w.ctx, *c.vc.ID)
		}
		res := "ok"
		switch {
		case err == nil:
			if !c.revoked {
				r.opSeq++
				c.revokedSeq = r.opSeq
			}
			c.revoked = true
		case errors.Is(err, types.ErrRevoked):
			res = "already"
			if !c.revoked {
				r.drift("Revoke(%s) says already revoked, but it was not", c.name)
			}
		default:
			return fmt.Errorf("revoke %s: %w", c.name, err)
		}
		if st.str("a") == "RevokeNet" {
			if res == "ok" {
				if len(w.inode.net.published) != before+1 || w.inode.net.published[before].Type != types.RevocationLDDocumentType {
					return fmt.Errorf("revocation of %s was not published", c.name)
				}
				c.payload = w.inode.net.published[before].Payload
			}
			r.ev(map[string]any{"ev": "revoke.net", "c": c.name, "res": res})
		} else {
			r.ev(map[string]any{"ev": "revoke.status", "c": c.name, "res": res})
		}
	case "Serve":
		i, p := st.str("i"), st.num("p")
		if x := r.ext[i]; x != nil {
			_, sd, err := r.extList(x)
			if err != nil {
				return err
			}
			r.ev(map[string]any{"ev": "serve", "i": i, "p": 1, "signer": i, "left": sd.Left, "bits": r.modelBits(x.url, sd.Bits), "sigok": true})
			return nil
		}
		url := issuerBase + "/statuslist/" + r.web[i].String() + "/" + strconv.Itoa(p)
		cred, err := w.inode.iss.StatusList(w.ctx, r.web[i], p)
		if err != nil {
			return fmt.Errorf("serve %s: %w", url, err)
		}
		body, _ := json.Marshal(cred)
		sd := r.onServed(url, body, r.opSeq+1)
		r.ev(map[string]any{"ev": "serve", "i": i, "p": p, "signer": r.modelIssuer(sd.Issuer), "left": sd.Left, "bits": r.modelBits(url, sd.Bits), "sigok": sd.SigOK})
	case "ServeBegin": // the GET up to the point where it opens its transaction (if it needs one)
		i, p, sname := st.str("i"), st.num("p"), st.str("s")
		url := issuerBase + "/statuslist/" + r.web[i].String() + "/" + strconv.Itoa(p)
		pd := &pending{done: make(chan error, 1), url: url, beginSeq: r.opSeq + 1}
		reached, release := w.inode.gate.arm()
		pd.release = release
		go func() {
			cred, e := w.inode.iss.StatusList(w.ctx, r.web[i], p)
			pd.cred = cred
			pd.done <- e
		}()
		select {
		case <-reached:
			r.pend["serve:"+sname] = pd
			r.ev(map[string]any{"ev": "serve.begin", "s": sname, "i": i, "p": p, "res": "resign"})
		case e := <-pd.done:
			w.inode.gate.disarm()
			if e != nil {
				return fmt.Errorf("serve %s: %w", url, e)
			}
			body, _ := json.Marshal(pd.cred)
			sd := r.onServed(url, body, pd.beginSeq)
			r.ev(map[string]any{"ev": "serve.begin", "s": sname, "i": i, "p": p, "res": "cached",
				"served": map[string]any{"signer": r.modelIssuer(sd.Issuer), "left": sd.Left, "bits": r.modelBits(url, sd.Bits), "sigok": sd.SigOK}})
		case <-time.After(30 * time.Second):
			return fmt.Errorf("GET %s neither reached its transaction nor returned", url)
		}
	case "ServeResign":
		sname := st.str("s")
		pd := r.pend["serve:"+sname]
		if pd == nil {
			return fmt.Errorf("no pending GET of %s", sname)
		}
		delete(r.pend, "serve:"+sname)
		pd.open()
		select {
		case e := <-pd.done:
			if e != nil {
				return fmt.Errorf("serve %s: %w", pd.url, e)
			}
		case <-time.After(30 * time.Second):
			return fmt.Errorf("pending GET %s does not return", pd.url)
		}
		body, _ := json.Marshal(pd.cred)
		sd := r.onServed(pd.url, body, pd.beginSeq)
		r.ev(map[string]any{"ev": "serve.end", "s": sname,
			"served": map[string]any{"signer": r.modelIssuer(sd.Issuer), "left": sd.Left, "bits": r.modelBits(pd.url, sd.Bits), "sigok": sd.SigOK}})
	case "Tick":
		if err := r.ageRows(w.tick); err != nil {
			return err
		}
		r.ev(map[string]any{"ev": "tick"})
	case "Deliver":
		c, k, rel, n := r.creds[st.str("c")], st.str("k"), st.str("r"), w.nodes[st.str("n")]
		if c == nil || n == nil {
			return fmt.Errorf("bad Deliver step %v", st)
		}
		if rel == "" || rel == "self" {
			rel = "unrelated"
			if k == "genuine" {
				rel = "self"
			}
		}
		payload, err := r.revocationDoc(c, k, rel)
		if err != nil {
			return err
		}
		had, err := n.ver.IsRevoked(*c.vc.ID)
		if err != nil {
			return err
		}
		tx := dag.CreateTestTransactionWithJWK(uint32(1000 + r.stepNo))
		_, rerr := n.recv(dag.Event{Type: dag.PayloadEventType, Hash: hash.SHA256Sum(payload), Transaction: tx, Payload: payload})
		stored, err := n.ver.IsRevoked(*c.vc.ID)
		if err != nil {
			return err
		}
		r.res.Checks++
		if k == "genuine" {
			r.must[n.name][c.name] = true
			if rerr != nil {
				r.drift("genuine revocation of %s rejected by %s: %v", c.name, n.name, rerr)
			}
		} else if stored && (!had || !c.revoked) {
			r.viol("forged-revocation-accepted", "verifier.RegisterRevocation", fmt.Sprintf("%s by a party whose DID is %s to the issuer's (%s): %s now holds a revocation of %s that its issuer did not make (receiver error: %v)",
				k, rel, r.forgerOf(r.didOf(c), rel), n.name, c.name, rerr))
		} else if rerr == nil {
			r.drift("forged revocation (%s/%s) of %s was not refused by the receiver of %s", k, rel, c.name, n.name)
		}
		r.ev(map[string]any{"ev": "deliver", "c": c.name, "k": k, "r": rel, "n": n.name, "res": stored, "accepted": rerr == nil})
	case "Verify":
		c, n, src := r.creds[st.str("c")], w.nodes[st.str("n")], st.str("src")
		if c == nil || n == nil {
			return fmt.Errorf("bad Verify step %v", st)
		}
		n.doer.mode, n.doer.fetches = src, nil
		n.doer.other, n.doer.forgeIx = "", nil
		if c.kind == "ext" {
			x := r.ext[c.iss]
			for pos := 0; pos <= 3; pos++ { // a forged "set" list has the bit of every position of the list set
				if x.index(pos) < x.bytes*8 {
					n.doer.forgeIx = append(n.doer.forgeIx, x.index(pos))
				}
			}
		} else if c.kind != "net" {
			n.doer.forgeIx = append([]int{}, r.slotIndex...) // a forged "set" list has the bit of every slot set
			// "another list": the same issuer's other page if there is one, else page 1 of the other issuer
			if li, pg, ok := parseListURL(c.url); ok {
				otherPage := 1
				if pg == 1 {
					otherPage = 2
				}
				for _, i := range []string{"i1", "i2"} {
					if r.web[i].String() == li.String() && len(r.alloc[i]) >= otherPage {
						n.doer.other = issuerBase + "/statuslist/" + li.String() + "/" + strconv.Itoa(otherPage)
					}
				}
				for _, i := range []string{"i1", "i2"} {
					if n.doer.other == "" && r.web[i].String() != li.String() && len(r.alloc[i]) > 0 {
						n.doer.other = issuerBase + "/statuslist/" + r.web[i].String() + "/1"
					}
				}
			}
		}
		verdict := verdictOf(n.ver.Verify(*c.vc, true, true, nil))
		n.doer.mode = "up"
		fetched := len(n.doer.fetches) > 0
		if len(n.doer.fetches) > 1 {
			r.drift("%d GETs during one verification", len(n.doer.fetches))
		}
		e := map[string]any{"ev": "verify", "c": c.name, "n": n.name, "src": src, "verdict": verdict, "fetched": fetched}
		if fetched {
			f := n.doer.fetches[0]
			if f.Status == 200 {
				r.delivered[n.name+"|"+f.URL] = f.Mode
				if f.Mode == "otherlist" && f.Target == f.URL {
					r.delivered[n.name+"|"+f.URL] = "up"
				}
			}
			if f.URL != c.url {
				r.viol("entry-from-unnamed-list", "statuslist2021_verifier.statusList", fmt.Sprintf("verification of %s fetched %s, the credential names %s", c.name, f.URL, c.url))
			}
			if f.Served != nil {
				e["served"] = map[string]any{"signer": r.modelIssuer(f.Served.Issuer), "left": f.Served.Left, "bits": r.modelBits(f.Target, f.Served.Bits), "sigok": f.Served.SigOK,
					"i": r.modelIssuer(r.issuerOfURL(f.Target)), "p": r.pageOf(f.Target)}
				// the node has refreshed the list from the issuer node, for a credential of the list's own issuer: every credential
				// the issuer has revoked on that list must be rejected by this node from now on. (A download made for the outsider's
				// credential does not count: the node may refuse a list that was not issued by that credential's issuer.)
				if f.Mode == "up" && f.Target == f.URL && (c.kind == "sl" || c.kind == "ext") {
					for _, d := range r.creds {
						if (d.kind == "sl" || d.kind == "ext") && d.url == f.URL && d.revoked {
							r.must[n.name][d.name] = true
						}
					}
				}
			}
		} else if src != "up" && st["sweep"] != true {
			r.drift("no GET although the model expects a refresh (src=%s)", src)
		}
		if want := st.str("v"); want != "" && want != verdict {
			r.drift("verdict %s for %s on %s, the descriptive model says %s", verdict, c.name, n.name, want)
		}
		r.ev(e)
		r.judge(c, n.name, src, verdict, fetched)
	case "VerifyLocal":
		c := r.creds[st.str("c")]
		if c == nil {
			return fmt.Errorf("bad VerifyLocal step %v", st)
		}
		w.inode.doer.mode, w.inode.doer.fetches = "up", nil
		verdict := verdictOf(w.inode.ver.Verify(*c.vc, true, true, nil))
		r.ev(map[string]any{"ev": "verify.local", "c": c.name, "verdict": verdict})
		r.judge(c, "local", "up", verdict, false)
	default:
		return fmt.Errorf("unknown action %q", st.str("a"))
	}
	return nil
}

func (r *runState) pageOf(url string) int {
	if r.extByURL(url) != nil {
		return 1
	}
	_, p, _ := parseListURL(url)
	return p
}
func (r *runState) issuerOfURL(url string) string {
	if x := r.extByURL(url); x != nil {
		return x.did.String()
	}
	d, _, _ := parseListURL(url)
	return d.String()
}

func (r *runState) modelIssuer(d string) string {
	for i, w := range r.web {
		if w.String() == d {
			return i
		}
	}
	for size, x := range r.ext {
		if x.did.String() == d {
			return size
		}
	}
	if d == r.atkWeb.String() {
		return "x"
	}
	return "?"
}

// didOf: the DID that issued the credential
func (r *runState) didOf(c *credInfo) did.DID {
	switch c.kind {
	case "net":
		return r.nuts[c.iss]
	case "ext":
		return r.ext[c.iss].did
	}
	return r.web[c.iss]
}

// forgerOf: the DID of ANOTHER party in the given textual relation to the victim's DID ("lookalike" parties).
func (r *runState) forgerOf(victim did.DID, rel string) string {
	v := victim.String()
	switch rel {
	case "prefix": // a proper prefix that ends in the middle of the last segment
		return v[:len(v)-1]
	case "parent": // a proper prefix that ends at a segment boundary: the root DID of a did:web, the bare script prefix of a did:nuts
		if victim.Method == "web" {
			return "did:web:issuer.example"
		}
		return "did:nuts:" + r.sid
	case "extension": // the victim's DID is a proper prefix of the forger's
		return v + "z"
	}
	if victim.Method == "web" {
		return r.atkWeb.String()
	}
	return r.atkNuts.String()
}

// forger makes the lookalike party real: a resolvable DID document with a key the outsider holds. Returns its key id.
func (r *runState) forger(victim did.DID, rel string) (did.DID, string, error) {
	id := r.forgerOf(victim, rel)
	d, err := did.ParseDID(id)
	if err != nil {
		return did.DID{}, "", err
	}
	if kid, ok := r.forgers[id]; ok {
		return *d, kid, nil
	}
	kid := id + "#k1"
	if _, _, err := r.w.res.Resolve(*d, nil); err == nil {
		if exists, _ := r.w.atkKS.Exists(r.w.ctx, kid); exists {
			r.forgers[id] = kid
			return *d, kid, nil
		}
		return did.DID{}, "", fmt.Errorf("lookalike DID %s already belongs to someone else", id)
	}
	kid, err = r.w.res.add(r.w.ctx, r.w.atkKS, *d)
	if err != nil {
		return did.DID{}, "", err
	}
	r.forgers[id] = kid
	return *d, kid, nil
}

// revocationDoc: the genuine published revocation, or a forged one built with the keys of another party (rel: how that
// party's DID relates textually to the DID of the credential's issuer).
func (r *runState) revocationDoc(c *credInfo, kind, rel string) ([]byte, error) {
	w := r.w
	owner := r.didOf(c)
	ownerKid := owner.String() + "#k1"
	now := time.Now()
	if kind == "genuine" {
		if c.payload == nil {
			return nil, fmt.Errorf("no published revocation for %s", c.name)
		}
		return c.payload, nil
	}
	forgerDID, forgerKid, err := r.forger(owner, rel)
	if err != nil {
		return nil, err
	}
	switch kind {
	case "othersigner": // names the credential's issuer, signed by (and with a key of) another party
		return w.signLD(w.atkKS, credential.BuildRevocation(owner.URI(), *c.vc.ID), forgerKid, now)
	case "otherissuer": // another party revokes it in its own name, with its own valid signature
		return w.signLD(w.atkKS, credential.BuildRevocation(forgerDID.URI(), *c.vc.ID), forgerKid, now)
	case "wrongkey": // claims the issuer's key id, signed with the outsider's private key
		if exists, _ := w.atkKS.Exists(w.ctx, ownerKid); !exists {
			if _, _, err := w.atkKS.New(w.ctx, nutsCrypto.StringNamingFunc(ownerKid)); err != nil {
				return nil, err
			}
		}
		return w.signLD(w.atkKS, credential.BuildRevocation(owner.URI(), *c.vc.ID), ownerKid, now)
	case "resubject": // a genuine revocation of ANOTHER credential id of the same issuer (a did:nuts one), with the subject replaced
		host := c.iss
		if c.kind == "ext" { // an external issuer makes no network revocations: take one of a hosted issuer
			host = "i1"
		}
		doc := r.dummyRev[host]
		if doc == nil {
			other := ssi.MustParseURI(r.nuts[host].String() + "#" + uuid.NewString())
			before := len(w.inode.net.published)
			if _, err := w.inode.iss.Revoke(w.ctx, other); err != nil {
				return nil, err
			}
			doc = w.inode.net.published[before].Payload
			r.dummyRev[host] = doc
		}
		m := map[string]any{}
		if err := json.Unmarshal(doc, &m); err != nil {
			return nil, err
		}
		m["subject"] = c.vc.ID.String()
		return json.Marshal(m)
	}
	return nil, fmt.Errorf("unknown revocation kind %q", kind)
}

func (r *runState) addForeign() error {
	w := r.w
	ft := w.in.ForeignTarget
	if ft == "" || ft == "none" {
		return nil
	}
	url := issuerBase + "/statuslist/" + r.web[ft].String() + "/1"
	id := ssi.MustParseURI(r.atkWeb.String() + "#" + uuid.NewString())
	now := time.Now()
	tpl := template(r.atkWeb)
	tpl.Context = []ssi.URI{vc.VCContextV1URI(), credential.NutsV1ContextURI, revocation.StatusList2021ContextURI}
	tpl.Type = append(tpl.Type, vc.VerifiableCredentialTypeV1URI())
	tpl.ID = &id
	tpl.IssuanceDate = now
	tpl.CredentialStatus = []any{revocation.StatusList2021Entry{ID: url + "#0", Type: revocation.StatusList2021EntryType, StatusPurpose: "revocation", StatusListIndex: "0", StatusListCredential: url}}
	b, err := w.signLD(w.atkKS, tpl, r.atkWebKid, now)
	if err != nil {
		return err
	}
	c, err := vc.ParseVerifiableCredential(string(b))
	if err != nil {
		return err
	}
	r.creds["fx"] = &credInfo{name: "fx", kind: "foreign", iss: "x", vc: c, url: url, index: 0, page: 1, slot: 0}
	return nil
}

// finishPending lets every operation that still stands at the gate run to its end (a script may end, or fail, in between).
func (r *runState) finishPending() {
	g := r.w.inode.gate
	g.disarm()
	for k, pd := range r.pend {
		pd.open()
		select {
		case <-pd.done:
		case <-time.After(30 * time.Second):
			r.res.Error = "operation " + k + " does not return"
		}
		delete(r.pend, k)
	}
}

func (w *world) runScript(sc script) *result {
	r, err := w.newRun(sc)
	if err != nil {
		return &result{ID: sc.ID, Violations: []violation{}, Error: "setup: " + err.Error()}
	}
	defer r.finishPending()
	if err := r.addForeign(); err != nil {
		r.res.Error = "setup: " + err.Error()
		return r.res
	}
	for k, st := range sc.Steps {
		r.stepNo = k
		if err := r.doStep(st); err != nil {
			r.res.Error = fmt.Sprintf("step %d %v: %v", k, st, err)
			return r.res
		}
		if r.res.Error != "" {
			return r.res
		}
	}
	// closing sweep on the issuer node (its lists are authoritative): revoked <=> fails as revoked
	r.stepNo = len(sc.Steps)
	for _, name := range r.order {
		c := r.creds[name]
		if c.kind != "sl" {
			continue
		}
		w.inode.doer.mode = "up"
		r.judge(c, "local", "up", verdictOf(w.inode.ver.Verify(*c.vc, true, true, nil)), false)
	}
	return r.res
}

// ------------------------------------------------------------------------------------------------ concurrency smoke test

// smoke: N goroutines issue credentials with status entries for two issuers at once, across a page roll-over, then
// revoke and fetch concurrently. storage pins sqlite to ONE connection, so every SQL transaction is an atomic step
// (the model's grain); this only checks that nothing outside the transactions breaks uniqueness / monotonicity.
func (w *world) smoke(sp smokeSpec) *result {
	r, err := w.newRun(script{ID: "smoke", Jump: "end", Seed: 1})
	if err != nil {
		return &result{ID: "smoke", Violations: []violation{}, Error: err.Error()}
	}
	type got struct {
		iss string
		vc  *vc.VerifiableCredential
		url string
		idx int
	}
	first := map[string]got{}
	for _, i := range []string{"i1", "i2"} {
		c, err := w.inode.iss.Issue(w.ctx, template(r.web[i]), issuer.CredentialOptions{WithStatusListRevocation: true})
		if err != nil {
			r.res.Error = err.Error()
			return r.res
		}
		e, _ := entryOf(c)
		first[i] = got{i, c, e.StatusListCredential, 0}
	}
	// i1 rolls over to page 2 in the middle of the run
	half := sp.Goroutines * sp.Per / 4
	if err := w.inode.db.Exec("UPDATE status_list SET last_issued_index = ? WHERE subject_id = ?", w.lastIndex-half, first["i1"].url).Error; err != nil {
		r.res.Error = err.Error()
		return r.res
	}
	var mu sync.Mutex
	all := []got{first["i1"], first["i2"]}
	var errs []string
	var wg sync.WaitGroup
	for g := 0; g < sp.Goroutines; g++ {
		wg.Add(1)
		go func(g int) {
			defer wg.Done()
			for k := 0; k < sp.Per; k++ {
				i := []string{"i1", "i2"}[(g+k)%2]
				c, err := w.inode.iss.Issue(w.ctx, template(r.web[i]), issuer.CredentialOptions{WithStatusListRevocation: true})
				mu.Lock()
				if err != nil {
					errs = append(errs, err.Error())
				} else if e, err := entryOf(c); err != nil {
					errs = append(errs, err.Error())
				} else {
					idx, _ := strconv.Atoi(e.StatusListIndex)
					all = append(all, got{i, c, e.StatusListCredential, idx})
				}
				mu.Unlock()
			}
		}(g)
	}
	wg.Wait()
	if len(errs) > 0 {
		r.res.Error = "concurrent issue: " + strings.Join(errs, "; ")
		return r.res
	}
	seen := map[string]bool{}
	pagesSeen := map[string]bool{}
	for _, x := range all {
		r.res.Checks++
		key := x.url + "#" + strconv.Itoa(x.idx)
		if seen[key] {
			r.viol("slot-shared", "StatusList2021.Entry", "concurrent issuance handed out "+key+" twice")
		}
		seen[key] = true
		pagesSeen[x.url] = true
		if li, _, ok := parseListURL(x.url); !ok || li.String() != r.web[x.iss].String() || x.idx < 0 || x.idx > maxIndex {
			r.viol("slot-outside-own-list", "StatusList2021.Entry", key)
		}
	}
	r.res.Stats["smoke_entries"] = len(all)
	r.res.Stats["smoke_pages"] = len(pagesSeen)
	if len(pagesSeen) < 3 {
		r.drift("smoke test did not roll over (%d pages)", len(pagesSeen))
	}
	// concurrent revocation of every second credential + concurrent GETs; bits of consecutive versions only grow
	revoked := map[string]bool{}
	lastBits := map[string]map[int]bool{}
	var wg2 sync.WaitGroup
	for k, x := range all {
		if k%2 == 1 {
			continue
		}
		wg2.Add(1)
		go func(x got) {
			defer wg2.Done()
			_, err := w.inode.iss.Revoke(w.ctx, *x.vc.ID)
			mu.Lock()
			if err != nil {
				errs = append(errs, err.Error())
			} else {
				revoked[x.url+"#"+strconv.Itoa(x.idx)] = true
			}
			mu.Unlock()
		}(x)
	}
	fetch := func(url string) (map[int]bool, error) {
		d, p, _ := parseListURL(url)
		cred, err := w.inode.iss.StatusList(w.ctx, d, p)
		if err != nil {
			return nil, err
		}
		var subj []revocation.StatusList2021CredentialSubject
		if err := cred.UnmarshalCredentialSubject(&subj); err != nil || len(subj) != 1 {
			return nil, fmt.Errorf("subject: %v", err)
		}
		bits, _, err := expandBits(subj[0].EncodedList)
		if err != nil {
			return nil, err
		}
		m := map[int]bool{}
		for _, b := range bits {
			m[b] = true
		}
		if err := w.nodes["n1"].ver.VerifySignature(*cred, nil); err != nil {
			return nil, fmt.Errorf("signature: %w", err)
		}
		return m, nil
	}
	wg2.Add(1)
	go func() { // one client polling all pages sequentially
		defer wg2.Done()
		for round := 0; round < 6; round++ {
			for url := range pagesSeen {
				m, err := fetch(url)
				mu.Lock()
				if err != nil {
					errs = append(errs, err.Error())
				} else {
					for b := range lastBits[url] {
						if !m[b] {
							r.viol("bit-cleared", "StatusList2021.Credential", fmt.Sprintf("concurrent: bit %d of %s cleared", b, url))
						}
					}
					lastBits[url] = m
					r.res.Checks++
				}
				mu.Unlock()
			}
		}
	}()
	wg2.Wait()
	if len(errs) > 0 {
		r.res.Error = "concurrent revoke/serve: " + strings.Join(errs, "; ")
		return r.res
	}
	for url := range pagesSeen {
		m, err := fetch(url)
		if err != nil {
			r.res.Error = err.Error()
			return r.res
		}
		for _, x := range all {
			if x.url != url {
				continue
			}
			r.res.Checks++
			key := x.url + "#" + strconv.Itoa(x.idx)
			if revoked[key] && !m[x.idx] {
				r.viol("revoked-credential-accepted", "StatusList2021.Revoke", "concurrent revocation lost: bit "+key+" is clear")
			}
			if !revoked[key] && m[x.idx] {
				r.viol("bit-set-without-revocation", "StatusList2021.Revoke", "concurrent revocation set foreign bit "+key)
			}
		}
	}
	return r.res
}

// calibrate: discovers where a page ends (the highest index Entry() hands out before it rolls over to the next page), so
// that a harmless change of the page size does not invalidate the mapping of model slots onto real indexes.
// The bitstring itself must keep its 16KB (131072 positions): anything else is inconclusive.
func (w *world) calibrate() error {
	r, err := w.newRun(script{ID: "calibrate", Jump: "end"})
	if err != nil {
		return err
	}
	issue := func() (string, int, error) {
		c, err := w.inode.iss.Issue(w.ctx, template(r.web["i1"]), issuer.CredentialOptions{WithStatusListRevocation: true})
		if err != nil {
			return "", 0, err
		}
		e, err := entryOf(c)
		if err != nil {
			return "", 0, err
		}
		idx, err := strconv.Atoi(e.StatusListIndex)
		return e.StatusListCredential, idx, err
	}
	url1, idx, err := issue()
	if err != nil {
		return err
	}
	if idx != 0 {
		return fmt.Errorf("first entry of a new issuer is %s#%d, expected index 0", url1, idx)
	}
	// each call is preceded by its own preset, so the result does not depend on the index being persisted correctly
	last := -1
	for _, preset := range []int{maxIndex - 4, maxIndex - 3, maxIndex - 2, maxIndex - 1, maxIndex} {
		if err := w.inode.db.Exec("UPDATE status_list SET last_issued_index = ? WHERE subject_id = ?", preset, url1).Error; err != nil {
			return err
		}
		url, idx, err := issue()
		if err != nil {
			return err
		}
		if url != url1 {
			if idx != 0 {
				return fmt.Errorf("first entry of the next page is %s#%d, expected index 0", url, idx)
			}
			break
		}
		if idx != preset+1 {
			return fmt.Errorf("entry after last_issued_index=%d is %d", preset, idx)
		}
		last = idx
	}
	if last < maxIndex-3 || last > maxIndex {
		return fmt.Errorf("could not find the end of a status list page near index %d (last index seen: %d)", maxIndex, last)
	}
	w.lastIndex = last
	// validity window of the served list credentials -> length of a tick
	cred, err := w.inode.iss.StatusList(w.ctx, r.web["i1"], 1)
	if err != nil {
		return err
	}
	if cred.ExpirationDate == nil {
		return errors.New("served list credential has no expirationDate")
	}
	w.tick = int64(cred.ExpirationDate.Sub(cred.IssuanceDate).Seconds()) / 4
	if w.tick < 3600 {
		return fmt.Errorf("validity of list credentials is %s: a quarter of it does not exceed the 15 minute cache TTL by a safe margin", cred.ExpirationDate.Sub(cred.IssuanceDate))
	}
	return nil
}

func TestDriver(t *testing.T) {
	inPath, outPath := os.Getenv("VERIF_IN"), os.Getenv("VERIF_OUT")
	if inPath == "" {
		t.Skip("VERIF_IN not set")
	}
	logrus.SetLevel(logrus.PanicLevel)
	logrus.SetOutput(io.Discard)
	if os.Getenv("VERIF_KEEP_STDERR") == "" {
		if devnull, err := os.OpenFile(os.DevNull, os.O_WRONLY, 0); err == nil {
			os.Stderr = devnull // the audit logger writes one line per signature
		}
	}
	raw, err := os.ReadFile(inPath)
	must(t, err)
	var in input
	must(t, json.Unmarshal(raw, &in))
	w := buildWorld(t, in)
	if err := w.calibrate(); err != nil {
		t.Fatalf("calibration failed: %v", err)
	}
	out, err := os.Create(outPath)
	must(t, err)
	defer out.Close()
	bw := bufio.NewWriter(out)
	defer bw.Flush()
	enc := json.NewEncoder(bw)
	for _, sc := range in.Scripts {
		must(t, enc.Encode(w.runScript(sc)))
	}
	if in.Smoke != nil {
		must(t, enc.Encode(w.smoke(*in.Smoke)))
	}
}
