package revdrv

import (
	"context"
	"encoding/json"
	"fmt"
	"io"
	"path/filepath"
	"testing"
	"time"

	ssi "github.com/nuts-foundation/go-did"
	"github.com/nuts-foundation/go-did/did"
	"github.com/nuts-foundation/go-did/vc"
	"github.com/nuts-foundation/nuts-node/audit"
	nutsCrypto "github.com/nuts-foundation/nuts-node/crypto"
	"github.com/nuts-foundation/nuts-node/jsonld"
	"github.com/nuts-foundation/nuts-node/storage"
	"github.com/nuts-foundation/nuts-node/vcr/credential"
	"github.com/nuts-foundation/nuts-node/vcr/issuer"
	"github.com/nuts-foundation/nuts-node/vcr/revocation"
	"github.com/nuts-foundation/nuts-node/vcr/trust"
	"github.com/nuts-foundation/nuts-node/vcr/verifier"
	"github.com/nuts-foundation/nuts-node/vdr/resolver"
	"github.com/sirupsen/logrus"
)

type memResolver struct{ docs map[string]*did.Document }

func (m *memResolver) Resolve(id did.DID, _ *resolver.ResolveMetadata) (*did.Document, *resolver.DocumentMetadata, error) {
	d, ok := m.docs[id.String()]
	if !ok {
		return nil, nil, resolver.ErrNotFound
	}
	return d, &resolver.DocumentMetadata{}, nil
}

func TestProbe(t *testing.T) {
	logrus.SetLevel(logrus.PanicLevel)
	logrus.SetOutput(io.Discard)
	ctx := audit.TestContext()
	t0 := time.Now()
	eng := storage.NewTestStorageEngine(t)
	fmt.Println("engine", time.Since(t0))
	db := eng.GetSQLDatabase()
	ks := nutsCrypto.NewDatabaseCryptoInstance(db)
	res := &memResolver{docs: map[string]*did.Document{}}
	web := did.MustParseDID("did:web:issuer.example:iam:i1")
	kid := web.String() + "#k1"
	_, pub, err := ks.New(ctx, nutsCrypto.StringNamingFunc(kid))
	if err != nil {
		t.Fatal(err)
	}
	doc := &did.Document{ID: web, Context: []interface{}{did.DIDContextV1URI()}}
	vm, err := did.NewVerificationMethod(did.MustParseDIDURL(kid), ssi.JsonWebKey2020, web, pub)
	if err != nil {
		t.Fatal(err)
	}
	doc.AddAssertionMethod(vm)
	res.docs[web.String()] = doc
	storage.AddDIDtoSQLDB(t, db, web)
	jl := jsonld.NewTestJSONLDManager(t)
	tc := trust.NewConfig(filepath.Join(t.TempDir(), "trust.yaml"))
	sl := revocation.NewStatusList2021(db, nil, "https://issuer.example")
	backup, err := eng.GetProvider("vcr").GetKVStore("backup-issued-credentials", storage.PersistentStorageClass)
	if err != nil {
		t.Fatal(err)
	}
	istore, err := issuer.NewStore(db, filepath.Join(t.TempDir(), "issued.db"), backup)
	if err != nil {
		t.Fatal(err)
	}
	iss := issuer.NewIssuer(istore, nil, nil, nil, res, ks, jl, tc, sl)
	vb, _ := eng.GetProvider("vcr").GetKVStore("backup-revoked-credentials", storage.PersistentStorageClass)
	vstore, err := verifier.NewLeiaVerifierStore(filepath.Join(t.TempDir(), "ver.db"), vb)
	if err != nil {
		t.Fatal(err)
	}
	ver := verifier.NewVerifier(vstore, res, resolver.DIDKeyResolver{Resolver: res}, jl, tc, sl)
	fmt.Println("world", time.Since(t0))
	template := vc.VerifiableCredential{
		Context:           []ssi.URI{credential.NutsV1ContextURI},
		Type:              []ssi.URI{ssi.MustParseURI("HumanCredential")},
		Issuer:            web.URI(),
		CredentialSubject: []interface{}{map[string]interface{}{"id": "did:web:holder.example"}},
	}
	c, err := iss.Issue(ctx, template, issuer.CredentialOptions{WithStatusListRevocation: true})
	if err != nil {
		t.Fatal(err)
	}
	b, _ := json.Marshal(c)
	fmt.Println(string(b))
	fmt.Println("verify:", ver.Verify(*c, true, true, nil))
	_, err = iss.Revoke(ctx, *c.ID)
	fmt.Println("revoke:", err)
	fmt.Println("verify:", ver.Verify(*c, true, true, nil))
	lst, err := iss.StatusList(context.Background(), web, 1)
	fmt.Println(err)
	b, _ = json.Marshal(lst)
	fmt.Println(string(b)[:600])
	fmt.Println("total", time.Since(t0))
}
