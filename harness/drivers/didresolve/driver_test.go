// Driver for DidResolve.tla (C18): every abstract case enumerated by TLC is concretised by tools/props/didresolve.py
// into a real identifier + server behaviour + local history and executed here on the REAL resolvers:
//   - did:web / did:jwk / did:key through the real vdr.Module wiring (router -> chain(local sqlite, didweb.Resolver)),
//     whose didweb.Resolver uses the repo's StrictHTTPClient (http/client) over a transport whose DialContext RECORDS every
//     host:port and routes it to a local TLS (or plain HTTP) test server that records every request it receives;
//   - managed DIDs are created / deactivated with the real didsubject.SqlManager + didweb.Manager on sqlite;
//   - didweb.DIDToURL / URLToDID for the round trip law.
//
// The driver only reports observables; the verdict is computed in python from the property statement.
package didresolve

import (
	"context"
	"crypto"
	"crypto/ecdsa"
	"crypto/ed25519"
	"crypto/elliptic"
	"crypto/rand"
	"crypto/rsa"
	"crypto/tls"
	"crypto/x509"
	"crypto/x509/pkix"
	"encoding/base64"
	"encoding/binary"
	"encoding/json"
	"errors"
	"fmt"
	"io"
	"log"
	"math/big"
	mrand "math/rand"
	"net"
	"net/http"
	"net/url"
	"os"
	"strings"
	"sync"
	"testing"
	"time"

	"github.com/lestrrat-go/jwx/v2/jwk"
	"github.com/lestrrat-go/jwx/v2/x25519"
	"github.com/mr-tron/base58"
	"github.com/nuts-foundation/go-did/did"
	"github.com/nuts-foundation/nuts-node/audit"
	"github.com/nuts-foundation/nuts-node/core"
	nutsCrypto "github.com/nuts-foundation/nuts-node/crypto"
	"github.com/nuts-foundation/nuts-node/http/client"
	"github.com/nuts-foundation/nuts-node/storage"
	"github.com/nuts-foundation/nuts-node/vdr"
	"github.com/nuts-foundation/nuts-node/vdr/didsubject"
	"github.com/nuts-foundation/nuts-node/vdr/didweb"
	"github.com/nuts-foundation/nuts-node/vdr/resolver"
	"github.com/sirupsen/logrus"
	"gorm.io/gorm"
)

// ------------------------------------------------------------------------------------------------ input / output

type serverScript struct {
	Status   int    `json:"status"`
	CType    string `json:"ctype"`    // "" = no Content-Type header
	Body     string `json:"body"`     // doc | oversize | badjson | empty | noid
	BodyID   string `json:"body_id"`  // id of the served document ("" = requested DID)
	Location string `json:"location"` // redirect target for 3xx
	// ServeAt: if set, the scripted answer exists only at these (escaped) request paths; any other path answers 404 (nothing is published there)
	ServeAt []string `json:"serve_at,omitempty"`
}

type tcase struct {
	ID     string        `json:"id"`
	Kind   string        `json:"kind"` // web | managed | key | jwk | rt | rturl
	DID    string        `json:"did,omitempty"`
	URL    string        `json:"url,omitempty"`
	Server *serverScript `json:"server,omitempty"`
	Order  string        `json:"order,omitempty"` // before-strict | after-strict: when the resolver was built (default: before-strict)
	Local  string        `json:"local,omitempty"` // none | active | deactivated
	Meta   string        `json:"meta,omitempty"`  // nil | false | true  (ResolveMetadata.AllowDeactivated)
	// managed: the local history. Hist[i] = rank of the wall-clock reading at the moment version i was written (equal ranks = same second,
	// a lower rank after a higher one = the clock was stepped back in between). Versions 1.. are updates (a service is added); for a
	// deactivated DID the last version is the deactivation. Ahead: versions written while the clock was > 1h ahead of the clock at resolution.
	Hist  []int  `json:"hist,omitempty"`
	Ahead string `json:"ahead,omitempty"` // none | last | all
	// key / jwk
	KeyType string `json:"keytype,omitempty"`
	Defect  string `json:"defect,omitempty"`
}

type input struct {
	Seed      int64   `json:"seed"`
	PublicURL string  `json:"public_url"`
	Strict    bool    `json:"strict"`
	Cases     []tcase `json:"cases"`
}

type reqRec struct {
	Scheme string `json:"scheme"`
	Host   string `json:"host"` // Host header
	SNI    string `json:"sni"`
	Path   string `json:"path"` // escaped request path as received
	Query  string `json:"query"`
	N      int    `json:"n"` // ordinal within the case
}

type result struct {
	ID       string   `json:"id"`
	Kind     string   `json:"kind"`
	DID      string   `json:"did"`
	Parsed   bool     `json:"parsed"` // did.ParseDID accepted the identifier
	Resolved bool     `json:"resolved"`
	DocID    string   `json:"doc_id"`
	Err      string   `json:"err"`
	ErrClass string   `json:"err_class"` // deactivated | notfound | other | ""
	MetaDeac bool     `json:"meta_deactivated"`
	DocVMs   int      `json:"doc_vms"`               // verification methods in the returned document
	DocVer   *int     `json:"doc_version,omitempty"` // managed: which version came back (number of services; -1 = the empty deactivation version)
	Dials    []string `json:"dials"`
	Requests []reqRec `json:"requests"`
	Panic    string   `json:"panic,omitempty"`
	// key / jwk
	KeyEqual bool `json:"key_equal"`
	KeyKnown bool `json:"key_known"` // the identifier was built from a key the driver knows (not for defects replacing the key)
	Stable   bool `json:"stable"`
	// round trip
	URL  string `json:"url,omitempty"`
	Back string `json:"back,omitempty"`
	Err2 string `json:"err2,omitempty"`
	// driver problem (not a verdict)
	Error string `json:"error,omitempty"`
}

// ------------------------------------------------------------------------------------------------ recording network

type recorder struct {
	mu       sync.Mutex
	dials    []string
	requests []reqRec
	script   *serverScript
	reqDID   string
	tlsAddr  string
	httpAddr string
}

func (r *recorder) reset(s *serverScript, reqDID string) {
	r.mu.Lock()
	defer r.mu.Unlock()
	r.dials, r.requests, r.script, r.reqDID = nil, nil, s, reqDID
}

func (r *recorder) snapshot() ([]string, []reqRec) {
	r.mu.Lock()
	defer r.mu.Unlock()
	return append([]string{}, r.dials...), append([]reqRec{}, r.requests...)
}

// dial records the address the HTTP transport asks for and connects to one of the two local servers instead:
// port 80 (what a plain http:// URL without port dials) goes to the plain HTTP server, everything else to the TLS server.
func (r *recorder) dial(ctx context.Context, network, addr string) (net.Conn, error) {
	r.mu.Lock()
	r.dials = append(r.dials, addr)
	r.mu.Unlock()
	target := r.tlsAddr
	if _, port, err := net.SplitHostPort(addr); err == nil && (port == "80" || port == "8080") {
		target = r.httpAddr
	}
	var d net.Dialer
	return d.DialContext(ctx, "tcp", target)
}

func okDoc(id string) []byte {
	b, _ := json.Marshal(map[string]any{
		"@context": []string{"https://www.w3.org/ns/did/v1"},
		"id":       id,
	})
	return b
}

func (r *recorder) handler(scheme string) http.Handler {
	return http.HandlerFunc(func(w http.ResponseWriter, req *http.Request) {
		r.mu.Lock()
		n := len(r.requests)
		sni := ""
		if req.TLS != nil {
			sni = req.TLS.ServerName
		}
		r.requests = append(r.requests, reqRec{Scheme: scheme, Host: req.Host, SNI: sni, Path: req.URL.EscapedPath(), Query: req.URL.RawQuery, N: n})
		s, reqDID := r.script, r.reqDID
		r.mu.Unlock()
		if s != nil && n == 0 && len(s.ServeAt) > 0 {
			here := false
			for _, p := range s.ServeAt {
				here = here || p == req.URL.EscapedPath()
			}
			if !here {
				w.Header().Set("Content-Type", "text/plain")
				w.WriteHeader(404)
				_, _ = io.WriteString(w, "nothing is published here")
				return
			}
		}
		if s == nil || n > 0 {
			// follow-up request (after a redirect): worst case, a well-formed document carrying the requested id
			w.Header().Set("Content-Type", "application/did+json")
			w.WriteHeader(200)
			_, _ = w.Write(okDoc(reqDID))
			return
		}
		if s.CType != "" {
			w.Header().Set("Content-Type", s.CType)
		} else {
			w.Header()["Content-Type"] = nil // suppress sniffing
		}
		if s.Location != "" {
			w.Header().Set("Location", s.Location)
		}
		id := s.BodyID
		if id == "" {
			id = reqDID
		}
		w.WriteHeader(s.Status)
		switch s.Body {
		case "doc":
			_, _ = w.Write(okDoc(id))
		case "oversize":
			doc := okDoc(id)
			pad := strings.Repeat(" ", client.DefaultMaxHttpResponseSize+16)
			_, _ = w.Write(doc[:len(doc)-1])
			_, _ = io.WriteString(w, pad)
			_, _ = w.Write([]byte("}"))
		case "badjson":
			_, _ = io.WriteString(w, `{"id": "`+id+`"`)
		case "noid":
			_, _ = io.WriteString(w, `{"@context":["https://www.w3.org/ns/did/v1"]}`)
		case "empty", "":
		}
	})
}

// ------------------------------------------------------------------------------------------------ test CA

type testCA struct {
	mu    sync.Mutex
	cert  *x509.Certificate
	key   *ecdsa.PrivateKey
	leafs map[string]*tls.Certificate
	n     int64
}

func newCA() *testCA {
	key, _ := ecdsa.GenerateKey(elliptic.P256(), rand.Reader)
	tmpl := &x509.Certificate{SerialNumber: big.NewInt(1), Subject: pkix.Name{CommonName: "verif CA"}, NotBefore: time.Now().Add(-time.Hour),
		NotAfter: time.Now().Add(24 * time.Hour), IsCA: true, KeyUsage: x509.KeyUsageCertSign | x509.KeyUsageDigitalSignature, BasicConstraintsValid: true}
	der, _ := x509.CreateCertificate(rand.Reader, tmpl, tmpl, &key.PublicKey, key)
	cert, _ := x509.ParseCertificate(der)
	return &testCA{cert: cert, key: key, leafs: map[string]*tls.Certificate{}, n: 1}
}

// leaf mints (and caches) a certificate for whatever name the client asks for: every host is "legitimately" served
// over TLS, so that only the resolver's own checks stand between an identifier and a fetch.
func (ca *testCA) leaf(hello *tls.ClientHelloInfo) (*tls.Certificate, error) {
	name := hello.ServerName
	ca.mu.Lock()
	defer ca.mu.Unlock()
	if c, ok := ca.leafs[name]; ok {
		return c, nil
	}
	ca.n++
	key, _ := ecdsa.GenerateKey(elliptic.P256(), rand.Reader)
	tmpl := &x509.Certificate{SerialNumber: big.NewInt(ca.n), Subject: pkix.Name{CommonName: "verif leaf"}, NotBefore: time.Now().Add(-time.Hour),
		NotAfter: time.Now().Add(24 * time.Hour), KeyUsage: x509.KeyUsageDigitalSignature, ExtKeyUsage: []x509.ExtKeyUsage{x509.ExtKeyUsageServerAuth}}
	if name == "" {
		// no SNI: the client connected to an IP literal
		tmpl.IPAddresses = []net.IP{net.ParseIP("127.0.0.1"), net.ParseIP("::1"), net.ParseIP("169.254.169.254"), net.ParseIP("10.0.0.1"), net.ParseIP("192.168.1.1")}
	} else {
		tmpl.DNSNames = []string{name}
	}
	der, err := x509.CreateCertificate(rand.Reader, tmpl, ca.cert, &key.PublicKey, ca.key)
	if err != nil {
		return nil, err
	}
	c := &tls.Certificate{Certificate: [][]byte{der}, PrivateKey: key}
	ca.leafs[name] = c
	return c, nil
}

// ------------------------------------------------------------------------------------------------ world

type world struct {
	t         *testing.T
	rec       *recorder
	vdr       *vdr.Module
	vdrs      map[string]*vdr.Module
	dbs       map[*vdr.Module]*gorm.DB
	ctx       context.Context
	rnd       *mrand.Rand
	pubURL    string
	transport *http.Transport
}

func newWorld(t *testing.T, in input) *world {
	w := &world{t: t, rec: &recorder{}, ctx: audit.TestContext(), rnd: mrand.New(mrand.NewSource(in.Seed)), pubURL: in.PublicURL}
	ca := newCA()
	// TLS server
	tlsLn, err := net.Listen("tcp", "127.0.0.1:0")
	if err != nil {
		t.Fatal(err)
	}
	tlsSrv := &http.Server{Handler: w.rec.handler("https"), TLSConfig: &tls.Config{GetCertificate: ca.leaf}, ErrorLog: quietLogger()}
	go tlsSrv.ServeTLS(tlsLn, "", "")
	// plain server
	httpLn, err := net.Listen("tcp", "127.0.0.1:0")
	if err != nil {
		t.Fatal(err)
	}
	httpSrv := &http.Server{Handler: w.rec.handler("http"), ErrorLog: quietLogger()}
	go httpSrv.Serve(httpLn)
	t.Cleanup(func() { _ = tlsSrv.Close(); _ = httpSrv.Close() })
	w.rec.tlsAddr, w.rec.httpAddr = tlsLn.Addr().String(), httpLn.Addr().String()

	// The repo's own transport settings (SafeHttpTransport) + recording dialer + trust in the test CA.
	pool := x509.NewCertPool()
	pool.AddCert(ca.cert)
	tr := client.SafeHttpTransport.Clone()
	tr.DialContext = w.rec.dial
	tr.Proxy = nil
	tr.DisableKeepAlives = true // every request dials, so that every fetch is visible to the recorder
	tr.TLSClientConfig.RootCAs = pool
	w.transport = tr
	client.SafeHttpTransport = tr
	client.DefaultCachingTransport = client.NewCachingTransport(tr, 10*1024*1024) // what http.Engine.configureClient installs by default
	// real VDR wiring over sqlite, in BOTH construction orders relative to strict mode being switched on:
	//   before-strict  vdr.Configure (didweb.NewResolver -> client.NewWithCache) first, then the flag: the order of cmd.CreateSystem,
	//                  where the HTTP engine - the only place that sets client.StrictMode - is registered and configured last
	//   after-strict   the flag is already on when the resolver is built
	mk := func() *vdr.Module {
		storageEngine := storage.NewTestStorageEngine(t)
		db := storageEngine.GetSQLDatabase()
		keyStore := nutsCrypto.NewDatabaseCryptoInstance(db)
		m := vdr.NewVDR(keyStore, nil, nil, nil, storageEngine, nil)
		if err := m.Configure(core.ServerConfig{URL: in.PublicURL, DIDMethods: []string{"web"}, Strictmode: in.Strict}); err != nil {
			t.Fatalf("vdr configure: %v", err)
		}
		w.dbs[m] = db
		return m
	}
	client.StrictMode = false // zero value of a fresh process
	w.vdrs = map[string]*vdr.Module{}
	w.dbs = map[*vdr.Module]*gorm.DB{}
	w.vdrs["before-strict"] = mk()
	client.StrictMode = in.Strict // http.Engine.configureClient
	w.vdrs["after-strict"] = mk()
	w.vdr = w.vdrs["before-strict"]
	return w
}

func quietLogger() *log.Logger { return log.New(io.Discard, "", 0) }

func classify(err error) string {
	switch {
	case err == nil:
		return ""
	case errors.Is(err, resolver.ErrDeactivated):
		return "deactivated"
	case errors.Is(err, resolver.ErrNotFound):
		return "notfound"
	case errors.Is(err, resolver.ErrDIDMethodNotSupported):
		return "unsupported"
	}
	return "other"
}

func meta(m string) *resolver.ResolveMetadata {
	switch m {
	case "false":
		return &resolver.ResolveMetadata{AllowDeactivated: false}
	case "true":
		return &resolver.ResolveMetadata{AllowDeactivated: true}
	}
	return nil
}

func (w *world) resolve(res *result, id did.DID, md *resolver.ResolveMetadata) (doc *did.Document) {
	defer func() {
		if p := recover(); p != nil {
			res.Panic = fmt.Sprint(p)
		}
	}()
	doc, dm, err := w.vdr.Resolver().Resolve(id, md)
	if err != nil {
		res.Err = err.Error()
		res.ErrClass = classify(err)
		return nil
	}
	if doc != nil {
		res.Resolved = true
		res.DocID = doc.ID.String()
		res.DocVMs = len(doc.VerificationMethod)
	}
	if dm != nil {
		res.MetaDeac = dm.Deactivated
	}
	return doc
}

func (w *world) runWeb(c tcase) result {
	res := result{ID: c.ID, Kind: c.Kind, DID: c.DID}
	w.rec.reset(c.Server, c.DID)
	id, err := did.ParseDID(c.DID)
	if err != nil {
		res.Err = "parse: " + err.Error()
		return res
	}
	res.Parsed = true
	w.resolve(&res, *id, meta(c.Meta))
	res.Dials, res.Requests = w.rec.snapshot()
	return res
}

func (w *world) runManaged(c tcase) result {
	res := result{ID: c.ID, Kind: c.Kind}
	w.rec.reset(c.Server, "")
	docs, subject, err := w.vdr.Create(w.ctx, didsubject.DefaultCreationOptions())
	if err != nil || len(docs) != 1 {
		res.Error = fmt.Sprintf("create: %v (%d docs)", err, len(docs))
		return res
	}
	id := docs[0].ID
	res.DID = id.String()
	res.Parsed = true
	// the history, written by the real manager: version 0 = creation, then updates (each adds a service), then - for a deactivated
	// DID - the deactivation as the LAST operation
	hist := c.Hist
	if len(hist) == 0 {
		hist = []int{0}
		if c.Local == "deactivated" {
			hist = []int{0, 1}
		}
	}
	for v := 1; v < len(hist); v++ {
		if v == len(hist)-1 && c.Local == "deactivated" {
			if err := w.vdr.Deactivate(w.ctx, subject); err != nil {
				res.Error = "deactivate: " + err.Error()
				return res
			}
			continue
		}
		svc := did.Service{Type: fmt.Sprintf("verif-v%d", v), ServiceEndpoint: fmt.Sprintf("https://example.com/v%d", v)}
		if _, err := w.vdr.CreateService(w.ctx, subject, svc); err != nil {
			res.Error = "update: " + err.Error()
			return res
		}
	}
	// The wall clock: the manager stamps every version with time.Now() (no seam), so the clock readings of the history are written
	// into the updated_at column afterwards - one minute per rank, all in the recent past; "ahead" = two hours in the future.
	if len(c.Hist) > 0 {
		db := w.dbs[w.vdr]
		var n int64
		if err := db.Table("did_document_version").Where("did = ?", id.String()).Count(&n).Error; err != nil || int(n) != len(hist) {
			res.Error = fmt.Sprintf("history of %d versions expected, table has %d (%v)", len(hist), n, err)
			return res
		}
		base := time.Now().Add(-time.Hour).Unix()
		for v, rank := range hist {
			ts := base + int64(rank)*60
			if c.Ahead == "all" || (c.Ahead == "last" && v == len(hist)-1) {
				ts = time.Now().Add(2*time.Hour).Unix() + int64(rank)*60
			}
			tx := db.Table("did_document_version").Where("did = ? AND version = ?", id.String(), v).Update("updated_at", ts)
			if tx.Error != nil || tx.RowsAffected != 1 {
				res.Error = fmt.Sprintf("set clock reading of version %d: %v (%d rows)", v, tx.Error, tx.RowsAffected)
				return res
			}
		}
	}
	w.rec.reset(c.Server, res.DID) // creation itself must not be counted (and must not have needed the network either)
	doc := w.resolve(&res, id, meta(c.Meta))
	if doc != nil {
		ver := len(doc.Service)
		if len(doc.VerificationMethod) == 0 {
			ver = -1
		}
		res.DocVer = &ver
	}
	res.Dials, res.Requests = w.rec.snapshot()
	return res
}

// ---- did:key / did:jwk

func (w *world) genKey(kt string) (crypto.PublicKey, crypto.PrivateKey, error) {
	switch kt {
	case "ed25519":
		pub, priv, err := ed25519.GenerateKey(rand.Reader)
		return pub, priv, err
	case "p256":
		k, err := ecdsa.GenerateKey(elliptic.P256(), rand.Reader)
		return &k.PublicKey, k, err
	case "p384":
		k, err := ecdsa.GenerateKey(elliptic.P384(), rand.Reader)
		return &k.PublicKey, k, err
	case "p521":
		k, err := ecdsa.GenerateKey(elliptic.P521(), rand.Reader)
		return &k.PublicKey, k, err
	case "rsa2048":
		k, err := rsa.GenerateKey(rand.Reader, 2048)
		return &k.PublicKey, k, err
	case "rsa1024":
		k, err := rsa.GenerateKey(rand.Reader, 1024)
		return &k.PublicKey, k, err
	}
	return nil, nil, fmt.Errorf("unknown key type %s", kt)
}

func multicodec(kt string) uint64 {
	switch kt {
	case "ed25519":
		return 0xed
	case "x25519":
		return 0xec
	case "p256":
		return 0x1200
	case "p384":
		return 0x1201
	case "p521":
		return 0x1202
	case "rsa2048", "rsa1024":
		return 0x1205
	case "secp256k1":
		return 0xe7
	case "bls":
		return 0xeb
	}
	return 0x99
}

func (w *world) buildDIDKey(c tcase) (string, crypto.PublicKey, error) {
	kt := c.KeyType
	var raw []byte
	var pub crypto.PublicKey
	switch kt {
	case "x25519", "secp256k1", "bls", "unknown":
		raw = make([]byte, 32)
		_, _ = rand.Read(raw)
		if kt == "secp256k1" {
			raw = append([]byte{2}, raw...)
		}
		if kt == "x25519" {
			pub = x25519.PublicKey(append([]byte{}, raw...))
		}
	default:
		p, _, err := w.genKey(kt)
		if err != nil {
			return "", nil, err
		}
		pub = p
		switch k := p.(type) {
		case ed25519.PublicKey:
			raw = k
		case *ecdsa.PublicKey:
			raw = elliptic.MarshalCompressed(k.Curve, k.X, k.Y)
		case *rsa.PublicKey:
			raw = x509.MarshalPKCS1PublicKey(k)
		}
	}
	switch c.Defect {
	case "truncated":
		raw = raw[:len(raw)-1]
	case "extended":
		raw = append(raw, 0)
	case "garbage-point":
		for i := 1; i < len(raw); i++ {
			raw[i] = 0xff
		}
	}
	mc := binary.AppendUvarint(nil, multicodec(kt))
	enc := "z" + base58.EncodeAlphabet(append(mc, raw...), base58.BTCAlphabet)
	switch c.Defect {
	case "no-z":
		enc = enc[1:]
	case "bad-base58":
		enc = enc[:5] + "0OIl" + enc[5:]
	case "empty-key":
		enc = "z"
	}
	return "did:key:" + enc, pub, nil
}

func (w *world) buildDIDJWK(c tcase) (string, crypto.PublicKey, error) {
	pub, priv, err := w.genKey(c.KeyType)
	if err != nil {
		return "", nil, err
	}
	var src any = pub
	if c.Defect == "private" {
		src = priv
	}
	key, err := jwk.FromRaw(src)
	if err != nil {
		return "", nil, err
	}
	data, _ := json.Marshal(key)
	enc := base64.RawURLEncoding.EncodeToString(data)
	switch c.Defect {
	case "bad-base64":
		enc = enc[:7] + "%21" + enc[7:]
	case "not-json":
		enc = base64.RawURLEncoding.EncodeToString([]byte("not a jwk"))
	case "truncated":
		enc = enc[:len(enc)/2]
	case "symmetric":
		enc = base64.RawURLEncoding.EncodeToString([]byte(`{"kty":"oct","k":"AAECAwQFBgcICQoLDA0ODw"}`))
	}
	return "did:jwk:" + enc, pub, nil
}

func samePublicKey(a, b crypto.PublicKey) bool {
	type eq interface{ Equal(crypto.PublicKey) bool }
	if pa, ok := a.(*ecdsa.PublicKey); ok {
		a = *pa
	}
	norm := func(k crypto.PublicKey) crypto.PublicKey {
		switch v := k.(type) {
		case ecdsa.PublicKey:
			return &v
		case rsa.PublicKey:
			return &v
		}
		return k
	}
	a, b = norm(a), norm(b)
	if e, ok := a.(eq); ok {
		return e.Equal(b)
	}
	return false
}

func (w *world) runPure(c tcase) result {
	res := result{ID: c.ID, Kind: c.Kind}
	w.rec.reset(nil, "")
	var idStr string
	var pub crypto.PublicKey
	var err error
	if c.Kind == "key" {
		idStr, pub, err = w.buildDIDKey(c)
	} else {
		idStr, pub, err = w.buildDIDJWK(c)
	}
	if err != nil {
		res.Error = err.Error()
		return res
	}
	res.DID = idStr
	id, err := did.ParseDID(idStr)
	if err != nil {
		res.Err = "parse: " + err.Error()
		return res
	}
	res.Parsed = true
	doc1 := w.resolve(&res, *id, nil)
	if doc1 != nil {
		// pure function: a second resolution (fresh parse of the same string) is byte-identical
		id2, _ := did.ParseDID(idStr)
		var res2 result
		doc2 := w.resolve(&res2, *id2, &resolver.ResolveMetadata{AllowDeactivated: true})
		if doc2 != nil {
			b1, _ := json.Marshal(doc1)
			b2, _ := json.Marshal(doc2)
			res.Stable = string(b1) == string(b2)
		}
		// ... of the identifier: the only key material is the key the identifier encodes, and every id is under the DID
		res.KeyKnown = pub != nil && c.Defect != "symmetric" && c.Defect != "not-json"
		// the identifier's key is in the document and every verification method lives under the DID (derived methods are fine)
		found, under := false, len(doc1.VerificationMethod) > 0
		for _, vm := range doc1.VerificationMethod {
			if pk, err := vm.PublicKey(); err == nil && pub != nil && samePublicKey(pk, pub) {
				found = true
			}
			if vm.ID.DID.String() != idStr {
				under = false
			}
		}
		res.KeyEqual = found && under
	}
	res.Dials, res.Requests = w.rec.snapshot()
	return res
}

// ---- round trip

func (w *world) runRT(c tcase) (res result) {
	res = result{ID: c.ID, Kind: c.Kind, DID: c.DID, URL: c.URL}
	defer func() {
		if p := recover(); p != nil {
			res.Panic = fmt.Sprint(p)
		}
	}()
	if c.Kind == "rt" {
		id, err := did.ParseDID(c.DID)
		if err != nil {
			res.Err = "parse: " + err.Error()
			return res
		}
		res.Parsed = true
		u, err := didweb.DIDToURL(*id)
		if err != nil {
			res.Err = err.Error()
			return res
		}
		res.URL = u.String()
		back, err := didweb.URLToDID(*u)
		if err != nil {
			res.Err2 = err.Error()
			return res
		}
		res.Back = back.String()
		return res
	}
	u, err := url.Parse(c.URL)
	if err != nil {
		res.Err = "parse: " + err.Error()
		return res
	}
	res.Parsed = true
	id, err := didweb.URLToDID(*u)
	if err != nil {
		res.Err = err.Error()
		return res
	}
	res.DID = id.String()
	back, err := didweb.DIDToURL(*id)
	if err != nil {
		res.Err2 = err.Error()
		return res
	}
	res.Back = back.String()
	return res
}

func TestDriver(t *testing.T) {
	logrus.SetOutput(io.Discard)
	logrus.SetLevel(logrus.PanicLevel)
	raw, err := os.ReadFile(os.Getenv("VERIF_IN"))
	if err != nil {
		t.Fatal(err)
	}
	var in input
	if err := json.Unmarshal(raw, &in); err != nil {
		t.Fatal(err)
	}
	out, err := os.Create(os.Getenv("VERIF_OUT"))
	if err != nil {
		t.Fatal(err)
	}
	defer out.Close()
	enc := json.NewEncoder(out)
	w := newWorld(t, in)
	logrus.SetOutput(io.Discard)
	logrus.SetLevel(logrus.PanicLevel)
	for _, c := range in.Cases {
		var res result
		w.vdr = w.vdrs["before-strict"]
		if m, ok := w.vdrs[c.Order]; ok {
			w.vdr = m
		}
		switch c.Kind {
		case "web":
			res = w.runWeb(c)
		case "managed":
			res = w.runManaged(c)
		case "key", "jwk":
			res = w.runPure(c)
		case "rt", "rturl":
			res = w.runRT(c)
		default:
			res = result{ID: c.ID, Error: "unknown kind " + c.Kind}
		}
		if res.Dials == nil {
			res.Dials = []string{}
		}
		if res.Requests == nil {
			res.Requests = []reqRec{}
		}
		if err := enc.Encode(res); err != nil {
			t.Fatal(err)
		}
	}
}
