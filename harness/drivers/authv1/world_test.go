// Package authv1 replays behaviours of spec/AuthV1.tla on a whole in-process Nuts node (X10): the legacy (v1)
// authentication / authorization flows - contract signing sessions (employee identity "self-signed" means, dummy means),
// the notary (contract validity, organisation binding), the v1 OAuth JWT-bearer grant (relying party, authorization
// server) and token introspection - through the REAL HTTP surface of auth/api/auth/v1 and the real engines of the node.
package authv1

import (
	"bytes"
	"context"
	"encoding/json"
	"fmt"
	"io"
	"net/http"
	"net/url"
	"strings"
	"testing"
	"time"

	ssi "github.com/nuts-foundation/go-did"
	"github.com/nuts-foundation/go-did/did"
	"github.com/nuts-foundation/go-did/vc"
	"github.com/nuts-foundation/nuts-node/audit"
	"github.com/nuts-foundation/nuts-node/auth"
	"github.com/nuts-foundation/nuts-node/auth/contract"
	"github.com/nuts-foundation/nuts-node/auth/services/notary"
	"github.com/nuts-foundation/nuts-node/auth/services/selfsigned"
	sstypes "github.com/nuts-foundation/nuts-node/auth/services/selfsigned/types"
	"github.com/nuts-foundation/nuts-node/core"
	nutsCrypto "github.com/nuts-foundation/nuts-node/crypto"
	"github.com/nuts-foundation/nuts-node/didman"
	"github.com/nuts-foundation/nuts-node/test/node"
	"github.com/nuts-foundation/nuts-node/vcr"
	"github.com/nuts-foundation/nuts-node/vcr/credential"
	"github.com/nuts-foundation/nuts-node/vcr/issuer"
)

const (
	tokenLife = 2 // seconds (auth.accesstokenlifespan of the node under test)
	skewMs    = 1000
	service   = "svc"
	service2  = "svc2"
)

type org struct {
	did  did.DID
	kid  string
	name string
	city string
	cred *vc.VerifiableCredential // NutsOrganizationCredential (nil: none)
}

type world struct {
	t        *testing.T
	internal string
	public   string
	system   *core.System
	http     *http.Client
	ctx      context.Context
	vcr      vcr.VCR
	auth     auth.AuthenticationServices
	didman   didman.Didman
	keys     nutsCrypto.KeyStore
	signer   contract.Signer
	store    sstypes.SessionStore

	orgs     map[string]*org // ISS ISS2 R A A2 X U W Z
	endpoint string          // the node's own token endpoint (oauth endpoint of A's service)
	other    string          // oauth endpoint of A2's service (another URL)
	authCred map[string]*vc.VerifiableCredential
	usiCache map[string]map[string]interface{}
	born     time.Time
}

func newWorld(t *testing.T) *world {
	w := &world{t: t, orgs: map[string]*org{}, authCred: map[string]*vc.VerifiableCredential{}, usiCache: map[string]map[string]interface{}{}}
	w.internal, w.public, w.system = node.StartServer(t, func(_, _ string) {
		t.Setenv("NUTS_AUTH_CONTRACTVALIDATORS", "dummy,employeeid")
		t.Setenv("NUTS_AUTH_ACCESSTOKENLIFESPAN", fmt.Sprint(tokenLife))
		t.Setenv("NUTS_AUTH_CLOCKSKEW", fmt.Sprint(skewMs))
		t.Setenv("NUTS_VERBOSITY", "panic")
		t.Setenv("NUTS_HTTP_LOG", "nothing")
		t.Setenv("NUTS_INTERNALRATELIMITER", "false")
	})
	w.http = &http.Client{Timeout: 20 * time.Second, CheckRedirect: func(*http.Request, []*http.Request) error { return http.ErrUseLastResponse }}
	w.ctx = audit.TestContext()
	w.vcr = w.system.FindEngineByName("vcr").(vcr.VCR)
	w.auth = w.system.FindEngineByName("auth").(auth.AuthenticationServices)
	w.didman = w.system.FindEngineByName("didman").(didman.Didman)
	w.keys = w.system.FindEngineByName("crypto").(nutsCrypto.KeyStore)
	w.signer = notary.VerifSigner(w.auth.ContractNotary(), selfsigned.ContractFormat)
	if w.signer == nil {
		t.Fatal("the node has no employeeid signer")
	}
	w.store = selfsigned.VerifStore(w.signer)

	for _, n := range []string{"ISS", "ISS2", "R", "A", "A2", "X", "U", "W", "Z"} {
		w.orgs[n] = w.createDID(n)
	}
	if err := w.vcr.Trust(*credential.NutsOrganizationCredentialTypeURI, w.orgs["ISS"].did.URI()); err != nil {
		t.Fatal(err)
	}
	_ = w.vcr.Untrust(*credential.NutsOrganizationCredentialTypeURI, w.orgs["ISS2"].did.URI())
	for _, n := range []string{"R", "A", "A2", "X", "Z"} {
		w.orgs[n].cred = w.issueOrg("ISS", n)
	}
	w.orgs["W"].cred = w.issueOrg("ISS2", "W")
	// issuing adds trust for the own issuer: W's issuer must stay untrusted
	_ = w.vcr.Untrust(*credential.NutsOrganizationCredentialTypeURI, w.orgs["ISS2"].did.URI())

	// contracts are drawn up by the real notary from this moment on (it refuses a validFrom older than the DID documents)
	w.born = time.Now().Truncate(time.Second).Add(2 * time.Second)
	time.Sleep(time.Until(w.born))
	w.endpoint = w.public + "/n2n/auth/v1/accesstoken"
	w.other = "http://other.example/n2n/auth/v1/accesstoken"
	w.addService("A", service, w.endpoint)
	w.addService("A", service2, w.endpoint)
	w.addService("A2", service, w.other)
	w.addService("Z", service, w.endpoint)
	// Z is an organisation whose private key is NOT on this node
	if err := w.keys.Delete(w.ctx, w.orgs["Z"].kid); err != nil {
		t.Fatal(err)
	}
	// authorization credentials
	w.authCred["ok"] = w.issueAuth("A", "R", service)
	// (the acceptable credential of a request is ABOUT its requester, whoever that is)
	w.authCred["ok:R"] = w.authCred["ok"]
	w.authCred["ok:U"] = w.issueAuth("A", "U", service)
	w.authCred["ok:W"] = w.issueAuth("A", "W", service)
	w.authCred["wrongissuer"] = w.issueAuth("X", "R", service)
	w.authCred["wrongsubject"] = w.issueAuth("A", "X", service)
	return w
}

func (w *world) createDID(name string) *org {
	resp, err := w.http.Post(w.internal+"/internal/vdr/v1/did", "application/json", strings.NewReader("{}"))
	if err != nil {
		w.t.Fatal(err)
	}
	defer resp.Body.Close()
	raw, _ := io.ReadAll(resp.Body)
	if resp.StatusCode != 200 {
		w.t.Fatalf("create did %s: %d %s", name, resp.StatusCode, raw)
	}
	var doc struct {
		ID              string        `json:"id"`
		AssertionMethod []interface{} `json:"assertionMethod"`
	}
	if err := json.Unmarshal(raw, &doc); err != nil || len(doc.AssertionMethod) == 0 {
		w.t.Fatalf("create did %s: %v %s", name, err, raw)
	}
	kid := ""
	switch v := doc.AssertionMethod[0].(type) {
	case string:
		kid = v
	case map[string]interface{}:
		kid, _ = v["id"].(string)
	}
	return &org{did: did.MustParseDID(doc.ID), kid: kid, name: "Org " + name + " BV", city: "Stad" + name}
}

func (w *world) issueOrg(iss, subj string) *vc.VerifiableCredential {
	o := w.orgs[subj]
	tmpl := vc.VerifiableCredential{
		Context:      []ssi.URI{vc.VCContextV1URI(), credential.NutsV1ContextURI},
		Type:         []ssi.URI{vc.VerifiableCredentialTypeV1URI(), *credential.NutsOrganizationCredentialTypeURI},
		Issuer:       w.orgs[iss].did.URI(),
		IssuanceDate: time.Now().Add(-3 * time.Hour).Truncate(time.Second),
		CredentialSubject: []interface{}{map[string]interface{}{
			"id":           o.did.String(),
			"organization": map[string]interface{}{"name": o.name, "city": o.city},
		}},
	}
	c, err := w.vcr.Issuer().Issue(w.ctx, tmpl, issuer.CredentialOptions{Publish: true, Public: true})
	if err != nil {
		w.t.Fatalf("issue org credential %s: %v", subj, err)
	}
	return c
}

func (w *world) issueAuth(iss, subj, pou string) *vc.VerifiableCredential {
	tmpl := vc.VerifiableCredential{
		Context:      []ssi.URI{vc.VCContextV1URI(), credential.NutsV1ContextURI},
		Type:         []ssi.URI{vc.VerifiableCredentialTypeV1URI(), *credential.NutsAuthorizationCredentialTypeURI},
		Issuer:       w.orgs[iss].did.URI(),
		IssuanceDate: time.Now().Add(-time.Hour).Truncate(time.Second),
		CredentialSubject: []interface{}{map[string]interface{}{
			"id":           w.orgs[subj].did.String(),
			"purposeOfUse": pou,
			"resources":    []interface{}{map[string]interface{}{"path": "/Patient/1", "operations": []string{"read"}, "userContext": false}},
		}},
	}
	c, err := w.vcr.Issuer().Issue(w.ctx, tmpl, issuer.CredentialOptions{Publish: false})
	if err != nil {
		w.t.Fatalf("issue authorization credential %s->%s: %v", iss, subj, err)
	}
	return c
}

func (w *world) addService(o, name, endpoint string) {
	u, _ := url.Parse(endpoint)
	epType := name + "-oauth"
	if _, err := w.didman.AddEndpoint(w.ctx, w.orgs[o].did, epType, *u); err != nil {
		w.t.Fatalf("add endpoint %s: %v", o, err)
	}
	ref := ssi.MustParseURI(w.orgs[o].did.String() + "/serviceEndpoint?type=" + epType)
	if _, err := w.didman.AddCompoundService(w.ctx, w.orgs[o].did, name, map[string]ssi.URI{"oauth": ref}); err != nil {
		w.t.Fatalf("add compound service %s: %v", o, err)
	}
}

// ---- HTTP helpers

func (w *world) postJSON(path string, body interface{}) (int, []byte) {
	raw, _ := json.Marshal(body)
	resp, err := w.http.Post(w.internal+path, "application/json", bytes.NewReader(raw))
	if err != nil {
		return 0, []byte(err.Error())
	}
	defer resp.Body.Close()
	out, _ := io.ReadAll(resp.Body)
	return resp.StatusCode, out
}

func (w *world) postForm(base, path string, form url.Values) (int, []byte, http.Header) {
	resp, err := w.http.PostForm(base+path, form)
	if err != nil {
		return 0, []byte(err.Error()), nil
	}
	defer resp.Body.Close()
	out, _ := io.ReadAll(resp.Body)
	return resp.StatusCode, out, resp.Header
}

func (w *world) get(base, path string) (int, []byte) {
	resp, err := w.http.Get(base + path)
	if err != nil {
		return 0, []byte(err.Error())
	}
	defer resp.Body.Close()
	out, _ := io.ReadAll(resp.Body)
	return resp.StatusCode, out
}

func (w *world) putJSON(path string, body interface{}) (int, []byte) {
	raw, _ := json.Marshal(body)
	req, _ := http.NewRequest(http.MethodPut, w.internal+path, bytes.NewReader(raw))
	req.Header.Set("Content-Type", "application/json")
	resp, err := w.http.Do(req)
	if err != nil {
		return 0, []byte(err.Error())
	}
	defer resp.Body.Close()
	out, _ := io.ReadAll(resp.Body)
	return resp.StatusCode, out
}
