package authv1

import (
	"encoding/json"
	"fmt"
	"io"
	"net/url"
	"os"
	"regexp"
	"testing"
	"time"

	"github.com/sirupsen/logrus"
)

var secretRe = regexp.MustCompile(`name="secret" value="([0-9a-f]+)"`)

func TestProbe(t *testing.T) {
	if os.Getenv("VERIF_PROBE") == "" {
		t.Skip()
	}
	logrus.SetLevel(logrus.PanicLevel)
	logrus.SetOutput(io.Discard)
	t0 := time.Now()
	w := newWorld(t)
	fmt.Println("world up in", time.Since(t0))
	// 1. contract
	st, raw := w.putJSON("/internal/auth/v1/contract/drawup", map[string]interface{}{"language": "NL", "type": "BehandelaarLogin", "version": "v3", "legalEntity": w.orgs["R"].did.String()})
	fmt.Println("drawup", st, string(raw))
	var c struct{ Message string }
	_ = json.Unmarshal(raw, &c)
	st, raw = w.postJSON("/internal/auth/v1/signature/session", map[string]interface{}{"means": "employeeid", "payload": c.Message,
		"params": map[string]interface{}{"employer": w.orgs["R"].did.String(), "employee": map[string]interface{}{"identifier": "481", "initials": "J", "familyName": "van Dijk", "roleName": "nurse"}}})
	fmt.Println("session", st, string(raw))
	var s struct{ SessionID string }
	_ = json.Unmarshal(raw, &s)
	st, raw = w.get(w.public, "/public/auth/v1/means/employeeid/"+s.SessionID)
	m := secretRe.FindSubmatch(raw)
	fmt.Println("page", st, len(raw), m != nil)
	st, raw, hdr := w.postForm(w.public, "/public/auth/v1/means/employeeid/"+s.SessionID, url.Values{"accept": {"true"}, "secret": {string(m[1])}})
	fmt.Println("submit", st, hdr.Get("Location"))
	st, raw = w.get(w.internal, "/internal/auth/v1/signature/session/"+s.SessionID)
	fmt.Println("poll", st, string(raw))
	var p struct {
		Status                 string
		VerifiablePresentation map[string]interface{}
	}
	_ = json.Unmarshal(raw, &p)
	st, raw = w.get(w.internal, "/internal/auth/v1/signature/session/"+s.SessionID)
	fmt.Println("poll2", st, string(raw))
	st, raw = w.get(w.internal, "/internal/auth/v1/signature/session/"+s.SessionID)
	fmt.Println("poll3", st, string(raw))
	st, raw = w.putJSON("/internal/auth/v1/signature/verify", map[string]interface{}{"VerifiablePresentation": p.VerifiablePresentation})
	fmt.Println("verify", st, string(raw))
	// 2. grant through the relying party
	st, raw = w.postJSON("/internal/auth/v1/jwt-grant", map[string]interface{}{"requester": w.orgs["R"].did.String(), "authorizer": w.orgs["A"].did.String(), "service": service,
		"identity": p.VerifiablePresentation, "credentials": []interface{}{w.authCred["ok"]}})
	fmt.Println("jwt-grant", st, string(raw)[:200])
	var g struct {
		BearerToken string `json:"bearer_token"`
		Endpoint    string `json:"authorization_server_endpoint"`
	}
	_ = json.Unmarshal(raw, &g)
	st, raw, _ = w.postForm(w.public, "/n2n/auth/v1/accesstoken", url.Values{"grant_type": {"urn:ietf:params:oauth:grant-type:jwt-bearer"}, "assertion": {g.BearerToken}})
	fmt.Println("token", st, string(raw))
	var tk struct {
		AccessToken string `json:"access_token"`
	}
	_ = json.Unmarshal(raw, &tk)
	st, raw, _ = w.postForm(w.internal, "/internal/auth/v1/accesstoken/introspect", url.Values{"token": {tk.AccessToken}})
	fmt.Println("introspect", st, string(raw))
	st, raw, _ = w.postForm(w.internal, "/internal/auth/v1/accesstoken/introspect", url.Values{"token": {g.BearerToken}})
	fmt.Println("introspect grant-as-token", st, string(raw))
	// 3. forged: signed by X, names R
	now := time.Now()
	claims := map[string]interface{}{"iss": w.orgs["R"].did.String(), "sub": w.orgs["A"].did.String(), "aud": w.endpoint, "iat": now.Unix(), "exp": now.Unix() + 5, "nbf": 0, "purposeOfUse": service, "vcs": []interface{}{}}
	tok, err := w.keys.SignJWT(w.ctx, claims, nil, w.orgs["X"].kid)
	fmt.Println("sign", err)
	st, raw, _ = w.postForm(w.public, "/n2n/auth/v1/accesstoken", url.Values{"grant_type": {"urn:ietf:params:oauth:grant-type:jwt-bearer"}, "assertion": {tok}})
	fmt.Println("token signed by X naming R:", st, string(raw))
	delete(claims, "exp")
	tok, _ = w.keys.SignJWT(w.ctx, claims, nil, w.orgs["R"].kid)
	st, raw, _ = w.postForm(w.public, "/n2n/auth/v1/accesstoken", url.Values{"grant_type": {"urn:ietf:params:oauth:grant-type:jwt-bearer"}, "assertion": {tok}})
	fmt.Println("token without exp:", st, string(raw))
	fmt.Println("total", time.Since(t0))
}
