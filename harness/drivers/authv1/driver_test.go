package authv1

import (
	"bufio"
	"encoding/base64"
	"encoding/json"
	"fmt"
	"io"
	"net/url"
	"os"
	"regexp"
	"sort"
	"strings"
	"sync"
	"testing"
	"time"

	"github.com/nuts-foundation/go-did/vc"
	"github.com/nuts-foundation/nuts-node/auth/contract"
	"github.com/nuts-foundation/nuts-node/auth/services/dummy"
	"github.com/nuts-foundation/nuts-node/auth/services/notary"
	"github.com/nuts-foundation/nuts-node/vcr/credential"
	"github.com/sirupsen/logrus"
)

type input struct {
	Mode    string   `json:"mode"` // grant | sess | vp
	Scripts []script `json:"scripts"`
	Corrupt string   `json:"corrupt"` // binding demonstration: corrupt one recorded field of the script with this id
}

type script struct {
	ID    string `json:"id"`
	Steps []step `json:"steps"`
}

type step struct {
	A   string            `json:"a"`
	Req map[string]string `json:"req"`
	K   int               `json:"k"`
	F   string            `json:"f"`
	M   string            `json:"m"`
	Acc string            `json:"acc"`
	Sec string            `json:"sec"`
	E   string            `json:"e"`
	B   bool              `json:"b"`
	Tc  string            `json:"tc"`
	Mu  string            `json:"mu"`
	Res string            `json:"res"`
}

type violation struct {
	Kind   string `json:"kind"`
	Cause  string `json:"cause"`
	Detail string `json:"detail"`
	Step   int    `json:"step"`
}

type result struct {
	ID         string                   `json:"id"`
	Error      string                   `json:"error,omitempty"`
	Violations []violation              `json:"violations"`
	Drift      []string                 `json:"drift"`
	Trace      []map[string]interface{} `json:"trace"`
	Checks     int                      `json:"checks"`
	Covered    []string                 `json:"covered,omitempty"` // vp: mutation class -> leaf paths mutated
}

func (r *result) viol(step int, kind, cause, detail string) {
	r.Violations = append(r.Violations, violation{Kind: kind, Cause: cause, Detail: detail, Step: step})
}

var secretRe = regexp.MustCompile(`name="secret" value="([0-9a-f]+)"`)

const grantType = "urn:ietf:params:oauth:grant-type:jwt-bearer"

var employee = map[string]interface{}{"identifier": "481", "initials": "J", "familyName": "van Dijk", "roleName": "nurse"}

// ------------------------------------------------------------------------------------------ contracts and presentations

// drawUp asks the real notary (PUT /internal/auth/v1/contract/drawup) for a contract of organisation o
func (w *world) drawUp(o string, from time.Time, dur time.Duration) (string, error) {
	if from.Before(w.born) {
		// the notary refuses a validFrom before the organisation's DID document existed: such a text is written with the
		// real template (contract.Template.Render), as a relying party that drew it up earlier would hold it
		tmpl := contract.StandardContractTemplates.Get("BehandelaarLogin", "NL", "v3")
		c, err := tmpl.Render(map[string]string{contract.LegalEntityAttr: w.orgs[o].name, contract.LegalEntityCityAttr: w.orgs[o].city}, from, dur)
		if err != nil {
			return "", err
		}
		return c.RawContractText, nil
	}
	body := map[string]interface{}{"language": "NL", "type": "BehandelaarLogin", "version": "v3", "legalEntity": w.orgs[o].did.String(),
		"validFrom": from.UTC().Format(time.RFC3339), "validDuration": dur.String()}
	st, raw := w.putJSON("/internal/auth/v1/contract/drawup", body)
	if st != 200 {
		return "", fmt.Errorf("drawup %s: %d %s", o, st, raw)
	}
	var c struct{ Message string }
	_ = json.Unmarshal(raw, &c)
	return c.Message, nil
}

func (w *world) createSession(means, text, employer string) (string, error) {
	st, raw := w.postJSON("/internal/auth/v1/signature/session", map[string]interface{}{"means": means, "payload": text,
		"params": map[string]interface{}{"employer": w.orgs[employer].did.String(), "employee": employee}})
	if st != 201 {
		return "", fmt.Errorf("create session: %d %s", st, raw)
	}
	var s struct{ SessionID string }
	_ = json.Unmarshal(raw, &s)
	return s.SessionID, nil
}

type pollAnswer struct {
	Status string                 `json:"status"`
	VP     map[string]interface{} `json:"verifiablePresentation"`
}

func (w *world) poll(id string) (int, pollAnswer) {
	st, raw := w.get(w.internal, "/internal/auth/v1/signature/session/"+id)
	var p pollAnswer
	_ = json.Unmarshal(raw, &p)
	return st, p
}

// signVP runs the whole real flow of the employee identity means and returns the presentation
func (w *world) signVP(text, employer string) (map[string]interface{}, error) {
	id, err := w.createSession("employeeid", text, employer)
	if err != nil {
		return nil, err
	}
	_, page := w.get(w.public, "/public/auth/v1/means/employeeid/"+id)
	m := secretRe.FindSubmatch(page)
	if m == nil {
		return nil, fmt.Errorf("no form")
	}
	if st, _, _ := w.postForm(w.public, "/public/auth/v1/means/employeeid/"+id, url.Values{"accept": {"true"}, "secret": {string(m[1])}}); st != 302 {
		return nil, fmt.Errorf("submit: %d", st)
	}
	st, p := w.poll(id)
	if st != 200 || p.VP == nil {
		return nil, fmt.Errorf("poll: %d %s", st, p.Status)
	}
	w.poll(id)
	return p.VP, nil
}

func (w *world) dummyVP(text string) (map[string]interface{}, error) {
	id, err := w.createSession("dummy", text, "R")
	if err != nil {
		return nil, err
	}
	for i := 0; i < 4; i++ {
		if _, p := w.poll(id); p.VP != nil {
			return p.VP, nil
		}
	}
	return nil, fmt.Errorf("dummy means gave no presentation")
}

var usiMu sync.Mutex

// identity returns the presentation realising a class of the attribute "usi" (cached: the contracts are valid for an hour)
func (w *world) identity(class string) (interface{}, error) {
	usiMu.Lock()
	defer usiMu.Unlock()
	if v, ok := w.usiCache[class]; ok {
		return v, nil
	}
	now := time.Now().Truncate(time.Second)
	var vp map[string]interface{}
	var err error
	var text string
	switch class {
	case "ok", "tampered":
		if text, err = w.drawUp("R", now, time.Hour); err == nil {
			vp, err = w.signVP(text, "R")
		}
		if err == nil && class == "tampered" {
			p := vp["proof"].(map[string]interface{})
			p["jws"] = flipLast(p["jws"].(string))
		}
	case "dummy":
		if text, err = w.drawUp("R", now, time.Hour); err == nil {
			vp, err = w.dummyVP(text)
		}
	case "expired":
		if text, err = w.drawUp("R", now.Add(-2*time.Hour), time.Hour); err == nil {
			vp, err = w.signVP(text, "R")
		}
	case "notyet":
		if text, err = w.drawUp("R", now.Add(time.Hour), time.Hour); err == nil {
			vp, err = w.signVP(text, "R")
		}
	case "otherorg": // a genuine identity of ANOTHER organisation (X acts for X)
		if text, err = w.drawUp("X", now, time.Hour); err == nil {
			vp, err = w.signVP(text, "X")
		}
	case "untrusted": // signed by an employer whose organisation credential is not trusted; the text names the requester
		if text, err = w.drawUp("R", now, time.Hour); err == nil {
			vp, err = w.signVP(text, "W")
		}
	case "othersigner": // signed by ANOTHER trusted organisation (X); the text names the requester R
		if text, err = w.drawUp("R", now, time.Hour); err == nil {
			vp, err = w.signVP(text, "X")
		}
	default:
		return nil, fmt.Errorf("unknown usi class %s", class)
	}
	if err != nil {
		return nil, fmt.Errorf("identity %s: %w", class, err)
	}
	w.usiCache[class] = vp
	return vp, nil
}

func flipLast(s string) string {
	b := []byte(s)
	for i := len(b) - 3; i >= 0; i-- {
		c := b[i]
		if (c >= 'a' && c <= 'y') || (c >= 'A' && c <= 'Y') || (c >= '0' && c <= '8') {
			b[i] = c + 1
			return string(b)
		}
		if c == 'z' || c == 'Z' || c == '9' {
			b[i] = c - 1
			return string(b)
		}
	}
	return s + "x"
}

func toMap(v interface{}) map[string]interface{} {
	raw, _ := json.Marshal(v)
	var m map[string]interface{}
	_ = json.Unmarshal(raw, &m)
	return m
}

// ------------------------------------------------------------------------------------------ grant

type issued struct {
	token  string
	req    map[string]string
	claims map[string]interface{} // what the request established
}

// buildGrant realises an abstract request with real keys / documents / credentials; returns the JWT and the claims an
// access token for it would have to carry
func (w *world) buildGrant(req map[string]string) (string, map[string]interface{}, error) {
	now := time.Now()
	reqOrg, subOrg := "R", "A"
	claims := map[string]interface{}{"nbf": 0}
	switch req["iss"] {
	case "ok":
	case "noorg":
		reqOrg = "U"
	case "untrusted":
		reqOrg = "W"
	}
	claims["iss"] = w.orgs[reqOrg].did.String()
	if req["iss"] == "notdid" {
		claims["iss"] = "not-a-did"
	}
	switch req["sub"] {
	case "ok":
		claims["sub"] = w.orgs["A"].did.String()
	case "unmanaged":
		subOrg = "Z"
		claims["sub"] = w.orgs["Z"].did.String()
	case "notdid":
		claims["sub"] = "not-a-did"
	case "missing":
	}
	_ = subOrg
	switch req["aud"] {
	case "ok":
		claims["aud"] = w.endpoint
	case "other":
		claims["aud"] = w.other
	case "two":
		claims["aud"] = []string{w.endpoint, w.other}
	}
	iat, exp := now.Unix(), now.Unix()+5
	switch req["win"] {
	case "short":
		exp = iat + 2
	case "long":
		exp = iat + 6
	case "expired":
		iat, exp = iat-60, iat-55
	case "future":
		iat, exp = iat+60, iat+65
	}
	claims["iat"], claims["exp"] = iat, exp
	if req["win"] == "noexp" {
		delete(claims, "exp")
	}
	if req["win"] == "noiat" {
		delete(claims, "iat")
	}
	switch req["pou"] {
	case "ok":
		claims["purposeOfUse"] = service
	case "svc2":
		claims["purposeOfUse"] = service2
	case "unknown":
		claims["purposeOfUse"] = "nosuchservice"
	}
	exp2 := map[string]interface{}{"iss": claims["sub"], "sub": claims["iss"], "service": claims["purposeOfUse"]}
	switch req["usi"] {
	case "none":
	case "garbage":
		claims["usi"] = "garbage"
	default:
		v, err := w.identity(req["usi"])
		if err != nil {
			return "", nil, err
		}
		claims["usi"] = v
		if req["usi"] == "dummy" {
			exp2["initials"], exp2["family_name"], exp2["prefix"], exp2["email"], exp2["username"], exp2["assurance_level"] = "I", "Dummy", "von", "tester@example.com", "tester@example.com", "low"
		} else {
			exp2["initials"], exp2["family_name"], exp2["username"], exp2["user_role"], exp2["assurance_level"] = "J", "van Dijk", "481", "nurse", "low"
		}
	}
	var ids []interface{}
	switch req["vcs"] {
	case "none":
		claims["vcs"] = []interface{}{}
	case "notarray":
		claims["vcs"] = "credentials"
	case "other":
		claims["vcs"] = []interface{}{w.orgs["R"].cred}
		ids = append(ids, w.orgs["R"].cred.ID.String())
	case "tampered":
		m := toMap(w.authCred["ok:"+reqOrg])
		m["credentialSubject"].(map[string]interface{})["purposeOfUse"] = "everything"
		claims["vcs"] = []interface{}{m}
	default:
		c := w.authCred[req["vcs"]]
		if req["vcs"] == "ok" {
			c = w.authCred["ok:"+reqOrg]
		}
		claims["vcs"] = []interface{}{c}
		ids = append(ids, c.ID.String())
	}
	if ids != nil {
		exp2["vcs"] = ids
	}
	kid := w.orgs[reqOrg].kid
	if req["signer"] == "otherdid" {
		kid = w.orgs["X"].kid
	}
	tok, err := w.keys.SignJWT(w.ctx, claims, nil, kid)
	if err != nil {
		return "", nil, err
	}
	switch req["signer"] {
	case "tampered":
		tok = flipLast(tok)
	case "unknownkid":
		parts := strings.Split(tok, ".")
		hdr, _ := base64.RawURLEncoding.DecodeString(parts[0])
		var h map[string]interface{}
		_ = json.Unmarshal(hdr, &h)
		h["kid"] = w.orgs[reqOrg].did.String() + "#no-such-key"
		nh, _ := json.Marshal(h)
		parts[0] = base64.RawURLEncoding.EncodeToString(nh)
		tok = strings.Join(parts, ".")
	}
	return tok, exp2, nil
}

func (w *world) requestToken(assertion string) (int, string, string) {
	st, raw, _ := w.postForm(w.public, "/n2n/auth/v1/accesstoken", url.Values{"grant_type": {grantType}, "assertion": {assertion}})
	var tk struct {
		AccessToken string `json:"access_token"`
		ExpiresIn   int    `json:"expires_in"`
		Error       string `json:"error"`
		Desc        string `json:"error_description"`
	}
	_ = json.Unmarshal(raw, &tk)
	if st == 200 && tk.AccessToken != "" {
		return st, tk.AccessToken, ""
	}
	return st, "", tk.Error + ": " + tk.Desc
}

func (w *world) introspect(token string) map[string]interface{} {
	_, raw, _ := w.postForm(w.internal, "/internal/auth/v1/accesstoken/introspect", url.Values{"token": {token}})
	var m map[string]interface{}
	_ = json.Unmarshal(raw, &m)
	if m == nil {
		m = map[string]interface{}{}
	}
	return m
}

// faithful: the answer carries exactly the claims established at issuance
func faithful(ans, want map[string]interface{}, issuedAt time.Time) string {
	var diffs []string
	str := func(v interface{}) string {
		if v == nil {
			return ""
		}
		if s, ok := v.(string); ok {
			return s
		}
		raw, _ := json.Marshal(v)
		return string(raw)
	}
	for _, k := range []string{"iss", "sub", "service", "initials", "family_name", "prefix", "email", "username", "user_role", "assurance_level", "vcs"} {
		if str(ans[k]) != str(want[k]) {
			diffs = append(diffs, fmt.Sprintf("%s: answered %q, established %q", k, str(ans[k]), str(want[k])))
		}
	}
	iat, _ := ans["iat"].(float64)
	exp, _ := ans["exp"].(float64)
	if int64(exp)-int64(iat) != tokenLife {
		diffs = append(diffs, fmt.Sprintf("exp - iat = %d, configured life %d", int64(exp)-int64(iat), tokenLife))
	}
	if d := int64(iat) - issuedAt.Unix(); d < -2 || d > 2 {
		diffs = append(diffs, fmt.Sprintf("iat %d differs from the time of issuance %d", int64(iat), issuedAt.Unix()))
	}
	return strings.Join(diffs, "; ")
}

func defects(req map[string]string, okVals map[string][]string) []string {
	var out []string
	for a, v := range req {
		ok := false
		for _, o := range okVals[a] {
			ok = ok || o == v
		}
		if !ok {
			out = append(out, a+"="+v)
		}
	}
	sort.Strings(out)
	return out
}

var okVals = map[string][]string{"signer": {"ok"}, "iss": {"ok"}, "sub": {"ok"}, "aud": {"ok"}, "win": {"ok", "short"},
	"usi": {"ok", "none", "dummy"}, "vcs": {"ok", "none", "other"}, "pou": {"ok", "svc2"}}

func (w *world) runGrant(sc script) result {
	res := result{ID: sc.ID}
	var toks []issued
	var issuedAt []time.Time
	ev := func(e map[string]interface{}) { res.Trace = append(res.Trace, e) }
	for i, s := range sc.Steps {
		switch s.A {
		case "Grant":
			jwt, want, err := w.buildGrant(s.Req)
			if err != nil {
				res.Error = err.Error()
				return res
			}
			t0 := time.Now()
			st, tok, why := w.requestToken(jwt)
			out := "refused"
			if tok != "" {
				out = "issued"
				toks = append(toks, issued{token: tok, req: s.Req, claims: want})
				issuedAt = append(issuedAt, t0)
			}
			res.Checks++
			d := defects(s.Req, okVals)
			// P1: an access token is issued only if every check of the grant held
			if out == "issued" && len(d) > 0 {
				for _, x := range d {
					res.viol(i, "token-for-defective-grant", x, fmt.Sprintf("request %v was answered with a token", s.Req))
				}
			}
			if out == "refused" && len(d) == 0 {
				res.Drift = append(res.Drift, fmt.Sprintf("%s: clean request %v refused (%d %s)", sc.ID, s.Req, st, why))
			}
			if s.Res != "" && s.Res != out && len(d) == 0 {
				res.Drift = append(res.Drift, fmt.Sprintf("%s: model says %s, node says %s for %v (%s)", sc.ID, s.Res, out, s.Req, why))
			}
			ev(map[string]interface{}{"ev": "grant", "req": s.Req, "res": out})
		case "Introspect":
			if s.K > len(toks) {
				// the model's token does not exist on the real node (a finding was repaired): nothing to introspect
				res.Drift = append(res.Drift, fmt.Sprintf("%s: token %d of the model was not issued by the node", sc.ID, s.K))
				continue
			}
			tk := toks[s.K-1]
			ans := w.introspect(tk.token)
			active, _ := ans["active"].(bool)
			f := ""
			res.Checks++
			if active {
				f = faithful(ans, tk.claims, issuedAt[s.K-1])
				if f != "" {
					res.viol(i, "introspection-unfaithful", strings.SplitN(f, ":", 2)[0], f)
				}
				// P2: active only inside the validity window (exp + skew, one second of rounding)
				if age := time.Since(issuedAt[s.K-1]); age > time.Duration(tokenLife)*time.Second+skewMs*time.Millisecond+1100*time.Millisecond {
					res.viol(i, "active-after-expiry", "", fmt.Sprintf("token is %s old, life %ds, skew %dms", age, tokenLife, skewMs))
				}
			}
			ev(map[string]interface{}{"ev": "introspect", "k": s.K, "active": active, "faithful": f == ""})
		case "IntrospectForeign":
			var tok string
			switch s.F {
			case "garbage":
				tok = "abc.def.ghi"
			case "forged": // right header and claims, signed by a key this node does not have
				if len(toks) > 0 {
					tok = flipLast(toks[0].token)
				} else {
					parts := strings.Split(w.sampleToken(), ".")
					tok = flipLast(strings.Join(parts, "."))
				}
			case "tampered":
				if len(toks) == 0 {
					continue
				}
				parts := strings.Split(toks[0].token, ".")
				pl, _ := base64.RawURLEncoding.DecodeString(parts[1])
				pl = []byte(strings.Replace(string(pl), `"service":"`, `"service":"x`, 1))
				parts[1] = base64.RawURLEncoding.EncodeToString(pl)
				tok = strings.Join(parts, ".")
			case "grant": // a JWT this node signed, but not as an access token: a grant made by the relying party
				st, raw := w.postJSON("/internal/auth/v1/jwt-grant", map[string]interface{}{"requester": w.orgs["R"].did.String(), "authorizer": w.orgs["A"].did.String(), "service": service, "credentials": []interface{}{}})
				var g struct {
					BearerToken string `json:"bearer_token"`
				}
				_ = json.Unmarshal(raw, &g)
				if st != 200 || g.BearerToken == "" {
					res.Error = fmt.Sprintf("jwt-grant: %d %s", st, raw)
					return res
				}
				tok = g.BearerToken
			}
			ans := w.introspect(tok)
			active, _ := ans["active"].(bool)
			res.Checks++
			if active {
				res.viol(i, "foreign-token-active", s.F, fmt.Sprintf("introspection of a %s token: %v", s.F, ans))
			}
			ev(map[string]interface{}{"ev": "iforeign", "f": s.F, "active": active})
		case "Tick":
			if len(toks) > 0 {
				time.Sleep(time.Duration(tokenLife)*time.Second + skewMs*time.Millisecond + 1300*time.Millisecond)
			}
			ev(map[string]interface{}{"ev": "tick"})
		}
	}
	return res
}

var sampleOnce sync.Once
var sampleTok string

func (w *world) sampleToken() string {
	sampleOnce.Do(func() {
		jwt, _, err := w.buildGrant(map[string]string{"signer": "ok", "iss": "ok", "sub": "ok", "aud": "ok", "win": "ok", "usi": "none", "vcs": "none", "pou": "ok"})
		if err == nil {
			_, sampleTok, _ = w.requestToken(jwt)
		}
	})
	return sampleTok
}

// ------------------------------------------------------------------------------------------ sess

func (w *world) sessState(means, id string) string {
	if id == "" {
		return "none"
	}
	if means == "dummy" {
		d := notary.VerifSigner(w.auth.ContractNotary(), dummy.ContractFormat).(dummy.Dummy)
		s, ok := d.Status[id]
		if !ok {
			return "deleted"
		}
		return s
	}
	s, ok := w.store.Load(id)
	if !ok {
		return "deleted"
	}
	if s.Status == "" {
		return "blank"
	}
	return s.Status
}

func (w *world) runSess(sc script) result {
	res := result{ID: sc.ID}
	ev := func(e map[string]interface{}) { res.Trace = append(res.Trace, e) }
	var id, means, secret string
	vps, shown := 0, 0
	dead := false
	late := 0
	text, err := w.drawUp("R", time.Now().Truncate(time.Second), time.Hour)
	if err != nil {
		res.Error = err.Error()
		return res
	}
	final := map[string]bool{"cancelled": true, "expired": true, "errored": true}
	for i, s := range sc.Steps {
		before := w.sessState(means, id)
		switch s.A {
		case "Create":
			means = s.M
			if id, err = w.createSession(means, text, "R"); err != nil {
				res.Error = err.Error()
				return res
			}
			if means == "employeeid" {
				ss, _ := w.store.Load(id)
				secret = ss.Secret
			}
			ev(map[string]interface{}{"ev": "create", "m": means, "st": w.sessState(means, id)})
		case "Page":
			st, body := w.get(w.public, "/public/auth/v1/means/employeeid/"+id)
			out := "done"
			has := secret != "" && strings.Contains(string(body), secret)
			if st == 404 {
				out = "notfound"
			} else if secretRe.Match(body) {
				out = "form"
			}
			res.Checks++
			if has {
				shown++
			}
			// P3: the secret is disclosed once, by the rendering that moves the session to in-progress
			if has && (shown > 1 || before != "created") {
				res.viol(i, "secret-disclosed-again", before, fmt.Sprintf("page of a session in state %s carries the secret (%d. disclosure)", before, shown))
			}
			ev(map[string]interface{}{"ev": "page", "res": out, "st": w.sessState(means, id)})
		case "Submit":
			form := url.Values{}
			switch s.Acc {
			case "true", "false":
				form.Set("accept", s.Acc)
			default:
				form.Set("accept", "maybe")
			}
			switch s.Sec {
			case "ok":
				form.Set("secret", secret)
			case "bad":
				form.Set("secret", strings.Repeat("0", 32))
			}
			st, _, _ := w.postForm(w.public, "/public/auth/v1/means/employeeid/"+id, form)
			out := "notfound"
			if st == 302 {
				out = "redirect"
			}
			after := w.sessState(means, id)
			res.Checks++
			// P3: the session becomes 'completed' only by an accepting submission with the secret, before the deadline
			if after == "completed" && before != "completed" && !(s.Acc == "true" && s.Sec == "ok" && late == 0 && before == "in-progress") {
				res.viol(i, "completed-without-right", fmt.Sprintf("acc=%s sec=%s late=%d from=%s", s.Acc, s.Sec, late, before), "the session was completed by a submission that must not complete it")
			}
			if dead && !final[after] && after != "deleted" {
				res.viol(i, "dead-session-revived", after, "a cancelled / expired / errored session left its final state")
			}
			ev(map[string]interface{}{"ev": "submit", "acc": s.Acc, "sec": s.Sec, "res": out, "st": after})
		case "Poll":
			st, p := w.poll(id)
			out := p.Status
			if st == 404 {
				out = "notfound"
			} else if st != 200 {
				res.Error = fmt.Sprintf("poll: %d", st)
				return res
			}
			if out == "" && st == 200 {
				out = "blank"
			}
			res.Checks++
			if p.VP != nil {
				vps++
				// P3: a presentation at most once, only from a completed session, never after cancel / expiry
				if vps > 1 {
					res.viol(i, "presentation-twice", means, "a second presentation was handed out for one session")
				}
				if before != "completed" {
					res.viol(i, "presentation-from-uncompleted", before, "a presentation was handed out by a session in state "+before)
				}
				if dead {
					res.viol(i, "presentation-after-dead", before, "a presentation was handed out after cancel / expiry / error")
				}
				// the presentation must verify under the rules of its means
				vs, raw := w.putJSON("/internal/auth/v1/signature/verify", map[string]interface{}{"VerifiablePresentation": p.VP})
				var v struct{ Validity bool }
				_ = json.Unmarshal(raw, &v)
				if vs != 200 || !v.Validity {
					res.Drift = append(res.Drift, fmt.Sprintf("%s: the presentation of a completed session does not verify: %d %s", sc.ID, vs, raw))
				}
			}
			ev(map[string]interface{}{"ev": "poll", "res": out, "vp": p.VP != nil, "st": w.sessState(means, id)})
		case "Age":
			// virtual clock: the deadline of the stored session moves back (11 minutes per step)
			if ss, ok := w.store.Load(id); ok {
				ss.ExpiresAt = ss.ExpiresAt.Add(-11 * time.Minute)
				w.store.Store(id, ss)
			}
			late++
			ev(map[string]interface{}{"ev": "age"})
			if late == 2 {
				// the eviction loop (period 1 s) has to remove a session 10 minutes after its deadline
				time.Sleep(2300 * time.Millisecond)
				after := w.sessState(means, id)
				res.Checks++
				if after != "deleted" {
					res.viol(i, "session-never-evicted", "", fmt.Sprintf("session in state %s still stored 2.3 s after deadline + 10 min", after))
				}
				ev(map[string]interface{}{"ev": "evict", "st": after})
			}
		}
		after := w.sessState(means, id)
		if final[after] {
			dead = true
		}
	}
	return res
}

// ------------------------------------------------------------------------------------------ vp

type leaf struct {
	path  []interface{}
	class string
}

func classOf(path []interface{}) string {
	var parts []string
	for _, p := range path {
		if s, ok := p.(string); ok {
			parts = append(parts, s)
		}
	}
	top := parts[0]
	switch top {
	case "@context":
		return "ctx"
	case "type", "id", "holder":
		return top
	case "proof":
		switch parts[1] {
		case "challenge", "created", "jws", "type":
			return "proof." + parts[1]
		case "verificationMethod":
			return "proof.vm"
		case "proofPurpose":
			return "proof.purpose"
		}
		return "proof.other"
	case "verifiableCredential":
		switch parts[1] {
		case "@context":
			return "vc.ctx"
		case "type", "id", "issuer", "proof":
			return "vc." + parts[1]
		case "issuanceDate", "expirationDate":
			return "vc.dates"
		case "credentialSubject":
			return "vc.subject"
		}
		return "vc.other"
	}
	return "other"
}

func leaves(v interface{}, path []interface{}, out *[]leaf) {
	switch t := v.(type) {
	case map[string]interface{}:
		keys := make([]string, 0, len(t))
		for k := range t {
			keys = append(keys, k)
		}
		sort.Strings(keys)
		for _, k := range keys {
			leaves(t[k], append(append([]interface{}{}, path...), k), out)
		}
	case []interface{}:
		for i, e := range t {
			leaves(e, append(append([]interface{}{}, path...), i), out)
		}
	case string:
		*out = append(*out, leaf{path: path, class: classOf(path)})
	}
}

func mutate(doc map[string]interface{}, path []interface{}) map[string]interface{} {
	raw, _ := json.Marshal(doc)
	var c interface{}
	_ = json.Unmarshal(raw, &c)
	var cur interface{} = c
	for i, p := range path {
		lastStep := i == len(path)-1
		switch k := p.(type) {
		case string:
			m := cur.(map[string]interface{})
			if lastStep {
				m[k] = flipLast(m[k].(string))
			} else {
				cur = m[k]
			}
		case int:
			a := cur.([]interface{})
			if lastStep {
				a[k] = flipLast(a[k].(string))
			} else {
				cur = a[k]
			}
		}
	}
	return c.(map[string]interface{})
}

func (w *world) verifyVP(vp map[string]interface{}, at *time.Time) bool {
	body := map[string]interface{}{"VerifiablePresentation": vp}
	if at != nil {
		body["checkTime"] = at.UTC().Format(time.RFC3339)
	}
	st, raw := w.putJSON("/internal/auth/v1/signature/verify", body)
	var v struct{ Validity bool }
	_ = json.Unmarshal(raw, &v)
	return st == 200 && v.Validity
}

func (w *world) runVP(sc script) result {
	res := result{ID: sc.ID}
	ev := func(e map[string]interface{}) { res.Trace = append(res.Trace, e) }
	issuerURI := w.orgs["ISS"].did.URI()
	defer func() { _ = w.vcr.Trust(*credential.NutsOrganizationCredentialTypeURI, issuerURI) }()
	var vp map[string]interface{}
	var from, to, signedAt time.Time
	trusted := true
	employer := ""
	covered := map[string]bool{}
	for i, s := range sc.Steps {
		switch s.A {
		case "Sign":
			employer = s.E
			from = time.Now().Add(-30 * time.Minute).Truncate(time.Second)
			to = from.Add(time.Hour)
			text, err := w.drawUp("R", from, time.Hour)
			if err == nil {
				vp, err = w.signVP(text, s.E)
				signedAt = time.Now()
			}
			if err != nil {
				res.Error = err.Error()
				return res
			}
			ev(map[string]interface{}{"ev": "sign", "e": s.E})
		case "SetTrust":
			var err error
			if s.B {
				err = w.vcr.Trust(*credential.NutsOrganizationCredentialTypeURI, issuerURI)
			} else {
				err = w.vcr.Untrust(*credential.NutsOrganizationCredentialTypeURI, issuerURI)
			}
			if err != nil {
				res.Error = err.Error()
				return res
			}
			trusted = s.B
			ev(map[string]interface{}{"ev": "settrust", "b": s.B})
		case "Verify":
			var at *time.Time
			var t time.Time
			switch s.Tc {
			case "now":
			case "beforeFrom":
				t = from.Add(-time.Second)
			case "beforeSign":
				t = from.Add(time.Minute)
			case "inside":
				t = signedAt.Add(2 * time.Second).Truncate(time.Second)
			case "atTo":
				t = to
			case "afterTo":
				t = to.Add(time.Second)
			}
			if s.Tc != "now" {
				at = &t
			}
			fresh := s.Tc == "now" || s.Tc == "inside" || s.Tc == "atTo"
			var docs []map[string]interface{}
			var names []string
			switch s.Mu {
			case "none":
				docs, names = append(docs, vp), append(names, "")
			case "means-swap":
				raw, _ := json.Marshal(vp)
				var c map[string]interface{}
				_ = json.Unmarshal([]byte(strings.Replace(string(raw), "NutsSelfSignedPresentation", "DummyVerifiablePresentation", 1)), &c)
				docs, names = append(docs, c), append(names, "type")
			default:
				var ls []leaf
				leaves(vp, nil, &ls)
				for _, l := range ls {
					if l.class == s.Mu {
						docs, names = append(docs, mutate(vp, l.path)), append(names, fmt.Sprint(l.path))
					}
				}
			}
			out := "invalid"
			for j, d := range docs {
				res.Checks++
				if s.Mu != "none" {
					covered[s.Mu+" "+names[j]] = true
				}
				ok := w.verifyVP(d, at)
				want := fresh && s.Mu == "none" && employer == "R" && trusted
				if ok {
					out = "valid"
				}
				// P4 / P3: valid iff inside the window, organisation credential trusted, nothing altered
				if ok && !want {
					cause := "tc=" + s.Tc
					if s.Mu != "none" {
						cause = "mutated " + s.Mu
					} else if fresh {
						cause = fmt.Sprintf("employer=%s trusted=%v", employer, trusted)
					}
					res.viol(i, "presentation-valid", cause, fmt.Sprintf("VerifyVP says VALID: time class %s, mutation %s %s, employer %s, issuer trusted %v", s.Tc, s.Mu, names[j], employer, trusted))
				}
				if !ok && want {
					res.viol(i, "presentation-invalid", "tc="+s.Tc, fmt.Sprintf("VerifyVP says INVALID for an unaltered presentation of a trusted organisation at time class %s", s.Tc))
				}
			}
			ev(map[string]interface{}{"ev": "verify", "tc": s.Tc, "mu": s.Mu, "res": out})
		}
	}
	for k := range covered {
		res.Covered = append(res.Covered, k)
	}
	sort.Strings(res.Covered)
	return res
}

// ------------------------------------------------------------------------------------------ main

func TestDriver(t *testing.T) {
	inPath, outPath := os.Getenv("VERIF_IN"), os.Getenv("VERIF_OUT")
	if inPath == "" {
		t.Skip("VERIF_IN not set")
	}
	logrus.SetLevel(logrus.PanicLevel)
	logrus.SetOutput(io.Discard)
	if os.Getenv("VERIF_DEBUG") == "" {
		if devnull, err := os.OpenFile(os.DevNull, os.O_WRONLY, 0); err == nil {
			os.Stderr = devnull
		}
	}
	raw, err := os.ReadFile(inPath)
	if err != nil {
		t.Fatal(err)
	}
	var in input
	if err := json.Unmarshal(raw, &in); err != nil {
		t.Fatal(err)
	}
	w := newWorld(t)
	out, err := os.Create(outPath)
	if err != nil {
		t.Fatal(err)
	}
	defer out.Close()
	bw := bufio.NewWriter(out)
	defer bw.Flush()
	enc := json.NewEncoder(bw)
	var mu sync.Mutex
	emit := func(r result) {
		if in.Corrupt != "" && in.Corrupt == r.ID {
			corrupt(&r)
		}
		if r.Violations == nil {
			r.Violations = []violation{}
		}
		mu.Lock()
		_ = enc.Encode(r)
		mu.Unlock()
	}
	switch in.Mode {
	case "grant":
		// scripts that wait for a token to expire sleep most of the time: a bounded number of them runs concurrently
		sem := make(chan struct{}, 24)
		var wg sync.WaitGroup
		for _, sc := range in.Scripts {
			wg.Add(1)
			sem <- struct{}{}
			go func(sc script) {
				defer wg.Done()
				defer func() { <-sem }()
				emit(w.runGrant(sc))
			}(sc)
		}
		wg.Wait()
	case "sess":
		// the dummy means keeps its sessions in unsynchronised maps: the scripts with a real-time wait run concurrently
		// among themselves only when they use the employee identity means
		var wg sync.WaitGroup
		for _, sc := range in.Scripts {
			slow, dummyMeans := 0, false
			for _, s := range sc.Steps {
				if s.A == "Age" {
					slow++
				}
				dummyMeans = dummyMeans || s.M == "dummy"
			}
			if slow >= 2 && !dummyMeans {
				wg.Add(1)
				go func(sc script) { defer wg.Done(); emit(w.runSess(sc)) }(sc)
			}
		}
		wg.Wait()
		for _, sc := range in.Scripts {
			slow, dummyMeans := 0, false
			for _, s := range sc.Steps {
				if s.A == "Age" {
					slow++
				}
				dummyMeans = dummyMeans || s.M == "dummy"
			}
			if !(slow >= 2 && !dummyMeans) {
				emit(w.runSess(sc))
			}
		}
	case "vp":
		for _, sc := range in.Scripts {
			emit(w.runVP(sc))
		}
	default:
		t.Fatalf("unknown mode %q", in.Mode)
	}
}

// corrupt alters one recorded field of a trace (binding demonstration of the trace validation)
func corrupt(r *result) {
	for _, e := range r.Trace {
		switch e["ev"] {
		case "grant":
			if e["res"] == "refused" {
				e["res"] = "issued"
				return
			}
		case "poll":
			if e["vp"] == false {
				e["vp"] = true
				return
			}
		case "verify":
			if e["res"] == "invalid" {
				e["res"] = "valid"
				return
			}
		}
	}
}

var _ = vc.VerifiablePresentation{}
