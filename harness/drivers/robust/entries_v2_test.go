// Entry points of C19: the v2 network protocol envelope handlers, fed with protobuf WIRE bytes, on a real dag.State.
package robust

import (
	"context"
	"crypto"
	"encoding/binary"
	"encoding/json"
	"errors"
	"fmt"
	"math/rand"
	"path/filepath"
	"sync"
	"testing"
	"time"

	"github.com/nuts-foundation/go-did/did"
	"github.com/nuts-foundation/go-stoabs"
	"github.com/nuts-foundation/go-stoabs/bbolt"
	"github.com/nuts-foundation/nuts-node/core"
	"github.com/nuts-foundation/nuts-node/crypto/hash"
	"github.com/nuts-foundation/nuts-node/network/dag"
	"github.com/nuts-foundation/nuts-node/network/transport"
	"github.com/nuts-foundation/nuts-node/network/transport/grpc"
	v2 "github.com/nuts-foundation/nuts-node/network/transport/v2"
	grpcLib "google.golang.org/grpc"
	"google.golang.org/protobuf/proto"

	"verifharness/txforge"
)

// ---------------------------------------------------------------------------------------------- protobuf wire tree

type pbField struct {
	num  int
	kind byte // 'v' varint, 'b' length delimited bytes, 'm' length delimited sub message
	v    uint64
	b    []byte
	sub  []pbField
	name string
}

func pbEncode(fs []pbField) []byte {
	var out []byte
	for _, f := range fs {
		switch f.kind {
		case 'v':
			out = binary.AppendUvarint(out, uint64(f.num)<<3|0)
			out = binary.AppendUvarint(out, f.v)
		case 'b':
			out = binary.AppendUvarint(out, uint64(f.num)<<3|2)
			out = binary.AppendUvarint(out, uint64(len(f.b)))
			out = append(out, f.b...)
		case 'm':
			inner := pbEncode(f.sub)
			out = binary.AppendUvarint(out, uint64(f.num)<<3|2)
			out = binary.AppendUvarint(out, uint64(len(inner)))
			out = append(out, inner...)
		case '6': // fixed64 (never valid for these messages)
			out = binary.AppendUvarint(out, uint64(f.num)<<3|1)
			out = binary.LittleEndian.AppendUint64(out, f.v)
		}
	}
	return out
}

func pbClone(fs []pbField) []pbField {
	out := make([]pbField, len(fs))
	for i, f := range fs {
		out[i] = f
		out[i].b = append([]byte(nil), f.b...)
		out[i].sub = pbClone(f.sub)
	}
	return out
}

type pbSite struct {
	path []int
	pos  string
	desc string
}

// pbSites: fields of the message (inside the envelope) = top, fields of nested messages = nested, elements of repeated fields = array
func pbSites(msg []pbField, repeated map[int]bool) []pbSite {
	var out []pbSite
	for i, f := range msg {
		pos := "top"
		if repeated[f.num] {
			pos = "array"
		}
		out = append(out, pbSite{[]int{i}, pos, f.name})
		if f.kind == 'm' {
			for j, g := range f.sub {
				out = append(out, pbSite{[]int{i, j}, "nested", f.name + "." + g.name})
			}
		}
	}
	return out
}

// pbMutate applies op at the site; returns envelopes (wire bytes) named by variant.
type pbVariant struct {
	name string
	msg  []pbField
}

func pbMutate(envNum int, msg []pbField, s pbSite, op string) []concrete {
	var trees []pbVariant
	out := pbMutateTree(envNum, msg, s, op, &trees)
	for _, t := range trees {
		out = append(out, concrete{s.desc + ":" + op + "/" + t.name, pbEncode([]pbField{{num: envNum, kind: 'm', sub: t.msg}})})
	}
	return out
}

// pbMutateTree collects tree level variants in trees and returns byte level variants (truncation).
func pbMutateTree(envNum int, msg []pbField, s pbSite, op string, trees *[]pbVariant) []concrete {
	var out []concrete
	emit := func(name string, m []pbField) {
		*trees = append(*trees, pbVariant{name, m})
	}
	with := func(name string, f func(parent *[]pbField, i int)) {
		m := pbClone(msg)
		parent := &m
		if len(s.path) == 2 {
			parent = &m[s.path[0]].sub
		}
		f(parent, s.path[len(s.path)-1])
		emit(name, m)
	}
	cur := msg[s.path[0]]
	if len(s.path) == 2 {
		cur = cur.sub[s.path[1]]
	}
	switch op {
	case "missing":
		with("removed", func(p *[]pbField, i int) { *p = append((*p)[:i:i], (*p)[i+1:]...) })
	case "empty":
		with("zero", func(p *[]pbField, i int) { (*p)[i].v, (*p)[i].b, (*p)[i].sub = 0, nil, nil })
	case "extreme-number":
		if cur.kind == 'v' {
			for _, x := range []uint64{0, 1, 0x7fffffff, 0x80000000, 0xffffffff, 0x100000000, ^uint64(0)} {
				x := x
				with(fmt.Sprintf("%x", x), func(p *[]pbField, i int) { (*p)[i].v = x })
			}
		} else if cur.kind == 'b' {
			for _, n := range []int{1, 31, 33, 64, 1 << 16} {
				n := n
				with(fmt.Sprintf("len-%d", n), func(p *[]pbField, i int) {
					b := make([]byte, n)
					copy(b, (*p)[i].b)
					(*p)[i].b = b
				})
			}
		}
	case "truncate":
		full := pbEncode([]pbField{{num: envNum, kind: 'm', sub: msg}})
		// cut inside this field: encode the message up to and including the field, drop the last bytes
		m := pbClone(msg)
		idx := s.path[0]
		upto := pbEncode([]pbField{{num: envNum, kind: 'm', sub: m[:idx+1]}})
		_ = upto
		prefix := pbEncode(m[:idx])
		field := pbEncode(m[idx : idx+1])
		hdr := len(full) - len(pbEncode(m)) // envelope field header length
		cut := hdr + len(prefix) + len(field)/2
		if cut > 0 && cut < len(full) {
			out = append(out, concrete{s.desc + ":truncate/mid-field", full[:cut]})
		}
		cut2 := hdr + len(prefix) + len(field)
		if cut2 < len(full) {
			out = append(out, concrete{s.desc + ":truncate/after-field-length-kept", full[:cut2]})
		}
	case "duplicate":
		with("twice", func(p *[]pbField, i int) {
			c := pbClone((*p)[i : i+1])[0]
			*p = append(*p, c)
		})
		if cur.kind == 'b' || cur.kind == 'm' {
			with("x200", func(p *[]pbField, i int) {
				for k := 0; k < 200; k++ {
					*p = append(*p, pbClone((*p)[i : i+1])[0])
				}
			})
		}
	case "type-string":
		if cur.kind == 'v' {
			with("varint-as-bytes", func(p *[]pbField, i int) { (*p)[i].kind, (*p)[i].b = 'b', []byte("12") })
		} else {
			with("bytes-as-fixed64", func(p *[]pbField, i int) { (*p)[i].kind, (*p)[i].v = '6', 7 })
		}
	case "type-number":
		if cur.kind != 'v' {
			with("bytes-as-varint", func(p *[]pbField, i int) { (*p)[i].kind, (*p)[i].v = 'v', 7 })
		}
	}
	return out
}

// ------------------------------------------------------------------------------------------------- environment

type baseTx struct {
	Data    []byte `json:"data"`
	Payload []byte `json:"payload,omitempty"`
}

type fakeConn struct {
	grpc.Connection
	peer transport.Peer
	mu   sync.Mutex
	sent []*v2.Envelope
}

func (c *fakeConn) Send(_ grpc.Protocol, envelope interface{}, _ bool) error {
	c.mu.Lock()
	defer c.mu.Unlock()
	if e, ok := envelope.(*v2.Envelope); ok {
		c.sent = append(c.sent, e)
	}
	return nil
}
func (c *fakeConn) Peer() transport.Peer  { return c.peer }
func (c *fakeConn) IsConnected() bool     { return true }
func (c *fakeConn) IsAuthenticated() bool { return c.peer.Authenticated }

type fakeConnManager struct {
	transport.ConnectionManager
	observer transport.StreamStateObserverFunc
}

func (f *fakeConnManager) RegisterObserver(cb transport.StreamStateObserverFunc) { f.observer = cb }

type fakeConnList struct{ grpc.ConnectionList }

func (fakeConnList) Get(...grpc.Predicate) grpc.Connection           { return nil }
func (fakeConnList) All() []grpc.Connection                          { return nil }
func (fakeConnList) AllMatching(...grpc.Predicate) []grpc.Connection { return nil }

type fakeRegistrar struct{}

func (fakeRegistrar) RegisterService(*grpcLib.ServiceDesc, interface{}) {}

type embeddedKeyResolver struct{}

func (embeddedKeyResolver) ResolvePublicKey(string, []hash.SHA256Hash) (crypto.PublicKey, error) {
	return nil, errors.New("key not found")
}

type noDecrypter struct{}

func (noDecrypter) Decrypt(context.Context, string, []byte) ([]byte, error) {
	return nil, errors.New("no key")
}

type v2node struct {
	state dag.State
	proto transport.Protocol
	cm    *fakeConnManager
	db    stoabs.KVStore
}

type v2env struct {
	t       *testing.T
	key     txforge.Key
	nodes   []*v2node // [0]: node DID configured, [1]: default configuration (no node DID)
	base    []baseTx
	peerSeq int
	good    map[hash.SHA256Hash]bool // refs of well-formed transactions forged by the harness
}

func newV2Node(t *testing.T, dir string, nodeDID did.DID) *v2node {
	db, err := bbolt.CreateBBoltStore(filepath.Join(dir, "dag.db"), stoabs.WithNoSync())
	if err != nil {
		t.Fatal(err)
	}
	st, err := dag.NewState(db, dag.NewPrevTransactionsVerifier(), dag.NewTransactionSignatureVerifier(embeddedKeyResolver{}))
	if err != nil {
		t.Fatal(err)
	}
	if err := st.Configure(core.ServerConfig{}); err != nil {
		t.Fatal(err)
	}
	cfg := v2.DefaultConfig()
	cfg.GossipInterval = 3600000
	cfg.DiagnosticsInterval = 0
	cfg.PayloadRetryDelay = time.Hour
	p := v2.New(cfg, nodeDID, st, staticResolver{}, noDecrypter{}, func() transport.Diagnostics { return transport.Diagnostics{} }, db)
	cm := &fakeConnManager{}
	p.(grpc.Protocol).Register(fakeRegistrar{}, func(grpcLib.ServerStream) error { return nil }, fakeConnList{}, cm)
	if err := p.Configure("verif-node"); err != nil {
		t.Fatal(err)
	}
	if err := st.Start(); err != nil {
		t.Fatal(err)
	}
	if err := p.Start(); err != nil {
		t.Fatal(err)
	}
	t.Cleanup(func() { p.Stop(); _ = st.Shutdown(); _ = db.Close(context.Background()) })
	return &v2node{state: st, proto: p, cm: cm, db: db}
}

func (e *v2env) addBase(data, payload []byte) {
	tx, err := dag.ParseTransaction(data)
	if err != nil {
		e.t.Fatalf("harness: base transaction does not parse: %v", err)
	}
	for _, n := range e.nodes {
		if err := n.state.Add(context.Background(), tx, payload); err != nil {
			e.t.Fatalf("harness: base transaction refused: %v", err)
		}
	}
	e.base = append(e.base, baseTx{data, payload})
}

// newTx forges a valid transaction on top of prevs.
func (e *v2env) newTx(prevs []dag.Transaction, payload []byte, pal bool) []byte {
	var ps []string
	lc := 0
	for _, p := range prevs {
		ps = append(ps, p.Ref().String())
		if int(p.Clock())+1 > lc {
			lc = int(p.Clock()) + 1
		}
	}
	h := txforge.TxHeaders(e.key, ps, lc, time.Now().Unix(), "application/x-verif")
	if pal {
		h["pal"] = []string{b64(make([]byte, 100))}
		h["crit"] = []string{"sigt", "ver", "prevs", "lc", "pal"}
	}
	data := txforge.Compact(h, []byte(hash.SHA256Sum(payload).String()), e.key)
	e.good[hash.SHA256Sum(data)] = true
	return data
}

func newV2Env(t *testing.T, ctx json.RawMessage) *v2env {
	e := &v2env{t: t, key: txforge.NewKey(), good: map[hash.SHA256Hash]bool{}}
	e.nodes = []*v2node{newV2Node(t, t.TempDir(), did.MustParseDID("did:nuts:GvkzxsezHvEc8nGhgz6Xo3jbqkHwswLmWw3CYtCm7hAW")), newV2Node(t, t.TempDir(), did.DID{})}
	if len(ctx) > 0 {
		var base []baseTx
		if err := json.Unmarshal(ctx, &base); err != nil {
			t.Fatal(err)
		}
		for _, b := range base {
			e.good[hash.SHA256Sum(b.Data)] = true
			e.addBase(b.Data, b.Payload)
		}
		return e
	}
	// root, two children, a join, and a private transaction whose payload is not present
	mk := func(payload string, pal bool, prevs ...dag.Transaction) dag.Transaction {
		var pl []byte
		if payload != "" {
			pl = []byte(payload)
		}
		data := e.newTx(prevs, []byte(payload), pal)
		if pal {
			pl = nil
		}
		e.addBase(data, pl)
		tx, _ := dag.ParseTransaction(data)
		return tx
	}
	r := mk("root", false)
	a := mk("a", false, r)
	b := mk("b", false, r)
	c := mk("c", false, a, b)
	mk("private-payload", true, c)
	return e
}

func (e *v2env) tx(i int) dag.Transaction {
	tx, _ := dag.ParseTransaction(e.base[i].Data)
	return tx
}

func (e *v2env) head(n *v2node) dag.Transaction {
	h, _ := n.state.Head(context.Background())
	tx, _ := n.state.GetTransaction(context.Background(), h)
	return tx
}

// digest describes the stored state MODULO well-formed transactions: a TransactionList is a batch whose unit of admission
// is the transaction, so a rejected batch may leave its well-formed members behind. Everything else must be unchanged:
// the digest lists every stored transaction that was not forged (unmodified) by the harness, and payload presence.
func (e *v2env) digest() string {
	out := ""
	for _, n := range e.nodes {
		txs, _ := n.state.FindBetweenLC(context.Background(), 0, dag.MaxLamportClock)
		var foreign []string
		pc := 0
		for _, tx := range txs {
			present, _ := n.state.IsPayloadPresent(context.Background(), tx.PayloadHash())
			if !e.good[tx.Ref()] {
				foreign = append(foreign, fmt.Sprintf("%s:%v", tx.Ref().String()[:12], present))
			} else if present {
				if pl, _ := n.state.ReadPayload(context.Background(), tx.PayloadHash()); !hash.SHA256Sum(pl).Equals(tx.PayloadHash()) {
					pc++
				}
			}
		}
		out += fmt.Sprintf("foreign=%v,badpayloads=%d;", foreign, pc)
	}
	return out
}

// snapshot returns every transaction currently in the DAG of the first node (replay context).
func (e *v2env) snapshot() []baseTx {
	n := e.nodes[0]
	txs, _ := n.state.FindBetweenLC(context.Background(), 0, dag.MaxLamportClock)
	var out []baseTx
	for _, tx := range txs {
		pl, _ := n.state.ReadPayload(context.Background(), tx.PayloadHash())
		out = append(out, baseTx{tx.Data(), pl})
	}
	return out
}

func (e *v2env) newConn(n *v2node, authenticated bool) *fakeConn {
	e.peerSeq++
	peer := transport.Peer{ID: transport.PeerID(fmt.Sprintf("peer-%d", e.peerSeq)), Address: fmt.Sprintf("10.0.0.1:%d", 1000+e.peerSeq),
		NodeDID: did.MustParseDID("did:nuts:B8PUHs2AUHbFF1xLLK4eZjgErEcMXHxs68FteY7NDtCY"), Authenticated: authenticated}
	if n.cm.observer != nil {
		n.cm.observer(peer, transport.StateConnected, n.proto)
	}
	return &fakeConn{peer: peer}
}

const cidPlaceholder = "VERIF-CID"
const lcReqMagic = 4000000001

// deliver unmarshals the wire bytes like the gRPC stream does and hands the envelope to the real handler of both nodes.
func (e *v2env) deliver(wire []byte) (bool, string) {
	accepted, detail := true, ""
	for _, n := range e.nodes {
		env := &v2.Envelope{}
		if err := proto.Unmarshal(wire, env); err != nil {
			return false, "protobuf: " + err.Error()
		}
		conn := e.newConn(n, true)
		// replies to our own requests need an open conversation: provoke the real node into starting one
		switch m := env.Message.(type) {
		case *v2.Envelope_TransactionList:
			if m.TransactionList != nil && string(m.TransactionList.ConversationID) == cidPlaceholder {
				var refs []hash.SHA256Hash
				for _, t := range m.TransactionList.Transactions {
					if t == nil {
						continue
					}
					func() {
						defer func() { _ = recover() }()
						if tx, err := dag.ParseTransaction(t.Data); err == nil {
							refs = append(refs, tx.Ref())
						}
					}()
				}
				if len(refs) == 0 {
					refs = append(refs, hash.SHA256Sum([]byte("unknown")))
				}
				xor, clock := n.state.XOR(dag.MaxLamportClock)
				var rb [][]byte
				for _, r := range refs {
					rb = append(rb, r.Slice())
				}
				g := &v2.Envelope{Message: &v2.Envelope_Gossip{Gossip: &v2.Gossip{XOR: xor.Xor(refs...).Slice(), LC: clock + 1, Transactions: rb}}}
				_ = v2.VerifRobustHandle(n.proto, conn, g)
				m.TransactionList.ConversationID = []byte("no-conversation")
				for _, s := range conn.sent {
					if q := s.GetTransactionListQuery(); q != nil {
						m.TransactionList.ConversationID = q.ConversationID
					}
				}
			}
		case *v2.Envelope_TransactionSet:
			if m.TransactionSet != nil && string(m.TransactionSet.ConversationID) == cidPlaceholder {
				_, clock := n.state.XOR(dag.MaxLamportClock)
				g := &v2.Envelope{Message: &v2.Envelope_Gossip{Gossip: &v2.Gossip{XOR: hash.SHA256Sum([]byte("other")).Slice(), LC: clock + 5}}}
				_ = v2.VerifRobustHandle(n.proto, conn, g)
				m.TransactionSet.ConversationID = []byte("no-conversation")
				for _, s := range conn.sent {
					if q := s.GetState(); q != nil {
						m.TransactionSet.ConversationID = q.ConversationID
						if m.TransactionSet.LCReq == lcReqMagic {
							m.TransactionSet.LCReq = q.LC
						}
					}
				}
			}
		}
		err := v2.VerifRobustHandle(n.proto, conn, env)
		if err != nil {
			accepted = false
			if detail == "" {
				detail = err.Error()
			}
		}
	}
	return accepted, detail
}

type v2msg struct {
	name     string
	envNum   int
	repeated map[int]bool
	valid    func(e *v2env) [][]pbField // valid instances
	unusual  func(e *v2env, pos string, rnd *rand.Rand) []concrete
}

func bfield(num int, name string, b []byte) pbField { return pbField{num: num, kind: 'b', b: b, name: name} }
func vfield(num int, name string, v uint64) pbField { return pbField{num: num, kind: 'v', v: v, name: name} }

func registerV2(w *world, needed map[string]bool) {
	msgs := []v2msg{}
	var env *v2env
	get := func() *v2env {
		if env == nil {
			env = newV2Env(w.t, nil)
		}
		return env
	}
	wrap := func(num int, m []pbField) []byte { return pbEncode([]pbField{{num: num, kind: 'm', sub: m}}) }
	ref := func(i int) []byte { return get().tx(i).Ref().Slice() }
	unknownRef := hash.SHA256Sum([]byte("unknown")).Slice()

	msgs = append(msgs, v2msg{name: "v2.Gossip", envNum: 101, repeated: map[int]bool{3: true},
		valid: func(e *v2env) [][]pbField {
			xor, clock := e.nodes[0].state.XOR(dag.MaxLamportClock)
			other := hash.SHA256Sum([]byte("x"))
			return [][]pbField{
				{bfield(1, "XOR", xor.Xor(hash.FromSlice(unknownRef)).Slice()), vfield(2, "LC", uint64(clock+1)), bfield(3, "transactions", unknownRef), bfield(3, "transactions", ref(1))},
				{bfield(1, "XOR", other.Slice()), vfield(2, "LC", uint64(clock)), bfield(3, "transactions", ref(0))},
			}
		},
		unusual: func(e *v2env, pos string, _ *rand.Rand) []concrete {
			if pos != "top" {
				return nil
			}
			xor, clock := e.nodes[0].state.XOR(dag.MaxLamportClock)
			var many []pbField
			for i := 0; i < 5000; i++ {
				many = append(many, bfield(3, "transactions", hash.SHA256Sum([]byte(fmt.Sprint("m", i))).Slice()))
			}
			return []concrete{
				{"gossip:same-xor", wrap(101, []pbField{bfield(1, "XOR", xor.Slice()), vfield(2, "LC", uint64(clock))})},
				{"gossip:empty-message", wrap(101, nil)},
				{"gossip:xor-differs-same-lc-no-refs", wrap(101, []pbField{bfield(1, "XOR", unknownRef), vfield(2, "LC", uint64(clock))})},
				{"gossip:5000-refs", wrap(101, append([]pbField{bfield(1, "XOR", unknownRef), vfield(2, "LC", 1)}, many...))},
				{"gossip:refs-of-mixed-length", wrap(101, []pbField{bfield(1, "XOR", unknownRef), vfield(2, "LC", 1), bfield(3, "transactions", nil), bfield(3, "transactions", []byte{1}), bfield(3, "transactions", make([]byte, 100))})},
			}
		}})

	msgs = append(msgs, v2msg{name: "v2.State", envNum: 201,
		valid: func(e *v2env) [][]pbField {
			_, clock := e.nodes[0].state.XOR(dag.MaxLamportClock)
			return [][]pbField{{bfield(1, "conversationID", []byte("peer-conversation-1")), bfield(2, "XOR", unknownRef), vfield(3, "LC", uint64(clock))}}
		},
		unusual: func(e *v2env, pos string, _ *rand.Rand) []concrete {
			if pos != "top" {
				return nil
			}
			xor, _ := e.nodes[0].state.XOR(dag.MaxLamportClock)
			return []concrete{
				{"state:same-xor", wrap(201, []pbField{bfield(1, "conversationID", []byte("c")), bfield(2, "XOR", xor.Slice()), vfield(3, "LC", 1)})},
				{"state:empty-message", wrap(201, nil)},
				{"state:lc-max", wrap(201, []pbField{bfield(1, "conversationID", []byte("c")), bfield(2, "XOR", unknownRef), vfield(3, "LC", 0xffffffff)})},
				{"state:lc-page-boundary", wrap(201, []pbField{bfield(1, "conversationID", []byte("c")), bfield(2, "XOR", unknownRef), vfield(3, "LC", 511)})},
				{"state:conversation-id-1MB", wrap(201, []pbField{bfield(1, "conversationID", make([]byte, 1<<20)), bfield(2, "XOR", unknownRef), vfield(3, "LC", 1)})},
			}
		}})

	msgs = append(msgs, v2msg{name: "v2.TransactionListQuery", envNum: 202, repeated: map[int]bool{2: true},
		valid: func(e *v2env) [][]pbField {
			return [][]pbField{{bfield(1, "conversationID", []byte("peer-conversation-2")), bfield(2, "refs", ref(2)), bfield(2, "refs", ref(0)), bfield(2, "refs", unknownRef), bfield(2, "refs", ref(4))}}
		},
		unusual: func(e *v2env, pos string, _ *rand.Rand) []concrete {
			if pos != "top" {
				return nil
			}
			return []concrete{
				{"listquery:no-refs", wrap(202, []pbField{bfield(1, "conversationID", []byte("c"))})},
				{"listquery:empty-message", wrap(202, nil)},
				{"listquery:same-ref-500-times", wrap(202, func() []pbField {
					fs := []pbField{bfield(1, "conversationID", []byte("c"))}
					for i := 0; i < 500; i++ {
						fs = append(fs, bfield(2, "refs", ref(1)))
					}
					return fs
				}())},
			}
		}})

	msgs = append(msgs, v2msg{name: "v2.TransactionRangeQuery", envNum: 203,
		valid: func(e *v2env) [][]pbField {
			return [][]pbField{{bfield(1, "conversationID", []byte("peer-conversation-3")), vfield(2, "start", 0), vfield(3, "end", 10)}}
		},
		unusual: func(e *v2env, pos string, _ *rand.Rand) []concrete {
			if pos != "top" {
				return nil
			}
			mk := func(n string, s, en uint64) concrete {
				return concrete{"rangequery:" + n, wrap(203, []pbField{bfield(1, "conversationID", []byte("c")), vfield(2, "start", s), vfield(3, "end", en)})}
			}
			return []concrete{mk("start-equals-end", 5, 5), mk("start-after-end", 9, 1), mk("end-max", 0, 0xffffffff), mk("start-near-max", 0xfffffffe, 0xffffffff),
				mk("start-plus-two-pages-overflows", 0xfffffc01, 0xffffffff), mk("zero-zero", 0, 0), {"rangequery:empty-message", wrap(203, nil)}}
		}})

	msgs = append(msgs, v2msg{name: "v2.TransactionPayloadQuery", envNum: 204,
		valid: func(e *v2env) [][]pbField {
			return [][]pbField{{bfield(1, "conversationID", []byte("peer-conversation-4")), bfield(2, "transactionRef", ref(1))},
				{bfield(1, "conversationID", []byte("peer-conversation-5")), bfield(2, "transactionRef", ref(4))}}
		},
		unusual: func(e *v2env, pos string, _ *rand.Rand) []concrete {
			if pos != "top" {
				return nil
			}
			return []concrete{
				{"payloadquery:unknown-ref", wrap(204, []pbField{bfield(1, "conversationID", []byte("c")), bfield(2, "transactionRef", unknownRef)})},
				{"payloadquery:private-tx-payload-missing", wrap(204, []pbField{bfield(1, "conversationID", []byte("c")), bfield(2, "transactionRef", ref(4))})},
				{"payloadquery:empty-message", wrap(204, nil)},
			}
		}})

	msgs = append(msgs, v2msg{name: "v2.TransactionSet", envNum: 301,
		valid: func(e *v2env) [][]pbField {
			ib, _ := e.nodes[0].state.IBLT(dag.MaxLamportClock)
			own, _ := ib.MarshalBinary()
			_, clock := e.nodes[0].state.XOR(dag.MaxLamportClock)
			return [][]pbField{
				{bfield(1, "conversationID", []byte(cidPlaceholder)), vfield(2, "LCReq", lcReqMagic), vfield(3, "LC", uint64(clock)), bfield(4, "IBLT", own)},
				{bfield(1, "conversationID", []byte(cidPlaceholder)), vfield(2, "LCReq", lcReqMagic), vfield(3, "LC", uint64(clock)+2000), bfield(4, "IBLT", ibltBytes("a", "b"))},
			}
		},
		unusual: func(e *v2env, pos string, rnd *rand.Rand) []concrete {
			_, clock := e.nodes[0].state.XOR(dag.MaxLamportClock)
			mk := func(n string, lcReq, lc uint64, iblt []byte, cid string) concrete {
				return concrete{"transactionset:" + n, wrap(301, []pbField{bfield(1, "conversationID", []byte(cid)), vfield(2, "LCReq", lcReq), vfield(3, "LC", lc), bfield(4, "IBLT", iblt)})}
			}
			var out []concrete
			switch pos {
			case "top":
				out = append(out, mk("unknown-conversation", 1, 1, ibltBytes(), "nope"), mk("lcreq-mismatch", 77, uint64(clock), ibltBytes(), cidPlaceholder),
					mk("peer-lc-zero", lcReqMagic, 0, ibltBytes("a"), cidPlaceholder), mk("peer-lc-max", lcReqMagic, 0xffffffff, ibltBytes("a"), cidPlaceholder),
					mk("peer-many-pages-ahead", lcReqMagic, 512*1000, ibltBytes(), cidPlaceholder),
					concrete{"transactionset:empty-message", wrap(301, nil)})
			case "nested":
				// the filter itself: every binary mutation class of tree.Iblt inside a well-formed reply
				for _, o := range [][2]string{{"truncate", "top"}, {"duplicate", "top"}, {"empty", "top"}, {"extreme-number", "array"}, {"duplicate", "array"}, {"unusual", "array"}, {"unusual", "top"}} {
					for _, c := range ibltVariants(o[0], o[1], 0, rnd) {
						out = append(out, mk(c.desc, lcReqMagic, uint64(clock), c.input, cidPlaceholder))
					}
				}
			}
			return out
		}})

	msgs = append(msgs, v2msg{name: "v2.TransactionList", envNum: 302, repeated: map[int]bool{2: true},
		valid: func(e *v2env) [][]pbField {
			tx1 := e.newTx([]dag.Transaction{e.head(e.nodes[0])}, []byte("new-1"), false)
			p1, _ := dag.ParseTransaction(tx1)
			tx2 := e.newTx([]dag.Transaction{p1}, []byte("new-2"), false)
			txm := func(data, payload []byte) pbField {
				return pbField{num: 2, kind: 'm', name: "transactions", sub: []pbField{bfield(2, "data", data), bfield(3, "payload", payload)}}
			}
			return [][]pbField{{bfield(1, "conversationID", []byte(cidPlaceholder)), txm(tx1, []byte("new-1")), txm(tx2, []byte("new-2")), vfield(3, "totalMessages", 1), vfield(4, "messageNumber", 1)}}
		},
		unusual: func(e *v2env, pos string, rnd *rand.Rand) []concrete {
			txm := func(data, payload []byte) pbField {
				f := pbField{num: 2, kind: 'm', name: "transactions", sub: []pbField{bfield(2, "data", data)}}
				if payload != nil {
					f.sub = append(f.sub, bfield(3, "payload", payload))
				}
				return f
			}
			list := func(n string, cid string, total, num uint64, txs ...pbField) concrete {
				fs := append([]pbField{bfield(1, "conversationID", []byte(cid))}, txs...)
				fs = append(fs, vfield(3, "totalMessages", total), vfield(4, "messageNumber", num))
				return concrete{"transactionlist:" + n, wrap(302, fs)}
			}
			head := e.head(e.nodes[0])
			fresh := func(p string) []byte { return e.newTx([]dag.Transaction{head}, []byte(p), false) }
			var out []concrete
			switch pos {
			case "top":
				out = append(out,
					list("unknown-conversation", "nope", 1, 1, txm(fresh("u1"), []byte("u1"))),
					list("no-transactions", cidPlaceholder, 1, 1),
					list("message-number-beyond-total", cidPlaceholder, 1, 99, txm(fresh("u2"), []byte("u2"))),
					list("total-zero", cidPlaceholder, 0, 0, txm(fresh("u3"), []byte("u3"))),
					list("first-of-many", cidPlaceholder, 0xffffffff, 1, txm(fresh("u4"), []byte("u4"))),
					concrete{"transactionlist:empty-message", wrap(302, nil)})
			case "array":
				ghost := e.newTx(nil, []byte("ghost"), false)
				gp, _ := dag.ParseTransaction(ghost)
				orphan := e.newTx([]dag.Transaction{gp}, []byte("orphan"), false)
				delete(e.good, hash.SHA256Sum(ghost)) // well-formed bytes, but not admissible in this DAG
				delete(e.good, hash.SHA256Sum(orphan))
				out = append(out,
					list("payload-mismatch", cidPlaceholder, 1, 1, txm(fresh("p1"), []byte("other"))),
					list("payload-missing-public-tx", cidPlaceholder, 1, 1, txm(fresh("p2"), nil)),
					list("payload-empty-public-tx", cidPlaceholder, 1, 1, txm(fresh("p3"), []byte{})),
					list("private-tx-without-payload", cidPlaceholder, 1, 1, txm(e.newTx([]dag.Transaction{head}, []byte("priv"), true), nil)),
					list("private-tx-with-payload", cidPlaceholder, 1, 1, txm(e.newTx([]dag.Transaction{head}, []byte("priv2"), true), []byte("priv2"))),
					list("second-root", cidPlaceholder, 1, 1, txm(ghost, []byte("ghost"))),
					list("unknown-prev", cidPlaceholder, 1, 1, txm(orphan, []byte("orphan"))),
					list("already-present", cidPlaceholder, 1, 1, txm(e.base[1].Data, e.base[1].Payload)),
					list("same-transaction-twice", cidPlaceholder, 1, 1, txm(fresh("d1"), []byte("d1")), txm(e.base[1].Data, e.base[1].Payload)),
					list("signature-flipped", cidPlaceholder, 1, 1, txm(txforge.FlipSig(fresh("s1")), []byte("s1"))),
					list("json-serialised-transaction", cidPlaceholder, 1, 1, txm(txforge.Flattened(fresh("j1")), []byte("j1"))),
					list("transaction-empty-submessage", cidPlaceholder, 1, 1, pbField{num: 2, kind: 'm', name: "transactions"}),
					list("wrong-clock", cidPlaceholder, 1, 1, txm(func() []byte {
						h := txforge.TxHeaders(e.key, []string{head.Ref().String()}, int(head.Clock())+5, time.Now().Unix(), "application/x-verif")
						return txforge.Compact(h, []byte(hash.SHA256Sum([]byte("wc")).String()), e.key)
					}(), []byte("wc"))),
				)
			case "nested":
				// the transaction bytes themselves: JWS header mutations inside a well-formed list
				key := e.key
				inst := txInstance("tx", key, []string{head.Ref().String()}, int(head.Clock())+1, []byte("nested"), false)
				for _, s := range sites("header", inst.parts["header"], "header") {
					for _, op := range []string{"type-null", "missing", "type-string", "type-number", "type-array", "extreme-number", "duplicate"} {
						for _, v := range mutate(inst.parts["header"], s.p, op, 0) {
							out = append(out, list("tx-"+s.desc+":"+op+"/"+v.name, cidPlaceholder, 1, 1, txm(renderVariant(inst, "header", v), []byte("nested"))))
						}
					}
				}
			}
			return out
		}})

	msgs = append(msgs, v2msg{name: "v2.TransactionPayload", envNum: 304,
		valid: func(e *v2env) [][]pbField {
			return [][]pbField{{bfield(1, "conversationID", []byte("c")), bfield(2, "transactionRef", ref(4)), bfield(10, "data", []byte("private-payload"))}}
		},
		unusual: func(e *v2env, pos string, _ *rand.Rand) []concrete {
			if pos != "top" {
				return nil
			}
			mk := func(n string, r, d []byte) concrete {
				return concrete{"payload:" + n, wrap(304, []pbField{bfield(1, "conversationID", []byte("c")), bfield(2, "transactionRef", r), bfield(10, "data", d)})}
			}
			return []concrete{
				mk("unsolicited-public-payload", ref(1), []byte("a")),
				mk("unsolicited-private-payload", ref(4), []byte("private-payload")),
				mk("wrong-payload", ref(4), []byte("something else")),
				mk("unknown-transaction", unknownRef, []byte("x")),
				mk("no-data", ref(4), nil),
				mk("ref-all-zero", make([]byte, 32), []byte("x")),
				{"payload:empty-message", wrap(304, nil)},
			}
		}})

	msgs = append(msgs, v2msg{name: "v2.Diagnostics", envNum: 102, repeated: map[int]bool{3: true},
		valid: func(e *v2env) [][]pbField {
			return [][]pbField{{vfield(1, "uptime", 100), bfield(2, "peerID", []byte("peer")), bfield(3, "peers", []byte("p1")), bfield(3, "peers", []byte("p2")),
				vfield(4, "numberOfTransactions", 5), bfield(10, "softwareVersion", []byte("v1")), bfield(11, "softwareID", []byte("nuts"))}}
		},
		unusual: func(e *v2env, pos string, _ *rand.Rand) []concrete {
			if pos != "top" {
				return nil
			}
			var many []pbField
			for i := 0; i < 20000; i++ {
				many = append(many, bfield(3, "peers", []byte(fmt.Sprint("peer-", i))))
			}
			return []concrete{
				{"diagnostics:empty-message", wrap(102, nil)},
				{"diagnostics:20000-peers", wrap(102, many)},
				{"diagnostics:non-utf8-strings", wrap(102, []pbField{bfield(2, "peerID", []byte{0xff, 0xfe}), bfield(10, "softwareVersion", []byte{0xc3, 0x28})})},
				{"diagnostics:version-1MB", wrap(102, []pbField{bfield(10, "softwareVersion", make([]byte, 1<<20))})},
			}
		}})

	envelopeUnusual := []concrete{
		{"envelope:empty", []byte{}},
		{"envelope:unknown-field", pbEncode([]pbField{{num: 999, kind: 'm'}})},
		{"envelope:two-oneof-members", append(wrap(101, nil), wrap(201, nil)...)},
		{"envelope:oneof-as-varint", pbEncode([]pbField{{num: 101, kind: 'v', v: 1}})},
		{"envelope:garbage", []byte{0xff, 0xff, 0xff, 0xff}},
		{"envelope:length-overflow", []byte{0xaa, 0x06, 0xff, 0xff, 0xff, 0xff, 0x0f}},
	}

	for _, m := range msgs {
		m := m
		if !needed[m.name] {
			continue
		}
		w.add(&entryPoint{name: m.name, kind: "proto",
			gen: func(op, pos string, level int, rnd *rand.Rand) []concrete {
				e := get()
				var out []concrete
				if op == "random" {
					// stacks of 1-3 random field mutations
					n := 60
					if level > 0 {
						n = 600
					}
					ops := []string{"missing", "empty", "extreme-number", "duplicate", "type-string", "type-number"}
					valid := m.valid(e)
					for k := 0; k < n; k++ {
						cur := pbClone(valid[rnd.Intn(len(valid))])
						desc := ""
						for j := 0; j < 1+rnd.Intn(3); j++ {
							ss := pbSites(cur, m.repeated)
							if len(ss) == 0 {
								break
							}
							st := ss[rnd.Intn(len(ss))]
							o := ops[rnd.Intn(len(ops))]
							var trees []pbVariant
							pbMutateTree(m.envNum, cur, st, o, &trees)
							if len(trees) == 0 {
								continue
							}
							tv := trees[rnd.Intn(len(trees))]
							if len(pbEncode(tv.msg)) > 1<<18 {
								continue
							}
							cur = tv.msg
							desc += "+" + st.desc + ":" + o + "/" + tv.name
						}
						if desc != "" {
							out = append(out, concrete{"random:" + desc[1:], wrap(m.envNum, cur)})
						}
					}
					return out
				}
				if op == "unusual" {
					out = append(out, m.unusual(e, pos, rnd)...)
					if pos == "top" {
						out = append(out, envelopeUnusual...)
						for i, v := range m.valid(e) {
							out = append(out, concrete{fmt.Sprintf("%s:valid-%d", m.name, i), wrap(m.envNum, v)})
						}
					}
					return out
				}
				for _, v := range m.valid(e) {
					for _, s := range pbSites(v, m.repeated) {
						if s.pos != pos {
							continue
						}
						out = append(out, pbMutate(m.envNum, v, s, op)...)
					}
				}
				return out
			},
			digest:  func() string { return get().digest() },
			call:    func(in []byte) (bool, string) { return get().deliver(in) },
			saveCtx: func() json.RawMessage { bs, _ := json.Marshal(get().snapshot()); return bs },
			loadCtx: func(ctx json.RawMessage) { env = newV2Env(w.t, ctx) },
		})
	}
}
