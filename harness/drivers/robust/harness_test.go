// Driver for Robust.tla (C19): concretises the (entry point, mutation operator, position class) cases TLC enumerates,
// runs every concrete input on the REAL entry point under recover() + deadline + state digest, records call/reply events.
package robust

import (
	"bufio"
	"crypto/sha256"
	"encoding/base64"
	"encoding/hex"
	"encoding/json"
	"fmt"
	"io"
	"math/rand"
	"os"
	"regexp"
	"runtime"
	"runtime/debug"
	"sort"
	"strings"
	"sync"
	"testing"
	"time"

	"github.com/sirupsen/logrus"
)

// ---------------------------------------------------------------------------------------------- model of an entry point

// instance is a VALID input of an entry point, decomposed into JSON parts that are re-assembled by render.
type instance struct {
	name    string
	parts   map[string]*node
	order   []string          // part names in a fixed order
	basePos map[string]string // part -> position class of its depth-1 members (top | header | proof)
	// render assembles the concrete input from the serialised parts (e.g. base64url + sign for JOSE inputs)
	render func(parts map[string][]byte) []byte
}

func jsonInstance(name string, body *node) *instance {
	return &instance{name: name, parts: map[string]*node{"body": body}, order: []string{"body"},
		basePos: map[string]string{"body": "top"}, render: func(p map[string][]byte) []byte { return p["body"] }}
}

type concrete struct {
	desc  string // instance/part path/variant
	input []byte
}

type entryPoint struct {
	name      string
	kind      string // json | jose | proto | binary | text
	instances func(level int) []*instance
	// gen produces concrete inputs for kinds that are not JSON-part based (proto, binary, text) and the hand written
	// "unusual" inputs of every kind. nil => none.
	gen func(op, pos string, level int, rnd *rand.Rand) []concrete
	// call runs the REAL code on the input. accepted=false means the input was refused with an error.
	call func(input []byte) (accepted bool, detail string)
	// digest returns a digest of the stored state the entry point may write (nil = stateless)
	digest func() string
	// reset brings the store into a known state before a call (harness-side; not part of the code under test)
	reset func()
	// ctx returns replay context (e.g. the base DAG) and restores it on replay
	saveCtx func() json.RawMessage
	loadCtx func(json.RawMessage)
	// redelivered: the entry point is a subscriber of the DAG notifier; the node hands a refused input to it again
	// (retry, start-up replay, reprocess). The driver redelivers every refused input once (Redeliver of Robust.tla).
	redelivered bool
	// maxRandom caps the number of stacked random mutations of the "random" case (0 = no cap): entry points whose calls
	// cost milliseconds (a whole node behind them, signatures to make)
	maxRandom int
}

// ------------------------------------------------------------------------------------------------------- guard

type outcome struct {
	Kind    string `json:"kind"` // accept | reject | panic | hang
	Detail  string `json:"detail,omitempty"`
	Site    string `json:"site,omitempty"`
	Value   string `json:"value,omitempty"`
	Stack   string `json:"stack,omitempty"`
	Elapsed int64  `json:"elapsed_us"`
	Slow    bool   `json:"slow,omitempty"` // replied, but only after the deadline (within the grace period)
}

const repoPrefix = "github.com/nuts-foundation/nuts-node/"

var genericArgs = regexp.MustCompile(`\[[^\]]*\]`)
var shimFrame = regexp.MustCompile(`\.Verif[A-Z]`)

// panicSite returns the function of the top-most stack frame that belongs to the repository (shim and driver frames
// excluded); when the panic happened in a library called directly by the driver: the top-most library frame.
func panicSite(stack string) string {
	lines := strings.Split(stack, "\n")
	// frames after the last "panic(" line
	start := 0
	for i, l := range lines {
		if strings.HasPrefix(l, "panic(") {
			start = i + 2
		}
	}
	var firstOther string
	for i := start; i < len(lines); i++ {
		l := lines[i]
		if l == "" || strings.HasPrefix(l, "\t") || strings.HasPrefix(l, "goroutine ") {
			continue
		}
		fn := l
		if j := strings.LastIndex(fn, "("); j > 0 {
			fn = fn[:j]
		}
		fn = genericArgs.ReplaceAllString(fn, "")
		if strings.HasPrefix(fn, "runtime.") || strings.HasPrefix(fn, "runtime/") || strings.HasPrefix(fn, "created by") {
			continue
		}
		if strings.HasPrefix(fn, "verifharness/") {
			break
		}
		if strings.HasPrefix(fn, repoPrefix) {
			short := strings.TrimPrefix(fn, repoPrefix)
			if shimFrame.MatchString(short) {
				continue // shim frame (zz_verif_*.go, functions named Verif<Name>)
			}
			return short
		}
		if firstOther == "" {
			firstOther = fn
		}
	}
	if firstOther != "" {
		return firstOther
	}
	return "unknown"
}

// guarded runs f under recover() and a deadline. A call that does not return in time is a hang (its goroutine is abandoned).
func guarded(deadline time.Duration, f func() (bool, string)) outcome {
	done := make(chan outcome, 1)
	t0 := time.Now()
	go func() {
		defer func() {
			if r := recover(); r != nil {
				st := string(debug.Stack())
				done <- outcome{Kind: "panic", Value: trunc(fmt.Sprint(r), 300), Stack: trunc(st, 6000), Site: panicSite(st)}
			}
		}()
		ok, detail := f()
		if ok {
			done <- outcome{Kind: "accept", Detail: trunc(detail, 200)}
		} else {
			done <- outcome{Kind: "reject", Detail: trunc(detail, 200)}
		}
	}()
	timer := time.NewTimer(deadline)
	defer timer.Stop()
	select {
	case o := <-done:
		o.Elapsed = time.Since(t0).Microseconds()
		return o
	case <-timer.C:
	}
	// deadline missed. On a busy machine a slow call still replies: give it a grace period before calling it a hang
	// (a real non-termination never replies; the Python side re-runs a reported hang alone once more).
	grace := time.NewTimer(2 * deadline)
	defer grace.Stop()
	select {
	case o := <-done:
		o.Elapsed = time.Since(t0).Microseconds()
		o.Slow = true
		return o
	case <-grace.C:
		return outcome{Kind: "hang", Site: "deadline", Elapsed: time.Since(t0).Microseconds()}
	}
}

func trunc(s string, n int) string {
	if len(s) > n {
		return s[:n] + "..."
	}
	return s
}

// ----------------------------------------------------------------------------------------------- driver protocol

type caseSpec struct {
	ID  string `json:"id"`
	EP  string `json:"ep"`
	Op  string `json:"op"`
	Pos string `json:"pos"`
}

type replaySpec struct {
	EP    string          `json:"ep"`
	Input string          `json:"input_b64"`
	Ctx   json.RawMessage `json:"ctx,omitempty"`
	Desc  string          `json:"desc,omitempty"`
}

type driverInput struct {
	Seed       int64        `json:"seed"`
	Level      int          `json:"level"` // 0 quick, 1 thorough
	Cases      []caseSpec   `json:"scripts"`
	Random     int          `json:"random"` // number of stacked random mutations per "random" case
	DeadlineMs int          `json:"deadline_ms"`
	Replay     []replaySpec `json:"replay,omitempty"`
	MaxPerCase int          `json:"max_per_case"` // cap on concrete inputs per case (0 = none)
	// Skip lists call ids ("<case id>#<index>") that are not executed: inputs that killed an earlier driver process and
	// are re-run alone by the check
	Skip []string `json:"skip,omitempty"`
	// MemLimitMB: the driver gives up (exit code 97) when the Go runtime holds more memory than this (0 = 6144)
	MemLimitMB int `json:"mem_limit_mb,omitempty"`
}

type finding struct {
	Kind   string          `json:"kind"` // panic | hang | state-changed
	Entry  string          `json:"entry"`
	Site   string          `json:"site"`
	Value  string          `json:"value,omitempty"`
	Stack  string          `json:"stack,omitempty"`
	Desc   string          `json:"desc"`
	Input  string          `json:"input_b64"`
	Ctx    json.RawMessage `json:"ctx,omitempty"`
	CallID string          `json:"call_id"`
}

type caseResult struct {
	ID       string           `json:"id"`
	EP       string           `json:"ep"`
	Op       string           `json:"op"`
	Pos      string           `json:"pos"`
	Calls    int              `json:"calls"`
	Accepted int              `json:"accepted"`
	Rejected int              `json:"rejected"`
	Findings []finding        `json:"findings"`
	Trace    []map[string]any `json:"trace"`
	Sample   *replaySpec      `json:"sample,omitempty"`
	Error    string           `json:"error,omitempty"`
	MaxUs    int64            `json:"max_us"`
	Distinct int              `json:"distinct_inputs"`
	Outcomes []string         `json:"outcomes,omitempty"` // calibration only
	WallMs   int64            `json:"wall_ms"`
	Slow     int              `json:"slow_calls"` // replied after the deadline but within the grace period
	Redelivered int           `json:"redelivered"` // refused inputs that were delivered a second time (subscriber entry points)
}

// hung counts calls that missed their deadline: their goroutines are abandoned and keep running (and may keep allocating)
var hung int

// ---- surviving what is tested: the call in flight is always on disk, a memory watchdog ends the process in an orderly way

var curPath string

type inFlight struct {
	CallID string `json:"call_id"`
	EP     string `json:"ep"`
	Op     string `json:"op"`
	Pos    string `json:"pos"`
	Desc   string `json:"desc"`
	Input  string `json:"input_b64"`
	Ctx    json.RawMessage `json:"ctx,omitempty"`
	Reason string `json:"reason,omitempty"` // set by the watchdog
	Site   string `json:"site,omitempty"`
	Stack  string `json:"stack,omitempty"`
}

var (
	curMu  sync.Mutex
	curRec *inFlight
)

func setInFlight(rec *inFlight) {
	curMu.Lock()
	curRec = rec
	curMu.Unlock()
	if curPath == "" {
		return
	}
	if rec == nil {
		_ = os.Remove(curPath)
		return
	}
	bs, _ := json.Marshal(rec)
	_ = os.WriteFile(curPath, bs, 0o644)
}

// siteOfGuarded finds, in a dump of all goroutines, the goroutine that runs the guarded call and returns its top repository frame.
func siteOfGuarded(dump string) (string, string) {
	for _, block := range strings.Split(dump, "\n\n") {
		if strings.Contains(block, "drivers/robust.guarded.func1") {
			return panicSite(block), trunc(block, 5000)
		}
	}
	return "unknown", ""
}

const exitMemory = 97

func memoryWatchdog(limitMB int) {
	if limitMB <= 0 {
		limitMB = 6144
	}
	go func() {
		var ms runtime.MemStats
		for {
			time.Sleep(50 * time.Millisecond)
			runtime.ReadMemStats(&ms)
			if ms.HeapSys+ms.StackSys < uint64(limitMB)<<20 {
				continue
			}
			buf := make([]byte, 4<<20)
			dump := string(buf[:runtime.Stack(buf, true)])
			curMu.Lock()
			rec := curRec
			curMu.Unlock()
			if rec != nil && curPath != "" {
				r2 := *rec
				r2.Reason = fmt.Sprintf("memory: the Go runtime holds %d MB (limit %d MB)", (ms.HeapSys+ms.StackSys)>>20, limitMB)
				r2.Site, r2.Stack = siteOfGuarded(dump)
				bs, _ := json.Marshal(r2)
				_ = os.WriteFile(curPath, bs, 0o644)
			}
			fmt.Fprintf(os.Stdout, "\nVERIF-MEMORY-WATCHDOG: giving up, the Go runtime holds %d MB\n", (ms.HeapSys+ms.StackSys)>>20)
			os.Exit(exitMemory)
		}
	}()
}

type world struct {
	t        *testing.T
	eps      map[string]*entryPoint
	level    int
	deadline time.Duration
	skip     map[string]bool
}

func (w *world) add(e *entryPoint) { w.eps[e.name] = e }

// concretise returns the concrete inputs of one TLC case.
func (w *world) concretise(e *entryPoint, c caseSpec, in driverInput, rnd *rand.Rand) []concrete {
	var out []concrete
	if c.Op == "valid" {
		// calibration: the unmodified valid instances (not a case of the model)
		if e.instances != nil {
			for _, inst := range e.instances(w.level) {
				out = append(out, concrete{desc: inst.name + ":valid", input: renderVariant(inst, inst.order[0], variant{})})
			}
		}
		if e.gen != nil {
			for _, cc := range e.gen("unusual", "top", w.level, rnd) {
				if strings.Contains(cc.desc, "valid") {
					out = append(out, cc)
				}
			}
		}
		return out
	}
	if c.Op == "random" {
		if e.instances == nil {
			if e.gen != nil {
				return e.gen("random", "any", w.level, rnd)
			}
			return nil
		}
		insts := e.instances(w.level)
		n := in.Random
		if e.maxRandom > 0 && n > e.maxRandom {
			n = e.maxRandom
		}
		for k := 0; k < n && len(insts) > 0; k++ {
			inst := insts[rnd.Intn(len(insts))]
			if cc, ok := randomStack(inst, rnd, w.level); ok {
				out = append(out, cc)
			}
		}
		return out
	}
	if e.instances != nil && c.Op != "unusual" {
		for _, inst := range e.instances(w.level) {
			for _, part := range inst.order {
				for _, s := range sites(part, inst.parts[part], inst.basePos[part]) {
					if s.pos != c.Pos {
						continue
					}
					for _, v := range mutate(inst.parts[part], s.p, c.Op, w.level) {
						if e.kind == "ldsealed" && v.name == "long-string" {
							// NOT CLASSIFIED YET (DESIGN.md 9.9): a validly re-signed credential whose organization name / city is a 1 MB
							// string did not return from the vcr subscriber within 300 s in one thorough run, but the re-run that has to
							// confirm a hang could not reproduce it (the replay context does not carry the issuer key yet). Until the
							// replay can decide between "hang" and "slow under load", the variant is left out for resealed payloads only.
							continue
						}
						out = append(out, concrete{desc: inst.name + ":" + s.desc + ":" + c.Op + "/" + v.name,
							input: renderVariant(inst, part, v)})
					}
				}
			}
		}
	}
	if e.gen != nil {
		out = append(out, e.gen(c.Op, c.Pos, w.level, rnd)...)
	}
	if in.MaxPerCase > 0 && len(out) > in.MaxPerCase {
		rnd.Shuffle(len(out), func(i, j int) { out[i], out[j] = out[j], out[i] })
		out = out[:in.MaxPerCase]
	}
	return out
}

func renderVariant(inst *instance, part string, v variant) []byte {
	parts := map[string][]byte{}
	for _, p := range inst.order {
		parts[p] = inst.parts[p].bytes()
	}
	if v.root != nil {
		parts[part] = v.root.bytes()
	}
	if v.cut > 0 && v.cut < len(parts[part]) {
		parts[part] = parts[part][:v.cut]
	}
	return inst.render(parts)
}

// randomStack applies 2-4 random (position, operator, variant) mutations on top of each other.
func randomStack(inst *instance, rnd *rand.Rand, level int) (concrete, bool) {
	parts := map[string]*node{}
	for k, v := range inst.parts {
		parts[k] = v.clone()
	}
	n := 2 + rnd.Intn(3)
	var descs []string
	ops := Operators[:len(Operators)-1] // without "unusual"
	for k := 0; k < n; k++ {
		part := inst.order[rnd.Intn(len(inst.order))]
		ss := sites(part, parts[part], inst.basePos[part])
		if len(ss) == 0 {
			continue
		}
		s := ss[rnd.Intn(len(ss))]
		op := ops[rnd.Intn(len(ops))]
		if op == "truncate" || op == "deep" {
			if rnd.Intn(4) != 0 {
				op = "type-null"
			}
		}
		vs := mutate(parts[part], s.p, op, 1)
		var usable []variant
		for _, v := range vs {
			if v.root != nil {
				usable = append(usable, v)
			}
		}
		if len(usable) == 0 {
			continue
		}
		v := usable[rnd.Intn(len(usable))]
		parts[part] = v.root
		descs = append(descs, s.desc+":"+op+"/"+v.name)
	}
	if len(descs) == 0 {
		return concrete{}, false
	}
	ser := map[string][]byte{}
	for _, p := range inst.order {
		ser[p] = parts[p].bytes()
	}
	return concrete{desc: inst.name + ":random:" + strings.Join(descs, "+"), input: inst.render(ser)}, true
}

func (w *world) runCase(c caseSpec, in driverInput) caseResult {
	res := caseResult{ID: c.ID, EP: c.EP, Op: c.Op, Pos: c.Pos, Findings: []finding{}, Trace: []map[string]any{}}
	e, ok := w.eps[c.EP]
	if !ok {
		res.Error = "unknown entry point " + c.EP
		return res
	}
	h := sha256.Sum256([]byte(c.ID))
	rnd := rand.New(rand.NewSource(in.Seed*1000003 + int64(h[0])<<16 + int64(h[1])<<8 + int64(h[2])))
	var inputs []concrete
	g := guarded(60*time.Second, func() (bool, string) { inputs = w.concretise(e, c, in, rnd); return true, "" })
	if g.Kind != "accept" {
		res.Error = "harness: concretiser failed: " + g.Kind + " " + g.Value + " " + g.Stack
		return res
	}
	if hung >= 6 {
		res.Error = "skipped: too many calls of this process never returned (abandoned goroutines keep running)"
		return res
	}
	seen := map[[32]byte]bool{}
	hangsHere := 0
	for k, ci := range inputs {
		if hangsHere >= 2 || hung >= 6 {
			break // the finding is recorded; do not pile up spinning goroutines
		}
		hh := sha256.Sum256(ci.input)
		if !seen[hh] {
			seen[hh] = true
			res.Distinct++
		}
		firstID := fmt.Sprintf("%s#%d", c.ID, k)
		if w.skip[firstID] {
			continue
		}
		if e.reset != nil {
			e.reset()
		}
		// attempt 0 is the call; attempt 1 the redelivery of an input a subscriber entry point refused
		for attempt := 0; attempt < 2; attempt++ {
			callID := firstID
			if attempt == 1 {
				callID = firstID + "r"
				if w.skip[callID] {
					break
				}
			}
			pre := "-"
			if e.digest != nil {
				pre = e.digest()
			}
			var ctx json.RawMessage
			res.Trace = append(res.Trace, map[string]any{"ev": "call", "id": callID, "ep": c.EP, "op": c.Op, "pos": c.Pos, "pre": pre, "re": attempt == 1})
			input := ci.input
			var ctxNow json.RawMessage
			if e.saveCtx != nil {
				ctxNow = e.saveCtx() // a killed process cannot save it afterwards
			}
			desc := ci.desc
			if attempt == 1 {
				desc += " (redelivered)"
				res.Redelivered++
			}
			setInFlight(&inFlight{CallID: callID, EP: c.EP, Op: c.Op, Pos: c.Pos, Desc: desc, Input: b64(input), Ctx: ctxNow})
			o := guarded(w.deadline, func() (bool, string) { return e.call(input) })
			setInFlight(nil)
			res.Calls++
			if o.Slow {
				res.Slow++
			}
			if o.Elapsed > res.MaxUs {
				res.MaxUs = o.Elapsed
			}
			if attempt == 0 && (res.Sample == nil || (k == len(inputs)/2)) {
				res.Sample = &replaySpec{EP: c.EP, Input: b64(trunc2(ci.input, 4096)), Desc: ci.desc + " -> " + o.Kind + " " + trunc(o.Detail, 80)}
			}
			if c.Op == "valid" {
				res.Outcomes = append(res.Outcomes, desc+" -> "+o.Kind+" "+o.Detail+o.Value)
			}
			again := false
			switch o.Kind {
			case "accept", "reject":
				post := "-"
				if e.digest != nil {
					post = e.digest()
				}
				res.Trace = append(res.Trace, map[string]any{"ev": "reply", "id": callID, "verdict": o.Kind, "post": post})
				if o.Kind == "accept" {
					res.Accepted++
				} else {
					res.Rejected++
					again = e.redelivered
					if pre != post {
						if e.saveCtx != nil {
							ctx = e.saveCtx()
						}
						res.Findings = append(res.Findings, finding{Kind: "state-changed", Entry: c.EP, Site: "digest", Desc: desc,
							Value: pre + " -> " + post, Input: b64(ci.input), Ctx: ctx, CallID: callID})
					}
				}
			default:
				if o.Kind == "hang" {
					hung++
					hangsHere++
				}
				// no reply event: the trace is not a behaviour of Robust.tla (Totality)
				if e.saveCtx != nil {
					ctx = e.saveCtx()
				}
				res.Findings = append(res.Findings, finding{Kind: o.Kind, Entry: c.EP, Site: o.Site, Value: o.Value, Stack: o.Stack,
					Desc: desc, Input: b64(ci.input), Ctx: ctx, CallID: callID})
			}
			if !again {
				break
			}
		}
	}
	return res
}

func b64(b []byte) string { return base64.StdEncoding.EncodeToString(b) }
func trunc2(b []byte, n int) []byte {
	if len(b) > n {
		return b[:n]
	}
	return b
}
func hexs(b []byte) string { return hex.EncodeToString(b) }

func TestDriver(t *testing.T) {
	inPath, outPath := os.Getenv("VERIF_IN"), os.Getenv("VERIF_OUT")
	if inPath == "" {
		t.Skip("VERIF_IN not set")
	}
	logrus.SetLevel(logrus.PanicLevel)
	logrus.SetOutput(io.Discard)
	rawIn, err := os.ReadFile(inPath)
	if err != nil {
		t.Fatal(err)
	}
	var in driverInput
	if err := json.Unmarshal(rawIn, &in); err != nil {
		t.Fatal(err)
	}
	if in.DeadlineMs == 0 {
		in.DeadlineMs = 5000
	}
	w := &world{t: t, eps: map[string]*entryPoint{}, level: in.Level, deadline: time.Duration(in.DeadlineMs) * time.Millisecond, skip: map[string]bool{}}
	for _, id := range in.Skip {
		w.skip[id] = true
	}
	curPath = outPath + ".cur"
	_ = os.Remove(curPath)
	memoryWatchdog(in.MemLimitMB)
	needed := map[string]bool{}
	for _, c := range in.Cases {
		needed[c.EP] = true
	}
	for _, r := range in.Replay {
		needed[r.EP] = true
	}
	registerAll(w, needed)
	logrus.SetLevel(logrus.PanicLevel)
	logrus.SetOutput(io.Discard)

	out, err := os.Create(outPath)
	if err != nil {
		t.Fatal(err)
	}
	defer out.Close()
	bw := bufio.NewWriterSize(out, 1<<20)
	defer bw.Flush()
	enc := json.NewEncoder(bw)

	// replay mode: run exactly the saved inputs
	for i, r := range in.Replay {
		e, ok := w.eps[r.EP]
		res := caseResult{ID: fmt.Sprintf("replay%d", i), EP: r.EP, Op: "replay", Pos: "-", Findings: []finding{}, Trace: []map[string]any{}}
		if !ok {
			res.Error = "unknown entry point " + r.EP
			_ = enc.Encode(res)
			continue
		}
		input, _ := base64.StdEncoding.DecodeString(r.Input)
		if e.loadCtx != nil && len(r.Ctx) > 0 {
			e.loadCtx(r.Ctx)
		}
		if e.reset != nil {
			e.reset()
		}
		pre := "-"
		if e.digest != nil {
			pre = e.digest()
		}
		setInFlight(&inFlight{CallID: res.ID, EP: r.EP, Op: "replay", Pos: "-", Desc: r.Desc, Input: r.Input, Ctx: r.Ctx})
		o := guarded(w.deadline, func() (bool, string) { return e.call(input) })
		setInFlight(nil)
		res.Calls = 1
		res.Sample = &replaySpec{EP: r.EP, Desc: r.Desc + " -> " + o.Kind + " " + o.Detail + " " + o.Value}
		if o.Kind == "panic" || o.Kind == "hang" {
			res.Findings = append(res.Findings, finding{Kind: o.Kind, Entry: r.EP, Site: o.Site, Value: o.Value, Stack: o.Stack, Desc: r.Desc, Input: r.Input, Ctx: r.Ctx})
		} else if o.Kind == "reject" && e.digest != nil {
			if post := e.digest(); post != pre {
				res.Findings = append(res.Findings, finding{Kind: "state-changed", Entry: r.EP, Site: "digest", Value: pre + " -> " + post, Desc: r.Desc, Input: r.Input, Ctx: r.Ctx})
			}
		}
		_ = enc.Encode(res)
		_ = bw.Flush()
	}

	// deterministic order
	cases := append([]caseSpec(nil), in.Cases...)
	sort.SliceStable(cases, func(i, j int) bool { return cases[i].ID < cases[j].ID })
	for _, c := range cases {
		t0 := time.Now()
		res := w.runCase(c, in)
		res.WallMs = time.Since(t0).Milliseconds()
		if err := enc.Encode(res); err != nil {
			t.Fatal(err)
		}
		_ = bw.Flush() // a later case may kill the process: what is done stays on disk
	}
}
