// Entry points of C19 that need no running node: parsers, validators, resolvers.
package robust

import (
	"bytes"
	"crypto/ecdsa"
	"crypto/ed25519"
	"crypto/elliptic"
	crand "crypto/rand"
	"encoding/base64"
	"encoding/binary"
	"encoding/json"
	"errors"
	"fmt"
	"io"
	"math/rand"
	"net/http"
	"strings"
	"sync"
	"time"

	"github.com/lestrrat-go/jwx/v2/jwk"
	ssi "github.com/nuts-foundation/go-did"
	"github.com/nuts-foundation/go-did/did"
	"github.com/nuts-foundation/nuts-node/crypto/hash"
	"github.com/nuts-foundation/nuts-node/network/dag"
	"github.com/nuts-foundation/nuts-node/network/dag/tree"
	"github.com/nuts-foundation/nuts-node/vdr/didjwk"
	"github.com/nuts-foundation/nuts-node/vdr/didkey"
	"github.com/nuts-foundation/nuts-node/vdr/didnuts"
	"github.com/nuts-foundation/nuts-node/vdr/didweb"
	"github.com/nuts-foundation/nuts-node/vdr/resolver"
	"github.com/mr-tron/base58"

	"verifharness/txforge"
)

var b64u = base64.RawURLEncoding

const sigPlaceholder = `{"signature":"$SIG"}`

// joseInstance is a compact JWS/JWT whose protected header, payload (when JSON) and signature segment can be mutated.
// The signature is computed over the MUTATED header and payload unless the signature part itself was mutated.
func joseInstance(name string, header *node, claims *node, rawPayload []byte, key txforge.Key) *instance {
	inst := &instance{name: name, parts: map[string]*node{"header": header, "sig": mustJSON(sigPlaceholder)},
		order: []string{"header"}, basePos: map[string]string{"header": "header", "claims": "top", "sig": "proof"}}
	if claims != nil {
		inst.parts["claims"] = claims
		inst.order = append(inst.order, "claims")
	}
	inst.order = append(inst.order, "sig")
	inst.render = func(p map[string][]byte) []byte {
		payload := rawPayload
		if claims != nil {
			payload = p["claims"]
		}
		signingInput := b64u.EncodeToString(p["header"]) + "." + b64u.EncodeToString(payload)
		if string(p["sig"]) == sigPlaceholder {
			return []byte(signingInput + "." + b64u.EncodeToString(key.SignES256([]byte(signingInput))))
		}
		// mutated signature part: use the member value verbatim as third segment; no member => two segments
		sn, err := parseJSON(p["sig"])
		if err != nil {
			return []byte(signingInput + "." + strings.Trim(string(p["sig"]), `{}":`))
		}
		var segs []string
		if sn.kind == 'o' {
			for i := range sn.keys {
				v := sn.vals[i]
				if v.kind == 's' {
					if v.str == "$SIG" {
						segs = append(segs, b64u.EncodeToString(key.SignES256([]byte(signingInput))))
					} else {
						segs = append(segs, v.str)
					}
				} else {
					segs = append(segs, b64u.EncodeToString(v.bytes()))
				}
			}
		} else {
			segs = append(segs, b64u.EncodeToString(sn.bytes()))
		}
		out := signingInput
		for _, s := range segs {
			out += "." + s
		}
		return []byte(out)
	}
	return inst
}

func errResult(err error) (bool, string) {
	if err != nil {
		return false, err.Error()
	}
	return true, ""
}

// ------------------------------------------------------------------------------------------ dag.ParseTransaction

func txInstance(name string, key txforge.Key, prevs []string, lc int, payload []byte, pal bool) *instance {
	h := txforge.TxHeaders(key, prevs, lc, time.Now().Unix(), "application/did+json")
	if pal {
		h["pal"] = []string{b64(bytes.Repeat([]byte{1}, 80)), b64(bytes.Repeat([]byte{2}, 80))}
		h["crit"] = []string{"sigt", "ver", "prevs", "lc", "pal"}
	}
	ph := hash.SHA256Sum(payload)
	return joseInstance(name, fromGo(h), nil, []byte(ph.String()), key)
}

func registerParseTransaction(w *world) {
	key := txforge.NewKey()
	prev := hash.SHA256Sum([]byte("prev")).String()
	prev2 := hash.SHA256Sum([]byte("prev2")).String()
	insts := []*instance{
		txInstance("tx-child", key, []string{prev, prev2}, 7, []byte("payload"), false),
		txInstance("tx-root-pal", key, nil, 0, []byte("payload"), true),
	}
	// a kid-signed transaction (no embedded key)
	kh := txforge.TxHeaders(key, []string{prev}, 1, time.Now().Unix(), "application/vc+json")
	delete(kh, "jwk")
	kh["kid"] = "did:nuts:GvkzxsezHvEc8nGhgz6Xo3jbqkHwswLmWw3CYtCm7hAW#abc"
	ph := hash.SHA256Sum([]byte("x"))
	insts = append(insts, joseInstance("tx-kid", fromGo(kh), nil, []byte(ph.String()), key))
	w.add(&entryPoint{name: "dag.ParseTransaction", kind: "jose",
		instances: func(level int) []*instance {
			if level == 0 {
				return insts[:2]
			}
			return insts
		},
		gen: func(op, pos string, level int, _ *rand.Rand) []concrete {
			if op != "unusual" {
				return nil
			}
			valid := insts[0].render(map[string][]byte{"header": insts[0].parts["header"].bytes(), "sig": []byte(sigPlaceholder)})
			var out []concrete
			switch pos {
			case "top":
				out = append(out, concrete{"empty-input", []byte{}}, concrete{"dots-only", []byte("..")},
					concrete{"json-flattened", txforge.Flattened(valid)}, concrete{"json-general", txforge.General(valid)},
					concrete{"json-no-signatures", []byte(`{"payload":"","signatures":[]}`)},
					concrete{"json-null-signatures", []byte(`{"payload":null,"signatures":[null]}`)},
					concrete{"json-signature-not-object", []byte(`{"payload":"e30","signatures":["x",1]}`)},
					concrete{"nul-bytes", bytes.Repeat([]byte{0}, 100)},
					concrete{"one-megabyte", bytes.Repeat([]byte("A"), 1<<20)})
			case "header":
				hp, pp, sp := txforge.Split(valid)
				out = append(out, concrete{"header-not-base64", []byte("@@@." + pp + "." + sp)},
					concrete{"header-json-array", []byte(b64u.EncodeToString([]byte(`[1,2]`)) + "." + pp + "." + sp)},
					concrete{"header-json-string", []byte(b64u.EncodeToString([]byte(`"x"`)) + "." + pp + "." + sp)},
					concrete{"header-std-base64-padding", []byte(hp + "==." + pp + "." + sp)},
					concrete{"payload-not-hex", []byte(hp + "." + b64u.EncodeToString([]byte("zz")) + "." + sp)},
					concrete{"payload-empty", []byte(hp + ".." + sp)})
			}
			return out
		},
		call: func(in []byte) (bool, string) {
			tx, err := dag.ParseTransaction(in)
			if err != nil {
				return false, err.Error()
			}
			// touch every accessor the network layer uses afterwards
			_ = tx.Ref()
			_ = tx.Clock()
			_ = tx.PAL()
			_ = tx.Previous()
			_ = tx.SigningKeyID()
			_ = tx.SigningKey()
			_ = tx.SigningTime()
			_ = tx.PayloadType()
			_, _ = json.Marshal(tx)
			return true, ""
		}})
}

// ------------------------------------------------------------------------------------------------- tree.Iblt

func ibltBytes(refs ...string) []byte {
	i := tree.NewIblt(dag.IbltNumBuckets)
	for _, r := range refs {
		i.Insert(hash.SHA256Sum([]byte(r)))
	}
	bs, _ := i.MarshalBinary()
	return bs
}

const ibltBB = 44 // bytes per bucket

var (
	busyMu    sync.Mutex
	busyCache = map[int][]byte{}
)

// busyFilter is the wire form of a filter holding n keys (n large: every bucket holds many entries, nothing can be peeled).
func busyFilter(n int) []byte {
	busyMu.Lock()
	defer busyMu.Unlock()
	if b, ok := busyCache[n]; ok {
		return append([]byte{}, b...)
	}
	f := tree.NewIblt(dag.IbltNumBuckets)
	for i := 0; i < n; i++ {
		f.Insert(hash.SHA256Sum([]byte(fmt.Sprintf("busy-%d-%d", n, i))))
	}
	b, _ := f.MarshalBinary()
	busyCache[n] = b
	return append([]byte{}, b...)
}

// pureBucketOf returns the 44 bytes of a bucket that holds exactly key (count +1 or -1) and the indices key hashes to
// (learnt through the exported API: a filter with just that key).
func pureBucketOf(key hash.SHA256Hash, negative bool) ([]byte, map[int]bool) {
	single := tree.NewIblt(dag.IbltNumBuckets)
	single.Insert(key)
	data, _ := single.MarshalBinary()
	own := map[int]bool{}
	var bucket []byte
	for i := 0; i*ibltBB < len(data); i++ {
		if binary.LittleEndian.Uint32(data[i*ibltBB:]) == 1 {
			own[i] = true
			if bucket == nil {
				bucket = append([]byte{}, data[i*ibltBB:(i+1)*ibltBB]...)
			}
		}
	}
	if negative {
		binary.LittleEndian.PutUint32(bucket, 0xffffffff)
	}
	return bucket, own
}

// misplacePure overwrites `count` buckets of filter, spread over the whole index range, each with a self-consistent
// single entry (count +-1, key K_j, hash(K_j)) at an index K_j does NOT hash to. Peeling such an entry never touches
// the bucket it was found in. Several are placed so that some hit buckets that are empty in the receiver's own filter.
func misplacePure(filter []byte, count int, negative bool, tag string, start int) []byte {
	out := append([]byte{}, filter...)
	nb := len(out) / ibltBB
	for j := 0; j < count; j++ {
		key := hash.SHA256Sum([]byte(fmt.Sprintf("misplaced-%s-%d", tag, j)))
		bucket, own := pureBucketOf(key, negative)
		idx := (start + j*nb/count) % nb
		for own[idx] {
			idx = (idx + 1) % nb
		}
		copy(out[idx*ibltBB:], bucket)
	}
	return out
}

// ibltVariants are the binary mutation classes for an IBLT (44-byte buckets: int32 count, uint64 hashSum, 32 byte keySum).
func ibltVariants(op, pos string, level int, rnd *rand.Rand) []concrete {
	valid := ibltBytes("a", "b", "c")
	const bb = 44
	nb := len(valid) / bb
	var out []concrete
	put := func(name string, b []byte) { out = append(out, concrete{"iblt:" + name, b}) }
	bucketIdx := []int{0, 1, nb / 2, nb - 1}
	switch op + "/" + pos {
	case "truncate/top":
		put("len-0", nil)
		put("len-1", valid[:1])
		put("len-43", valid[:43])
		put("len-44", valid[:44])
		put("minus-1-byte", valid[:len(valid)-1])
		put("minus-1-bucket", valid[:len(valid)-bb])
		put("5-buckets", valid[:5*bb])
		put("6-buckets", valid[:6*bb])
	case "duplicate/top":
		put("plus-1-bucket", append(append([]byte{}, valid...), valid[:bb]...))
		put("twice", append(append([]byte{}, valid...), valid...))
	case "empty/top":
		put("all-zero", make([]byte, len(valid)))
		put("all-ff", bytes.Repeat([]byte{0xff}, len(valid)))
	case "extreme-number/array":
		for _, bi := range bucketIdx {
			for _, cnt := range []uint32{1, 0xffffffff, 0x7fffffff, 0x80000000, 2} {
				b := append([]byte{}, valid...)
				binary.LittleEndian.PutUint32(b[bi*bb:], cnt)
				put(fmt.Sprintf("bucket%d-count-%x", bi, cnt), b)
			}
			b := append([]byte{}, valid...)
			binary.LittleEndian.PutUint64(b[bi*bb+4:], ^uint64(0))
			put(fmt.Sprintf("bucket%d-hashsum-max", bi), b)
		}
	case "duplicate/array":
		// every bucket is a copy of a pure bucket: the same key is "pure" everywhere (decode loop guard)
		pure := tree.NewIblt(dag.IbltNumBuckets)
		pure.Insert(hash.SHA256Sum([]byte("p")))
		pb, _ := pure.MarshalBinary()
		var one []byte
		for i := 0; i < nb; i++ {
			if binary.LittleEndian.Uint32(pb[i*bb:]) == 1 {
				one = pb[i*bb : (i+1)*bb]
				break
			}
		}
		put("all-buckets-same-pure", bytes.Repeat(one, nb))
		neg := append([]byte{}, one...)
		binary.LittleEndian.PutUint32(neg, 0xffffffff)
		put("all-buckets-same-negative-pure", bytes.Repeat(neg, nb))
		alt := []byte{}
		for i := 0; i < nb; i++ {
			if i%2 == 0 {
				alt = append(alt, one...)
			} else {
				alt = append(alt, neg...)
			}
		}
		put("alternating-pure", alt)
	case "unusual/array":
		// structure-aware: a pure bucket moved / copied to an index its key does not hash to, in sparse and in busy filters
		// (in a busy filter nothing else is pure and the key's own buckets never become pure: the peel loop must notice
		// that it meets the same entry again)
		for _, n := range []int{0, 3, 600, 1500, 4000, 20000} {
			base := busyFilter(n)
			put(fmt.Sprintf("misplaced-pure-x1-in-filter-of-%d", n), misplacePure(base, 1, false, "a", nb/2+7))
			put(fmt.Sprintf("misplaced-pure-x8-in-filter-of-%d", n), misplacePure(base, 8, false, "b", 5))
			put(fmt.Sprintf("misplaced-negative-pure-x8-in-filter-of-%d", n), misplacePure(base, 8, true, "c", 11))
		}
		{
			// the key IS in the filter (all its own buckets hold it) and a copy of its pure bucket sits at a wrong index,
			// before / after its own buckets
			key := hash.SHA256Sum([]byte("copied"))
			bucket, own := pureBucketOf(key, false)
			for _, n := range []int{0, 4000} {
				f := tree.NewIblt(dag.IbltNumBuckets)
				_ = f.UnmarshalBinary(busyFilter(n))
				f.Insert(key)
				base, _ := f.MarshalBinary()
				for _, at := range []int{0, nb - 1} {
					idx := at
					for own[idx] {
						idx = (idx + 1) % nb
					}
					c := append([]byte{}, base...)
					copy(c[idx*ibltBB:], bucket)
					put(fmt.Sprintf("pure-bucket-copied-to-index-%d-in-filter-of-%d", idx, n), c)
				}
				// the key is in the filter but one / all of its own buckets are overwritten with busy content
				garbage := busyFilter(20000)
				c := append([]byte{}, misplacePure(base, 4, false, "d", 3)...)
				for idx := range own {
					copy(c[idx*ibltBB:(idx+1)*ibltBB], garbage[idx*ibltBB:(idx+1)*ibltBB])
				}
				put(fmt.Sprintf("pure-key-whose-own-buckets-are-busy-in-filter-of-%d", n), c)
			}
			// two misplaced entries sitting in each other's own buckets
			k1, k2 := hash.SHA256Sum([]byte("cross-1")), hash.SHA256Sum([]byte("cross-2"))
			b1, own1 := pureBucketOf(k1, false)
			b2, own2 := pureBucketOf(k2, false)
			c := busyFilter(4000)
			for idx := range own2 {
				if !own1[idx] {
					copy(c[idx*ibltBB:], b1)
					break
				}
			}
			for idx := range own1 {
				if !own2[idx] {
					copy(c[idx*ibltBB:], b2)
					break
				}
			}
			put("two-pure-entries-in-each-others-buckets-busy", c)
		}
		// many distinct pure buckets that are consistent only locally: the peel loop runs once per distinct key
		b := make([]byte, len(valid))
		for i := 0; i < nb; i++ {
			k := hash.SHA256Sum([]byte(fmt.Sprintf("k%d", i)))
			tmp := tree.NewIblt(dag.IbltNumBuckets)
			tmp.Insert(k)
			tb, _ := tmp.MarshalBinary()
			for j := 0; j < nb; j++ {
				if binary.LittleEndian.Uint32(tb[j*bb:]) == 1 {
					copy(b[i*bb:], tb[j*bb:(j+1)*bb])
					break
				}
			}
		}
		put("every-bucket-a-different-pure-key", b)
		// random garbage of the right length
		n := 3
		if level > 0 {
			n = 40
		}
		for k := 0; k < n; k++ {
			g := make([]byte, len(valid))
			rnd.Read(g)
			put(fmt.Sprintf("random-%d", k), g)
			// random garbage with small counts (more pure-looking buckets)
			for i := 0; i < nb; i++ {
				binary.LittleEndian.PutUint32(g[i*bb:], uint32(int32(rnd.Intn(3)-1)))
			}
			put(fmt.Sprintf("random-small-counts-%d", k), append([]byte{}, g...))
		}
	case "random/any":
		n := 100
		if level > 0 {
			n = 3000
		}
		for k := 0; k < n; k++ {
			b := append([]byte{}, valid...)
			switch rnd.Intn(4) {
			case 3: // a filter of random business with random misplaced pure entries
				sizes := []int{0, 3, 50, 600, 1500, 4000, 20000}
				b = misplacePure(busyFilter(sizes[rnd.Intn(len(sizes))]), 1+rnd.Intn(12), rnd.Intn(2) == 0, fmt.Sprint("r", k), rnd.Intn(nb))
			case 0: // bit flips
				for j := 0; j < 1+rnd.Intn(6); j++ {
					b[rnd.Intn(len(b))] ^= byte(1 << uint(rnd.Intn(8)))
				}
			case 1: // random buckets with small counts
				for j := 0; j < 1+rnd.Intn(40); j++ {
					bi := rnd.Intn(nb)
					rnd.Read(b[bi*bb : (bi+1)*bb])
					binary.LittleEndian.PutUint32(b[bi*bb:], uint32(int32(rnd.Intn(5)-2)))
				}
			case 2: // a valid filter of other content with swapped buckets
				var refs []string
				for j := 0; j < rnd.Intn(50); j++ {
					refs = append(refs, fmt.Sprint("q", rnd.Intn(1000)))
				}
				b = ibltBytes(refs...)
				for j := 0; j < rnd.Intn(4); j++ {
					x, y := rnd.Intn(nb), rnd.Intn(nb)
					tmp := append([]byte{}, b[x*bb:(x+1)*bb]...)
					copy(b[x*bb:(x+1)*bb], b[y*bb:(y+1)*bb])
					copy(b[y*bb:(y+1)*bb], tmp)
				}
			}
			put(fmt.Sprintf("random-%d", k), b)
		}
	case "unusual/top":
		put("valid-empty", ibltBytes())
		put("valid-600-refs", func() []byte {
			var refs []string
			for i := 0; i < 600; i++ {
				refs = append(refs, fmt.Sprint("r", i))
			}
			return ibltBytes(refs...)
		}())
		put("valid-5000-refs", func() []byte {
			var refs []string
			for i := 0; i < 5000; i++ {
				refs = append(refs, fmt.Sprint("r", i))
			}
			return ibltBytes(refs...)
		}())
	}
	return out
}

func registerIblt(w *world) {
	w.add(&entryPoint{name: "tree.Iblt", kind: "binary", gen: ibltVariants,
		call: func(in []byte) (bool, string) {
			peer := tree.NewIblt(dag.IbltNumBuckets)
			if err := peer.UnmarshalBinary(in); err != nil {
				return false, err.Error()
			}
			local := tree.NewIblt(dag.IbltNumBuckets)
			for _, r := range []string{"a", "b", "x", "y"} {
				local.Insert(hash.SHA256Sum([]byte(r)))
			}
			if err := local.Subtract(peer); err != nil {
				return false, err.Error()
			}
			_, _, err := local.Decode()
			if err != nil {
				return false, err.Error()
			}
			// the peer's filter on its own (a node also decodes what it clones)
			_, _, _ = peer.Decode()
			return true, ""
		}})
}

// ------------------------------------------------------------------------------------------------ DID documents

type docFixture struct {
	id   did.DID
	doc  did.Document
	json []byte
	kid  string
}

func newNutsDoc(services bool) docFixture {
	priv, _ := ecdsa.GenerateKey(elliptic.P256(), crand.Reader)
	return newNutsDocFor(priv, services)
}

// newNutsDocFor builds the did:nuts document whose identifier derives from the given key (its first verification method).
func newNutsDocFor(priv *ecdsa.PrivateKey, services bool) docFixture {
	kidStr, err := didnuts.DIDKIDNamingFunc(priv.Public())
	if err != nil {
		panic(err)
	}
	kid, _ := did.ParseDIDURL(kidStr)
	vm, err := did.NewVerificationMethod(*kid, ssi.JsonWebKey2020, kid.DID, priv.Public())
	if err != nil {
		panic(err)
	}
	doc := didnuts.CreateDocument()
	doc.ID = kid.DID
	doc.AddCapabilityInvocation(vm)
	doc.AddAssertionMethod(vm)
	doc.AddAuthenticationMethod(vm)
	doc.AddKeyAgreement(vm)
	// a second, embedded-only method
	priv2, _ := ecdsa.GenerateKey(elliptic.P256(), crand.Reader)
	kid2Str, _ := didnuts.DIDKIDNamingFunc(priv2.Public())
	kid2, _ := did.ParseDIDURL(kid2Str)
	kid2.DID = kid.DID
	vm2, _ := did.NewVerificationMethod(*kid2, ssi.JsonWebKey2020, kid.DID, priv2.Public())
	doc.AddAssertionMethod(vm2)
	if services {
		mk := func(frag, typ string, ep any) did.Service {
			u := ssi.MustParseURI(kid.DID.String() + "#" + frag)
			return did.Service{ID: u, Type: typ, ServiceEndpoint: ep}
		}
		doc.Service = []did.Service{
			mk("s1", "NutsComm", "grpc://nuts.verif-harness.nl:5555"),
			mk("s2", "node-contact-info", map[string]any{"email": "a@example.com", "name": "n"}),
			mk("s3", "oauth", "https://example.com/oauth"),
			mk("s4", "ref", kid.DID.String()+"/serviceEndpoint?type=oauth"),
			mk("s5", "compound", map[string]any{"auth": kid.DID.String() + "/serviceEndpoint?type=oauth", "fhir": "https://example.com/fhir"}),
		}
	}
	bs, err := json.Marshal(doc)
	if err != nil {
		panic(err)
	}
	return docFixture{id: kid.DID, doc: doc, json: bs, kid: kidStr}
}

// staticResolver resolves from a map; a document under key "*" answers every DID.
type staticResolver map[string]*did.Document

func (s staticResolver) Resolve(id did.DID, _ *resolver.ResolveMetadata) (*did.Document, *resolver.DocumentMetadata, error) {
	if d, ok := s[id.String()]; ok {
		return d, &resolver.DocumentMetadata{}, nil
	}
	if d, ok := s["*"]; ok {
		return d, &resolver.DocumentMetadata{}, nil
	}
	return nil, nil, resolver.ErrNotFound
}

func didDocUnusual(fx docFixture) func(op, pos string, level int, _ *rand.Rand) []concrete {
	return func(op, pos string, level int, _ *rand.Rand) []concrete {
		if op != "unusual" {
			return nil
		}
		base := mustJSON(string(fx.json))
		mk := func(name string, f func(n *node)) concrete {
			n := base.clone()
			f(n)
			return concrete{"did-doc:" + name, n.bytes()}
		}
		id := fx.id.String()
		var out []concrete
		switch pos {
		case "array":
			out = append(out,
				mk("verificationMethod-null-element", func(n *node) { n.set("verificationMethod", arr(null())) }),
				mk("verificationMethod-without-key-material", func(n *node) {
					vm := n.get("verificationMethod").vals[0]
					vm.del("publicKeyJwk")
				}),
				mk("verificationMethod-base58-and-jwk", func(n *node) {
					vm := n.get("verificationMethod").vals[0]
					vm.set("publicKeyBase58", str("3J98t1WpEZ73CNmQviecrnyiWrnqRhWNLy"))
				}),
				mk("verificationMethod-unknown-type", func(n *node) {
					vm := n.get("verificationMethod").vals[0]
					vm.set("type", str("Ed25519VerificationKey2018"))
				}),
				mk("verificationMethod-ed25519-type-with-ec-jwk", func(n *node) {
					vm := n.get("verificationMethod").vals[0]
					vm.set("type", str("Ed25519VerificationKey2020"))
				}),
				mk("verificationMethod-jwk-wrong-curve-point", func(n *node) {
					vm := n.get("verificationMethod").vals[0]
					vm.get("publicKeyJwk").set("x", str("AAAA")).set("y", str("AAAA"))
				}),
				mk("verificationMethod-jwk-kty-oct", func(n *node) {
					vm := n.get("verificationMethod").vals[0]
					vm.set("publicKeyJwk", obj("kty", str("oct"), "k", str("AAAA")))
				}),
				mk("verificationMethod-jwk-rsa-tiny", func(n *node) {
					vm := n.get("verificationMethod").vals[0]
					vm.set("publicKeyJwk", obj("kty", str("RSA"), "n", str("AQ"), "e", str("AQ")))
				}),
				mk("assertionMethod-reference-to-unknown-key", func(n *node) { n.set("assertionMethod", arr(str(id+"#nope"))) }),
				mk("assertionMethod-relative-reference", func(n *node) { n.set("assertionMethod", arr(str("#"+strings.SplitN(fx.kid, "#", 2)[1]))) }),
				mk("assertionMethod-null-element", func(n *node) { n.set("assertionMethod", arr(null())) }),
				mk("assertionMethod-embedded-without-key", func(n *node) {
					n.set("assertionMethod", arr(obj("id", str(id+"#k9"), "type", str("JsonWebKey2020"), "controller", str(id))))
				}),
				mk("service-null-element", func(n *node) { n.set("service", arr(null())) }),
				mk("service-endpoint-null", func(n *node) {
					n.set("service", arr(obj("id", str(id+"#s"), "type", str("NutsComm"), "serviceEndpoint", null())))
				}),
				mk("service-endpoint-number", func(n *node) {
					n.set("service", arr(obj("id", str(id+"#s"), "type", str("NutsComm"), "serviceEndpoint", num("5"))))
				}),
				mk("service-endpoint-array-of-objects", func(n *node) {
					n.set("service", arr(obj("id", str(id+"#s"), "type", str("node-contact-info"), "serviceEndpoint", arr(obj("email", num("1"))))))
				}),
				mk("service-self-reference-cycle", func(n *node) {
					n.set("service", arr(obj("id", str(id+"#s"), "type", str("loop"), "serviceEndpoint", str(id+"/serviceEndpoint?type=loop"))))
				}),
				mk("service-two-step-cycle", func(n *node) {
					n.set("service", arr(
						obj("id", str(id+"#a"), "type", str("a"), "serviceEndpoint", str(id+"/serviceEndpoint?type=b")),
						obj("id", str(id+"#b"), "type", str("b"), "serviceEndpoint", str(id+"/serviceEndpoint?type=a"))))
				}),
				mk("service-reference-chain-depth-6", func(n *node) {
					var ss []*node
					for i := 0; i < 6; i++ {
						ss = append(ss, obj("id", str(fmt.Sprintf("%s#c%d", id, i)), "type", str(fmt.Sprintf("c%d", i)),
							"serviceEndpoint", str(fmt.Sprintf("%s/serviceEndpoint?type=c%d", id, i+1))))
					}
					ss = append(ss, obj("id", str(id+"#c6"), "type", str("c6"), "serviceEndpoint", str("https://example.com")))
					n.set("service", arr(ss...))
				}),
				mk("service-reference-bad-query", func(n *node) {
					n.set("service", arr(obj("id", str(id+"#s"), "type", str("r"), "serviceEndpoint", str(id+"/serviceEndpoint?type=a&type=b;%zz"))))
				}),
				mk("service-reference-other-did-unknown", func(n *node) {
					n.set("service", arr(obj("id", str(id+"#s"), "type", str("r"), "serviceEndpoint", str("did:nuts:unknown/serviceEndpoint?type=a"))))
				}),
				mk("service-reference-not-a-did", func(n *node) {
					n.set("service", arr(obj("id", str(id+"#s"), "type", str("r"), "serviceEndpoint", str("did:"))))
				}),
				mk("service-compound-nested-map", func(n *node) {
					n.set("service", arr(obj("id", str(id+"#s"), "type", str("c"), "serviceEndpoint", obj("a", obj("b", str("c"))))))
				}),
				mk("service-compound-null-value", func(n *node) {
					n.set("service", arr(obj("id", str(id+"#s"), "type", str("c"), "serviceEndpoint", obj("a", null()))))
				}),
				mk("service-nutscomm-bad-url", func(n *node) {
					n.set("service", arr(obj("id", str(id+"#s"), "type", str("NutsComm"), "serviceEndpoint", str("grpc://:::"))))
				}),
				mk("context-object-with-numeric-base", func(n *node) {
					n.set("@context", arr(str("https://www.w3.org/ns/did/v1"), obj("@base", num("5"))))
				}),
				mk("context-object-with-null-base", func(n *node) {
					n.set("@context", arr(str("https://www.w3.org/ns/did/v1"), obj("@base", null())))
				}),
				mk("context-object-with-string-base", func(n *node) {
					n.set("@context", arr(str("https://www.w3.org/ns/did/v1"), obj("@base", str(id))))
				}),
				mk("context-array-in-array", func(n *node) { n.set("@context", arr(arr(str("https://www.w3.org/ns/did/v1")))) }),
			)
		case "top":
			out = append(out,
				mk("id-with-fragment", func(n *node) { n.set("id", str(id+"#x")) }),
				mk("id-with-path-and-query", func(n *node) { n.set("id", str(id+"/a/b?c=d")) }),
				mk("id-other-method", func(n *node) { n.set("id", str("did:web:example.com")) }),
				mk("id-not-a-did", func(n *node) { n.set("id", str("urn:x")) }),
				mk("controller-string", func(n *node) { n.set("controller", str(id)) }),
				mk("controller-array-with-null", func(n *node) { n.set("controller", arr(str(id), null())) }),
				mk("controller-object", func(n *node) { n.set("controller", obj("id", str(id))) }),
				mk("alsoKnownAs-numbers", func(n *node) { n.set("alsoKnownAs", arr(num("1"))) }),
				mk("verificationMethod-object-instead-of-array", func(n *node) {
					n.set("verificationMethod", n.get("verificationMethod").vals[0].clone())
				}),
				mk("only-id", func(n *node) { *n = *obj("id", str(id)) }),
				mk("empty-object", func(n *node) { *n = *obj() }),
				concrete{"did-doc:json-null", []byte("null")},
				concrete{"did-doc:json-array", []byte("[]")},
				concrete{"did-doc:json-string", []byte(`"did:nuts:x"`)},
				concrete{"did-doc:json-number", []byte("1")},
				concrete{"did-doc:empty", []byte("")},
			)
		case "nested":
			out = append(out,
				mk("jwk-crv-unknown", func(n *node) { n.get("verificationMethod").vals[0].get("publicKeyJwk").set("crv", str("P-999")) }),
				mk("jwk-with-private-d", func(n *node) { n.get("verificationMethod").vals[0].get("publicKeyJwk").set("d", str("AAAA")) }),
				mk("jwk-x-not-base64", func(n *node) { n.get("verificationMethod").vals[0].get("publicKeyJwk").set("x", str("@@@")) }),
				mk("jwk-x-empty-y-missing", func(n *node) {
					n.get("verificationMethod").vals[0].get("publicKeyJwk").set("x", str("")).del("y")
				}),
				mk("jwk-okp-empty-x", func(n *node) {
					n.get("verificationMethod").vals[0].set("publicKeyJwk", obj("kty", str("OKP"), "crv", str("Ed25519"), "x", str("")))
				}),
				mk("vm-id-without-fragment", func(n *node) { n.get("verificationMethod").vals[0].set("id", str(id)) }),
				mk("vm-id-relative", func(n *node) { n.get("verificationMethod").vals[0].set("id", str("#k")) }),
				mk("vm-id-not-a-did", func(n *node) { n.get("verificationMethod").vals[0].set("id", str("x")) }),
				mk("vm-controller-missing", func(n *node) { n.get("verificationMethod").vals[0].del("controller") }),
			)
		}
		return out
	}
}

// parseDocShared unmarshals like the callers do. A panic INSIDE the unmarshalling is reported once, by the entry point
// didnuts.NetworkDocumentValidator (and didweb.Resolve for the remote path); the other document entry points treat such
// an input as refused so that one defect does not show up under five names.
func parseDocShared(in []byte) (doc did.Document, ok bool, detail string) {
	defer func() {
		if r := recover(); r != nil {
			ok, detail = false, "unmarshalling panics (reported by didnuts.NetworkDocumentValidator)"
		}
	}()
	if err := json.Unmarshal(in, &doc); err != nil {
		return doc, false, err.Error()
	}
	return doc, true, ""
}

// networkValidShared runs the network validator; a panic there is reported by didnuts.NetworkDocumentValidator only.
func networkValidShared(doc did.Document) (ok bool, detail string) {
	defer func() {
		if r := recover(); r != nil {
			ok, detail = false, "network validator panics (reported by didnuts.NetworkDocumentValidator)"
		}
	}()
	if err := didnuts.NetworkDocumentValidator().Validate(doc); err != nil {
		return false, err.Error()
	}
	return true, ""
}

func registerDIDDocs(w *world) {
	fx := newNutsDoc(true)
	plain := newNutsDoc(false)
	insts := []*instance{jsonInstance("nuts-doc-services", mustJSON(string(fx.json))), jsonInstance("nuts-doc-plain", mustJSON(string(plain.json)))}
	instances := func(level int) []*instance {
		if level == 0 {
			return insts[:1]
		}
		return insts
	}
	unusual := didDocUnusual(fx)

	w.add(&entryPoint{name: "didnuts.NetworkDocumentValidator", kind: "json", instances: instances, gen: unusual,
		call: func(in []byte) (bool, string) {
			// exactly what the ambassador does with a received payload
			var doc did.Document
			if err := json.Unmarshal(in, &doc); err != nil {
				return false, err.Error()
			}
			return errResult(didnuts.NetworkDocumentValidator().Validate(doc))
		}})

	w.add(&entryPoint{name: "didnuts.ManagedDocumentValidator", kind: "json", instances: instances, gen: unusual,
		call: func(in []byte) (bool, string) {
			doc, ok, detail := parseDocShared(in)
			if !ok {
				return false, detail
			}
			if ok, detail := networkValidShared(doc); !ok {
				return false, detail
			}
			sr := resolver.DIDServiceResolver{Resolver: staticResolver{fx.id.String(): &fx.doc}}
			return errResult(didnuts.ManagedDocumentValidator(sr).Validate(doc))
		}})

	// key + service resolution over a document some DID resolver returned (did:web answer, network document)
	w.add(&entryPoint{name: "resolver.KeyResolver", kind: "json", instances: instances, gen: unusual,
		call: func(in []byte) (bool, string) {
			doc, ok, detail := parseDocShared(in)
			if !ok {
				return false, detail
			}
			kr := resolver.DIDKeyResolver{Resolver: staticResolver{"*": &doc}}
			// verdict: resolution of the assertion key; the other relations and the relative form are exercised as well
			for _, rel := range []resolver.RelationType{resolver.Authentication, resolver.KeyAgreement, resolver.CapabilityInvocation, resolver.CapabilityDelegation, resolver.RelationType(99)} {
				_, _ = kr.ResolveKeyByID(fx.kid, nil, rel)
				_, _, _ = kr.ResolveKey(fx.id, nil, rel)
			}
			_, _ = kr.ResolveKeyByID("#"+strings.SplitN(fx.kid, "#", 2)[1], nil, resolver.AssertionMethod)
			_, _ = kr.ResolveKeyByID("not a did url", nil, resolver.AssertionMethod)
			_, _ = kr.ResolveKeyByID(fx.kid, nil, resolver.AssertionMethod)
			kid, _, err := kr.ResolveKey(fx.id, nil, resolver.AssertionMethod)
			if err != nil {
				return false, err.Error()
			}
			_, err = kr.ResolveKeyByID(kid, nil, resolver.AssertionMethod)
			return errResult(err)
		}})

	w.add(&entryPoint{name: "resolver.ServiceResolver", kind: "json", instances: instances, gen: unusual,
		call: func(in []byte) (bool, string) {
			doc, ok, detail := parseDocShared(in)
			if !ok {
				return false, detail
			}
			sr := resolver.DIDServiceResolver{Resolver: staticResolver{"*": &doc}}
			// verdict: every service the document itself lists resolves; unknown types are exercised as well
			var firstErr error
			for _, typ := range []string{"loop", "a", "c0", "r", "c", "", "NutsComm"} {
				_, _ = sr.Resolve(resolver.MakeServiceReference(fx.id, typ), resolver.DefaultMaxServiceReferenceDepth)
			}
			for _, s := range doc.Service {
				_, err := sr.Resolve(resolver.MakeServiceReference(fx.id, s.Type), resolver.DefaultMaxServiceReferenceDepth)
				if err != nil && firstErr == nil {
					firstErr = err
				}
			}
			return errResult(firstErr)
		}})

	// did:web: the HTTP answer of a remote server
	webID := did.MustParseDID("did:web:example.com:iam:org1")
	webDoc := mustJSON(string(fx.json))
	var rewrite func(n *node)
	rewrite = func(n *node) {
		if n.kind == 's' {
			n.str = strings.ReplaceAll(n.str, fx.id.String(), webID.String())
		}
		for _, v := range n.vals {
			rewrite(v)
		}
	}
	rewrite(webDoc)
	webFx := fx
	webFx.id = webID
	webFx.json = webDoc.bytes()
	webFx.kid = strings.ReplaceAll(fx.kid, fx.id.String(), webID.String())
	webUnusual := didDocUnusual(webFx)
	w.add(&entryPoint{name: "didweb.Resolve", kind: "json",
		instances: func(int) []*instance { return []*instance{jsonInstance("web-doc", webDoc)} },
		gen: func(op, pos string, level int, r *rand.Rand) []concrete {
			out := webUnusual(op, pos, level, r)
			if op == "unusual" && pos == "top" {
				// answers that differ in HTTP framing rather than JSON: encoded as "HTTP:<status>:<content-type>:<body>"
				out = append(out, concrete{"http:204-no-body", []byte("HTTP:204:application/json:")},
					concrete{"http:200-no-content-type", []byte("HTTP:200::" + string(webFx.json))},
					concrete{"http:200-bad-content-type", []byte("HTTP:200:;;;=:" + string(webFx.json))},
					concrete{"http:200-text-html", []byte("HTTP:200:text/html:<html>")},
					concrete{"http:500", []byte("HTTP:500:application/json:{}")},
					concrete{"http:200-did+ld+json-params", []byte("HTTP:200:application/did+ld+json; charset=\"utf-8\"; x=y:" + string(webFx.json))})
			}
			return out
		},
		call: func(in []byte) (bool, string) {
			status, ct, body := 200, "application/did+json", in
			if bytes.HasPrefix(in, []byte("HTTP:")) {
				parts := bytes.SplitN(in, []byte(":"), 4)
				if len(parts) == 4 {
					fmt.Sscan(string(parts[1]), &status)
					ct, body = string(parts[2]), parts[3]
				}
			}
			r := didweb.Resolver{HttpClient: doerFunc(func(req *http.Request) (*http.Response, error) {
				h := http.Header{}
				if ct != "" {
					h.Set("Content-Type", ct)
				}
				return &http.Response{StatusCode: status, Status: fmt.Sprint(status), Header: h, Body: io.NopCloser(bytes.NewReader(body)), Request: req}, nil
			})}
			doc, _, err := r.Resolve(webID, nil)
			if err != nil {
				return false, err.Error()
			}
			_ = doc // key and service resolution over the returned document: entry points resolver.KeyResolver / resolver.ServiceResolver
			return true, ""
		}})
}

type doerFunc func(req *http.Request) (*http.Response, error)

func (f doerFunc) Do(req *http.Request) (*http.Response, error) { return f(req) }

// ---------------------------------------------------------------------------------------------- did:key / did:jwk

func multicodecKey(code uint64, key []byte) string {
	buf := binary.AppendUvarint(nil, code)
	buf = append(buf, key...)
	return "did:key:z" + base58.Encode(buf)
}

func registerDIDKeyJWK(w *world) {
	edPub, _, _ := ed25519.GenerateKey(crand.Reader)
	p256, _ := ecdsa.GenerateKey(elliptic.P256(), crand.Reader)
	p256c := elliptic.MarshalCompressed(elliptic.P256(), p256.X, p256.Y)
	p384, _ := ecdsa.GenerateKey(elliptic.P384(), crand.Reader)
	p384c := elliptic.MarshalCompressed(elliptic.P384(), p384.X, p384.Y)
	p521, _ := ecdsa.GenerateKey(elliptic.P521(), crand.Reader)
	p521c := elliptic.MarshalCompressed(elliptic.P521(), p521.X, p521.Y)
	const (
		mcEd25519 = 0xed
		mcX25519  = 0xec
		mcSecp    = 0xe7
		mcBls     = 0xeb
		mcP256    = 0x1200
		mcP384    = 0x1201
		mcP521    = 0x1202
		mcRSA     = 0x1205
	)
	valid := map[string]string{"ed25519": multicodecKey(mcEd25519, edPub), "p256": multicodecKey(mcP256, p256c),
		"p384": multicodecKey(mcP384, p384c), "p521": multicodecKey(mcP521, p521c), "x25519": multicodecKey(mcX25519, edPub)}
	w.add(&entryPoint{name: "didkey.Resolve", kind: "text",
		gen: func(op, pos string, level int, rnd *rand.Rand) []concrete {
			var out []concrete
			put := func(n, s string) { out = append(out, concrete{"did:key:" + n, []byte(s)}) }
			if pos != "top" {
				return nil
			}
			codes := map[string]uint64{"ed25519": mcEd25519, "x25519": mcX25519, "secp256k1": mcSecp, "bls": mcBls, "p256": mcP256, "p384": mcP384, "p521": mcP521, "rsa": mcRSA}
			switch op {
			case "truncate":
				for n, v := range valid {
					put(n+"-minus-1-char", v[:len(v)-1])
					put(n+"-half", v[:len("did:key:z")+(len(v)-9)/2])
					put(n+"-prefix-only", "did:key:z")
				}
				for n, c := range codes {
					put(n+"-no-key-bytes", multicodecKey(c, nil))
					put(n+"-1-key-byte", multicodecKey(c, []byte{2}))
				}
			case "empty":
				put("empty-id", "did:key:")
				put("only-z", "did:key:z")
				for n, c := range codes {
					put(n+"-zero-key-32", multicodecKey(c, make([]byte, 32)))
					put(n+"-zero-key-33", multicodecKey(c, make([]byte, 33)))
					put(n+"-zero-key-49", multicodecKey(c, make([]byte, 49)))
					put(n+"-zero-key-67", multicodecKey(c, make([]byte, 67)))
				}
			case "type-string":
				put("no-multibase-prefix", "did:key:"+valid["ed25519"][9:])
				put("multibase-base64", "did:key:m"+base64.StdEncoding.EncodeToString(edPub))
				put("not-base58", "did:key:z0OIl")
				put("other-method", "did:web:example.com")
				put("with-fragment", valid["p256"]+"#frag")
				put("with-path-query", valid["p256"]+"/p?q=1")
			case "extreme-number":
				put("multicodec-max-uvarint", "did:key:z"+base58.Encode(append(bytes.Repeat([]byte{0xff}, 9), 0x01)))
				put("multicodec-overflow-uvarint", "did:key:z"+base58.Encode(bytes.Repeat([]byte{0xff}, 11)))
				put("multicodec-unknown", multicodecKey(0x999999, edPub))
				put("multicodec-zero", multicodecKey(0, edPub))
				put("huge-key", multicodecKey(mcEd25519, make([]byte, 1<<13)))
			case "duplicate":
				put("key-twice", multicodecKey(mcEd25519, append(append([]byte{}, edPub...), edPub...)))
				put("p256-twice", multicodecKey(mcP256, append(append([]byte{}, p256c...), p256c...)))
			case "unusual":
				for n, v := range valid {
					put("valid-"+n, v)
				}
				// points that are not on the curve / wrong compression tag / uncompressed form
				bad := append([]byte{}, p256c...)
				bad[5] ^= 0xff
				put("p256-flipped-x", multicodecKey(mcP256, bad))
				tag := append([]byte{}, p256c...)
				tag[0] = 0x05
				put("p256-bad-tag", multicodecKey(mcP256, tag))
				put("p256-uncompressed", multicodecKey(mcP256, elliptic.Marshal(elliptic.P256(), p256.X, p256.Y)))
				put("p384-with-p256-key", multicodecKey(mcP384, p256c))
				put("p521-with-p256-key", multicodecKey(mcP521, p256c))
				put("p521-garbage", multicodecKey(mcP521, []byte{1, 2, 3}))
				put("p521-empty", multicodecKey(mcP521, nil))
				bad521 := append([]byte{}, p521c...)
				bad521[7] ^= 0xff
				put("p521-flipped-x", multicodecKey(mcP521, bad521))
				put("rsa-garbage", multicodecKey(mcRSA, []byte{0x30, 0x03, 0x02, 0x01, 0x01}))
				put("rsa-der-truncated", multicodecKey(mcRSA, []byte{0x30, 0x82, 0xff, 0xff}))
				for k := 0; k < 20*(1+level*5); k++ {
					g := make([]byte, rnd.Intn(80))
					rnd.Read(g)
					cs := []uint64{mcEd25519, mcX25519, mcP256, mcP384, mcP521, mcRSA}
					put(fmt.Sprintf("random-%d", k), multicodecKey(cs[rnd.Intn(len(cs))], g))
				}
			}
			return out
		},
		call: func(in []byte) (bool, string) {
			id, err := did.ParseDID(string(in))
			if err != nil {
				return false, err.Error()
			}
			doc, _, err := didkey.NewResolver().Resolve(*id, nil)
			if err != nil {
				return false, err.Error()
			}
			kr := resolver.DIDKeyResolver{Resolver: staticResolver{"*": doc}}
			_, _, _ = kr.ResolveKey(*id, nil, resolver.AssertionMethod)
			_, _ = json.Marshal(doc)
			return true, ""
		}})

	// did:jwk: the identifier is base64(JSON JWK): JSON mutation operators apply to the embedded JWK
	jwkInst := func(name string, jwkJSON *node) *instance {
		return &instance{name: name, parts: map[string]*node{"body": jwkJSON}, order: []string{"body"}, basePos: map[string]string{"body": "top"},
			render: func(p map[string][]byte) []byte { return []byte("did:jwk:" + base64.RawStdEncoding.EncodeToString(p["body"])) }}
	}
	ecJWK := fromGo(txforge.NewKey().JWK())
	edJWK := obj("kty", str("OKP"), "crv", str("Ed25519"), "x", str(b64u.EncodeToString(edPub)))
	rsaJWK := obj("kty", str("RSA"), "n", str(b64u.EncodeToString(bytes.Repeat([]byte{0xc3}, 256))), "e", str("AQAB"), "alg", str("PS256"), "use", str("sig"), "key_ops", arr(str("verify")))
	jinsts := []*instance{jwkInst("ec", ecJWK), jwkInst("okp", edJWK), jwkInst("rsa", rsaJWK)}
	w.add(&entryPoint{name: "didjwk.Resolve", kind: "json",
		instances: func(level int) []*instance { return jinsts },
		gen: func(op, pos string, level int, _ *rand.Rand) []concrete {
			if op != "unusual" || pos != "top" {
				return nil
			}
			enc := func(s string) []byte { return []byte("did:jwk:" + base64.RawStdEncoding.EncodeToString([]byte(s))) }
			priv := txforge.NewKey().PrivJWK()
			pb, _ := json.Marshal(priv)
			return []concrete{
				{"did:jwk:private-ec", enc(string(pb))},
				{"did:jwk:symmetric", enc(`{"kty":"oct","k":"AAAA"}`)},
				{"did:jwk:not-base64", []byte("did:jwk:@@@@")},
				{"did:jwk:url-alphabet", []byte("did:jwk:" + b64u.EncodeToString([]byte(`{"kty":"EC","crv":"P-256","x":"__-_","y":"--__"}`)))},
				{"did:jwk:padded", []byte("did:jwk:" + base64.StdEncoding.EncodeToString([]byte(`{"kty":"EC"}`)))},
				{"did:jwk:empty", []byte("did:jwk:")},
				{"did:jwk:json-array", enc(`[{"kty":"EC"}]`)},
				{"did:jwk:json-null", enc(`null`)},
				{"did:jwk:jwks", enc(`{"keys":[{"kty":"EC"}]}`)},
				{"did:jwk:ec-only-private", enc(`{"kty":"EC","crv":"P-256","d":"AAAA"}`)},
				{"did:jwk:ec-x-too-long", enc(`{"kty":"EC","crv":"P-256","x":"` + b64u.EncodeToString(make([]byte, 100)) + `","y":"AA"}`)},
				{"did:jwk:ec-off-curve", enc(`{"kty":"EC","crv":"P-256","x":"AQ","y":"AQ"}`)},
				{"did:jwk:okp-x25519", enc(`{"kty":"OKP","crv":"X25519","x":"` + b64u.EncodeToString(edPub) + `"}`)},
				{"did:jwk:okp-short-x", enc(`{"kty":"OKP","crv":"Ed25519","x":"AQ"}`)},
				{"did:jwk:rsa-e-zero", enc(`{"kty":"RSA","n":"AQAB","e":""}`)},
				{"did:jwk:rsa-private-partial", enc(`{"kty":"RSA","n":"AQAB","e":"AQAB","d":"AQ"}`)},
				{"did:jwk:with-x5c-garbage", enc(`{"kty":"EC","crv":"P-256","x":"AQ","y":"AQ","x5c":["@@"]}`)},
			}
		},
		call: func(in []byte) (bool, string) {
			id, err := did.ParseDID(string(in))
			if err != nil {
				return false, err.Error()
			}
			doc, _, err := didjwk.NewResolver().Resolve(*id, nil)
			if err != nil {
				return false, err.Error()
			}
			kr := resolver.DIDKeyResolver{Resolver: staticResolver{"*": doc}}
			_, _, _ = kr.ResolveKey(*id, nil, resolver.AssertionMethod)
			_, _ = kr.ResolveKeyByID(id.String()+"#0", nil, resolver.AssertionMethod)
			return true, ""
		}})
}

var _ = errors.New
var _ = jwk.ParseKey
