package robust

// registerAll builds the entry points that the requested cases need (a whole node is only started when needed).
func registerAll(w *world, needed map[string]bool) {
	registerParseTransaction(w)
	registerIblt(w)
	registerDIDDocs(w)
	registerDIDKeyJWK(w)
	registerCredentialValidators(w)
	registerPE(w)
	registerTokens(w)
	registerBitstring(w)
	registerNodeEntries(w, needed)
	registerV2(w, needed)
	registerPayloadReceivers(w, needed)
}
