// Entry points of C19: credential validators, presentation exchange, tokens, DPoP, status list bitstring.
package robust

import (
	"bytes"
	"compress/gzip"
	"context"
	"crypto"
	"encoding/base64"
	"encoding/json"
	"errors"
	"fmt"
	"math/rand"
	"net/http"
	"net/http/httptest"
	"strings"
	"time"

	"github.com/labstack/echo/v4"
	"github.com/lestrrat-go/jwx/v2/jwk"
	"github.com/lestrrat-go/jwx/v2/jwt"
	"github.com/nuts-foundation/go-did/vc"
	nutsCrypto "github.com/nuts-foundation/nuts-node/crypto"
	"github.com/nuts-foundation/nuts-node/crypto/dpop"
	"github.com/nuts-foundation/nuts-node/http/tokenV2"
	"github.com/nuts-foundation/nuts-node/vcr/credential"
	"github.com/nuts-foundation/nuts-node/vcr/pe"
	"github.com/nuts-foundation/nuts-node/vcr/revocation"
	"golang.org/x/crypto/ssh"

	"verifharness/txforge"
)

const issuerDID = "did:nuts:GvkzxsezHvEc8nGhgz6Xo3jbqkHwswLmWw3CYtCm7hAW"
const subjectDID = "did:nuts:B8PUHs2AUHbFF1xLLK4eZjgErEcMXHxs68FteY7NDtCY"

func ts(d time.Duration) string { return time.Now().Add(d).UTC().Format(time.RFC3339) }

func ldProof() *node {
	return obj("type", str("JsonWebSignature2020"), "created", str(ts(-time.Hour)), "proofPurpose", str("assertionMethod"),
		"verificationMethod", str(issuerDID+"#key-1"),
		"jws", str("eyJhbGciOiJFUzI1NiIsImI2NCI6ZmFsc2UsImNyaXQiOlsiYjY0Il19..MEUCIQDxC7Qk1dD2bqVNb3t8mN0m3X1X0m8m8v1Z0m3X1X0m8gIgZ0m3X1X0m8m8v1Z0m3X1X0m8m8v1Z0m3X1X0m8m8v1Y"))
}

func orgCredential(issuer, subject, suffix string, withStatus bool) *node {
	ctx := arr(str("https://www.w3.org/2018/credentials/v1"), str("https://nuts.nl/credentials/v1"),
		str("https://w3c-ccg.github.io/lds-jws2020/contexts/lds-jws2020-v1.json"))
	n := obj("@context", ctx, "id", str(issuer+"#"+suffix),
		"type", arr(str("NutsOrganizationCredential"), str("VerifiableCredential")),
		"issuer", str(issuer), "issuanceDate", str(ts(-time.Hour)), "expirationDate", str(ts(240*time.Hour)),
		"credentialSubject", obj("id", str(subject), "organization", obj("name", str("Because We Care Healthcare Organisation"), "city", str("Eibergen"))))
	if withStatus {
		ctx.vals = append(ctx.vals, str("https://w3id.org/vc/status-list/2021/v1"))
		n.set("credentialStatus", obj("id", str("https://example.com/statuslist/1#5"), "type", str("StatusList2021Entry"),
			"statusPurpose", str("revocation"), "statusListIndex", str("5"), "statusListCredential", str("https://example.com/statuslist/1")))
	}
	n.set("proof", ldProof())
	return n
}

func authzCredential(issuer, subject string) *node {
	return obj("@context", arr(str("https://www.w3.org/2018/credentials/v1"), str("https://nuts.nl/credentials/v1"),
		str("https://w3c-ccg.github.io/lds-jws2020/contexts/lds-jws2020-v1.json")),
		"id", str(issuer+"#authz-1"),
		"type", arr(str("NutsAuthorizationCredential"), str("VerifiableCredential")),
		"issuer", str(issuer), "issuanceDate", str(ts(-time.Hour)),
		"credentialSubject", obj("id", str(subject), "purposeOfUse", str("eOverdracht-receiver"),
			"legalBase", obj("consentType", str("implied")),
			"resources", arr(obj("path", str("/Task/1"), "operations", arr(str("read"), str("update")), "userContext", boolean(true)))),
		"proof", ldProof())
}

func genericCredential(issuer, subject string) *node {
	return obj("@context", arr(str("https://www.w3.org/2018/credentials/v1"), str("https://w3id.org/vc/status-list/2021/v1")),
		"id", str(issuer+"#gen-1"),
		"type", arr(str("VerifiableCredential"), str("ExampleCredential")),
		"issuer", str(issuer), "issuanceDate", str(ts(-time.Hour)),
		"credentialSubject", arr(obj("id", str(subject), "role", str("nurse"), "level", num("3"), "tags", arr(str("a"), str("b")))),
		"credentialStatus", arr(obj("id", str("https://example.com/statuslist/1#7"), "type", str("StatusList2021Entry"),
			"statusPurpose", str("revocation"), "statusListIndex", str("7"), "statusListCredential", str("https://example.com/statuslist/1"))),
		"proof", arr(ldProof()))
}

func credentialUnusual(op, pos string, level int, _ *rand.Rand) []concrete {
	if op != "unusual" {
		return nil
	}
	mk := func(name string, base *node, f func(n *node)) concrete {
		n := base.clone()
		f(n)
		return concrete{"credential:" + name, n.bytes()}
	}
	org := orgCredential(issuerDID, subjectDID, "1", true)
	az := authzCredential(issuerDID, subjectDID)
	var out []concrete
	switch pos {
	case "top":
		out = append(out,
			mk("org-without-id", org, func(n *node) { n.del("id") }),
			mk("authz-without-id", az, func(n *node) { n.del("id") }),
			mk("org-id-not-a-did-url", org, func(n *node) { n.set("id", str("urn:uuid:1234")) }),
			mk("org-id-other-issuer", org, func(n *node) { n.set("id", str(subjectDID+"#1")) }),
			mk("org-issuer-object-without-id", org, func(n *node) { n.set("issuer", obj("name", str("x"))) }),
			mk("org-issuer-not-a-did", org, func(n *node) { n.set("issuer", str("https://example.com/issuer")) }),
			mk("org-three-types", org, func(n *node) { n.get("type").vals = append(n.get("type").vals, str("Extra")) }),
			mk("org-type-single-string", org, func(n *node) { n.set("type", str("NutsOrganizationCredential")) }),
			mk("org-both-nuts-types", org, func(n *node) {
				n.set("type", arr(str("NutsOrganizationCredential"), str("NutsAuthorizationCredential"), str("VerifiableCredential")))
			}),
			mk("org-subject-array-of-two", org, func(n *node) {
				n.set("credentialSubject", arr(n.get("credentialSubject").clone(), n.get("credentialSubject").clone()))
			}),
			mk("org-subject-string", org, func(n *node) { n.set("credentialSubject", str(subjectDID)) }),
			mk("org-issuance-date-year-0", org, func(n *node) { n.set("issuanceDate", str("0000-01-01T00:00:00Z")) }),
			mk("org-expiration-before-issuance", org, func(n *node) { n.set("expirationDate", str("1970-01-01T00:00:00Z")) }),
			mk("org-validFrom-v2-fields", org, func(n *node) { n.del("issuanceDate").set("validFrom", str(ts(-time.Hour))) }),
			mk("org-proof-null", org, func(n *node) { n.set("proof", null()) }),
			mk("org-no-proof", org, func(n *node) { n.del("proof") }),
			concrete{"credential:json-null", []byte("null")}, concrete{"credential:json-array", []byte("[]")},
			concrete{"credential:empty-object", []byte("{}")}, concrete{"credential:empty", []byte("")},
			concrete{"credential:jwt-garbage", []byte("eyJhbGciOiJFUzI1NiJ9.e30.AAAA")},
			concrete{"credential:jwt-vc-claim-string", []byte("eyJhbGciOiJFUzI1NiJ9." + b64u.EncodeToString([]byte(`{"vc":"x"}`)) + ".AAAA")},
			concrete{"credential:jwt-vc-claim-null", []byte("eyJhbGciOiJFUzI1NiJ9." + b64u.EncodeToString([]byte(`{"vc":null,"jti":5,"nbf":"x"}`)) + ".AAAA")},
		)
	case "nested":
		out = append(out,
			mk("org-organization-null", org, func(n *node) { n.get("credentialSubject").set("organization", null()) }),
			mk("org-organization-numbers", org, func(n *node) { n.get("credentialSubject").set("organization", obj("name", num("1"), "city", num("2"))) }),
			mk("org-subject-id-empty", org, func(n *node) { n.get("credentialSubject").set("id", str("")) }),
			mk("authz-resources-null-element", az, func(n *node) { n.get("credentialSubject").set("resources", arr(null())) }),
			mk("authz-operations-null", az, func(n *node) { n.get("credentialSubject").get("resources").vals[0].set("operations", arr(null())) }),
			mk("status-index-negative", org, func(n *node) { n.get("credentialStatus").set("statusListIndex", str("-1")) }),
			mk("status-index-huge", org, func(n *node) { n.get("credentialStatus").set("statusListIndex", str("99999999999999999999")) }),
			mk("status-index-number", org, func(n *node) { n.get("credentialStatus").set("statusListIndex", num("5")) }),
			mk("status-without-id", org, func(n *node) { n.get("credentialStatus").del("id") }),
			mk("status-unknown-type", org, func(n *node) { n.get("credentialStatus").set("type", str("Other")) }),
			mk("status-purpose-suspension", org, func(n *node) { n.get("credentialStatus").set("statusPurpose", str("suspension")) }),
			mk("status-credential-not-url", org, func(n *node) { n.get("credentialStatus").set("statusListCredential", str("::")) }),
		)
	case "array":
		out = append(out,
			mk("status-array-with-null", org, func(n *node) { n.set("credentialStatus", arr(null())) }),
			mk("status-array-of-strings", org, func(n *node) { n.set("credentialStatus", arr(str("x"))) }),
			mk("context-object-element", org, func(n *node) { n.get("@context").vals = append(n.get("@context").vals, obj("@vocab", str("x"))) }),
			mk("type-null-element", org, func(n *node) { n.get("type").vals = append(n.get("type").vals, null()) }),
		)
	case "proof":
		out = append(out,
			mk("proof-array-with-null", org, func(n *node) { n.set("proof", arr(null())) }),
			mk("proof-array-of-two", org, func(n *node) { n.set("proof", arr(ldProof(), ldProof())) }),
			mk("proof-jws-not-detached", org, func(n *node) { n.get("proof").set("jws", str("a.b.c")) }),
			mk("proof-jws-one-segment", org, func(n *node) { n.get("proof").set("jws", str("abc")) }),
			mk("proof-jws-header-not-json", org, func(n *node) { n.get("proof").set("jws", str(b64u.EncodeToString([]byte("[1]"))+"..AAAA")) }),
			mk("proof-verificationMethod-not-did-url", org, func(n *node) { n.get("proof").set("verificationMethod", str("x")) }),
			mk("proof-created-not-a-date", org, func(n *node) { n.get("proof").set("created", str("yesterday")) }),
			mk("proof-type-unknown", org, func(n *node) { n.get("proof").set("type", str("Ed25519Signature2018")) }),
		)
	}
	return out
}

func credentialInstances(level int) []*instance {
	out := []*instance{jsonInstance("org-vc", orgCredential(issuerDID, subjectDID, "1", true)), jsonInstance("authz-vc", authzCredential(issuerDID, subjectDID))}
	if level > 0 {
		out = append(out, jsonInstance("generic-vc", genericCredential(issuerDID, subjectDID)))
	}
	return out
}

func registerCredentialValidators(w *world) {
	w.add(&entryPoint{name: "credential.Validator", kind: "json", instances: credentialInstances, gen: credentialUnusual,
		call: func(in []byte) (bool, string) {
			c, err := vc.ParseVerifiableCredential(string(in))
			if err != nil {
				return false, err.Error()
			}
			if err := credential.FindValidator(*c).Validate(*c); err != nil {
				return false, err.Error()
			}
			// helpers the holder/verifier/issuer call on a validated credential
			_, _ = credential.ResolveSubjectDID(*c)
			_ = credential.ExtractTypes(*c)
			_, _ = c.CredentialStatuses()
			_, _ = c.SubjectDID()
			return true, ""
		}})
}

// -------------------------------------------------------------------------------------------- presentation exchange

const pdFixture = `{
 "id": "pd1", "name": "n", "purpose": "p",
 "format": {"ldp_vc": {"proof_type": ["JsonWebSignature2020"]}, "jwt_vc": {"alg": ["ES256"]}, "ldp_vp": {"proof_type": ["JsonWebSignature2020"]}, "jwt_vp": {"alg": ["ES256"]}},
 "submission_requirements": [
   {"name": "org", "rule": "pick", "min": 1, "max": 2, "from": "A"},
   {"name": "rest", "rule": "all", "from_nested": [{"name": "inner", "rule": "pick", "count": 1, "from": "B"}]}
 ],
 "input_descriptors": [
  {"id": "id_org", "name": "org", "purpose": "x", "group": ["A"], "constraints": {"fields": [
     {"path": ["$.type"], "filter": {"type": "string", "const": "NutsOrganizationCredential"}},
     {"id": "org_name", "path": ["$.credentialSubject.organization.name", "$.credentialSubject[0].organization.name"], "filter": {"type": "string", "pattern": "^(.+) Organisation$"}},
     {"id": "org_city", "path": ["$.credentialSubject.organization.city"], "optional": true, "filter": {"type": "string", "enum": ["Eibergen", "Doetinchem"]}}
  ]}},
  {"id": "id_authz", "group": ["B"], "constraints": {"limit_disclosure": "preferred", "fields": [
     {"path": ["$.type"], "filter": {"type": "string", "const": "NutsAuthorizationCredential"}},
     {"path": ["$.credentialSubject.resources[0].userContext"], "filter": {"type": "boolean"}}
  ]}},
  {"id": "id_any", "group": ["A", "B"], "constraints": {"fields": [
     {"path": ["$.issuer", "$.issuer.id"], "purpose": "x", "filter": {"type": "string"}}
  ]}}
 ]
}`

func walletCredentials() []vc.VerifiableCredential {
	var out []vc.VerifiableCredential
	for _, n := range []*node{orgCredential(issuerDID, subjectDID, "1", false), authzCredential(issuerDID, subjectDID), genericCredential(issuerDID, subjectDID)} {
		c, err := vc.ParseVerifiableCredential(string(n.bytes()))
		if err != nil {
			panic("harness: wallet credential does not parse: " + err.Error())
		}
		out = append(out, *c)
	}
	return out
}

func pdUnusual(op, pos string, level int, _ *rand.Rand) []concrete {
	if op != "unusual" {
		return nil
	}
	base := mustJSON(pdFixture)
	mk := func(name string, f func(n *node)) concrete {
		n := base.clone()
		f(n)
		return concrete{"pd:" + name, n.bytes()}
	}
	field := func(path string, filter *node) *node {
		f := obj("path", arr(str(path)))
		if filter != nil {
			f.set("filter", filter)
		}
		return f
	}
	setFields := func(n *node, fs ...*node) {
		n.del("submission_requirements")
		n.set("input_descriptors", arr(obj("id", str("d"), "constraints", obj("fields", arr(fs...)))))
	}
	var out []concrete
	switch pos {
	case "array":
		out = append(out,
			mk("pick-only-min", func(n *node) { n.set("submission_requirements", arr(obj("name", str("r"), "rule", str("pick"), "min", num("1"), "from", str("A")))) }),
			mk("pick-only-max", func(n *node) { n.set("submission_requirements", arr(obj("name", str("r"), "rule", str("pick"), "max", num("1"), "from", str("A")))) }),
			mk("pick-without-count-min-max", func(n *node) { n.set("submission_requirements", arr(obj("name", str("r"), "rule", str("pick"), "from", str("A")))) }),
			mk("pick-min-greater-than-max", func(n *node) {
				n.set("submission_requirements", arr(obj("name", str("r"), "rule", str("pick"), "min", num("3"), "max", num("1"), "from", str("A"))))
			}),
			mk("pick-count-zero", func(n *node) { n.set("submission_requirements", arr(obj("name", str("r"), "rule", str("pick"), "count", num("0"), "from", str("A")))) }),
			mk("pick-max-zero", func(n *node) { n.set("submission_requirements", arr(obj("name", str("r"), "rule", str("pick"), "min", num("0"), "max", num("0"), "from", str("A")))) }),
			mk("pick-count-huge", func(n *node) {
				n.set("submission_requirements", arr(obj("name", str("r"), "rule", str("pick"), "count", num("1000000"), "from", str("A"))))
			}),
			mk("all-from-unknown-group", func(n *node) { n.set("submission_requirements", arr(obj("name", str("r"), "rule", str("all"), "from", str("Z")))) }),
			mk("pick-from-unknown-group", func(n *node) {
				n.set("submission_requirements", arr(obj("name", str("r"), "rule", str("pick"), "count", num("1"), "from", str("Z"))))
			}),
			mk("from-and-from_nested", func(n *node) {
				n.set("submission_requirements", arr(obj("name", str("r"), "rule", str("all"), "from", str("A"), "from_nested", arr(obj("rule", str("all"), "from", str("B"))))))
			}),
			mk("from_nested-empty", func(n *node) { n.set("submission_requirements", arr(obj("name", str("r"), "rule", str("all"), "from_nested", arr()))) }),
			mk("from_nested-pick-only-min", func(n *node) {
				n.set("submission_requirements", arr(obj("name", str("r"), "rule", str("pick"), "min", num("1"), "from_nested",
					arr(obj("rule", str("all"), "from", str("A")), obj("rule", str("all"), "from", str("B"))))))
			}),
			mk("from_nested-depth-50", func(n *node) {
				cur := obj("rule", str("all"), "from", str("A"))
				for i := 0; i < 50; i++ {
					cur = obj("rule", str("all"), "from_nested", arr(cur))
				}
				n.set("submission_requirements", arr(cur))
			}),
			mk("neither-from-nor-from_nested", func(n *node) { n.set("submission_requirements", arr(obj("name", str("r"), "rule", str("all")))) }),
			mk("descriptors-without-groups-but-requirements", func(n *node) {
				for _, d := range n.get("input_descriptors").vals {
					d.del("group")
				}
			}),
			mk("duplicate-descriptor-ids", func(n *node) {
				for _, d := range n.get("input_descriptors").vals {
					d.set("id", str("same"))
				}
			}),
			mk("no-input-descriptors", func(n *node) { n.set("input_descriptors", arr()) }),
			mk("pattern-on-array-valued-path", func(n *node) { setFields(n, field("$.type", obj("type", str("string"), "pattern", str("Nuts.*")))) }),
			mk("pattern-on-array-valued-path-no-match", func(n *node) { setFields(n, field("$.type", obj("type", str("string"), "pattern", str("^Zzz$")))) }),
			mk("pattern-on-context-array", func(n *node) { setFields(n, field("$['@context']", obj("type", str("string"), "pattern", str("nuts")))) }),
			mk("const-on-array-valued-path", func(n *node) { setFields(n, field("$.type", obj("type", str("string"), "const", str("VerifiableCredential")))) }),
			mk("pattern-on-number", func(n *node) { setFields(n, field("$.credentialSubject[0].level", obj("type", str("number"), "pattern", str("3")))) }),
			mk("pattern-type-string-on-number-value", func(n *node) { setFields(n, field("$.credentialSubject[0].level", obj("type", str("string"), "pattern", str("3")))) }),
			mk("pattern-on-bool", func(n *node) {
				setFields(n, field("$.credentialSubject.resources[0].userContext", obj("type", str("string"), "pattern", str("true"))))
			}),
			mk("pattern-on-object", func(n *node) { setFields(n, field("$.credentialSubject", obj("type", str("string"), "pattern", str("x")))) }),
			mk("pattern-on-nested-array-of-arrays", func(n *node) { setFields(n, field("$..operations", obj("type", str("string"), "pattern", str("read")))) }),
			mk("type-only-filter-on-array", func(n *node) { setFields(n, field("$.type", obj("type", str("string")))) }),
			mk("type-array-filter", func(n *node) { setFields(n, field("$.type", obj("type", str("array")))) }),
			mk("type-object-filter", func(n *node) { setFields(n, field("$.credentialSubject", obj("type", str("object")))) }),
			mk("filter-without-type", func(n *node) { setFields(n, field("$.issuer", obj("const", str(issuerDID)))) }),
			mk("enum-empty", func(n *node) { setFields(n, field("$.issuer", obj("type", str("string"), "enum", arr()))) }),
			mk("pattern-invalid-regex", func(n *node) { setFields(n, field("$.issuer", obj("type", str("string"), "pattern", str("(")))) }),
			mk("pattern-two-capture-groups", func(n *node) { setFields(n, field("$.issuer", obj("type", str("string"), "pattern", str("(did):(nuts)")))) }),
			mk("pattern-lookbehind-backreference", func(n *node) { setFields(n, field("$.issuer", obj("type", str("string"), "pattern", str(`(?<=d)(i)\1*`)))) }),
			mk("pattern-empty", func(n *node) { setFields(n, field("$.issuer", obj("type", str("string"), "pattern", str("")))) }),
			mk("pattern-nested-quantifier-on-did", func(n *node) { setFields(n, field("$.issuer", obj("type", str("string"), "pattern", str(`(\w+)*!`)))) }),
			mk("pattern-nested-quantifier-on-name", func(n *node) {
				setFields(n, field("$.credentialSubject.organization.name", obj("type", str("string"), "pattern", str(`^([\w ]+)*!$`))))
			}),
			mk("path-empty-string", func(n *node) { setFields(n, field("", nil)) }),
			mk("path-not-jsonpath", func(n *node) { setFields(n, field("credentialSubject", nil)) }),
			mk("path-unbalanced", func(n *node) { setFields(n, field("$.a[", nil)) }),
			mk("path-wildcard", func(n *node) { setFields(n, field("$..*", obj("type", str("string"), "pattern", str("a")))) }),
			mk("path-recursive-descent-id", func(n *node) { setFields(n, field("$..id", obj("type", str("string"), "const", str(subjectDID)))) }),
			mk("path-filter-expression", func(n *node) { setFields(n, field("$.credentialSubject[?(@.id)]", nil)) }),
			mk("path-script-expression", func(n *node) { setFields(n, field("$.type[(@.length-1)]", nil)) }),
			mk("path-negative-index", func(n *node) { setFields(n, field("$.type[-1]", obj("type", str("string")))) }),
			mk("path-huge-index", func(n *node) { setFields(n, field("$.type[99999999999999999999]", nil)) }),
			mk("path-slice", func(n *node) { setFields(n, field("$.type[0:100:0]", nil)) }),
			mk("paths-empty-array", func(n *node) { setFields(n, obj("path", arr())) }),
			mk("fields-empty", func(n *node) { setFields(n) }),
			mk("constraints-empty", func(n *node) {
				n.del("submission_requirements")
				n.set("input_descriptors", arr(obj("id", str("d"), "constraints", obj())))
			}),
		)
	case "top":
		out = append(out,
			mk("format-empty", func(n *node) { n.set("format", obj()) }),
			mk("format-unknown-only", func(n *node) { n.set("format", obj("mso_mdoc", obj("alg", arr(str("x"))))) }),
			mk("format-ldp_vc-empty-proof-types", func(n *node) { n.set("format", obj("ldp_vc", obj("proof_type", arr()))) }),
			mk("no-format", func(n *node) { n.del("format") }),
			mk("only-id-and-descriptors", func(n *node) { *n = *obj("id", str("x"), "input_descriptors", arr()) }),
			concrete{"pd:json-null", []byte("null")}, concrete{"pd:json-array", []byte("[]")}, concrete{"pd:empty", []byte("")},
		)
	case "nested":
		out = append(out,
			mk("descriptor-format-jwt-only", func(n *node) { n.get("input_descriptors").vals[0].set("format", obj("jwt_vc", obj("alg", arr(str("ES256"))))) }),
			mk("descriptor-format-unknown-proof", func(n *node) {
				n.get("input_descriptors").vals[0].set("format", obj("ldp_vc", obj("proof_type", arr(str("Nope")))))
			}),
		)
	}
	return out
}

func registerPE(w *world) {
	wallet := walletCredentials()
	w.add(&entryPoint{name: "pe.PresentationDefinition", kind: "json",
		instances: func(int) []*instance { return []*instance{jsonInstance("pd", mustJSON(pdFixture))} }, gen: pdUnusual,
		call: func(in []byte) (bool, string) {
			def, err := pe.ParsePresentationDefinition(in)
			if err != nil {
				return false, err.Error()
			}
			var firstErr error
			note := func(err error) {
				if err != nil && firstErr == nil {
					firstErr = err
				}
			}
			_ = def.CredentialsRequired()
			vcs, mappings, err := def.Match(wallet)
			note(err)
			_, _, _ = def.Match(nil) // an empty wallet: exercised, not part of the verdict
			// the wallet builds a submission; the verifier resolves the constraint fields of the mapped credentials
			b := def.PresentationSubmissionBuilder()
			holder := mustDID(subjectDID)
			b.AddWallet(holder, wallet)
			_, _, err = b.Build("ldp_vp")
			note(err)
			if err == nil && len(mappings) == len(vcs) {
				m := map[string]vc.VerifiableCredential{}
				for i, mp := range mappings {
					m[mp.Id] = vcs[i]
				}
				_, err = def.ResolveConstraintsFields(m)
				note(err)
			}
			return errResult(firstErr)
		}})

	// presentation_submission + vp_token as a verifier receives them
	def, err := pe.ParsePresentationDefinition([]byte(pdFixture))
	if err != nil {
		panic("harness: " + err.Error())
	}
	org := orgCredential(issuerDID, subjectDID, "1", false)
	az := authzCredential(issuerDID, subjectDID)
	vp := obj("@context", arr(str("https://www.w3.org/2018/credentials/v1")), "id", str(subjectDID+"#vp1"), "type", arr(str("VerifiablePresentation")),
		"holder", str(subjectDID), "verifiableCredential", arr(org, az),
		"proof", obj("type", str("JsonWebSignature2020"), "created", str(ts(-time.Minute)), "proofPurpose", str("authentication"),
			"verificationMethod", str(subjectDID+"#key-1"), "challenge", str("n"), "domain", str("d"), "jws", str("eyJhbGciOiJFUzI1NiJ9..AAAA")))
	sub := obj("id", str("s1"), "definition_id", str("pd1"), "descriptor_map", arr(
		obj("id", str("id_org"), "format", str("ldp_vp"), "path", str("$"),
			"path_nested", obj("id", str("id_org"), "format", str("ldp_vc"), "path", str("$.verifiableCredential[0]"))),
		obj("id", str("id_authz"), "format", str("ldp_vp"), "path", str("$"),
			"path_nested", obj("id", str("id_authz"), "format", str("ldp_vc"), "path", str("$.verifiableCredential[1]")))))
	subInst := jsonInstance("submission+vp_token", obj("presentation_submission", sub, "vp_token", vp))
	// array envelope with a JWT VP inside
	jwtVP := signJWTVP(txforge.NewKey(), nil)
	subArr := obj("id", str("s2"), "definition_id", str("pd1"), "descriptor_map", arr(
		obj("id", str("id_org"), "format", str("ldp_vp"), "path", str("$[0]"),
			"path_nested", obj("id", str("id_org"), "format", str("ldp_vc"), "path", str("$.verifiableCredential[0]"))),
		obj("id", str("id_authz"), "format", str("jwt_vp"), "path", str("$[1]"),
			"path_nested", obj("id", str("id_authz"), "format", str("ldp_vc"), "path", str("$.vp.verifiableCredential[0]")))))
	subArrInst := jsonInstance("submission+vp_token-array", obj("presentation_submission", subArr, "vp_token", arr(vp.clone(), str(jwtVP))))
	w.add(&entryPoint{name: "pe.PresentationSubmission", kind: "json",
		instances: func(level int) []*instance {
			if level == 0 {
				return []*instance{subInst}
			}
			return []*instance{subInst, subArrInst}
		},
		gen: func(op, pos string, level int, _ *rand.Rand) []concrete {
			if op != "unusual" {
				return nil
			}
			mk := func(name string, f func(n *node)) concrete {
				n := subInst.parts["body"].clone()
				f(n)
				return concrete{"submission:" + name, n.bytes()}
			}
			dm := func(n *node) *node { return n.get("presentation_submission").get("descriptor_map") }
			switch pos {
			case "array":
				return []concrete{
					mk("path-to-missing-index", func(n *node) { dm(n).vals[0].get("path_nested").set("path", str("$.verifiableCredential[7]")) }),
					mk("path-to-string-member", func(n *node) { dm(n).vals[0].get("path_nested").set("path", str("$.holder")) }),
					mk("path-to-array", func(n *node) { dm(n).vals[0].get("path_nested").set("path", str("$.verifiableCredential")) }),
					mk("path-invalid-jsonpath", func(n *node) { dm(n).vals[0].set("path", str("$[")) }),
					mk("path-nested-50-deep", func(n *node) {
						cur := obj("id", str("id_org"), "format", str("ldp_vc"), "path", str("$.verifiableCredential[0]"))
						for i := 0; i < 50; i++ {
							cur = obj("id", str("id_org"), "format", str("ldp_vp"), "path", str("$"), "path_nested", cur)
						}
						dm(n).vals[0] = cur
					}),
					mk("format-jwt_vc-on-json-object", func(n *node) { dm(n).vals[0].get("path_nested").set("format", str("jwt_vc")) }),
					mk("format-ldp_vc-on-presentation", func(n *node) { dm(n).vals[0].set("format", str("ldp_vc")) }),
					mk("format-unknown", func(n *node) { dm(n).vals[0].set("format", str("mso_mdoc")) }),
					mk("same-credential-twice", func(n *node) { dm(n).vals[1].get("path_nested").set("path", str("$.verifiableCredential[0]")) }),
					mk("descriptor-map-empty", func(n *node) { n.get("presentation_submission").set("descriptor_map", arr()) }),
					mk("unknown-descriptor-id", func(n *node) { dm(n).vals[0].set("id", str("zzz")) }),
					mk("vp-without-credentials", func(n *node) { n.get("vp_token").set("verifiableCredential", arr()) }),
					mk("vp-credentials-null-element", func(n *node) { n.get("vp_token").set("verifiableCredential", arr(null())) }),
					mk("vp-credential-as-jwt-string", func(n *node) { n.get("vp_token").set("verifiableCredential", arr(str("a.b.c"))) }),
				}
			case "top":
				return []concrete{
					mk("vp_token-empty-array", func(n *node) { n.set("vp_token", arr()) }),
					mk("vp_token-array-of-null", func(n *node) { n.set("vp_token", arr(null())) }),
					mk("vp_token-string-garbage", func(n *node) { n.set("vp_token", str("not-a-jwt")) }),
					mk("vp_token-empty-string", func(n *node) { n.set("vp_token", str("")) }),
					mk("vp_token-jwt-without-vp-claim", func(n *node) {
						n.set("vp_token", str("eyJhbGciOiJFUzI1NiJ9."+b64u.EncodeToString([]byte(`{"iss":"x"}`))+".AAAA"))
					}),
					mk("vp_token-jwt-vp-claim-number", func(n *node) {
						n.set("vp_token", str("eyJhbGciOiJFUzI1NiJ9."+b64u.EncodeToString([]byte(`{"iss":"`+subjectDID+`","vp":5}`))+".AAAA"))
					}),
					mk("vp-without-proof-and-holder", func(n *node) { n.get("vp_token").del("proof").del("holder") }),
					mk("vp-proof-verificationMethod-not-did", func(n *node) { n.get("vp_token").get("proof").set("verificationMethod", str("x")) }),
					mk("vp-proof-array-empty", func(n *node) { n.get("vp_token").set("proof", arr()) }),
				}
			}
			return nil
		},
		call: func(in []byte) (bool, string) {
			var params map[string]json.RawMessage
			if err := json.Unmarshal(in, &params); err != nil {
				return false, err.Error()
			}
			s, err := pe.ParsePresentationSubmission(params["presentation_submission"])
			if err != nil {
				return false, err.Error()
			}
			// vp_token arrives as a form parameter: JSON object / array text, or a bare JWT (JSON string here)
			tok := []byte(params["vp_token"])
			var asString string
			if json.Unmarshal(tok, &asString) == nil {
				tok = []byte(asString)
			}
			env, err := pe.ParseEnvelope(tok)
			if err != nil {
				return false, err.Error()
			}
			_, _ = json.Marshal(env)
			_, err = s.Validate(*env, *def)
			if err != nil {
				return false, err.Error()
			}
			return true, ""
		}})
}

// ----------------------------------------------------------------------------------------------------------- tokens

func jwtClaims(extra ...any) *node {
	now := time.Now().Unix()
	n := obj("iss", str("user@example.com"), "sub", str("subject"), "aud", arr(str("nuts-node")),
		"exp", num(fmt.Sprint(now+300)), "nbf", num(fmt.Sprint(now-10)), "iat", num(fmt.Sprint(now-10)),
		"jti", str("0d5b0a0e-5f2b-4c38-8c8e-6a1a3d6c7e11"),
		"nested", obj("a", arr(num("1"), obj("b", str("c")))))
	for i := 0; i+1 < len(extra); i += 2 {
		n.set(extra[i].(string), extra[i+1].(*node))
	}
	return n
}

func jwtUnusual(header func() *node, claims func() *node, key txforge.Key) func(op, pos string, level int, _ *rand.Rand) []concrete {
	return func(op, pos string, level int, _ *rand.Rand) []concrete {
		if op != "unusual" {
			return nil
		}
		sign := func(h, c []byte) []byte { return txforge.CompactRaw(h, c, key) }
		mkH := func(name string, f func(n *node)) concrete {
			h := header()
			f(h)
			return concrete{"jwt:" + name, sign(h.bytes(), claims().bytes())}
		}
		mkC := func(name string, f func(n *node)) concrete {
			c := claims()
			f(c)
			return concrete{"jwt:" + name, sign(header().bytes(), c.bytes())}
		}
		valid := sign(header().bytes(), claims().bytes())
		switch pos {
		case "header":
			return []concrete{
				mkH("alg-none", func(n *node) { n.set("alg", str("none")) }),
				mkH("alg-HS256", func(n *node) { n.set("alg", str("HS256")) }),
				mkH("alg-unknown", func(n *node) { n.set("alg", str("XX999")) }),
				mkH("alg-lowercase", func(n *node) { n.set("alg", str("es256")) }),
				mkH("crit-unknown", func(n *node) { n.set("crit", arr(str("zzz"))).set("zzz", num("1")) }),
				mkH("crit-empty", func(n *node) { n.set("crit", arr()) }),
				mkH("b64-false", func(n *node) { n.set("b64", boolean(false)).set("crit", arr(str("b64"))) }),
				mkH("jwk-private", func(n *node) { n.set("jwk", fromGo(key.PrivJWK())) }),
				mkH("jwk-symmetric", func(n *node) { n.set("jwk", obj("kty", str("oct"), "k", str("AAAA"))) }),
				mkH("jwk-empty-object", func(n *node) { n.set("jwk", obj()) }),
				mkH("jwk-rsa-tiny", func(n *node) { n.set("jwk", obj("kty", str("RSA"), "n", str("AQ"), "e", str("AQ"))) }),
				mkH("jwk-ec-off-curve", func(n *node) { n.set("jwk", obj("kty", str("EC"), "crv", str("P-256"), "x", str("AQ"), "y", str("AQ"))) }),
				mkH("jku-set", func(n *node) { n.set("jku", str("http://127.0.0.1:1/jwks")) }),
				mkH("x5c-garbage", func(n *node) { n.set("x5c", arr(str("AAAA"))) }),
				mkH("x5u-set", func(n *node) { n.set("x5u", str("http://127.0.0.1:1/cert")) }),
				mkH("kid-number", func(n *node) { n.set("kid", num("7")) }),
				mkH("kid-empty", func(n *node) { n.set("kid", str("")) }),
				mkH("typ-number", func(n *node) { n.set("typ", num("7")) }),
				mkH("zip-DEF", func(n *node) { n.set("zip", str("DEF")) }),
				mkH("enc-set-looks-like-jwe", func(n *node) { n.set("enc", str("A256GCM")) }),
				{"jwt:json-general-two-signatures", txforge.GeneralJSON(claims().bytes(), []map[string]any{{"alg": "ES256", "kid": "a"}, {"alg": "ES256", "kid": "b"}}, []txforge.Key{key, txforge.NewKey()})},
				{"jwt:json-flattened", txforge.Flattened(valid)},
				{"jwt:json-general-no-signatures", []byte(`{"payload":"e30","signatures":[]}`)},
			}
		case "top":
			return []concrete{
				mkC("exp-string", func(n *node) { n.set("exp", str("tomorrow")) }),
				mkC("exp-float", func(n *node) { n.set("exp", num(fmt.Sprintf("%d.5", time.Now().Unix()+100))) }),
				mkC("exp-negative", func(n *node) { n.set("exp", num("-1")) }),
				mkC("iat-in-future", func(n *node) { n.set("iat", num(fmt.Sprint(time.Now().Unix()+99999))) }),
				mkC("aud-string", func(n *node) { n.set("aud", str("nuts-node")) }),
				mkC("aud-array-of-numbers", func(n *node) { n.set("aud", arr(num("1"))) }),
				mkC("aud-nested-array", func(n *node) { n.set("aud", arr(arr(str("nuts-node")))) }),
				mkC("iss-number", func(n *node) { n.set("iss", num("1")) }),
				mkC("jti-number", func(n *node) { n.set("jti", num("1")) }),
				mkC("jti-1MB", func(n *node) { n.set("jti", str(strings.Repeat("j", 1<<20))) }),
				mkC("sub-empty", func(n *node) { n.set("sub", str("")) }),
				mkC("no-claims", func(n *node) { *n = *obj() }),
				{"jwt:payload-not-json", sign(header().bytes(), []byte("hello"))},
				{"jwt:payload-json-array", sign(header().bytes(), []byte("[1]"))},
				{"jwt:payload-json-null", sign(header().bytes(), []byte("null"))},
				{"jwt:payload-empty", sign(header().bytes(), []byte(""))},
				{"jwt:whitespace-around", []byte(" " + string(valid) + "\n")},
				{"jwt:five-segments-jwe-like", []byte("a.b.c.d.e")},
				{"jwt:empty", []byte("")},
			}
		case "proof":
			h, p, s := txforge.Split(valid)
			return []concrete{
				{"jwt:signature-empty", []byte(h + "." + p + ".")},
				{"jwt:signature-1-byte", []byte(h + "." + p + ".AA")},
				{"jwt:signature-63-bytes", []byte(h + "." + p + "." + s[:len(s)-2])},
				{"jwt:signature-der-encoded", []byte(h + "." + p + "." + b64u.EncodeToString([]byte{0x30, 0x06, 0x02, 0x01, 0x01, 0x02, 0x01, 0x01}))},
				{"jwt:signature-zero-r-s", []byte(h + "." + p + "." + b64u.EncodeToString(make([]byte, 64)))},
				{"jwt:signature-huge", []byte(h + "." + p + "." + b64u.EncodeToString(make([]byte, 1<<16)))},
				{"jwt:signature-std-base64", []byte(h + "." + p + "." + base64.StdEncoding.EncodeToString(bytes.Repeat([]byte{0xfb}, 64)))},
				{"jwt:signature-flipped", txforge.FlipSig(valid)},
			}
		}
		return nil
	}
}

func registerTokens(w *world) {
	key := txforge.NewKey()
	kid := issuerDID + "#key-1"
	hdr := func() *node { return obj("alg", str("ES256"), "typ", str("JWT"), "kid", str(kid)) }
	inst := joseInstance("jwt", hdr(), jwtClaims(), nil, key)
	w.add(&entryPoint{name: "crypto.ParseJWT", kind: "jose",
		instances: func(int) []*instance { return []*instance{inst} },
		gen:       jwtUnusual(hdr, func() *node { return jwtClaims() }, key),
		call: func(in []byte) (bool, string) {
			tok, err := nutsCrypto.ParseJWT(string(in), func(k string) (crypto.PublicKey, error) {
				if k != kid {
					return nil, errors.New("unknown kid")
				}
				return key.Priv.Public(), nil
			}, jwt.WithValidate(true), jwt.WithAcceptableSkew(5*time.Second))
			if err != nil {
				return false, err.Error()
			}
			_, _ = tok.AsMap(context.Background())
			_, _ = nutsCrypto.ExtractProtectedHeaders(string(in))
			return true, ""
		}})

	// API token middleware (http/tokenV2)
	sshPub, err := ssh.NewPublicKey(key.Priv.Public())
	if err != nil {
		panic(err)
	}
	authorizedKeys := append(bytes.TrimSpace(ssh.MarshalAuthorizedKey(sshPub)), []byte(" user@example.com\n")...)
	mw, err := tokenV2.New(nil, "nuts-node", authorizedKeys)
	if err != nil {
		panic("harness: tokenV2.New: " + err.Error())
	}
	fp := ssh.FingerprintSHA256(sshPub)
	thdr := func() *node { return obj("alg", str("ES256"), "typ", str("JWT"), "kid", str(fp)) }
	tinst := joseInstance("api-token", thdr(), jwtClaims(), nil, key)
	e := echo.New()
	w.add(&entryPoint{name: "tokenV2.Middleware", kind: "jose",
		instances: func(int) []*instance { return []*instance{tinst} },
		gen:       jwtUnusual(thdr, func() *node { return jwtClaims() }, key),
		call: func(in []byte) (bool, string) {
			req := httptest.NewRequest(http.MethodGet, "/internal/vdr/v1/did", nil)
			req.Header["Authorization"] = []string{"Bearer " + string(in)}
			rec := httptest.NewRecorder()
			ctx := e.NewContext(req, rec)
			reached := false
			err := mw.Handler(func(c echo.Context) error { reached = true; return nil })(ctx)
			if err != nil {
				return false, err.Error()
			}
			if !reached {
				return false, "next handler not reached"
			}
			return true, ""
		}})

	// DPoP proof
	dhdr := func() *node { return obj("typ", str("dpop+jwt"), "alg", str("ES256"), "jwk", fromGo(key.JWK())) }
	dclaims := func() *node {
		return obj("jti", str("jti-1"), "htm", str("POST"), "htu", str("https://server.example.com:443/token?x=1#f"),
			"iat", num(fmt.Sprint(time.Now().Unix())), "ath", str("fUHyO2r2Z3DZ53EsNrWBb0xWXoaNy59IiKCAqksmQEo"))
	}
	dinst := joseInstance("dpop", dhdr(), dclaims(), nil, key)
	jwkKey, _ := jwk.FromRaw(key.Priv.Public())
	tp, _ := jwkKey.Thumbprint(crypto.SHA256)
	jkt := b64u.EncodeToString(tp)
	base := jwtUnusual(dhdr, dclaims, key)
	w.add(&entryPoint{name: "dpop.Parse", kind: "jose",
		instances: func(int) []*instance { return []*instance{dinst} },
		gen: func(op, pos string, level int, r *rand.Rand) []concrete {
			out := base(op, pos, level, r)
			if op == "unusual" && pos == "top" {
				mk := func(name string, f func(n *node)) concrete {
					c := dclaims()
					f(c)
					return concrete{"dpop:" + name, txforge.CompactRaw(dhdr().bytes(), c.bytes(), key)}
				}
				out = append(out,
					mk("htu-number", func(n *node) { n.set("htu", num("5")) }),
					mk("htu-array", func(n *node) { n.set("htu", arr(str("https://x"))) }),
					mk("htu-object", func(n *node) { n.set("htu", obj("a", str("b"))) }),
					mk("htu-bool", func(n *node) { n.set("htu", boolean(true)) }),
					mk("htm-number", func(n *node) { n.set("htm", num("5")) }),
					mk("htm-array", func(n *node) { n.set("htm", arr(str("POST"))) }),
					mk("htu-unparsable-url", func(n *node) { n.set("htu", str("http://[::1")) }),
					mk("htu-control-chars", func(n *node) { n.set("htu", str("https://a\x7f\x01/")) }),
					mk("htu-percent-garbage", func(n *node) { n.set("htu", str("https://example.com/%zz")) }),
					mk("htu-only-colon", func(n *node) { n.set("htu", str(":")) }),
					mk("htu-relative", func(n *node) { n.set("htu", str("/token")) }),
					mk("jti-too-long", func(n *node) { n.set("jti", str(strings.Repeat("j", 5000))) }),
					mk("iat-string", func(n *node) { n.set("iat", str("now")) }),
				)
			}
			return out
		},
		call: func(in []byte) (bool, string) {
			d, err := dpop.Parse(string(in))
			if err != nil {
				return false, err.Error()
			}
			// what the token endpoint / introspection do with a parsed proof
			_ = d.HTU()
			_ = d.HTM()
			ok, err := d.Match(jkt, "POST", "https://server.example.com/token")
			_, _ = json.Marshal(d)
			if err != nil {
				return false, err.Error()
			}
			if !ok {
				return false, "no match"
			}
			return true, ""
		}})
}

// ------------------------------------------------------------------------------------------ status list bitstring

func gz(data []byte) []byte {
	var buf bytes.Buffer
	zw := gzip.NewWriter(&buf)
	_, _ = zw.Write(data)
	_ = zw.Close()
	return buf.Bytes()
}

func encodedListVariants(op, pos string, level int, rnd *rand.Rand) []concrete {
	if pos != "top" {
		return nil
	}
	valid := b64u.EncodeToString(gz(make([]byte, 16*1024)))
	var out []concrete
	put := func(n, s string) { out = append(out, concrete{"encodedList:" + n, []byte(s)}) }
	switch op {
	case "truncate":
		put("minus-1", valid[:len(valid)-1])
		put("minus-2", valid[:len(valid)-2])
		put("half", valid[:len(valid)/2])
		put("gzip-header-only", b64u.EncodeToString(gz(nil)[:10]))
		put("gzip-without-trailer", b64u.EncodeToString(gz(make([]byte, 1000))[:20]))
	case "empty":
		put("empty", "")
		put("gzip-of-nothing", b64u.EncodeToString(gz(nil)))
		put("gzip-of-one-byte", b64u.EncodeToString(gz([]byte{0xff})))
	case "type-string":
		put("not-base64", "@@@@")
		put("std-alphabet", base64.StdEncoding.EncodeToString(gz(bytes.Repeat([]byte{0xfb, 0xff}, 100))))
		put("padded", base64.URLEncoding.EncodeToString(gz(make([]byte, 16*1024))))
		put("not-gzip", b64u.EncodeToString([]byte("hello world")))
		put("zlib-not-gzip", b64u.EncodeToString([]byte{0x78, 0x9c, 0x03, 0x00, 0x00, 0x00, 0x00, 0x01}))
		put("multibase-prefix", "u"+valid)
	case "extreme-number":
		put("gzip-of-16MB", b64u.EncodeToString(gz(make([]byte, 16<<20))))
		put("gzip-bad-crc", func() string {
			g := gz(make([]byte, 1000))
			g[len(g)-5] ^= 0xff
			return b64u.EncodeToString(g)
		}())
		put("gzip-bad-isize", func() string {
			g := gz(make([]byte, 1000))
			g[len(g)-1] ^= 0xff
			return b64u.EncodeToString(g)
		}())
	case "duplicate":
		put("two-gzip-members", b64u.EncodeToString(append(gz(make([]byte, 100)), gz(make([]byte, 100))...)))
		put("gzip-plus-garbage", b64u.EncodeToString(append(gz(make([]byte, 100)), 1, 2, 3)))
	case "unusual":
		put("valid", valid)
		put("gzip-with-name-comment-extra", func() string {
			var buf bytes.Buffer
			zw := gzip.NewWriter(&buf)
			zw.Name, zw.Comment, zw.Extra = "n", "c", []byte{1, 2, 3, 4}
			_, _ = zw.Write(make([]byte, 100))
			_ = zw.Close()
			return b64u.EncodeToString(buf.Bytes())
		}())
		for k := 0; k < 10*(1+level*10); k++ {
			g := gz(make([]byte, 2000))
			for j := 0; j < 3; j++ {
				g[10+rnd.Intn(len(g)-10)] ^= byte(1 << uint(rnd.Intn(8)))
			}
			put(fmt.Sprintf("bitflips-%d", k), b64u.EncodeToString(g))
		}
	}
	return out
}

func registerBitstring(w *world) {
	w.add(&entryPoint{name: "revocation.expand", kind: "text", gen: encodedListVariants,
		call: func(in []byte) (bool, string) {
			var firstErr error
			for _, idx := range []int{0, 5, 131071, 131072, -1, 1 << 40} {
				_, err := revocation.VerifRobustExpandAndIndex(string(in), idx)
				if err != nil && firstErr == nil {
					firstErr = err
				}
			}
			return errResult(firstErr)
		}})
}
