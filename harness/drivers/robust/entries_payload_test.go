// Entry points of C19 behind the DAG: what the node does with the PAYLOAD of a transaction a peer sent, once the
// transaction itself was accepted. The real subscribers of the node (VCR ambassador: application/vc+json and
// application/ld+json;type=revocation; VDR ambassador: application/did+json) are built by the exported constructors
// (vdr.NewVDR, vcr.NewVCRInstance) over a network.Transactions seam that records what the code subscribes; every input is
// handed to them as a dag.Event through REAL dag notifiers carrying the REAL selection filters, exactly as dag.State does
// after WritePayload (Notify: first attempt synchronously in the caller's goroutine).
//
// Integrity seal: a credential / revocation carries a JSON-LD proof of its issuer. A peer that controls the issuer's key
// can put a VALID proof on any content, so every mutation is delivered twice: with the proof of the unmutated document
// (entry points payload.vc / payload.revocation: the code up to the signature check) and with a proof renewed over the
// mutated content (payload.vc.resealed / payload.revocation.resealed: the code behind the signature check, the stores).
// For a DID document the seal is the transaction (payload hash + signature), which the harness makes for every input.
//
// Redelivery: a receiver that answers with an error is called again by the node (retry with back-off, start-up replay,
// reprocess, the same transaction from another peer). The driver (harness_test.go) redelivers every refused input once.
package robust

import (
	"context"
	"crypto/ecdsa"
	"crypto/elliptic"
	"crypto/sha256"
	"encoding/base64"
	"encoding/binary"
	"encoding/hex"
	"encoding/json"
	"fmt"
	"hash/crc32"
	"math/big"
	"math/rand"
	"sort"
	"strings"
	"sync"
	"testing"
	"time"

	ssi "github.com/nuts-foundation/go-did"
	"github.com/nuts-foundation/go-did/did"
	"github.com/nuts-foundation/go-stoabs"
	"github.com/nuts-foundation/nuts-node/audit"
	"github.com/nuts-foundation/nuts-node/core"
	nutsCrypto "github.com/nuts-foundation/nuts-node/crypto"
	"github.com/nuts-foundation/nuts-node/crypto/hash"
	"github.com/nuts-foundation/nuts-node/events"
	"github.com/nuts-foundation/nuts-node/jsonld"
	"github.com/nuts-foundation/nuts-node/network"
	"github.com/nuts-foundation/nuts-node/network/dag"
	"github.com/nuts-foundation/nuts-node/network/transport"
	"github.com/nuts-foundation/nuts-node/pki"
	"github.com/nuts-foundation/nuts-node/storage"
	"github.com/nuts-foundation/nuts-node/vcr"
	"github.com/nuts-foundation/nuts-node/vcr/credential"
	"github.com/nuts-foundation/nuts-node/vcr/signature"
	"github.com/nuts-foundation/nuts-node/vcr/signature/proof"
	vcrTypes "github.com/nuts-foundation/nuts-node/vcr/types"
	"github.com/nuts-foundation/nuts-node/vdr"
	"github.com/nuts-foundation/nuts-node/vdr/didnuts"
	"github.com/nuts-foundation/nuts-node/vdr/didnuts/didstore"
	"go.uber.org/mock/gomock"

	"verifharness/txforge"
)

const (
	ctyVC  = vcrTypes.VcDocumentType           // application/vc+json
	ctyRev = vcrTypes.RevocationLDDocumentType // application/ld+json;type=revocation
	ctyDID = didnuts.DIDDocumentType           // application/did+json
)

// PayloadEntryPoints are the subscriber entry points (must mirror Subscribers in MCRobust.tla).
var PayloadEntryPoints = []string{"payload.vc", "payload.vc.resealed", "payload.revocation", "payload.revocation.resealed",
	"payload.did.create", "payload.did.update"}

// ------------------------------------------------------------------------------------------ the network seam

type subscription struct {
	name     string
	receiver dag.ReceiverFn
	opts     []dag.NotifierOption
}

// subNet is the network.Transactions seam: it keeps what the real code subscribes.
type subNet struct {
	network.Transactions // nil: a method the driver does not provide panics (and is noticed)
	mu                   sync.Mutex
	subs                 []subscription
}

func (f *subNet) Subscribe(name string, receiver dag.ReceiverFn, options ...network.SubscriberOption) error {
	var opts []dag.NotifierOption
	for _, o := range options {
		if o != nil {
			opts = append(opts, o())
		}
	}
	f.mu.Lock()
	defer f.mu.Unlock()
	f.subs = append(f.subs, subscription{name: name, receiver: receiver, opts: opts})
	return nil
}

// WithPersistency: the job shelf (retries across restarts) is not part of this check; the option is a no-op.
func (f *subNet) WithPersistency() network.SubscriberOption {
	return func() dag.NotifierOption { return dag.WithRetryDelay(time.Hour) }
}
func (f *subNet) Subscribers() []dag.Notifier      { return nil }
func (f *subNet) Disabled() bool                   { return false }
func (f *subNet) DiscoverServices(_ did.DID)       {}
func (f *subNet) AddressBook() []transport.Contact { return nil }
func (f *subNet) PeerDiagnostics() map[transport.PeerID]transport.Diagnostics {
	return nil
}

// ------------------------------------------------------------------------------------------ storage seam (digest only)

type spyEngine struct {
	storage.Engine
	mu  sync.Mutex
	kvs map[string]stoabs.KVStore
}
type spyProvider struct {
	storage.Provider
	e      *spyEngine
	module string
}

func (g *spyEngine) GetProvider(module string) storage.Provider {
	return spyProvider{g.Engine.GetProvider(module), g, module}
}

// kv returns the store a module obtained under the given name.
func (g *spyEngine) kv(suffix string) stoabs.KVStore {
	g.mu.Lock()
	defer g.mu.Unlock()
	for k, v := range g.kvs {
		if strings.HasSuffix(k, suffix) {
			return v
		}
	}
	return nil
}
func (p spyProvider) GetKVStore(name string, class storage.Class) (stoabs.KVStore, error) {
	kv, err := p.Provider.GetKVStore(name, class)
	if err == nil {
		p.e.mu.Lock()
		p.e.kvs[p.module+"/"+name] = kv
		p.e.mu.Unlock()
	}
	return kv, err
}

// shelfDigest hashes all rows of a shelf in the store's own (key) order: key, length and CRC-32C of every value.
// The digest is taken twice per call and the stores only grow, so it has to be cheap: rows above 64 kB (an accepted 1 MB
// document stays) are summed once and afterwards recognised by shelf, key and length.
var bigRowCache = map[string]uint32{}
var castagnoli = crc32.MakeTable(crc32.Castagnoli)

func shelfDigest(kv stoabs.KVStore, shelf string) string {
	if kv == nil {
		return "absent"
	}
	h := sha256.New()
	n := 0
	var buf [12]byte
	err := kv.ReadShelf(context.Background(), shelf, func(r stoabs.Reader) error {
		return r.Iterate(func(k stoabs.Key, v []byte) error {
			var sum uint32
			if len(v) > 64<<10 {
				ck := fmt.Sprintf("%s/%x/%d", shelf, k.Bytes(), len(v))
				var ok bool
				if sum, ok = bigRowCache[ck]; !ok {
					sum = crc32.Checksum(v, castagnoli)
					bigRowCache[ck] = sum
				}
			} else {
				sum = crc32.Checksum(v, castagnoli)
			}
			kb := k.Bytes()
			binary.BigEndian.PutUint32(buf[0:], uint32(len(kb)))
			binary.BigEndian.PutUint32(buf[4:], uint32(len(v)))
			binary.BigEndian.PutUint32(buf[8:], sum)
			h.Write(buf[:])
			h.Write(kb)
			n++
			return nil
		}, stoabs.BytesKey{})
	})
	if err != nil {
		return "ERR:" + err.Error()
	}
	return fmt.Sprintf("%d:%x", n, h.Sum(nil)[:6])
}

// ------------------------------------------------------------------------------------------ the receiving node

type payloadEnv struct {
	t      *testing.T
	keys   *nutsCrypto.Crypto
	dids   didstore.Store
	net    *subNet
	engine *spyEngine
	vdr    *vdr.Module
	vcr    vcr.VCR
	ld     jsonld.JSONLD
	txKey  txforge.Key // signs the transactions that carry credentials and revocations
	lc     int
	prev   string
	issuer did.DID
	kid    string
}

func newPayloadEnv(t *testing.T) *payloadEnv {
	e := &payloadEnv{t: t, net: &subNet{}, txKey: txforge.NewKey()}
	dir := t.TempDir()
	e.keys = nutsCrypto.NewMemoryCryptoInstance(t)
	e.engine = &spyEngine{Engine: storage.NewTestStorageEngineInDir(t, dir), kvs: map[string]stoabs.KVStore{}}
	e.dids = didstore.TestStore(t, e.engine)
	ev := events.NewTestManager(t)
	e.ld = jsonld.NewTestJSONLDManager(t)
	ctrl := gomock.NewController(t)
	e.vdr = vdr.NewVDR(e.keys, e.net, e.dids, ev, e.engine, pki.NewMockValidator(ctrl))
	if err := e.vdr.Configure(core.TestServerConfig()); err != nil {
		t.Fatalf("harness: vdr.Configure: %v", err)
	}
	if err := e.vdr.Start(); err != nil {
		t.Fatalf("harness: vdr.Start: %v", err)
	}
	e.vcr = vcr.NewVCRInstance(e.keys, e.vdr, e.net, e.ld, ev, e.engine, pki.New())
	cfg := core.TestServerConfig(func(c *core.ServerConfig) { c.Datadir = dir })
	if err := e.vcr.(core.Configurable).Configure(cfg); err != nil {
		t.Fatalf("harness: vcr.Configure: %v", err)
	}
	if err := e.vcr.(core.Runnable).Start(); err != nil {
		t.Fatalf("harness: vcr.Start: %v", err)
	}
	names := map[string]bool{}
	for _, s := range e.net.subs {
		names[s.name] = true
	}
	for _, n := range []string{"vdr", "vcr_vcs", "vcr_revocations"} {
		if !names[n] {
			t.Fatalf("harness: the node did not subscribe %q (subscribed: %v)", n, names)
		}
	}
	root := sha256.Sum256([]byte("root"))
	e.prev = hex.EncodeToString(root[:])

	// the issuer: a did:nuts document with one assertion key, in the node's document store since an hour
	e.issuer = did.MustParseDID("did:nuts:GvkzxsezHvEc8nGhgz6Xo3jbqkHwswLmWw3CYtCm7hAW")
	e.kid = e.issuer.String() + "#k1"
	_, pub, err := e.keys.New(audit.TestContext(), nutsCrypto.StringNamingFunc(e.kid))
	if err != nil {
		t.Fatalf("harness: issuer key: %v", err)
	}
	vm, err := did.NewVerificationMethod(did.MustParseDIDURL(e.kid), ssi.JsonWebKey2020, e.issuer, pub)
	if err != nil {
		t.Fatalf("harness: issuer method: %v", err)
	}
	doc := did.Document{Context: []interface{}{did.DIDContextV1URI(), jsonld.JWS2020ContextV1URI()}, ID: e.issuer}
	doc.AddAssertionMethod(vm)
	doc.AddCapabilityInvocation(vm)
	rawDoc, _ := json.Marshal(doc)
	at := time.Now().Add(-2 * time.Hour)
	if err := e.dids.Add(doc, didstore.Transaction{Clock: 0, PayloadHash: hash.SHA256Sum(rawDoc), Ref: hash.SHA256Sum([]byte("issuer-doc")), SigningTime: at}); err != nil {
		t.Fatalf("harness: issuer document: %v", err)
	}
	return e
}

// forge builds a real, parseable, signed transaction that announces the payload.
// key nil: the node-independent transaction key (embedded jwk); kid != "": signed by key, referring to it by kid (no jwk).
func (e *payloadEnv) forge(cty string, payload []byte, key *txforge.Key, kid string, prevs []string) dag.Transaction {
	e.lc++
	k := e.txKey
	if key != nil {
		k = *key
	}
	if len(prevs) == 0 {
		prevs = []string{e.prev}
	}
	h := txforge.TxHeaders(k, prevs, e.lc, time.Now().Unix(), cty)
	if kid != "" {
		delete(h, "jwk")
		h["kid"] = kid
	}
	ph := hash.SHA256Sum(payload)
	tx, err := dag.ParseTransaction(txforge.Compact(h, []byte(ph.String()), k))
	if err != nil {
		panic("harness: forged transaction does not parse: " + err.Error())
	}
	return tx
}

// deliver hands the event to every subscriber of the node through a real notifier with the subscriber's own options.
// accepted = every receiver the event was selected for finished without error.
func (e *payloadEnv) deliver(tx dag.Transaction, payload []byte) (bool, string) {
	ev := dag.Event{Type: dag.PayloadEventType, Hash: tx.Ref(), Transaction: tx, Payload: payload}
	ctx, cancel := context.WithCancel(context.Background())
	defer cancel() // ends the retry goroutine of a refused event: redelivery is an explicit step of the driver
	called, refused := 0, []string{}
	e.net.mu.Lock()
	subs := append([]subscription(nil), e.net.subs...)
	e.net.mu.Unlock()
	for _, s := range subs {
		s := s
		wrapped := func(ev dag.Event) (bool, error) {
			fin, err := s.receiver(ev)
			called++
			switch {
			case err != nil:
				refused = append(refused, s.name+": "+err.Error())
			case !fin:
				refused = append(refused, s.name+": not finished")
			}
			return fin, err
		}
		opts := append(append([]dag.NotifierOption(nil), s.opts...), dag.WithRetryDelay(time.Hour), dag.WithContext(ctx))
		dag.NewNotifier(s.name, wrapped, opts...).Notify(ev)
	}
	if called == 0 {
		return false, "harness: no subscriber selected the event"
	}
	if len(refused) > 0 {
		return false, strings.Join(refused, "; ")
	}
	return true, ""
}

func (e *payloadEnv) vcrDigest() string {
	return "vc=" + shelfDigest(e.engine.kv("/backup-credentials"), "credentials") +
		" rev=" + shelfDigest(e.engine.kv("/backup-revoked-credentials"), "revocations")
}

// didShelves are the shelves of the did:nuts document store (vdr/didnuts/didstore/store.go). The raw rows are hashed
// (resolving through the API parses every stored document, which costs 40 ms once a 1 MB document was accepted).
var didShelves = []string{"latestV2", "metadataV2", "txRefV2", "documentsV2", "eventsV2", "conflictedV2", "statsV2"}

func (e *payloadEnv) didDigest() string {
	e.engine.mu.Lock()
	var kvs []stoabs.KVStore
	var names []string
	for k := range e.engine.kvs {
		if !strings.Contains(k, "/backup-") {
			names = append(names, k)
		}
	}
	sort.Strings(names)
	for _, k := range names {
		kvs = append(kvs, e.engine.kvs[k])
	}
	e.engine.mu.Unlock()
	var parts []string
	rows := 0
	for i, kv := range kvs {
		for _, sh := range didShelves {
			d := shelfDigest(kv, sh)
			if !strings.HasPrefix(d, "0:") && !strings.HasPrefix(d, "ERR") {
				rows++
			}
			parts = append(parts, fmt.Sprintf("%d.%s=%s", i, sh, d))
		}
	}
	if rows == 0 {
		// the store holds documents (the issuer's at least): an empty view means the shelves were renamed, the oracle is blind
		panic("harness: the did store digest sees no rows (shelf names changed?)")
	}
	h := sha256.Sum256([]byte(strings.Join(parts, ";")))
	return fmt.Sprintf("did=%x", h[:8])
}

// seal puts a proof of the issuer over the document (any proof it carries is replaced). ok=false: the document cannot
// be signed (it is no JSON object, canonicalisation refuses it, ...): there is no resealed form of it.
func (e *payloadEnv) seal(body []byte) (out []byte, ok bool) {
	defer func() {
		if r := recover(); r != nil {
			out, ok = nil, false // the SIGNER (harness side) gave up on the mutated document
		}
	}()
	doc := map[string]interface{}{}
	if err := json.Unmarshal(body, &doc); err != nil {
		return nil, false
	}
	delete(doc, "proof")
	suite := signature.JSONWebSignature2020{ContextLoader: e.ld.DocumentLoader(), Signer: e.keys}
	res, err := proof.NewLDProof(proof.ProofOptions{Created: time.Now().Add(-time.Minute)}).Sign(audit.TestContext(), doc, suite, e.kid)
	if err != nil {
		return nil, false
	}
	b, err := json.Marshal(res)
	if err != nil {
		return nil, false
	}
	return b, true
}

func (e *payloadEnv) mustSeal(n *node) *node {
	b, ok := e.seal(n.bytes())
	if !ok {
		e.t.Fatalf("harness: cannot sign the valid instance %s", n.bytes())
	}
	out, err := parseJSON(b)
	if err != nil {
		e.t.Fatalf("harness: signed instance does not parse: %v", err)
	}
	return out
}

// ldInstance returns the stale-proof form (the proof of the valid document stays while the content is mutated) or the
// resealed form (no proof member in the tree; render signs what the mutation left) of a valid document.
// unique: a marker inside the document's id that render replaces by a fresh number for every input, so that an input
// that was stored does not shadow the following ones (the store refuses a second content under one id before looking at it).
const uniqueMarker = "@@"

var uniqueCounter int

func nextUnique() string {
	uniqueCounter++
	return fmt.Sprintf("%d", uniqueCounter)
}

func (e *payloadEnv) ldInstance(name string, doc *node, resealed bool) *instance {
	if !resealed {
		fresh, err := parseJSON([]byte(strings.ReplaceAll(string(doc.bytes()), uniqueMarker, nextUnique())))
		if err != nil {
			panic(err)
		}
		return jsonInstance(name, e.mustSeal(fresh))
	}
	bare := doc.clone()
	bare.del("proof")
	return &instance{name: name + "+resealed", parts: map[string]*node{"body": bare}, order: []string{"body"},
		basePos: map[string]string{"body": "top"}, render: func(p map[string][]byte) []byte {
			body := []byte(strings.ReplaceAll(string(p["body"]), uniqueMarker, nextUnique()))
			if b, ok := e.seal(body); ok {
				return b
			}
			return body // cannot be sealed: delivered without proof
		}}
}

func registerPayloadReceivers(w *world, needed map[string]bool) {
	wanted := false
	for _, n := range PayloadEntryPoints {
		wanted = wanted || needed[n]
	}
	if !wanted {
		return
	}
	e := newPayloadEnv(w.t)
	iss := e.issuer.String()

	// ---- credentials (application/vc+json). The stale-proof instances are made anew for every case (fresh id).
	vcDoc := func(name string) *node {
		if name == "authz-vc" {
			n := authzCredential(iss, subjectDID)
			n.set("id", str(iss+"#p-authz-"+uniqueMarker))
			return n
		}
		return orgCredential(iss, subjectDID, "p-org-"+uniqueMarker, false)
	}
	vcInstances := func(resealed bool) func(level int) []*instance {
		return func(level int) []*instance {
			out := []*instance{e.ldInstance("org-vc", vcDoc("org-vc"), resealed)}
			if level > 0 {
				out = append(out, e.ldInstance("authz-vc", vcDoc("authz-vc"), resealed))
			}
			return out
		}
	}
	// history: a valid credential is in the store before the first case (and the node accepts valid credentials at all)
	{
		in := e.mustSeal(orgCredential(iss, subjectDID, "p-hist", false)).bytes()
		if ok, detail := e.deliver(e.forge(ctyVC, in, nil, "", nil), in); !ok {
			w.t.Fatalf("harness: the node refuses the valid credential: %s", detail)
		}
	}
	callCty := func(cty string) func(in []byte) (bool, string) {
		return func(in []byte) (bool, string) { return e.deliver(e.forge(cty, in, nil, "", nil), in) }
	}
	// hand written: valid proof, unusual content / unusual history
	vcUnusual := func(op, pos string, level int, _ *rand.Rand) []concrete {
		if op != "unusual" || pos != "top" {
			return nil
		}
		mk := func(name string, f func(n *node)) concrete {
			n := orgCredential(iss, subjectDID, "p-u-"+name, false)
			n.del("proof")
			f(n)
			b, ok := e.seal(n.bytes())
			if !ok {
				b = n.bytes()
			}
			return concrete{"org-vc:" + name, b}
		}
		return []concrete{
			mk("valid", func(n *node) {}),
			mk("same-id-other-content", func(n *node) {
				n.set("id", str(iss+"#p-hist"))
				n.get("credentialSubject").get("organization").set("city", str("Elsewhere"))
			}),
			mk("id-of-another-issuer", func(n *node) { n.set("id", str(subjectDID+"#1")) }),
			mk("no-id", func(n *node) { n.del("id") }),
			mk("two-subjects", func(n *node) {
				n.set("credentialSubject", arr(n.get("credentialSubject").clone(), n.get("credentialSubject").clone()))
			}),
			mk("three-types", func(n *node) {
				n.set("type", arr(str("NutsOrganizationCredential"), str("VerifiableCredential"), str("NutsAuthorizationCredential")))
			}),
			mk("issuer-object", func(n *node) { n.set("issuer", obj("id", str(iss))) }),
			mk("expired", func(n *node) { n.set("expirationDate", str(ts(-time.Minute))) }),
			mk("issued-in-the-future", func(n *node) { n.set("issuanceDate", str(ts(48*time.Hour))) }),
		}
	}
	w.add(&entryPoint{name: "payload.vc", kind: "ld", instances: vcInstances(false), call: callCty(ctyVC), digest: e.vcrDigest, redelivered: true, maxRandom: 1000})
	w.add(&entryPoint{name: "payload.vc.resealed", kind: "ldsealed", instances: vcInstances(true), gen: vcUnusual, call: callCty(ctyVC), digest: e.vcrDigest, redelivered: true, maxRandom: 1000})

	// ---- revocations (application/ld+json;type=revocation)
	revNode := func(subject string, withReason bool) *node {
		r := credential.BuildRevocation(ssi.MustParseURI(iss), ssi.MustParseURI(subject))
		r.Date = time.Now().Add(-time.Minute).UTC().Truncate(time.Second)
		if withReason {
			r.Reason = "no longer employed"
		}
		b, _ := json.Marshal(r)
		n, err := parseJSON(b)
		if err != nil {
			panic(err)
		}
		return n
	}
	revInstances := func(resealed bool) func(int) []*instance {
		return func(int) []*instance {
			return []*instance{e.ldInstance("revocation", revNode(iss+"#p-revoked-"+uniqueMarker, true), resealed)}
		}
	}
	{
		in := e.mustSeal(revNode(iss+"#p-revoked", true)).bytes()
		if ok, detail := e.deliver(e.forge(ctyRev, in, nil, "", nil), in); !ok {
			w.t.Fatalf("harness: the node refuses the valid revocation: %s", detail)
		}
	}
	revUnusual := func(op, pos string, level int, _ *rand.Rand) []concrete {
		if op != "unusual" || pos != "top" {
			return nil
		}
		mk := func(name string, n *node, f func(n *node)) concrete {
			n.del("proof")
			f(n)
			b, ok := e.seal(n.bytes())
			if !ok {
				b = n.bytes()
			}
			return concrete{"revocation:" + name, b}
		}
		return []concrete{
			mk("valid", revNode(iss+"#p-u-valid", false), func(n *node) {}),
			mk("of-a-stored-credential", revNode(iss+"#p-hist", false), func(n *node) {}),
			mk("second-revocation-of-the-same-credential", revNode(iss+"#p-revoked", false), func(n *node) {}),
			mk("credential-of-another-issuer", revNode(subjectDID+"#1", false), func(n *node) {}),
			mk("subject-without-fragment", revNode(iss, false), func(n *node) {}),
			mk("date-in-the-future", revNode(iss+"#p-u-future", false), func(n *node) { n.set("date", str(ts(48*time.Hour))) }),
			mk("date-before-the-issuer-existed", revNode(iss+"#p-u-early", false), func(n *node) { n.set("date", str(ts(-72*time.Hour))) }),
			mk("status-member", revNode(iss+"#p-u-status", false), func(n *node) { n.set("status", obj("type", str("x"))) }),
		}
	}
	w.add(&entryPoint{name: "payload.revocation", kind: "ld", instances: revInstances(false), call: callCty(ctyRev), digest: e.vcrDigest, redelivered: true, maxRandom: 1000})
	w.add(&entryPoint{name: "payload.revocation.resealed", kind: "ldsealed", instances: revInstances(true), gen: revUnusual, call: callCty(ctyRev), digest: e.vcrDigest, redelivered: true, maxRandom: 1000})

	// ---- DID documents (application/did+json): creation (key embedded in the transaction, identifier = its thumbprint)
	// and update (transaction signed with a capability invocation key of the stored version).
	// Every case works on a DID of its own (a new key): the versions a case gets accepted pile up as conflicts of that DID only.
	type didState struct {
		key       txforge.Key
		fx        docFixture
		createRef string
	}
	newDID := func(update bool, d string) *didState {
		st := &didState{key: txforge.NewKey()}
		if d != "" {
			st.key = keyFromD(d)
		}
		st.fx = newNutsDocFor(st.key.Priv, true)
		if update {
			createTx := e.forge(ctyDID, st.fx.json, &st.key, "", nil)
			// (on replay of a saved input the document may exist already: same key, same content)
			if ok, detail := e.deliver(createTx, st.fx.json); !ok {
				w.t.Fatalf("harness: the node refuses the valid DID document creation: %s", detail)
			}
			st.createRef = createTx.Ref().String()
		}
		return st
	}
	for _, update := range []bool{false, true} {
		update := update
		cur := newDID(update, "")
		fresh := func() { cur = newDID(update, "") }
		call := func(in []byte) (bool, string) {
			// a panic inside go-did's unmarshalling / the network validator is reported once, by didnuts.NetworkDocumentValidator
			doc, ok, detail := parseDocShared(in)
			if ok {
				ok, detail = networkValidShared(doc)
			}
			if !ok && strings.Contains(detail, "reported by didnuts.NetworkDocumentValidator") {
				return false, detail
			}
			if update {
				return e.deliver(e.forge(ctyDID, in, &cur.key, cur.fx.kid, []string{cur.createRef}), in)
			}
			return e.deliver(e.forge(ctyDID, in, &cur.key, "", nil), in)
		}
		name := "payload.did.create"
		if update {
			name = "payload.did.update"
		}
		w.add(&entryPoint{name: name, kind: "json", call: call, digest: e.didDigest, redelivered: true, maxRandom: 1000,
			instances: func(int) []*instance {
				fresh()
				n := mustJSON(string(cur.fx.json))
				if update {
					n.get("service").vals[0].set("serviceEndpoint", str("grpc://other.verif-harness.nl:5555"))
					return []*instance{jsonInstance("did-update", n)}
				}
				return []*instance{jsonInstance("did-create", n)}
			},
			gen: func(op, pos string, level int, r *rand.Rand) []concrete {
				if op != "unusual" {
					return nil
				}
				fresh()
				return didDocUnusual(cur.fx)(op, pos, level, r)
			},
			// replay context: the key of the case's DID
			saveCtx: func() json.RawMessage {
				b, _ := json.Marshal(map[string]any{"d": cur.key.PrivJWK()["d"]})
				return b
			},
			loadCtx: func(raw json.RawMessage) {
				var c struct {
					D string `json:"d"`
				}
				if json.Unmarshal(raw, &c) == nil && c.D != "" {
					cur = newDID(update, c.D)
				}
			}})
	}
}

// keyFromD rebuilds a P-256 key pair from the base64url private scalar.
func keyFromD(d string) txforge.Key {
	bs, err := base64.RawURLEncoding.DecodeString(d)
	if err != nil {
		panic(err)
	}
	priv := new(ecdsa.PrivateKey)
	priv.Curve = elliptic.P256()
	priv.D = new(big.Int).SetBytes(bs)
	priv.X, priv.Y = priv.Curve.ScalarBaseMult(bs)
	return txforge.Key{Priv: priv}
}
