// Order preserving JSON tree + the structure-aware mutation operators of Robust.tla (C19).
package robust

import (
	"bytes"
	"encoding/json"
	"fmt"
	"io"
	"strconv"
	"strings"
)

// node is a JSON value that keeps member order, may hold duplicate members and verbatim (possibly invalid) text.
type node struct {
	kind  byte // 'o' object, 'a' array, 's' string, 'n' number, 'b' bool, 'z' null, 'r' raw verbatim text
	keys  []string
	vals  []*node
	str   string // string value, number literal or raw text
	b     bool
}

func parseJSON(data []byte) (*node, error) {
	dec := json.NewDecoder(bytes.NewReader(data))
	dec.UseNumber()
	n, err := parseValue(dec)
	if err != nil {
		return nil, err
	}
	if _, err := dec.Token(); err != io.EOF {
		return nil, fmt.Errorf("trailing data")
	}
	return n, nil
}

func mustJSON(s string) *node {
	n, err := parseJSON([]byte(s))
	if err != nil {
		panic("harness: invalid seed JSON: " + err.Error() + ": " + s)
	}
	return n
}

func parseValue(dec *json.Decoder) (*node, error) {
	tok, err := dec.Token()
	if err != nil {
		return nil, err
	}
	switch t := tok.(type) {
	case json.Delim:
		switch t {
		case '{':
			n := &node{kind: 'o'}
			for dec.More() {
				kt, err := dec.Token()
				if err != nil {
					return nil, err
				}
				v, err := parseValue(dec)
				if err != nil {
					return nil, err
				}
				n.keys = append(n.keys, kt.(string))
				n.vals = append(n.vals, v)
			}
			_, err := dec.Token()
			return n, err
		case '[':
			n := &node{kind: 'a'}
			for dec.More() {
				v, err := parseValue(dec)
				if err != nil {
					return nil, err
				}
				n.vals = append(n.vals, v)
			}
			_, err := dec.Token()
			return n, err
		}
		return nil, fmt.Errorf("unexpected delimiter")
	case string:
		return &node{kind: 's', str: t}, nil
	case json.Number:
		return &node{kind: 'n', str: t.String()}, nil
	case bool:
		return &node{kind: 'b', b: t}, nil
	case nil:
		return &node{kind: 'z'}, nil
	}
	return nil, fmt.Errorf("unexpected token")
}

func fromGo(v any) *node {
	bs, err := json.Marshal(v)
	if err != nil {
		panic(err)
	}
	return mustJSON(string(bs))
}

func (n *node) write(w *bytes.Buffer) {
	switch n.kind {
	case 'o':
		w.WriteByte('{')
		for i, k := range n.keys {
			if i > 0 {
				w.WriteByte(',')
			}
			kb, _ := json.Marshal(k)
			w.Write(kb)
			w.WriteByte(':')
			n.vals[i].write(w)
		}
		w.WriteByte('}')
	case 'a':
		w.WriteByte('[')
		for i, v := range n.vals {
			if i > 0 {
				w.WriteByte(',')
			}
			v.write(w)
		}
		w.WriteByte(']')
	case 's':
		sb, _ := json.Marshal(n.str)
		w.Write(sb)
	case 'n', 'r':
		w.WriteString(n.str)
	case 'b':
		if n.b {
			w.WriteString("true")
		} else {
			w.WriteString("false")
		}
	case 'z':
		w.WriteString("null")
	}
}

func (n *node) bytes() []byte {
	var b bytes.Buffer
	n.write(&b)
	return b.Bytes()
}

func (n *node) clone() *node {
	c := *n
	if n.keys != nil {
		c.keys = append([]string(nil), n.keys...)
	}
	if n.vals != nil {
		c.vals = make([]*node, len(n.vals))
		for i, v := range n.vals {
			c.vals[i] = v.clone()
		}
	}
	return &c
}

func (n *node) get(key string) *node {
	if n == nil || n.kind != 'o' {
		return nil
	}
	for i, k := range n.keys {
		if k == key {
			return n.vals[i]
		}
	}
	return nil
}

func (n *node) set(key string, v *node) *node {
	for i, k := range n.keys {
		if k == key {
			n.vals[i] = v
			return n
		}
	}
	n.keys = append(n.keys, key)
	n.vals = append(n.vals, v)
	return n
}

func (n *node) del(key string) *node {
	for i, k := range n.keys {
		if k == key {
			n.keys = append(n.keys[:i:i], n.keys[i+1:]...)
			n.vals = append(n.vals[:i:i], n.vals[i+1:]...)
			return n
		}
	}
	return n
}

func str(s string) *node   { return &node{kind: 's', str: s} }
func num(s string) *node   { return &node{kind: 'n', str: s} }
func raw(s string) *node   { return &node{kind: 'r', str: s} }
func null() *node          { return &node{kind: 'z'} }
func boolean(b bool) *node { return &node{kind: 'b', b: b} }
func arr(v ...*node) *node { return &node{kind: 'a', vals: v} }
func obj(kv ...any) *node {
	n := &node{kind: 'o'}
	for i := 0; i+1 < len(kv); i += 2 {
		n.keys = append(n.keys, kv[i].(string))
		n.vals = append(n.vals, kv[i+1].(*node))
	}
	return n
}

// step is one element of a path: member index of an object or element index of an array.
type path []int

// site is a mutable position of a document: the container, the index in it, and its position class.
type site struct {
	part string // document part the path lives in ("body", "header", "claims", ...)
	p    path
	pos  string // top | nested | array | header | proof
	desc string // human readable path, e.g. claims.vp.verifiableCredential[0]
}

// sites enumerates every member / element of the tree with its position class.
// basePos: class of depth-1 members ("top", or "header" for a JOSE header part, "proof" for a proof part).
func sites(part string, root *node, basePos string) []site {
	var out []site
	var walk func(n *node, p path, depth int, inProof bool, desc string)
	walk = func(n *node, p path, depth int, inProof bool, desc string) {
		if n.kind != 'o' && n.kind != 'a' {
			return
		}
		for i, v := range n.vals {
			np := append(append(path(nil), p...), i)
			var pos, d string
			proof := inProof
			if n.kind == 'o' {
				d = desc + "." + n.keys[i]
				if depth == 0 && (n.keys[i] == "proof" || n.keys[i] == "proofs") && basePos == "top" {
					proof = true
				}
				switch {
				case basePos == "header":
					pos = "header"
				case proof || basePos == "proof":
					pos = "proof"
				case depth == 0:
					pos = "top"
				default:
					pos = "nested"
				}
			} else {
				d = fmt.Sprintf("%s[%d]", desc, i)
				switch {
				case basePos == "header":
					pos = "header"
				case proof || basePos == "proof":
					pos = "proof"
				default:
					pos = "array"
				}
			}
			out = append(out, site{part: part, p: np, pos: pos, desc: d})
			walk(v, np, depth+1, proof, d)
		}
	}
	walk(root, nil, 0, false, part)
	return out
}

// at returns container and index of the position.
func at(root *node, p path) (*node, int) {
	n := root
	for _, i := range p[:len(p)-1] {
		n = n.vals[i]
	}
	return n, p[len(p)-1]
}

func deep(open, close string, depth int) *node {
	return raw(strings.Repeat(open, depth) + strings.Repeat(close, depth))
}

// extremeNumbers: applied to EVERY numeric member: signs, 32/53/62/63/64 bit boundaries, large-but-representable sizes
// (a number that ends up as a length / capacity / count), floats, fractions, out-of-range literals
var extremeNumbers = []string{"-1", "0", "2147483647", "2147483648", "4294967295", "4294967296", "1000000000", "10000000000", "1e10",
	"9007199254740992", "9007199254740993", "4611686018427387904", "9223372036854775807", "9223372036854775808", "-9223372036854775808",
	"-9223372036854775809", "18446744073709551616", "1e308", "-1e308", "1e999", "0.5", "-0.5", "1E-400", "99999999999999999999999999999999999999",
	"-0", "1.0000000000000000000000001"}

// Operators is the list of structural mutation operators; must mirror Operators in MCRobust.tla.
var Operators = []string{"type-string", "type-number", "type-bool", "type-null", "type-array", "type-object", "missing",
	"extreme-number", "truncate", "duplicate", "empty", "deep", "unusual"}

type variant struct {
	name string
	root *node  // mutated tree (nil when bytes are given directly)
	cut  int    // >0: truncate the serialised part to this many bytes (truncate operator)
}

// mutate applies operator op at position p of root; it returns zero or more mutated copies.
// level 0 = quick (one or two variants per operator), 1 = thorough (all variants).
func mutate(root *node, p path, op string, level int) []variant {
	var out []variant
	apply := func(name string, f func(c *node, i int)) {
		r := root.clone()
		c, i := at(r, p)
		f(c, i)
		out = append(out, variant{name: name, root: r})
	}
	c0, i0 := at(root, p)
	cur := c0.vals[i0]
	repl := func(name string, v *node) {
		apply(name, func(c *node, i int) { c.vals[i] = v })
	}
	switch op {
	case "type-string":
		if cur.kind != 's' {
			repl("x", str("x"))
			if cur.kind == 'n' {
				repl("numstr", str(cur.str))
			}
		} else {
			// already a string: strings a decoder may choke on
			repl("nul-char", str("a\u0000b"))
			if level > 0 {
				repl("non-utf8-escape", raw(`"\ud800"`))
			}
		}
	case "type-number":
		if cur.kind != 'n' {
			repl("1", num("1"))
			if level > 0 {
				repl("1.5", num("1.5"))
			}
		}
	case "type-bool":
		if cur.kind != 'b' {
			repl("true", boolean(true))
			if level > 0 {
				repl("false", boolean(false))
			}
		}
	case "type-null":
		if cur.kind != 'z' {
			repl("null", null())
		}
	case "type-array":
		if cur.kind != 'a' {
			repl("wrap", arr(cur.clone()))
			repl("empty", arr())
			repl("of-null", arr(null()))
		} else {
			// array of arrays / mixed element types
			repl("nested", arr(cur.clone()))
			if level > 0 {
				repl("mixed", arr(num("1"), str("x"), null(), obj(), arr()))
			}
		}
	case "type-object":
		if cur.kind != 'o' {
			repl("wrap", obj("id", cur.clone()))
			repl("empty", obj())
		} else if level > 0 {
			repl("obj-of-null", obj("id", null(), "type", null()))
		}
	case "missing":
		apply("removed", func(c *node, i int) {
			if c.kind == 'o' {
				c.keys = append(c.keys[:i:i], c.keys[i+1:]...)
			}
			c.vals = append(c.vals[:i:i], c.vals[i+1:]...)
		})
	case "extreme-number":
		isNumStr := false
		if cur.kind == 's' {
			if _, err := strconv.ParseFloat(cur.str, 64); err == nil {
				isNumStr = true
			}
		}
		if cur.kind == 'n' || isNumStr {
			for _, x := range extremeNumbers {
				if isNumStr {
					repl("s"+x, str(x))
				} else {
					repl(x, num(x))
				}
			}
		} else if cur.kind == 's' || cur.kind == 'b' || level > 0 {
			repl("2^63", num("9223372036854775808"))
			repl("1e999", num("1e999"))
		}
	case "truncate":
		// serialise up to (and a bit into) the value at this position
		r := root.clone()
		c, i := at(r, p)
		marker := "\x00VERIFCUT\x00"
		orig := c.vals[i]
		c.vals[i] = raw(marker)
		ser := r.bytes()
		idx := bytes.Index(ser, []byte(marker))
		if idx > 0 {
			ob := orig.bytes()
			out = append(out, variant{name: "before-value", cut: idx})
			if len(ob) > 1 {
				out = append(out, variant{name: "mid-value", cut: idx + len(ob)/2})
			}
			if level > 0 {
				out = append(out, variant{name: "after-value", cut: idx + len(ob)})
			}
		}
	case "duplicate":
		if c0.kind == 'o' {
			apply("dup-null-last", func(c *node, i int) {
				c.keys = append(c.keys, c.keys[i])
				c.vals = append(c.vals, null())
			})
			apply("dup-null-first", func(c *node, i int) {
				c.keys = append([]string{c.keys[i]}, c.keys...)
				c.vals = append([]*node{null()}, c.vals...)
			})
			if level > 0 {
				apply("dup-same", func(c *node, i int) {
					c.keys = append(c.keys, c.keys[i])
					c.vals = append(c.vals, c.vals[i].clone())
				})
				apply("dup-other-type", func(c *node, i int) {
					c.keys = append(c.keys, c.keys[i])
					if c.vals[i].kind == 's' {
						c.vals = append(c.vals, arr(num("7")))
					} else {
						c.vals = append(c.vals, str("x"))
					}
				})
			}
		} else {
			apply("dup-element", func(c *node, i int) { c.vals = append(c.vals, c.vals[i].clone()) })
			if level > 0 {
				apply("dup-element-x50", func(c *node, i int) {
					for k := 0; k < 50; k++ {
						c.vals = append(c.vals, c.vals[i].clone())
					}
				})
			}
		}
	case "empty":
		switch cur.kind {
		case 's':
			if cur.str != "" {
				repl("empty-string", str(""))
				repl("blank", str(" "))
			}
		case 'a':
			if len(cur.vals) > 0 {
				repl("empty-array", arr())
			}
		case 'o':
			if len(cur.vals) > 0 {
				repl("empty-object", obj())
			}
		default:
			repl("empty-string", str(""))
		}
		if level > 0 {
			repl("empty-array", arr())
			repl("empty-object", obj())
		}
	case "deep":
		repl("deep-array", deep("[", "]", 10000))
		if level > 0 {
			repl("deep-object", raw(strings.Repeat(`{"a":`, 10000)+"1"+strings.Repeat("}", 10000)))
			repl("long-string", str(strings.Repeat("A", 1<<20)))
		}
	}
	return out
}
