// Entry points of C19 that run inside a whole in-process node: verifier, discovery registration, OpenID4VP
// authorization response, JAR, status list credentials.
package robust

import (
	"bytes"
	"context"
	"crypto/sha256"
	"encoding/base64"
	"encoding/json"
	"errors"
	"fmt"
	"io"
	"math/rand"
	"net/http"
	"net/http/httptest"
	"net/url"
	"os"
	"path/filepath"
	"sort"
	"strings"
	"testing"
	"time"

	"github.com/nuts-foundation/go-did/did"
	"github.com/nuts-foundation/go-did/vc"
	"github.com/nuts-foundation/nuts-node/audit"
	"github.com/nuts-foundation/nuts-node/auth/api/iam"
	"github.com/nuts-foundation/nuts-node/core"
	"github.com/nuts-foundation/nuts-node/discovery"
	"github.com/nuts-foundation/nuts-node/storage"
	testnode "github.com/nuts-foundation/nuts-node/test/node"
	"github.com/nuts-foundation/nuts-node/vcr"
	"github.com/nuts-foundation/nuts-node/vcr/pe"
	"github.com/nuts-foundation/nuts-node/vcr/revocation"
	vcrTypes "github.com/nuts-foundation/nuts-node/vcr/types"
	"github.com/nuts-foundation/nuts-node/vdr/didsubject"
	"github.com/sirupsen/logrus"
	"gorm.io/gorm"

	"verifharness/txforge"
)

func mustDID(s string) did.DID { return did.MustParseDID(s) }

// jwkKey returns a key whose did:jwk identifier contains no '+' or '/' (the resolver decodes with RawStdEncoding).
func jwkKey() (txforge.Key, string) {
	for {
		k := txforge.NewKey()
		j := k.JWK()
		bs, _ := json.Marshal(map[string]any{"crv": j["crv"], "kty": j["kty"], "x": j["x"], "y": j["y"]})
		enc := base64.RawStdEncoding.EncodeToString(bs)
		if !strings.ContainsAny(enc, "+/") {
			return k, "did:jwk:" + enc
		}
	}
}

// jwtVC builds header+claims of a JWT VC (NutsOrganizationCredential) issued by issuerDID to subject.
func jwtVCParts(issuer, subject, suffix string) (*node, *node) {
	now := time.Now().Unix()
	header := obj("alg", str("ES256"), "typ", str("JWT"), "kid", str(issuer+"#0"))
	claims := obj("iss", str(issuer), "sub", str(subject), "jti", str(issuer+"#"+suffix),
		"nbf", num(fmt.Sprint(now-60)), "exp", num(fmt.Sprint(now+86400)),
		"vc", obj("@context", arr(str("https://www.w3.org/2018/credentials/v1"), str("https://nuts.nl/credentials/v1")),
			"type", arr(str("VerifiableCredential"), str("NutsOrganizationCredential")),
			"credentialSubject", obj("id", str(subject), "organization", obj("name", str("Because We Care Healthcare Organisation"), "city", str("Eibergen")))))
	return header, claims
}

func signJWT(header, claims *node, key txforge.Key) string {
	return string(txforge.CompactRaw(header.bytes(), claims.bytes(), key))
}

// selfAttested returns a proof-less JSON-LD credential issued by the holder to itself (allowed inside a VP).
func selfAttested(holder string) *node {
	n := orgCredential(holder, holder, "self-1", false)
	n.del("proof")
	return n
}

func jwtVPParts(holder string, aud string, nonce string, creds ...*node) (*node, *node) {
	now := time.Now().Unix()
	header := obj("alg", str("ES256"), "typ", str("JWT"), "kid", str(holder+"#0"))
	claims := obj("iss", str(holder), "sub", str(holder), "jti", str(holder+"#"+fmt.Sprint(rand.Int63())),
		"nbf", num(fmt.Sprint(now-60)), "exp", num(fmt.Sprint(now+3600)), "aud", str(aud), "nonce", str(nonce),
		"vp", obj("@context", arr(str("https://www.w3.org/2018/credentials/v1")), "type", arr(str("VerifiablePresentation")),
			"holder", str(holder), "verifiableCredential", arr(creds...)))
	return header, claims
}

// signJWTVP is used by the pe entry point (array envelope with a JWT VP element)
func signJWTVP(key txforge.Key, _ any) string {
	holder := subjectDID
	h, c := jwtVPParts(holder, "aud", "n", authzCredential(issuerDID, subjectDID))
	return signJWT(h, c, key)
}

type nodeEnv struct {
	system    *core.System
	publicURL string
	vcr       vcr.VCR
	discovery *discovery.Module
	iam       *iam.Wrapper
	storage   storage.Engine
	db        *gorm.DB
	subject   string
}

const discoveryServiceID = "verif:svc1"

func discoveryDefinition(publicURL string) string {
	return `{"id":"` + discoveryServiceID + `","endpoint":"` + publicURL + `/discovery/` + discoveryServiceID + `","presentation_max_validity":36000,
 "presentation_definition":{"id":"pd-discovery","format":{"ldp_vc":{"proof_type":["JsonWebSignature2020"]},"jwt_vc":{"alg":["ES256"]},"jwt_vp":{"alg":["ES256"]}},
  "input_descriptors":[{"id":"org","constraints":{"fields":[
     {"path":["$.type"],"filter":{"type":"string","const":"NutsOrganizationCredential"}},
     {"id":"name","path":["$.credentialSubject.organization.name"],"filter":{"type":"string"}}]}}]}}`
}

func startNode(t *testing.T) *nodeEnv {
	defDir := t.TempDir()
	env := &nodeEnv{}
	_, publicURL, system := testnode.StartServer(t, func(_, publicURL string) {
		_ = os.WriteFile(filepath.Join(defDir, "svc1.json"), []byte(discoveryDefinition(publicURL)), 0o644)
		t.Setenv("NUTS_DISCOVERY_DEFINITIONS_DIRECTORY", defDir)
		t.Setenv("NUTS_DISCOVERY_SERVER_IDS", discoveryServiceID)
		t.Setenv("NUTS_DISCOVERY_CLIENT_REFRESHINTERVAL", "0")
		t.Setenv("NUTS_AUTH_AUTHORIZATIONENDPOINT_ENABLED", "true")
		t.Setenv("NUTS_DIDMETHODS", "web")
		t.Setenv("NUTS_VERBOSITY", "panic")
		t.Setenv("NUTS_HTTPCLIENT_TIMEOUT", "1s")
	})
	logrus.SetLevel(logrus.PanicLevel)
	logrus.SetOutput(io.Discard)
	env.system, env.publicURL = system, publicURL
	var subjects didsubject.Manager
	system.VisitEngines(func(e core.Engine) {
		switch v := e.(type) {
		case *discovery.Module:
			env.discovery = v
		case storage.Engine:
			env.storage = v
		}
		if v, ok := e.(vcr.VCR); ok {
			env.vcr = v
		}
		if v, ok := e.(didsubject.Manager); ok && subjects == nil {
			subjects = v
		}
	})
	for _, r := range system.Routers {
		if wr, ok := r.(*iam.Wrapper); ok {
			env.iam = wr
		}
	}
	if env.vcr == nil || env.discovery == nil || env.iam == nil || env.storage == nil || subjects == nil {
		t.Fatalf("harness: node engines not found (vcr=%v discovery=%v iam=%v storage=%v subjects=%v)", env.vcr != nil, env.discovery != nil, env.iam != nil, env.storage != nil, subjects != nil)
	}
	env.db = env.storage.GetSQLDatabase()
	_, subj, err := subjects.Create(audit.TestContext(), didsubject.DefaultCreationOptions())
	if err != nil {
		t.Fatalf("harness: cannot create subject: %v", err)
	}
	env.subject = subj
	return env
}

// tableDigest hashes all rows of the given tables.
func tableDigest(db *gorm.DB, tables ...string) string {
	h := sha256.New()
	for _, tb := range tables {
		var rows []map[string]any
		if err := db.Table(tb).Find(&rows).Error; err != nil {
			fmt.Fprintf(h, "%s:ERR:%v;", tb, err)
			continue
		}
		var ser []string
		for _, r := range rows {
			keys := make([]string, 0, len(r))
			for k := range r {
				keys = append(keys, k)
			}
			sort.Strings(keys)
			var sb strings.Builder
			for _, k := range keys {
				fmt.Fprintf(&sb, "%s=%v|", k, r[k])
			}
			ser = append(ser, sb.String())
		}
		sort.Strings(ser)
		fmt.Fprintf(h, "%s:%d:%s;", tb, len(ser), strings.Join(ser, "\n"))
	}
	return fmt.Sprintf("%x", h.Sum(nil))[:16]
}

func registerNodeEntries(w *world, needed map[string]bool) {
	names := []string{"verifier.Verify.ldp", "verifier.Verify.jwt", "verifier.VerifyVP.ldp", "verifier.VerifyVP.jwt",
		"discovery.Register", "iam.AuthorizeResponse", "iam.JAR", "revocation.StatusList2021"}
	wanted := false
	for _, n := range names {
		if needed[n] {
			wanted = true
		}
	}
	if !wanted {
		return
	}
	env := startNode(w.t)
	verifierInst := env.vcr.Verifier()
	issuerKey, issuerJWK := jwkKey()
	holderKey, holderJWK := jwkKey()

	// ---- credential, JSON-LD (signature check off, as the brief says: reach the validators and everything after them)
	w.add(&entryPoint{name: "verifier.Verify.ldp", kind: "json", instances: credentialInstances, gen: credentialUnusual,
		call: func(in []byte) (bool, string) {
			c, err := vc.ParseVerifiableCredential(string(in))
			if err != nil {
				return false, err.Error()
			}
			return errResult(verifierInst.Verify(*c, true, false, nil))
		}})

	// ---- credential, JWT (signed by the harness issuer over the MUTATED content; signature check on)
	vh, vcl := jwtVCParts(issuerJWK, holderJWK, "vc-1")
	vcInst := joseInstance("jwt-vc", vh, vcl, nil, issuerKey)
	w.add(&entryPoint{name: "verifier.Verify.jwt", kind: "jose",
		instances: func(int) []*instance { return []*instance{vcInst} },
		gen: func(op, pos string, level int, r *rand.Rand) []concrete {
			out := jwtUnusual(func() *node { return vh.clone() }, func() *node { return vcl.clone() }, issuerKey)(op, pos, level, r)
			if op == "unusual" && pos == "top" {
				mk := func(name string, f func(c *node)) concrete {
					c := vcl.clone()
					f(c)
					return concrete{"jwt-vc:" + name, txforge.CompactRaw(vh.bytes(), c.bytes(), issuerKey)}
				}
				generic := func(c *node) { c.get("vc").set("type", arr(str("VerifiableCredential"), str("ExampleCredential"))) }
				out = append(out,
					mk("generic-type", generic),
					mk("generic-type-issuer-url", func(c *node) { generic(c); c.set("iss", str("https://issuer.example.com")) }),
					mk("generic-type-issuer-blank", func(c *node) { generic(c); c.set("iss", str(" ")) }),
					mk("generic-type-issuer-did-url-with-fragment", func(c *node) { generic(c); c.set("iss", str(issuerJWK+"#0")) }),
					mk("generic-type-issuer-unknown-did-method", func(c *node) { generic(c); c.set("iss", str("did:example:123")) }),
					mk("single-type", func(c *node) { c.get("vc").set("type", arr(str("VerifiableCredential"))) }),
				)
			}
			return out
		},
		call: func(in []byte) (bool, string) {
			c, err := vc.ParseVerifiableCredential(string(in))
			if err != nil {
				return false, err.Error()
			}
			return errResult(verifierInst.Verify(*c, true, true, nil))
		}})

	// ---- presentation, JSON-LD (its proof cannot be re-signed by the harness: everything before the signature check)
	ldVP := obj("@context", arr(str("https://www.w3.org/2018/credentials/v1"), str("https://w3c-ccg.github.io/lds-jws2020/contexts/lds-jws2020-v1.json")),
		"id", str(subjectDID+"#vp1"), "type", arr(str("VerifiablePresentation")), "holder", str(subjectDID),
		"verifiableCredential", arr(orgCredential(issuerDID, subjectDID, "1", false), authzCredential(issuerDID, subjectDID)),
		"proof", obj("type", str("JsonWebSignature2020"), "created", str(ts(-time.Minute)), "proofPurpose", str("authentication"),
			"verificationMethod", str(subjectDID+"#key-1"), "challenge", str("n"), "domain", str("d"), "expires", str(ts(time.Hour)),
			"jws", str("eyJhbGciOiJFUzI1NiIsImI2NCI6ZmFsc2UsImNyaXQiOlsiYjY0Il19..MEUCIQDxC7Qk1dD2bqVNb3t8mN0m3X1X0m8m8v1Z0m3X1X0m8gIgZ0m3X1X0m8m8v1Z0m3X1X0m8m8v1Z0m3X1X0m8m8v1Y")))
	w.add(&entryPoint{name: "verifier.VerifyVP.ldp", kind: "json",
		instances: func(int) []*instance { return []*instance{jsonInstance("ld-vp", ldVP)} },
		gen: func(op, pos string, level int, r *rand.Rand) []concrete {
			if op != "unusual" {
				return nil
			}
			mk := func(name string, f func(n *node)) concrete {
				n := ldVP.clone()
				f(n)
				return concrete{"vp:" + name, n.bytes()}
			}
			switch pos {
			case "top":
				return []concrete{
					mk("no-credentials", func(n *node) { n.set("verifiableCredential", arr()) }),
					mk("no-credentials-no-proof", func(n *node) { n.set("verifiableCredential", arr()).del("proof") }),
					mk("no-holder-no-proof", func(n *node) { n.del("holder").del("proof") }),
					mk("proof-empty-array", func(n *node) { n.set("proof", arr()) }),
					mk("proof-array-of-two", func(n *node) { n.set("proof", arr(n.get("proof").clone(), n.get("proof").clone())) }),
					mk("credential-single-object", func(n *node) { n.set("verifiableCredential", n.get("verifiableCredential").vals[0].clone()) }),
					concrete{"vp:json-null", []byte("null")}, concrete{"vp:empty-object", []byte("{}")},
				}
			case "array":
				return []concrete{
					mk("credential-null", func(n *node) { n.set("verifiableCredential", arr(null())) }),
					mk("credential-without-subject", func(n *node) { n.get("verifiableCredential").vals[0].del("credentialSubject") }),
					mk("credential-subject-without-id", func(n *node) { n.get("verifiableCredential").vals[0].get("credentialSubject").del("id") }),
					mk("credential-subject-id-not-did", func(n *node) { n.get("verifiableCredential").vals[0].get("credentialSubject").set("id", str("x")) }),
					mk("credential-subjects-differ", func(n *node) { n.get("verifiableCredential").vals[0].get("credentialSubject").set("id", str(issuerDID)) }),
					mk("credential-jwt-string-garbage", func(n *node) { n.set("verifiableCredential", arr(str("a.b.c"))) }),
				}
			case "proof":
				return []concrete{
					mk("verificationMethod-missing", func(n *node) { n.get("proof").del("verificationMethod") }),
					mk("verificationMethod-other-did", func(n *node) { n.get("proof").set("verificationMethod", str(issuerDID+"#k")) }),
					mk("verificationMethod-no-fragment", func(n *node) { n.get("proof").set("verificationMethod", str(subjectDID)) }),
					mk("jws-missing", func(n *node) { n.get("proof").del("jws") }),
					mk("jws-not-detached", func(n *node) { n.get("proof").set("jws", str("a.b.c")) }),
					mk("jws-header-b64-true", func(n *node) { n.get("proof").set("jws", str(b64u.EncodeToString([]byte(`{"alg":"ES256","b64":true}`))+"..AAAA")) }),
					mk("jws-header-alg-none", func(n *node) { n.get("proof").set("jws", str(b64u.EncodeToString([]byte(`{"alg":"none"}`))+"..")) }),
					mk("created-in-future", func(n *node) { n.get("proof").set("created", str(ts(48*time.Hour))) }),
					mk("expires-in-past", func(n *node) { n.get("proof").set("expires", str(ts(-48*time.Hour))) }),
					mk("type-unknown", func(n *node) { n.get("proof").set("type", str("Unknown2099")) }),
				}
			}
			return nil
		},
		call: func(in []byte) (bool, string) {
			p, err := vc.ParseVerifiablePresentation(string(in))
			if err != nil {
				return false, err.Error()
			}
			_, err = verifierInst.VerifyVP(*p, true, true, nil)
			return errResult(err)
		}})

	// ---- presentation, JWT: signed by the harness holder (did:jwk) over the MUTATED content, so the signature verifies and
	// all validators behind it are reached; contains a self-attested credential (JSON) and a JWT credential.
	jwtVCString := signJWT(vh, vcl, issuerKey)
	ph, pcl := jwtVPParts(holderJWK, "aud", "nonce-1", selfAttested(holderJWK), str(jwtVCString))
	vpInst := joseInstance("jwt-vp", ph, pcl, nil, holderKey)
	vpUnusual := func(op, pos string, level int, r *rand.Rand) []concrete {
		out := jwtUnusual(func() *node { return ph.clone() }, func() *node { return pcl.clone() }, holderKey)(op, pos, level, r)
		if op != "unusual" {
			return out
		}
		mk := func(name string, f func(c *node)) concrete {
			c := pcl.clone()
			f(c)
			return concrete{"jwt-vp:" + name, txforge.CompactRaw(ph.bytes(), c.bytes(), holderKey)}
		}
		creds := func(c *node) *node { return c.get("vp").get("verifiableCredential") }
		switch pos {
		case "nested":
			out = append(out,
				mk("vp-claim-null", func(c *node) { c.set("vp", null()) }),
				mk("vp-claim-string", func(c *node) { c.set("vp", str("x")) }),
				mk("vp-claim-missing", func(c *node) { c.del("vp") }),
				mk("holder-differs-from-iss", func(c *node) { c.get("vp").set("holder", str(issuerJWK)) }),
				mk("vp-type-retracted", func(c *node) { c.get("vp").set("type", arr(str("VerifiablePresentation"), str("RetractedVerifiablePresentation"))) }),
			)
		case "array":
			out = append(out,
				mk("credential-null", func(c *node) { c.get("vp").set("verifiableCredential", arr(null())) }),
				mk("self-attested-org-without-id", func(c *node) { creds(c).vals[0].del("id") }),
				mk("self-attested-without-issuer", func(c *node) { creds(c).vals[0].del("issuer") }),
				mk("self-attested-issuer-not-a-did", func(c *node) { creds(c).vals[0].set("issuer", str("https://example.com")) }),
				mk("self-attested-with-empty-proof-array", func(c *node) { creds(c).vals[0].set("proof", arr()) }),
				mk("self-attested-with-bogus-proof", func(c *node) { creds(c).vals[0].set("proof", ldProof()) }),
				mk("self-attested-with-status", func(c *node) {
					creds(c).vals[0].set("credentialStatus", obj("id", str("x#1"), "type", str("StatusList2021Entry"), "statusPurpose", str("revocation"),
						"statusListIndex", str("1"), "statusListCredential", str("http://127.0.0.1:1/sl")))
				}),
				mk("jwt-credential-of-other-subject", func(c *node) {
					h2, c2 := jwtVCParts(issuerJWK, issuerJWK, "vc-2")
					creds(c).vals[1] = str(signJWT(h2, c2, issuerKey))
				}),
				mk("jwt-credential-issuer-not-did", func(c *node) {
					h2, c2 := jwtVCParts(issuerJWK, holderJWK, "vc-3")
					c2.set("iss", str("https://issuer.example.com"))
					creds(c).vals[1] = str(signJWT(h2, c2, issuerKey))
				}),
				mk("jwt-credential-without-jti", func(c *node) {
					h2, c2 := jwtVCParts(issuerJWK, holderJWK, "vc-4")
					c2.del("jti")
					creds(c).vals[1] = str(signJWT(h2, c2, issuerKey))
				}),
				mk("jwt-credential-kid-unknown-did-method", func(c *node) {
					h2, c2 := jwtVCParts(issuerJWK, holderJWK, "vc-5")
					h2.set("kid", str("did:example:123#k"))
					creds(c).vals[1] = str(signJWT(h2, c2, issuerKey))
				}),
				mk("jwt-credential-kid-did-web-unreachable", func(c *node) {
					h2, c2 := jwtVCParts("did:web:127.0.0.1%3A1", holderJWK, "vc-6")
					creds(c).vals[1] = str(signJWT(h2, c2, issuerKey))
				}),
				mk("jwt-credential-generic-type-issuer-url", func(c *node) {
					h2, c2 := jwtVCParts(issuerJWK, holderJWK, "vc-7")
					c2.get("vc").set("type", arr(str("VerifiableCredential"), str("ExampleCredential")))
					c2.set("iss", str("https://issuer.example.com"))
					creds(c).vals[1] = str(signJWT(h2, c2, issuerKey))
				}),
				mk("json-credential-generic-type-issuer-url-with-proof", func(c *node) {
					g := genericCredential("https://issuer.example.com", holderJWK)
					g.del("credentialStatus")
					creds(c).vals[1] = g
				}),
				mk("fifty-credentials", func(c *node) {
					for i := 0; i < 50; i++ {
						creds(c).vals = append(creds(c).vals, creds(c).vals[0].clone())
					}
				}),
			)
		}
		return out
	}
	w.add(&entryPoint{name: "verifier.VerifyVP.jwt", kind: "jose",
		instances: func(int) []*instance { return []*instance{vpInst} }, gen: vpUnusual,
		call: func(in []byte) (bool, string) {
			p, err := vc.ParseVerifiablePresentation(string(in))
			if err != nil {
				return false, err.Error()
			}
			_, err = verifierInst.VerifyVP(*p, true, true, nil)
			return errResult(err)
		}})

	// ---- discovery registration (server role)
	dh, dcl := jwtVPParts(holderJWK, discoveryServiceID, "n", selfAttested(holderJWK))
	dcl.del("nonce")
	regInst := joseInstance("registration", dh, dcl, nil, holderKey)
	discoveryTables := []string{"discovery_presentation", "discovery_credential", "credential", "credential_prop"}
	w.add(&entryPoint{name: "discovery.Register", kind: "jose",
		instances: func(int) []*instance { return []*instance{regInst} },
		gen: func(op, pos string, level int, r *rand.Rand) []concrete {
			if op != "unusual" {
				return nil
			}
			mk := func(name string, f func(c *node)) concrete {
				c := dcl.clone()
				c.set("jti", str(holderJWK+"#"+fmt.Sprint(r.Int63())))
				f(c)
				return concrete{"registration:" + name, txforge.CompactRaw(dh.bytes(), c.bytes(), holderKey)}
			}
			switch pos {
			case "top":
				return []concrete{
					mk("valid-fresh-id", func(c *node) {}),
					mk("retraction-of-unknown", func(c *node) {
						c.get("vp").set("type", arr(str("VerifiablePresentation"), str("RetractedVerifiablePresentation"))).set("verifiableCredential", arr())
						c.set("retract_jti", str(holderJWK+"#unknown"))
					}),
					mk("retraction-jti-number", func(c *node) {
						c.get("vp").set("type", arr(str("VerifiablePresentation"), str("RetractedVerifiablePresentation"))).set("verifiableCredential", arr())
						c.set("retract_jti", num("5"))
					}),
					mk("retraction-with-credentials", func(c *node) {
						c.get("vp").set("type", arr(str("VerifiablePresentation"), str("RetractedVerifiablePresentation")))
						c.set("retract_jti", str("x"))
					}),
					mk("exp-too-far", func(c *node) { c.set("exp", num(fmt.Sprint(time.Now().Unix()+999999999))) }),
					mk("exp-missing", func(c *node) { c.del("exp") }),
					mk("aud-other-service", func(c *node) { c.set("aud", str("other")) }),
					mk("aud-missing", func(c *node) { c.del("aud") }),
					mk("jti-missing", func(c *node) { c.del("jti") }),
					mk("jti-not-uri", func(c *node) { c.set("jti", str("::")) }),
					mk("iss-did-key-method", func(c *node) { c.set("iss", str("did:key:z6MkhaXgBZDvotDkL5257faiztiGiC2QtKLGpbnnEGta2doK")) }),
					mk("credential-expires-before-vp", func(c *node) {
						c.get("vp").get("verifiableCredential").vals[0].set("expirationDate", str(ts(time.Minute)))
					}),
					mk("credential-not-matching-definition", func(c *node) {
						c.get("vp").get("verifiableCredential").vals[0].set("type", arr(str("VerifiableCredential"), str("Other")))
					}),
					mk("no-credentials", func(c *node) { c.get("vp").set("verifiableCredential", arr()) }),
					mk("extra-credential-generic-type-issuer-url", func(c *node) {
						h2, c2 := jwtVCParts(issuerJWK, holderJWK, "vc-8")
						c2.get("vc").set("type", arr(str("VerifiableCredential"), str("ExampleCredential")))
						c2.set("iss", str("https://issuer.example.com"))
						c.get("vp").get("verifiableCredential").vals = append(c.get("vp").get("verifiableCredential").vals, str(signJWT(h2, c2, issuerKey)))
					}),
				}
			}
			return nil
		},
		digest: func() string { return tableDigest(env.db, discoveryTables...) },
		call: func(in []byte) (bool, string) {
			p, err := vc.ParseVerifiablePresentation(string(in))
			if err != nil {
				return false, err.Error()
			}
			return errResult(env.discovery.Register(context.Background(), discoveryServiceID, *p))
		}})

	// ---- OpenID4VP authorization response (direct_post) parameters
	pdOrg, err := pe.ParsePresentationDefinition([]byte(`{"id":"pd-openid4vp",
	  "input_descriptors":[{"id":"org","constraints":{"fields":[{"path":["$.type"],"filter":{"type":"string","const":"NutsOrganizationCredential"}}]}}]}`))
	if err != nil {
		w.t.Fatal(err)
	}
	aud := env.publicURL + "/oauth2/" + env.subject
	const state, nonce = "verif-state-1", "verif-nonce-1"
	prepareSession := func() {
		own := env.subject
		sess := iam.OAuthSession{ClientFlow: "access_token_request", ClientID: "https://client.example.com/oauth2/c", ClientState: "client-state",
			OwnSubject: &own, RedirectURI: "https://client.example.com/callback", Scope: "test", SessionID: "sid",
			OpenID4VPVerifier: &iam.PEXConsumer{RequiredPresentationDefinitions: pe.WalletOwnerMapping{pe.WalletOwnerOrganization: *pdOrg},
				Submissions: map[string]pe.PresentationSubmission{}, SubmittedEnvelopes: map[string]pe.Envelope{}}}
		_ = env.storage.GetSessionDatabase().GetStore(time.Minute, "oauth", "client_state").Put(state, sess)
		_ = env.storage.GetSessionDatabase().GetStore(time.Minute, "oauth", "nonce").Put(nonce, state)
	}
	ah, acl := jwtVPParts(holderJWK, aud, nonce, selfAttested(holderJWK))
	// a single credential is serialised as an object (go-did), which is what the submission builder's path expects
	acl.get("vp").set("verifiableCredential", acl.get("vp").get("verifiableCredential").vals[0])
	// the submission is produced by the real builder for exactly this wallet content
	saVC, err := vc.ParseVerifiableCredential(string(selfAttested(holderJWK).bytes()))
	if err != nil {
		w.t.Fatal(err)
	}
	sb := pdOrg.PresentationSubmissionBuilder()
	sb.AddWallet(mustDID(holderJWK), []vc.VerifiableCredential{*saVC})
	builtSubmission, _, err := sb.Build("jwt_vp")
	if err != nil {
		w.t.Fatalf("harness: cannot build submission: %v", err)
	}
	submission := fromGo(builtSubmission)
	respInst := &instance{name: "authorization-response",
		parts:   map[string]*node{"body": obj("state", str(state), "vp_token", str("$VP"), "presentation_submission", submission), "header": ah, "claims": acl},
		order:   []string{"body", "header", "claims"},
		basePos: map[string]string{"body": "top", "header": "header", "claims": "nested"},
		render: func(p map[string][]byte) []byte {
			tok := string(txforge.CompactRaw(p["header"], p["claims"], holderKey))
			qt, _ := json.Marshal(tok)
			return bytes.Replace(p["body"], []byte(`"$VP"`), qt, 1)
		}}
	w.add(&entryPoint{name: "iam.AuthorizeResponse", kind: "jose",
		instances: func(int) []*instance { return []*instance{respInst} },
		gen: func(op, pos string, level int, r *rand.Rand) []concrete {
			if op != "unusual" || pos != "top" {
				return nil
			}
			body := func(kv ...any) []byte { return obj(kv...).bytes() }
			tok := str(string(txforge.CompactRaw(ah.bytes(), acl.bytes(), holderKey)))
			return []concrete{
				{"response:error-only", body("error", str("access_denied"))},
				{"response:error-with-state", body("error", str("access_denied"), "error_description", str("d"), "state", str(state))},
				{"response:error-unknown-state", body("error", str("x"), "state", str("unknown"))},
				{"response:error-empty", body("error", str(""), "state", str(state))},
				{"response:no-params", body()},
				{"response:only-state", body("state", str(state))},
				{"response:unknown-state", body("state", str("unknown"), "vp_token", tok, "presentation_submission", submission)},
				{"response:vp_token-empty-array", body("state", str(state), "vp_token", str("[]"), "presentation_submission", submission)},
				{"response:vp_token-array-of-two", body("state", str(state), "vp_token", arr(tok, tok), "presentation_submission", submission)},
				{"response:vp_token-json-ld", body("state", str(state), "vp_token", ldVP, "presentation_submission", submission)},
				{"response:submission-missing", body("state", str(state), "vp_token", tok)},
				{"response:credential-generic-type-issuer-url", func() []byte {
					h2, c2 := jwtVCParts(issuerJWK, holderJWK, "vc-9")
					c2.get("vc").set("type", arr(str("VerifiableCredential"), str("ExampleCredential")))
					c2.set("iss", str("https://issuer.example.com"))
					c := acl.clone()
					c.get("vp").set("verifiableCredential", arr(c.get("vp").get("verifiableCredential").clone(), str(signJWT(h2, c2, issuerKey))))
					return body("state", str(state), "vp_token", str(string(txforge.CompactRaw(ah.bytes(), c.bytes(), holderKey))), "presentation_submission", submission)
				}()},
				{"response:submission-not-json", body("state", str(state), "vp_token", tok, "presentation_submission", str("{"))},
				{"response:submission-other-definition", body("state", str(state), "vp_token", tok, "presentation_submission",
					obj("id", str("s"), "definition_id", str("other"), "descriptor_map", arr()))},
			}
		},
		call: func(in []byte) (bool, string) {
			var params map[string]json.RawMessage
			if err := json.Unmarshal(in, &params); err != nil {
				return false, "harness: not a parameter object: " + err.Error()
			}
			get := func(k string) *string {
				v, ok := params[k]
				if !ok {
					return nil
				}
				var s string
				if json.Unmarshal(v, &s) == nil {
					return &s
				}
				s = string(v) // a non-string JSON value travels as its text in the form field
				return &s
			}
			prepareSession()
			body := iam.HandleAuthorizeResponseFormdataRequestBody{Error: get("error"), ErrorDescription: get("error_description"),
				PresentationSubmission: get("presentation_submission"), State: get("state"), VpToken: get("vp_token")}
			_, err := env.iam.HandleAuthorizeResponse(context.Background(), iam.HandleAuthorizeResponseRequestObject{SubjectID: env.subject, Body: &body})
			return errResult(err)
		}})

	// ---- JAR: signed authorization request object (request= query parameter of the authorization endpoint)
	// the client's OpenID configuration (a signed JWT) is served by a local server, so the request object validates completely
	var clientID string
	metaSrv := httptest.NewServer(http.HandlerFunc(func(rw http.ResponseWriter, r *http.Request) {
		jwkPub := holderKey.JWK()
		jwkPub["kid"] = holderJWK + "#0"
		claims := fromGo(map[string]any{"iss": clientID, "iat": time.Now().Unix() - 1, "exp": time.Now().Unix() + 600,
			"jwks": map[string]any{"keys": []any{jwkPub}}, "authorization_endpoint": clientID + "/authorize", "response_types_supported": []string{"vp_token"}})
		hdr := obj("alg", str("ES256"), "typ", str("JWT"), "kid", str(holderJWK+"#0"))
		rw.Header().Set("Content-Type", "application/entity-statement+jwt")
		_, _ = rw.Write(txforge.CompactRaw(hdr.bytes(), claims.bytes(), holderKey))
	}))
	w.t.Cleanup(metaSrv.Close)
	clientID = metaSrv.URL + "/oauth2/client"
	jh := obj("alg", str("ES256"), "typ", str("oauth-authz-req+jwt"), "kid", str(holderJWK+"#0"))
	jcl := obj("iss", str(holderJWK), "aud", str(aud), "client_id", str(clientID), "response_type", str("vp_token"), "response_mode", str("direct_post"),
		"response_uri", str("https://client.example.com/response"), "nonce", str("n"), "state", str("s"), "scope", str("test"),
		"client_metadata", obj("vp_formats", obj("jwt_vp_json", obj("alg_values_supported", arr(str("ES256"))))),
		"presentation_definition", mustJSON(pdFixture),
		"exp", num(fmt.Sprint(time.Now().Unix()+600)), "iat", num(fmt.Sprint(time.Now().Unix()-5)), "jti", str("jar-1"))
	jarInst := joseInstance("jar", jh, jcl, nil, holderKey)
	w.add(&entryPoint{name: "iam.JAR", kind: "jose",
		instances: func(int) []*instance { return []*instance{jarInst} },
		gen: func(op, pos string, level int, r *rand.Rand) []concrete {
			out := jwtUnusual(func() *node { return jh.clone() }, func() *node { return jcl.clone() }, holderKey)(op, pos, level, r)
			if op == "unusual" && pos == "top" {
				out = append(out,
					concrete{"jar:QUERY:request-and-request_uri", []byte("QUERY:client_id=" + url.QueryEscape(clientID) + "&request=a.b.c&request_uri=http%3A%2F%2F127.0.0.1%3A1%2Fr")},
					concrete{"jar:QUERY:request_uri-unreachable", []byte("QUERY:client_id=" + url.QueryEscape(clientID) + "&request_uri=http%3A%2F%2F127.0.0.1%3A1%2Fr")},
					concrete{"jar:QUERY:request_uri-method-post", []byte("QUERY:client_id=x&request_uri=http%3A%2F%2F127.0.0.1%3A1%2Fr&request_uri_method=post")},
					concrete{"jar:QUERY:request_uri-method-unknown", []byte("QUERY:client_id=x&request_uri=http%3A%2F%2F127.0.0.1%3A1%2Fr&request_uri_method=put")},
					concrete{"jar:QUERY:request_uri-not-url", []byte("QUERY:client_id=x&request_uri=%3A%3A")},
					concrete{"jar:QUERY:no-request", []byte("QUERY:client_id=x&response_type=code")},
					concrete{"jar:QUERY:empty", []byte("QUERY:")},
					concrete{"jar:QUERY:bad-escapes", []byte("QUERY:request=%zz&client_id=%")},
				)
			}
			return out
		},
		call: func(in []byte) (bool, string) {
			rawQuery := "client_id=" + url.QueryEscape(clientID) + "&request=" + url.QueryEscape(string(in))
			if bytes.HasPrefix(in, []byte("QUERY:")) {
				rawQuery = string(in[6:])
			}
			req := httptest.NewRequest(http.MethodGet, "/oauth2/"+url.PathEscape(env.subject)+"/authorize", nil)
			req.URL.RawQuery = rawQuery
			ctx := iam.VerifRobustRequestContext(context.Background(), req)
			_, err := env.iam.HandleAuthorizeRequest(ctx, iam.HandleAuthorizeRequestRequestObject{SubjectID: env.subject})
			return errResult(err)
		}})

	// ---- StatusList2021 credential as answered by a remote server
	const slURL = "https://statuslist.example.com/iam/statuslist/1"
	slCred := obj("@context", arr(str("https://www.w3.org/2018/credentials/v1"), str("https://w3id.org/vc/status-list/2021/v1")),
		"id", str(slURL), "type", arr(str("VerifiableCredential"), str("StatusList2021Credential")), "issuer", str(issuerDID),
		"issuanceDate", str(ts(-time.Hour)), "expirationDate", str(ts(time.Hour)),
		"credentialSubject", obj("id", str(slURL), "type", str("StatusList2021"), "statusPurpose", str("revocation"),
			"encodedList", str(b64u.EncodeToString(gz(make([]byte, 16*1024))))),
		"proof", ldProof())
	var served []byte
	servedStatus := 200
	sl := revocation.NewStatusList2021(env.db, doerFunc(func(req *http.Request) (*http.Response, error) {
		return &http.Response{StatusCode: servedStatus, Header: http.Header{"Content-Type": []string{"application/json"}}, Body: io.NopCloser(bytes.NewReader(served)), Request: req}, nil
	}), "https://node.example.com")
	sl.VerifySignature = func(vc.VerifiableCredential, *time.Time) error { return nil } // signature check off: reach everything behind it
	probe := orgCredential(issuerDID, subjectDID, "probe", true)
	probe.get("credentialStatus").set("statusListCredential", str(slURL)).set("id", str(slURL+"#5"))
	probeVC, err := vc.ParseVerifiableCredential(string(probe.bytes()))
	if err != nil {
		w.t.Fatal(err)
	}
	w.add(&entryPoint{name: "revocation.StatusList2021", kind: "json",
		instances: func(int) []*instance { return []*instance{jsonInstance("statuslist-credential", slCred)} },
		gen: func(op, pos string, level int, r *rand.Rand) []concrete {
			if op != "unusual" {
				return nil
			}
			mk := func(name string, f func(n *node)) concrete {
				n := slCred.clone()
				f(n)
				return concrete{"statuslist:" + name, n.bytes()}
			}
			cs := func(n *node) *node { return n.get("credentialSubject") }
			switch pos {
			case "nested":
				var out []concrete
				for _, c := range encodedListVariants("unusual", "top", level, r) {
					c := c
					out = append(out, mk(c.desc, func(n *node) { cs(n).set("encodedList", str(string(c.input))) }))
				}
				for _, o := range []string{"truncate", "empty", "type-string", "duplicate"} {
					for _, c := range encodedListVariants(o, "top", level, r) {
						c := c
						out = append(out, mk(c.desc, func(n *node) { cs(n).set("encodedList", str(string(c.input))) }))
					}
				}
				out = append(out,
					mk("list-of-1-byte", func(n *node) { cs(n).set("encodedList", str(b64u.EncodeToString(gz([]byte{0x04})))) }),
					mk("list-all-ones", func(n *node) { cs(n).set("encodedList", str(b64u.EncodeToString(gz(bytes.Repeat([]byte{0xff}, 16*1024))))) }),
					mk("purpose-suspension", func(n *node) { cs(n).set("statusPurpose", str("suspension")) }),
					mk("subject-id-other", func(n *node) { cs(n).set("id", str(slURL+"x")) }),
					mk("subject-type-other", func(n *node) { cs(n).set("type", str("Other")) }),
				)
				return out
			case "top":
				return []concrete{
					mk("with-credentialStatus-loop", func(n *node) {
						n.set("credentialStatus", obj("id", str(slURL+"#1"), "type", str("StatusList2021Entry"), "statusPurpose", str("revocation"),
							"statusListIndex", str("1"), "statusListCredential", str(slURL)))
					}),
					mk("subject-array-of-two", func(n *node) { n.set("credentialSubject", arr(cs(n).clone(), cs(n).clone())) }),
					mk("no-proof", func(n *node) { n.del("proof") }),
					mk("no-expiration", func(n *node) { n.del("expirationDate") }),
					mk("expired", func(n *node) { n.set("expirationDate", str(ts(-time.Hour))) }),
					mk("three-types", func(n *node) { n.get("type").vals = append(n.get("type").vals, str("X")) }),
					{"statuslist:HTTP:404", []byte("HTTP:404:")}, {"statuslist:HTTP:200-empty", []byte("HTTP:200:")},
					{"statuslist:HTTP:200-html", []byte("HTTP:200:<html>")}, {"statuslist:HTTP:200-jwt-garbage", []byte(`HTTP:200:"a.b.c"`)},
					{"statuslist:HTTP:301", []byte("HTTP:301:")},
				}
			}
			return nil
		},
		digest: func() string { return tableDigest(env.db, "status_list_credential") },
		call: func(in []byte) (bool, string) {
			served, servedStatus = in, 200
			if bytes.HasPrefix(in, []byte("HTTP:")) {
				parts := bytes.SplitN(in, []byte(":"), 3)
				fmt.Sscan(string(parts[1]), &servedStatus)
				served = parts[2]
			}
			err := sl.Verify(*probeVC)
			if err == nil {
				return true, ""
			}
			// the INPUT is the status list credential: it is refused iff fetching/verifying it failed ("status list: ..." errors).
			// Later errors (purpose of the probe differs, index outside the list) concern the probe credential; the list was admitted.
			if strings.HasPrefix(err.Error(), "status list: ") && !errors.Is(err, vcrTypes.ErrRevoked) {
				return false, err.Error()
			}
			return true, "list admitted; probe: " + err.Error()
		}})
	// a status list accepted earlier is cached in the table; forget it so that the next call downloads again
	w.eps["revocation.StatusList2021"].reset = func() { env.db.Exec("DELETE FROM status_list_credential") }
	w.eps["discovery.Register"].reset = func() {
		env.db.Exec("DELETE FROM discovery_presentation")
		env.db.Exec("DELETE FROM discovery_credential")
		env.db.Exec("DELETE FROM credential_prop")
		env.db.Exec("DELETE FROM credential")
	}
}
