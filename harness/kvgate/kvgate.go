// Package kvgate decorates a stoabs.KVStore with scheduler gates and fault injection at the seams
// go-stoabs already has: begin of a read tx, begin of a write tx (before the lock), end of the write
// function (inside the tx), the OnRollback hooks and the AfterCommit hooks.
package kvgate

import (
	"context"
	"errors"
	"strings"
	"sync"

	"github.com/nuts-foundation/go-stoabs"
	"verifharness/gate"
)

// ErrInjected is returned from the write function when the script makes the write fail.
var ErrInjected = errors.New("verif: injected write failure")

// ErrDead is returned by every operation of a store whose incarnation has crashed.
var ErrDead = errors.New("verif: incarnation is dead")

// Observer receives one event per linearization point (called while the actor still owns the step).
type Observer func(actor, event string, fields map[string]any)

// Store is the gated KVStore.
type Store struct {
	stoabs.KVStore
	S *gate.Sched
	// Obs may be nil.
	Obs Observer
	// InTx may add cheap projected state to the "write.fn" event; it runs inside the write transaction.
	InTx func(tx stoabs.WriteTx, fields map[string]any)
	// ShelfFault decides, for WriteShelf/ReadShelf calls (notifier job bookkeeping), whether the call
	// proceeds ("go"), fails ("fail") or the incarnation dies right there ("crash"). May be nil.
	ShelfFault func(kind, shelf string) string
	// ShelfGetFault decides, for a Get of one key inside a ReadShelf call, whether it fails ("fail"): the read of ONE
	// notifier job fails (lock not obtained in time / storage error) while reads of other keys proceed. May be nil.
	ShelfGetFault func(shelf string, key []byte) string
	mu         sync.Mutex
	dead       bool
	phase      map[string]int // per actor: 0 = before first read of an Add, >0 = inside hooks
}

func Wrap(inner stoabs.KVStore, s *gate.Sched) *Store {
	return &Store{KVStore: inner, S: s, phase: map[string]int{}}
}

// Kill marks the incarnation dead: all later operations fail without touching the database and no hook runs.
func (g *Store) Kill() {
	g.mu.Lock()
	g.dead = true
	g.mu.Unlock()
	g.S.Kill()
}

// Dead reports whether the incarnation was killed.
func (g *Store) Dead() bool { return g.isDead() }

func (g *Store) isDead() bool {
	g.mu.Lock()
	defer g.mu.Unlock()
	return g.dead
}

func (g *Store) obs(actor, ev string, f map[string]any) {
	if g.Obs != nil {
		g.Obs(actor, ev, f)
	}
}

type wtx struct {
	stoabs.WriteTx
	g *Store
	// failShelf: every Put on this shelf fails (directive "failput:<shelf>" at write.begin): a storage error in the
	// middle of the write function
	failShelf string
}

func (w wtx) Store() stoabs.KVStore { return w.g }

func (w wtx) GetShelfWriter(shelf string) stoabs.Writer {
	inner := w.WriteTx.GetShelfWriter(shelf)
	if w.failShelf != "" && shelf == w.failShelf {
		return failingWriter{inner}
	}
	return inner
}

type failingWriter struct{ stoabs.Writer }

func (failingWriter) Put(stoabs.Key, []byte) error { return ErrInjected }

type rtx struct {
	stoabs.ReadTx
	g *Store
}

func (r rtx) Store() stoabs.KVStore { return r.g }

func (g *Store) inHook(a string) bool {
	g.mu.Lock()
	defer g.mu.Unlock()
	return g.phase[a] > 0
}

func (g *Store) setHook(a string, d int) {
	g.mu.Lock()
	g.phase[a] += d
	g.mu.Unlock()
}

func (g *Store) Read(ctx context.Context, fn func(stoabs.ReadTx) error) error {
	if g.isDead() {
		return ErrDead
	}
	a := gate.Actor(ctx)
	if a != "" && !g.inHook(a) {
		if g.S.At(a, "read.begin") == "dead" {
			return ErrDead
		}
	}
	gated := a != "" && !g.inHook(a)
	err := g.KVStore.Read(ctx, func(tx stoabs.ReadTx) error { return fn(rtx{tx, g}) })
	if gated {
		res := "ok"
		if err != nil {
			res = "err"
		}
		g.obs(a, "read.done", map[string]any{"res": res})
	}
	return err
}

func (g *Store) Write(ctx context.Context, fn func(stoabs.WriteTx) error, opts ...stoabs.TxOption) error {
	if g.isDead() {
		return ErrDead
	}
	a := gate.Actor(ctx)
	gated := a != "" && !g.inHook(a)
	failShelf := ""
	if gated {
		d := g.S.At(a, "write.begin")
		if d == "dead" {
			return ErrDead
		}
		if strings.HasPrefix(d, "failput:") {
			failShelf = strings.TrimPrefix(d, "failput:")
		}
	}
	// strip the hooks and re-invoke them behind gates
	var pass []stoabs.TxOption
	var hooks []stoabs.TxOption
	for _, o := range opts {
		switch o.(type) {
		case *stoabs.OnRollbackOption, *stoabs.AfterCommitOption:
			hooks = append(hooks, o)
		default:
			pass = append(pass, o)
		}
	}
	pass = append(pass,
		stoabs.OnRollback(func() {
			if g.isDead() {
				return
			}
			g.obs(a, "rollback", nil)
			if gated && g.S.At(a, "rollback.hook") == "dead" {
				return
			}
			g.setHook(a, 1)
			stoabs.OnRollbackOption{}.Invoke(hooks)
			g.setHook(a, -1)
			g.obs(a, "rollback.hook.done", nil)
		}),
		stoabs.AfterCommit(func() {
			if g.isDead() {
				return
			}
			g.obs(a, "commit", nil)
			if gated && g.S.At(a, "commit.hook") == "dead" {
				return
			}
			g.setHook(a, 1)
			g.obs(a, "commit.hook.begin", nil)
			stoabs.AfterCommitOption{}.Invoke(hooks)
			g.setHook(a, -1)
			g.obs(a, "commit.hook.done", nil)
		}))
	return g.KVStore.Write(ctx, func(tx stoabs.WriteTx) error {
		err := fn(wtx{tx, g, failShelf})
		if g.isDead() {
			return ErrDead
		}
		if gated {
			res := "ok"
			if err != nil {
				res = "err"
			}
			f := map[string]any{"res": res}
			if failShelf != "" {
				f["late"] = failShelf
			}
			if g.InTx != nil {
				g.InTx(tx, f)
			}
			g.obs(a, "write.fn", f)
			switch g.S.At(a, "write.fnEnd") {
			case "fail":
				if err == nil {
					err = ErrInjected
				}
			case "dead":
				return ErrDead
			}
		}
		return err
	}, pass...)
}

func (g *Store) WriteShelf(ctx context.Context, shelf string, fn func(stoabs.Writer) error) error {
	if g.isDead() {
		return ErrDead
	}
	if g.ShelfFault != nil {
		switch g.ShelfFault("write", shelf) {
		case "fail":
			return ErrInjected
		case "crash":
			g.Kill()
			return ErrDead
		}
	}
	err := g.KVStore.WriteShelf(ctx, shelf, fn)
	if err == nil {
		g.obs("-", "shelf.write", map[string]any{"shelf": shelf})
	}
	return err
}

func (g *Store) ReadShelf(ctx context.Context, shelf string, fn func(stoabs.Reader) error) error {
	if g.isDead() {
		return ErrDead
	}
	if g.ShelfFault != nil {
		switch g.ShelfFault("read", shelf) {
		case "fail":
			return ErrInjected
		case "crash":
			g.Kill()
			return ErrDead
		}
	}
	if g.ShelfGetFault != nil {
		return g.KVStore.ReadShelf(ctx, shelf, func(r stoabs.Reader) error { return fn(faultReader{r, shelf, g}) })
	}
	return g.KVStore.ReadShelf(ctx, shelf, fn)
}

type faultReader struct {
	stoabs.Reader
	shelf string
	g     *Store
}

func (f faultReader) Get(key stoabs.Key) ([]byte, error) {
	if f.g.ShelfGetFault(f.shelf, key.Bytes()) == "fail" {
		return nil, ErrInjected
	}
	return f.Reader.Get(key)
}
