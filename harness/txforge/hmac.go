package txforge

import (
	"crypto/hmac"
	"crypto/sha256"
)

func hmacSHA256(key, msg []byte) []byte {
	m := hmac.New(sha256.New, key)
	m.Write(msg)
	return m.Sum(nil)
}
