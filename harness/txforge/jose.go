package txforge

// Generic byte-level JOSE forging (C04, C17): keys of every family the node accepts, every JWS algorithm incl. the
// forbidden ones (none, HS*), JSON serialisations with any number of signatures, re-encodings of the compact form.
// Only the Go standard library is used, so nothing here depends on the code under test.

import (
	"crypto"
	"crypto/ecdsa"
	"crypto/ed25519"
	"crypto/elliptic"
	"crypto/hmac"
	"crypto/rand"
	"crypto/rsa"
	"crypto/sha256"
	"crypto/sha512"
	"crypto/x509"
	"encoding/base64"
	"encoding/json"
	"encoding/pem"
	"fmt"
	"hash"
	"math/big"
	"strings"
)

// AnyKey is a key pair of one of the families ed25519, p256, p384, p521, rsa.
type AnyKey struct {
	Kind string
	Priv crypto.Signer
}

// NewAnyKey generates a key pair (rsa = 2048 bit).
func NewAnyKey(kind string) AnyKey {
	var s crypto.Signer
	var err error
	switch kind {
	case "ed25519":
		_, s, err = ed25519.GenerateKey(rand.Reader)
	case "p256":
		s, err = ecdsa.GenerateKey(elliptic.P256(), rand.Reader)
	case "p384":
		s, err = ecdsa.GenerateKey(elliptic.P384(), rand.Reader)
	case "p521":
		s, err = ecdsa.GenerateKey(elliptic.P521(), rand.Reader)
	case "rsa":
		s, err = rsa.GenerateKey(rand.Reader, 2048)
	default:
		panic("unknown key kind " + kind)
	}
	if err != nil {
		panic(err)
	}
	return AnyKey{Kind: kind, Priv: s}
}

// Public returns the crypto.PublicKey (pointer types for ecdsa/rsa).
func (k AnyKey) Public() crypto.PublicKey { return k.Priv.Public() }

// DefaultAlg is the JWS algorithm that fits the key.
func (k AnyKey) DefaultAlg() string {
	switch k.Kind {
	case "ed25519":
		return "EdDSA"
	case "p256":
		return "ES256"
	case "p384":
		return "ES384"
	case "p521":
		return "ES512"
	default:
		return "PS256"
	}
}

func fixed(b *big.Int, n int) string {
	bs := b.Bytes()
	out := make([]byte, n)
	copy(out[n-len(bs):], bs)
	return b64.EncodeToString(out)
}

// PublicJWK returns the public key as JWK members.
func (k AnyKey) PublicJWK() map[string]any {
	switch p := k.Priv.Public().(type) {
	case ed25519.PublicKey:
		return map[string]any{"kty": "OKP", "crv": "Ed25519", "x": b64.EncodeToString(p)}
	case *ecdsa.PublicKey:
		n := (p.Curve.Params().BitSize + 7) / 8
		return map[string]any{"kty": "EC", "crv": p.Curve.Params().Name, "x": fixed(p.X, n), "y": fixed(p.Y, n)}
	case *rsa.PublicKey:
		return map[string]any{"kty": "RSA", "n": b64.EncodeToString(p.N.Bytes()), "e": b64.EncodeToString(big.NewInt(int64(p.E)).Bytes())}
	}
	panic("unsupported key")
}

// PrivateJWK returns the private key as JWK members (contains "d").
func (k AnyKey) PrivateJWK() map[string]any {
	m := k.PublicJWK()
	switch p := k.Priv.(type) {
	case ed25519.PrivateKey:
		m["d"] = b64.EncodeToString(p.Seed())
	case *ecdsa.PrivateKey:
		m["d"] = fixed(p.D, (p.Curve.Params().BitSize+7)/8)
	case *rsa.PrivateKey:
		m["d"] = b64.EncodeToString(p.D.Bytes())
		m["p"] = b64.EncodeToString(p.Primes[0].Bytes())
		m["q"] = b64.EncodeToString(p.Primes[1].Bytes())
		m["dp"] = b64.EncodeToString(p.Precomputed.Dp.Bytes())
		m["dq"] = b64.EncodeToString(p.Precomputed.Dq.Bytes())
		m["qi"] = b64.EncodeToString(p.Precomputed.Qinv.Bytes())
	}
	return m
}

// PublicEncodings returns byte encodings of the public key an attacker could try as an HMAC secret.
func (k AnyKey) PublicEncodings() map[string][]byte {
	out := map[string][]byte{}
	der, err := x509.MarshalPKIXPublicKey(k.Priv.Public())
	if err == nil {
		out["der"] = der
		out["pem"] = pem.EncodeToMemory(&pem.Block{Type: "PUBLIC KEY", Bytes: der})
	}
	jb, _ := json.Marshal(k.PublicJWK())
	out["jwk"] = jb
	switch p := k.Priv.Public().(type) {
	case ed25519.PublicKey:
		out["raw"] = []byte(p)
	case *ecdsa.PublicKey:
		out["raw"] = elliptic.Marshal(p.Curve, p.X, p.Y)
	case *rsa.PublicKey:
		out["raw"] = p.N.Bytes()
	}
	return out
}

func hashFor(alg string) (crypto.Hash, func() hash.Hash) {
	switch alg[len(alg)-3:] {
	case "256":
		return crypto.SHA256, sha256.New
	case "384":
		return crypto.SHA384, sha512.New384
	default:
		return crypto.SHA512, sha512.New
	}
}

// SignAlg signs input with JWS algorithm alg (EdDSA, ES*, RS*, PS*). The key family must be able to do it.
func (k AnyKey) SignAlg(alg string, input []byte) []byte {
	switch {
	case alg == "EdDSA":
		return ed25519.Sign(k.Priv.(ed25519.PrivateKey), input)
	case strings.HasPrefix(alg, "ES"):
		priv := k.Priv.(*ecdsa.PrivateKey)
		_, hf := hashFor(alg)
		h := hf()
		h.Write(input)
		r, s, err := ecdsa.Sign(rand.Reader, priv, h.Sum(nil))
		if err != nil {
			panic(err)
		}
		n := (priv.Curve.Params().BitSize + 7) / 8
		out := make([]byte, 2*n)
		rb, sb := r.Bytes(), s.Bytes()
		copy(out[n-len(rb):n], rb)
		copy(out[2*n-len(sb):], sb)
		return out
	case strings.HasPrefix(alg, "RS"):
		ch, hf := hashFor(alg)
		h := hf()
		h.Write(input)
		sig, err := rsa.SignPKCS1v15(rand.Reader, k.Priv.(*rsa.PrivateKey), ch, h.Sum(nil))
		if err != nil {
			panic(err)
		}
		return sig
	case strings.HasPrefix(alg, "PS"):
		ch, hf := hashFor(alg)
		h := hf()
		h.Write(input)
		sig, err := rsa.SignPSS(rand.Reader, k.Priv.(*rsa.PrivateKey), ch, h.Sum(nil), &rsa.PSSOptions{SaltLength: rsa.PSSSaltLengthEqualsHash})
		if err != nil {
			panic(err)
		}
		return sig
	}
	panic("cannot sign with " + alg)
}

// CanSign tells whether the key family can produce alg.
func (k AnyKey) CanSign(alg string) bool {
	switch k.Kind {
	case "ed25519":
		return alg == "EdDSA"
	case "p256", "p384", "p521":
		return alg == "ES256" || alg == "ES384" || alg == "ES512"
	default:
		return strings.HasPrefix(alg, "RS") || strings.HasPrefix(alg, "PS")
	}
}

// MAC computes HS256/HS384/HS512.
func MAC(alg string, secret, input []byte) []byte {
	_, hf := hashFor(alg)
	m := hmac.New(hf, secret)
	m.Write(input)
	return m.Sum(nil)
}

// SigningInput returns b64(header) "." b64(payload).
func SigningInput(headerJSON, payload []byte) string {
	return b64.EncodeToString(headerJSON) + "." + b64.EncodeToString(payload)
}

// CompactAlg builds a compact JWS whose protected header is headerJSON (literal) signed by key with alg.
func CompactAlg(headerJSON, payload []byte, key AnyKey, alg string) string {
	in := SigningInput(headerJSON, payload)
	return in + "." + b64.EncodeToString(key.SignAlg(alg, []byte(in)))
}

// CompactMAC builds a compact JWS MACed with secret.
func CompactMAC(headerJSON, payload []byte, alg string, secret []byte) string {
	in := SigningInput(headerJSON, payload)
	return in + "." + b64.EncodeToString(MAC(alg, secret, []byte(in)))
}

// CompactNone builds an unsecured JWS (empty signature).
func CompactNone(headerJSON, payload []byte) string {
	return SigningInput(headerJSON, payload) + "."
}

// Header marshals a header map (sorted keys).
func Header(m map[string]any) []byte {
	b, err := json.Marshal(m)
	if err != nil {
		panic(err)
	}
	return b
}

// DecodeSeg decodes one compact segment.
func DecodeSeg(seg string) []byte {
	b, err := b64.DecodeString(seg)
	if err != nil {
		panic(fmt.Sprintf("bad segment %q: %v", seg, err))
	}
	return b
}

// HeaderOf returns the protected header of a compact token as a map.
func HeaderOf(compact string) map[string]any {
	h, _, _ := Split([]byte(compact))
	m := map[string]any{}
	if err := json.Unmarshal(DecodeSeg(h), &m); err != nil {
		panic(err)
	}
	return m
}

// PayloadOf returns the decoded payload of a compact token.
func PayloadOf(compact string) []byte {
	_, p, _ := Split([]byte(compact))
	return DecodeSeg(p)
}

// JSONSig is one signature of the general JSON serialisation.
type JSONSig struct {
	Protected string         `json:"protected,omitempty"`
	Header    map[string]any `json:"header,omitempty"`
	Signature string         `json:"signature"`
}

// GeneralOf builds the general JSON serialisation from compact tokens that share the payload segment of the first.
func GeneralOf(compacts ...string) string {
	sigs := []JSONSig{}
	payload := ""
	for i, c := range compacts {
		h, p, s := Split([]byte(c))
		if i == 0 {
			payload = p
		}
		sigs = append(sigs, JSONSig{Protected: h, Signature: s})
	}
	out, _ := json.Marshal(map[string]any{"payload": payload, "signatures": sigs})
	return string(out)
}

// GeneralEmpty is a general JSON serialisation without any signature.
func GeneralEmpty(compact string) string {
	_, p, _ := Split([]byte(compact))
	out, _ := json.Marshal(map[string]any{"payload": p, "signatures": []JSONSig{}})
	return string(out)
}

// FlattenedOf is the flattened JSON serialisation of a compact token.
func FlattenedOf(compact string) string { return string(Flattened([]byte(compact))) }

// Padded adds '=' padding to segment i (0..2) of a compact token; ok=false if the segment needs none.
func Padded(compact string, i int) (string, bool) {
	parts := strings.Split(compact, ".")
	if len(parts[i])%4 == 0 {
		return compact, false
	}
	parts[i] += strings.Repeat("=", 4-len(parts[i])%4)
	return strings.Join(parts, "."), true
}

const b64alphabet = "ABCDEFGHIJKLMNOPQRSTUVWXYZabcdefghijklmnopqrstuvwxyz0123456789-_"

// NonCanonical changes the unused trailing bits of segment i: same decoded bytes for a lenient decoder, other text.
func NonCanonical(compact string, i int) (string, bool) {
	parts := strings.Split(compact, ".")
	seg := parts[i]
	if len(seg)%4 == 0 || len(seg) == 0 {
		return compact, false
	}
	last := strings.IndexByte(b64alphabet, seg[len(seg)-1])
	// len%4==2 -> 4 unused bits, len%4==3 -> 2 unused bits; they are zero in canonical form
	parts[i] = seg[:len(seg)-1] + string(b64alphabet[last|1])
	return strings.Join(parts, "."), true
}

// StdAlphabet rewrites segment i with the standard base64 alphabet (+ and /); ok=false if nothing changes.
func StdAlphabet(compact string, i int) (string, bool) {
	parts := strings.Split(compact, ".")
	n := strings.NewReplacer("-", "+", "_", "/").Replace(parts[i])
	if n == parts[i] {
		return compact, false
	}
	parts[i] = n
	return strings.Join(parts, "."), true
}

// StdB64 exposes padded standard base64 (x5c members).
func StdB64(b []byte) string { return base64.StdEncoding.EncodeToString(b) }

// ReplaceSeg returns the compact token with segment i replaced.
func ReplaceSeg(compact string, i int, seg string) string {
	parts := strings.Split(compact, ".")
	parts[i] = seg
	return strings.Join(parts, ".")
}

// B64 encodes bytes as an unpadded base64url segment.
func B64(b []byte) string { return b64.EncodeToString(b) }

// Thumbprint is the RFC 7638 SHA-256 thumbprint (base64url) of the public key.
func (k AnyKey) Thumbprint() string {
	j := k.PublicJWK()
	var s string
	switch j["kty"] {
	case "EC":
		s = fmt.Sprintf(`{"crv":"%s","kty":"EC","x":"%s","y":"%s"}`, j["crv"], j["x"], j["y"])
	case "OKP":
		s = fmt.Sprintf(`{"crv":"%s","kty":"OKP","x":"%s"}`, j["crv"], j["x"])
	default:
		s = fmt.Sprintf(`{"e":"%s","kty":"RSA","n":"%s"}`, j["e"], j["n"])
	}
	h := sha256.Sum256([]byte(s))
	return b64.EncodeToString(h[:])
}
