// Package txforge builds Nuts network transactions (RFC004 JWS) byte by byte, so that every header can be
// set to an arbitrary (also invalid) value. It does not use the repository's signer.
package txforge

import (
	"crypto/ecdsa"
	"crypto/elliptic"
	"crypto/rand"
	"crypto/sha256"
	"encoding/base64"
	"encoding/json"
	"math/big"
)

var b64 = base64.RawURLEncoding

// Key is a P-256 key pair.
type Key struct{ Priv *ecdsa.PrivateKey }

func NewKey() Key {
	k, err := ecdsa.GenerateKey(elliptic.P256(), rand.Reader)
	if err != nil {
		panic(err)
	}
	return Key{k}
}

// JWK returns the public JWK as a map.
func (k Key) JWK() map[string]any {
	pad := func(b *big.Int) string {
		bs := b.Bytes()
		out := make([]byte, 32)
		copy(out[32-len(bs):], bs)
		return b64.EncodeToString(out)
	}
	return map[string]any{"kty": "EC", "crv": "P-256", "x": pad(k.Priv.X), "y": pad(k.Priv.Y)}
}

// PrivJWK returns the private JWK as a map.
func (k Key) PrivJWK() map[string]any {
	m := k.JWK()
	bs := k.Priv.D.Bytes()
	out := make([]byte, 32)
	copy(out[32-len(bs):], bs)
	m["d"] = b64.EncodeToString(out)
	return m
}

// SignES256 signs signingInput (JWS compact r||s form).
func (k Key) SignES256(signingInput []byte) []byte {
	h := sha256.Sum256(signingInput)
	r, s, err := ecdsa.Sign(rand.Reader, k.Priv, h[:])
	if err != nil {
		panic(err)
	}
	out := make([]byte, 64)
	rb, sb := r.Bytes(), s.Bytes()
	copy(out[32-len(rb):32], rb)
	copy(out[64-len(sb):], sb)
	return out
}

// Compact builds header.payload.signature with an ES256 signature by key over exactly these bytes.
func Compact(headers map[string]any, payload []byte, key Key) []byte {
	hb, err := json.Marshal(headers)
	if err != nil {
		panic(err)
	}
	return CompactRaw(hb, payload, key)
}

// CompactRaw is Compact with a literal protected header (allows duplicate members, odd number syntax ...).
func CompactRaw(headerJSON []byte, payload []byte, key Key) []byte {
	in := b64.EncodeToString(headerJSON) + "." + b64.EncodeToString(payload)
	sig := key.SignES256([]byte(in))
	return []byte(in + "." + b64.EncodeToString(sig))
}

// TxHeaders returns the protected headers of a well-formed transaction with an embedded key.
func TxHeaders(key Key, prevs []string, lc any, sigt int64, cty string) map[string]any {
	if prevs == nil {
		prevs = []string{}
	}
	return map[string]any{
		"alg":   "ES256",
		"cty":   cty,
		"crit":  []string{"sigt", "ver", "prevs", "lc"},
		"sigt":  sigt,
		"ver":   2,
		"prevs": prevs,
		"lc":    lc,
		"jwk":   key.JWK(),
	}
}

// Split returns the three compact segments.
func Split(compact []byte) (h, p, s string) {
	parts := [3]string{}
	i := 0
	for _, c := range string(compact) {
		if c == '.' {
			i++
			if i > 2 {
				break
			}
			continue
		}
		parts[i] += string(c)
	}
	return parts[0], parts[1], parts[2]
}

// FlipSig returns the token with one bit of the signature flipped.
func FlipSig(compact []byte) []byte {
	h, p, s := Split(compact)
	raw, _ := b64.DecodeString(s)
	raw[len(raw)/2] ^= 0x01
	return []byte(h + "." + p + "." + b64.EncodeToString(raw))
}

// SigPart is one signature of a JSON-serialised JWS.
type SigPart struct {
	Protected string `json:"protected"`
	Signature string `json:"signature"`
}

// GeneralJSON returns the general JSON serialisation with one signature per (headers, key) pair.
func GeneralJSON(payload []byte, headers []map[string]any, keys []Key) []byte {
	p := b64.EncodeToString(payload)
	sigs := []SigPart{}
	for i, h := range headers {
		hb, _ := json.Marshal(h)
		prot := b64.EncodeToString(hb)
		sig := keys[i].SignES256([]byte(prot + "." + p))
		sigs = append(sigs, SigPart{prot, b64.EncodeToString(sig)})
	}
	out, _ := json.Marshal(map[string]any{"payload": p, "signatures": sigs})
	return out
}

// Flattened returns the flattened JSON serialisation of a compact token.
func Flattened(compact []byte) []byte {
	h, p, s := Split(compact)
	out, _ := json.Marshal(map[string]any{"payload": p, "protected": h, "signature": s})
	return out
}

// General returns the general JSON serialisation (single signature) of a compact token.
func General(compact []byte) []byte {
	h, p, s := Split(compact)
	out, _ := json.Marshal(map[string]any{"payload": p, "signatures": []SigPart{{h, s}}})
	return out
}

// HS256 builds a compact token MACed with secret.
func HS256(headers map[string]any, payload []byte, secret []byte) []byte {
	hb, _ := json.Marshal(headers)
	in := b64.EncodeToString(hb) + "." + b64.EncodeToString(payload)
	mac := hmacSHA256(secret, []byte(in))
	return []byte(in + "." + b64.EncodeToString(mac))
}
