------------------------------- MODULE Verify -------------------------------
(***************************************************************************)
(* C01 -- verification of verifiable credentials and presentations:        *)
(*   vcr/verifier/verifier.go (Verify, doVerifyVP),                        *)
(*   vcr/verifier/signature_verifier.go (jsonldProof, jwtSignature),       *)
(*   vcr/signature/proof/jsonld.go (LDProof.Verify), crypto/jwx.go,        *)
(*   vdr/resolver/key.go, vcr/issuer/issuer.go, vcr/holder/presenter.go.   *)
(*                                                                         *)
(* The property quantifies over INPUTS x HISTORIES, so the specification   *)
(* is a decision procedure over ABSTRACT document attributes; TLC          *)
(* enumerates the complete product of the case families below and prints,  *)
(* for every case, the verdict of the pipeline AS IMPLEMENTED ("impl") and *)
(* the verdict the property statement requires ("req").  The Go driver     *)
(* (harness/drivers/verify) builds every case from real objects and judges *)
(* the real verdict against "req".                                         *)
(*                                                                         *)
(* Actions (one case = one behaviour):                                     *)
(*   Choose   the environment picks a case (document attributes, the       *)
(*            signer's DID document history as the verifying node sees it, *)
(*            trust, revocation, validation time, flags, mutation)         *)
(*   Issue    issuer.Issue on the producing node   (own output)            *)
(*   Forge    an attacker signs with his own key and verification method   *)
(*   Present  wallet.BuildPresentation                                     *)
(*   Mutate   a peer changes the serialised document (MutationClass x      *)
(*            PathClass)                                                   *)
(*   Verify   verifier.Verify / VerifyVP: the ordered sequence of checks   *)
(*                                                                         *)
(* Deviations of the code from the statement are named by the boolean      *)
(* CONSTANTS below: all TRUE = prescriptive variant (TLC proves the three  *)
(* invariants), all FALSE = the code as it is (cases are generated from    *)
(* it; AcceptOnlyIf / TamperEvident are violated there, which TLC shows in *)
(* cfg/Verify.c01.deviation*.cfg).                                         *)
(*                                                                         *)
(* Time: points 0..8, Now = 9 (validation time nil).  Documents carry      *)
(* dates on even points, validation happens on odd points, so no verdict   *)
(* depends on the (format specific) treatment of equal time stamps.        *)
(***************************************************************************)
EXTENDS Naturals, Sequences, FiniteSets, TLC

CONSTANTS
    SafeModeOnVerify,   \* TRUE: verification canonicalises in JSON-LD safe mode. FALSE = the code as it is (finding F11):
                        \*       members the context does not define are silently dropped from the signed RDF dataset
    LdpVpBindsJwtVcs,   \* TRUE: the proof of a JSON-LD presentation covers the content of embedded JWT credentials.
                        \*       FALSE = the code as it is: a JWT string expands to a relative IRI and is dropped
    DidstoreStopsAtDeactivation, \* TRUE: resolving a did:nuts document AT A TIME after its deactivation fails.
                        \*       FALSE = the code as it is: didstore.Resolve skips deactivated versions and returns the
                        \*       last ACTIVE version that is not younger than the resolve time
    Families,           \* subset of {"vc","vpsig","vpvc","mut"}
    Hist                \* TRUE: record the action history and print the cases (generation)

Now == 9
None == "-"

(***************************************************************************)
(* DID document history of the signer "d" as the verifying node knows it.  *)
(* A version lists the keys authorised for assertions (asrt) and whether   *)
(* the document is active.  K is the key the document under test is signed *)
(* with; K0/K2 are other keys of d.                                        *)
(***************************************************************************)
KeyHist == {"stable", "removed", "late", "deactivated", "authn-only", "foreign", "unresolvable"}
KeyLog(kh) ==
    CASE kh = "stable"       -> << [t |-> 0, asrt |-> {"K"}, active |-> TRUE] >>
      [] kh = "removed"      -> << [t |-> 0, asrt |-> {"K"}, active |-> TRUE], [t |-> 6, asrt |-> {"K2"}, active |-> TRUE] >>
      [] kh = "late"         -> << [t |-> 0, asrt |-> {"K0"}, active |-> TRUE], [t |-> 2, asrt |-> {"K0", "K"}, active |-> TRUE] >>
      [] kh = "deactivated"  -> << [t |-> 0, asrt |-> {"K"}, active |-> TRUE], [t |-> 6, asrt |-> {}, active |-> FALSE] >>
      [] kh = "authn-only"   -> << [t |-> 0, asrt |-> {"K0"}, active |-> TRUE] >>   \* K is listed for authentication only
      [] kh = "foreign"      -> << [t |-> 0, asrt |-> {"K0"}, active |-> TRUE] >>   \* K is not in the document at all
      [] kh = "unresolvable" -> << >>

\* the attacker e and the credential issuer i have one key for ever
LogOf(key) == << [t |-> 0, asrt |-> {key}, active |-> TRUE] >>

\* What the DID document says at a time: the last version that is not younger (reference definition of the statement)
VersionsAt(log, at) == {i \in 1..Len(log) : log[i].t <= at}
Last(S) == CHOOSE j \in S : \A k \in S : k <= j
AuthorisedAt(log, k, at) == VersionsAt(log, at) # {} /\ log[Last(VersionsAt(log, at))].active /\ k \in log[Last(VersionsAt(log, at))].asrt

\* What the resolver of the verifying node returns.  store = "sql": SqlDIDDocumentManager.Latest(did, at) + IsDeactivated.
\* store = "didstore": didstore.Resolve walks back from the newest version; with a resolve time it SKIPS deactivated versions.
Candidates(log, at, store) ==
    IF store = "didstore" /\ ~DidstoreStopsAtDeactivation /\ at # 9
    THEN {i \in VersionsAt(log, at) : log[i].active}
    ELSE VersionsAt(log, at)
Resolvable(log, at, store) == Candidates(log, at, store) # {} /\ log[Last(Candidates(log, at, store))].active
Authorised(log, k, at, store) == Resolvable(log, at, store) /\ k \in log[Last(Candidates(log, at, store))].asrt

InWindow(from, until, at) == from <= at /\ (until = 0 \/ at <= until)

(***************************************************************************)
(* Case families.  Every case is a record over the same fields.            *)
(***************************************************************************)
Base == [fam |-> None, kind |-> None, fmt |-> None, store |-> "sql", kh |-> "stable", vm |-> "issuer", exp |-> 0, at |-> 5,
         trusted |-> TRUE, allowUntrusted |-> FALSE, revoked |-> FALSE, checkSig |-> TRUE,
         presenter |-> "subject", holder |-> "signer", subjects |-> "one", vcFmt |-> None, vcState |-> "ok", verifyVCs |-> TRUE,
         where |-> "top", efmt |-> None, mclass |-> None, pclass |-> None,
         seq |-> <<>>, entry |-> "verifier"]

Formats == {"ldp", "jwt"}

(***************************************************************************)
(* Who signed, when it is not the claimed issuer / the subject: an         *)
(* attacker e with a resolvable DID document and a valid key KE.  The      *)
(* classes are the TEXTUAL relations between e's DID and the DID d it      *)
(* poses as -- every comparison of identifiers in the pipeline has to be   *)
(* an equality of DIDs, not of prefixes / substrings:                      *)
(*   unrelated    no textual relation                                      *)
(*   host-suffix  d is a proper prefix of e:  d ++ ".evil.org"             *)
(*   sub-path     d is a proper prefix of e:  d ++ ":users:x"              *)
(*   shorter      e is a proper prefix of d                                *)
(***************************************************************************)
Related == {"host-suffix", "sub-path", "shorter"}
Attackers == {"unrelated"} \cup Related

\* credentials: issued at 4, optional expiry at 6
Stores == {"didstore", "sql"}    \* did:nuts documents live in the didstore, did:web documents in SQL
VCCases == {[Base EXCEPT !.fam = "vc", !.kind = "vc", !.fmt = f, !.store = sr, !.kh = kh, !.vm = vm, !.exp = e, !.at = at,
                         !.trusted = tr, !.allowUntrusted = au, !.revoked = rv, !.checkSig = cs] :
              f \in Formats, sr \in Stores, kh \in KeyHist, vm \in {"issuer", "unrelated"}, e \in {0, 6}, at \in {1, 3, 5, 7, Now},
              tr \in BOOLEAN, au \in BOOLEAN, rv \in BOOLEAN, cs \in BOOLEAN} \cup
           \* the attacker's DID is textually related to the issuer's: focused product (the relation is independent of the rest)
           {[Base EXCEPT !.fam = "vc", !.kind = "vc", !.fmt = f, !.store = sr, !.kh = kh, !.vm = vm, !.at = at,
                         !.trusted = tr, !.allowUntrusted = ~tr] :
              f \in Formats, sr \in Stores, kh \in {"stable", "foreign", "unresolvable"}, vm \in Related, at \in {5, Now}, tr \in BOOLEAN}

\* presentations: proof created at 4, optional expiry at 6; the credentials they carry were issued at 2 by a stable trusted issuer
VPSigCases == {[Base EXCEPT !.fam = "vpsig", !.kind = "vp", !.fmt = f, !.store = sr, !.kh = kh, !.presenter = pr, !.holder = ho,
                            !.subjects = su, !.exp = e, !.at = at, !.vcFmt = "ldp"] :
              f \in Formats, sr \in Stores, kh \in KeyHist, pr \in {"subject", "unrelated"}, ho \in {"absent", "signer", "other"},
              su \in {"none", "one", "two-same", "two-mixed"}, e \in {0, 6}, at \in {3, 5, 7, Now}} \cup
              {[Base EXCEPT !.fam = "vpsig", !.kind = "vp", !.fmt = f, !.store = sr, !.presenter = pr, !.holder = ho,
                            !.subjects = su, !.at = at, !.vcFmt = "ldp"] :
              f \in Formats, sr \in Stores, pr \in Related, ho \in {"absent", "signer"}, su \in {"one", "two-same"}, at \in {5, Now}}

\* "forged-<relation>": the carried credential names the trusted issuer i but is signed by an attacker (key and verification method)
VCStates == {"ok", "expired", "notyet", "revoked", "untrusted", "badsig"} \cup {"forged-unrelated", "forged-host-suffix", "forged-sub-path", "forged-shorter"}
Forged(st) == st \in {"forged-unrelated", "forged-host-suffix", "forged-sub-path", "forged-shorter"}
VPVcCases == {[Base EXCEPT !.fam = "vpvc", !.kind = "vp", !.fmt = f, !.vcFmt = vf, !.vcState = st, !.verifyVCs = vv,
                           !.allowUntrusted = au, !.subjects = su] :
              f \in Formats, vf \in Formats, st \in VCStates, vv \in BOOLEAN, au \in BOOLEAN, su \in {"one", "two-same"}}

(***************************************************************************)
(* Presentations that carry SEVERAL credentials (2..3), every combination  *)
(* and every position of these element classes.  The statement demands of  *)
(* EVERY carried credential that it verifies itself and that the presenter *)
(* is its subject -- whatever stands before or after it:                   *)
(*   genuine       credential G of the holder, issued by the trusted i     *)
(*   genuine2      another credential of the holder by i (different id)    *)
(*   other-issuer  credential of the holder by a second trusted issuer     *)
(*   duplicate     byte-identical copy of G                                *)
(*   tampered      copy of G: SAME id, copied proof, altered claim         *)
(*   tampered2     a second, differently altered copy of G (same id)       *)
(*   stripped      copy of G: same id, altered claim, proof value removed  *)
(*   expired       credential of the holder by i that expired at 4         *)
(*   other-subject valid credential by i about somebody else               *)
(* entry: verifier.VerifyVP or the REST handler (POST .../verifier/vp).    *)
(***************************************************************************)
Elems == {"genuine", "genuine2", "other-issuer", "duplicate", "tampered", "tampered2", "stripped", "expired", "other-subject"}
ElemVerifies(e) == e \in {"genuine", "genuine2", "other-issuer", "duplicate", "other-subject"}
Seqs == {<<a, b>> : a \in Elems, b \in Elems} \cup {<<a, b, d>> : a \in Elems, b \in Elems, d \in Elems}
VPMultiCases == {[Base EXCEPT !.fam = "vpmulti", !.kind = "vp", !.fmt = f, !.vcFmt = vf, !.seq = sq, !.entry = en, !.subjects = "many"] :
              f \in Formats, vf \in Formats, sq \in Seqs, en \in {"verifier", "api"}}
AnyElem(x, P(_)) == \E i \in 1..Len(x.seq) : P(x.seq[i])
NotOfHolder(e) == e = "other-subject"
Defective(e) == ~ElemVerifies(e)

MutationClass == {"set-value", "change-type", "wrap-array", "unwrap-array", "remove-member", "rename-member",
                  "duplicate-member", "add-undefined-member", "add-defined-member", "reorder-array",
                  "duplicate-element", "remove-element", "add-element", "signature", "swap"}
LdEquivalent == {"reorder-array", "duplicate-element", "wrap-array", "unwrap-array"}   \* same RDF dataset (JSON-LD set semantics)
LdVcPaths == {"root", "context", "id", "type", "issuer", "date", "status", "subject", "subject-id", "claim",
              "proof", "proof-option", "proof-value", "other"}
LdVpPaths == {"root", "context", "id", "type", "holder", "embedded-list", "proof", "proof-option", "proof-value", "other"}
JwtPaths == {"jwt-header", "jwt-claims", "jwt-registered", "jwt-body", "jwt-signature"}
PathsOf(kind, f) == IF f = "jwt" THEN (IF kind = "vp" THEN JwtPaths \cup {"embedded-list"} ELSE JwtPaths)
                    ELSE IF kind = "vp" THEN LdVpPaths ELSE LdVcPaths

MutCases ==
    \* a credential
    {[Base EXCEPT !.fam = "mut", !.kind = "vc", !.fmt = f, !.efmt = f, !.mclass = m, !.pclass = p] :
        f \in Formats, m \in MutationClass, p \in LdVcPaths \cup JwtPaths} \cup
    \* a presentation, mutation outside the embedded credentials (efmt = format of the embedded credential that is swapped)
    {[Base EXCEPT !.fam = "mut", !.kind = "vp", !.fmt = f, !.efmt = ef, !.mclass = m, !.pclass = p] :
        f \in Formats, ef \in Formats, m \in MutationClass, p \in LdVpPaths \cup JwtPaths} \cup
    \* a presentation, mutation inside an embedded credential of format efmt
    {[Base EXCEPT !.fam = "mut", !.kind = "vp", !.fmt = f, !.where = "embedded", !.efmt = ef, !.mclass = m, !.pclass = p] :
        f \in Formats, ef \in Formats, m \in MutationClass, p \in LdVcPaths \cup JwtPaths}
WellFormedMut(c) ==
    /\ c.where = "top" => c.pclass \in PathsOf(c.kind, c.fmt)
    /\ c.where = "embedded" => c.pclass \in PathsOf("vc", c.efmt)
    /\ (c.where = "top" /\ c.pclass # "embedded-list") => c.efmt = c.fmt
    /\ c.mclass = "swap" => c.pclass \in {"embedded-list", "proof"}
    /\ c.mclass = "signature" <=> c.pclass \in {"jwt-signature"}

Cases == (IF "vc" \in Families THEN VCCases ELSE {}) \cup
         (IF "vpsig" \in Families THEN VPSigCases ELSE {}) \cup
         (IF "vpvc" \in Families THEN VPVcCases ELSE {}) \cup
         (IF "vpmulti" \in Families THEN VPMultiCases ELSE {}) \cup
         (IF "mut" \in Families THEN {c \in MutCases : WellFormedMut(c)} ELSE {})

VARIABLES
    pc,        \* "start" | "chosen" | "issued" | "presented" | "mutated" | "done"
    c,         \* the case
    doc,       \* abstract attributes of the document under test
    verdict,   \* result of Verify: "ok" or the check that refused the document; "any" = not predicted
    hist
vars == <<pc, c, doc, verdict, hist>>
view == <<pc, c, doc, verdict>>
Log(e) == hist' = IF Hist THEN Append(hist, e) ELSE hist

NoDoc == [signer |-> None, vmOwner |-> None, issued |-> 0, expires |-> 0, own |-> FALSE, mutated |-> FALSE,
          vpSigner |-> None, vpCreated |-> 0, vpExpires |-> 0]

Init == pc = "start" /\ c = Base /\ doc = NoDoc /\ verdict = None /\ hist = <<>>

Choose(x) ==
    /\ pc = "start" /\ c' = x /\ pc' = "chosen"
    /\ Log([a |-> "Choose"]) /\ UNCHANGED <<doc, verdict>>

\* issuer.Issue: the producing node signs with the first assertion key K of its own DID document; proof.created = issuanceDate
Issue ==
    /\ pc = "chosen" /\ c.vm = "issuer"
    /\ doc' = [NoDoc EXCEPT !.signer = "K", !.vmOwner = "d", !.own = TRUE,
                            !.issued = IF c.kind = "vc" THEN 4 ELSE 2,
                            !.expires = IF c.kind = "vc" THEN c.exp ELSE 0]
    /\ pc' = "issued" /\ Log([a |-> "Issue"]) /\ UNCHANGED <<c, verdict>>

\* an attacker e (a resolvable DID with a valid key KE) names d as issuer but signs with his own key and verification method
Forge ==
    /\ pc = "chosen" /\ c.vm \in Attackers
    /\ doc' = [NoDoc EXCEPT !.signer = "KE", !.vmOwner = "e", !.issued = 4, !.expires = c.exp]
    /\ pc' = "issued" /\ Log([a |-> "Forge"]) /\ UNCHANGED <<c, verdict>>

\* wallet.BuildPresentation(credentials, options, signer): signed by the first assertion key of the signer
Present ==
    /\ pc = "issued" /\ c.kind = "vp"
    /\ doc' = [doc EXCEPT !.vpSigner = IF c.presenter = "subject" THEN "d" ELSE "e",
                          !.vpCreated = 4, !.vpExpires = c.exp,
                          !.own = c.presenter = "subject" /\ c.holder # "other" /\ c.subjects # "two-mixed" /\ ~Forged(c.vcState)
                                  /\ ~AnyElem(c, Defective) /\ ~AnyElem(c, NotOfHolder)]
    /\ pc' = "presented" /\ Log([a |-> "Present"]) /\ UNCHANGED <<c, verdict>>

Mutate ==
    /\ c.fam = "mut" /\ pc = (IF c.kind = "vp" THEN "presented" ELSE "issued")
    /\ doc' = [doc EXCEPT !.mutated = TRUE, !.own = FALSE]
    /\ pc' = "mutated" /\ Log([a |-> "Mutate", m |-> c.mclass, p |-> c.pclass]) /\ UNCHANGED <<c, verdict>>

(***************************************************************************)
(* Which mutations change something the statement protects.                *)
(* A change under a JWT signature changes the signed bytes.  In a JSON-LD  *)
(* document the signed object is the RDF dataset: operators that leave the *)
(* dataset unchanged (JSON-LD arrays are sets) and edits of @context are   *)
(* not constrained by the statement.  (The driver additionally ignores a   *)
(* mutant whose parsed form is identical to the original one.)             *)
(***************************************************************************)
UnderJwt(x) == x.fmt = "jwt" \/ (x.where = "embedded" /\ x.efmt = "jwt")
Semantic(x) == \/ UnderJwt(x)
               \/ /\ x.pclass # "context" /\ x.mclass \notin LdEquivalent
F11Applies(x) == x.mclass = "add-undefined-member" /\ ~UnderJwt(x) /\ ~SafeModeOnVerify
SwapApplies(x) == x.mclass = "swap" /\ x.pclass = "embedded-list" /\ x.fmt = "ldp" /\ x.efmt = "jwt" /\ ~LdpVpBindsJwtVcs

(***************************************************************************)
(* verifier.Verify(credential, allowUntrusted, checkSignature, validAt)    *)
(* in the order of the code: validator, revocation store, status list,     *)
(* trust, ValidAt, resolve issuer, signature.                              *)
(***************************************************************************)
VerifyVC(x, d, revoked, trusted, allowUntrusted, checkSig, at) ==
    LET log == KeyLog(x.kh) IN
    IF revoked THEN "revoked"
    ELSE IF ~allowUntrusted /\ ~trusted THEN "untrusted"
    ELSE IF ~InWindow(d.issued, d.expires, at) THEN "not-valid-at-time"
    ELSE IF ~checkSig THEN "ok"
    ELSE IF ~Resolvable(log, at, x.store) THEN "issuer-unresolvable"
    ELSE IF d.vmOwner # "d" THEN "vm-not-of-issuer"      \* ldp: before the key is resolved; jwt: after the signature check
    ELSE IF ~Authorised(log, d.signer, at, x.store) THEN "key-not-found"
    ELSE "ok"

\* state of a carried credential (vpvc family): issued at 2 by issuer i; "expired" = expired at 4; "notyet" = issued at 8
CarriedVC(x) ==
    LET st == x.vcState IN
    IF st = "revoked" THEN "revoked"
    ELSE IF st = "untrusted" /\ ~x.allowUntrusted THEN "untrusted"
    ELSE IF st \in {"expired", "notyet"} THEN "not-valid-at-time"
    ELSE IF st = "badsig" THEN "key-not-found"
    ELSE IF Forged(st) THEN "vm-not-of-issuer"
    ELSE "ok"

(***************************************************************************)
(* verifier.doVerifyVP: presenter == subject of every credential, holder   *)
(* == subject, signature of the presentation, then every credential.       *)
(***************************************************************************)
VerifyVP(x, d, at) ==
    LET signerLog == IF d.vpSigner = "d" THEN KeyLog(x.kh) ELSE LogOf("KE")
        signerKey == IF d.vpSigner = "d" THEN "K" ELSE "KE"
        window == InWindow(d.vpCreated, d.vpExpires, at)
        key == Authorised(signerLog, signerKey, at, x.store)
    IN
    IF x.subjects = "two-mixed" \/ AnyElem(x, NotOfHolder) THEN "presenter-not-subject"
    ELSE IF x.subjects # "none" /\ d.vpSigner # "d" THEN "presenter-not-subject"
    ELSE IF x.subjects # "none" /\ x.holder = "other" THEN "holder-not-subject"
    \* jsonldProof: proof.ValidAt before the key is resolved; jwtSignature: the key is resolved before the token is validated
    ELSE IF x.fmt = "ldp" /\ ~window THEN "not-valid-at-time"
    ELSE IF ~key THEN "key-not-found"
    ELSE IF ~window THEN "not-valid-at-time"
    ELSE IF x.verifyVCs /\ x.subjects # "none" /\ CarriedVC(x) # "ok" THEN "invalid-vc"
    ELSE IF x.verifyVCs /\ AnyElem(x, Defective) THEN "invalid-vc"       \* EVERY carried credential is verified, in order
    ELSE "ok"

Verify ==
    /\ pc = (IF c.fam = "mut" THEN "mutated" ELSE IF c.kind = "vp" THEN "presented" ELSE "issued")
    /\ verdict' =
         IF c.fam = "mut" THEN
              (IF ~Semantic(c) THEN "any"
               ELSE IF F11Applies(c) \/ SwapApplies(c) THEN "ok"
               ELSE "rejected")
         ELSE IF c.kind = "vc" THEN VerifyVC(c, doc, c.revoked, c.trusted, c.allowUntrusted, c.checkSig, c.at)
         ELSE VerifyVP(c, doc, c.at)
    /\ pc' = "done" /\ Log([a |-> "Verify", res |-> verdict']) /\ UNCHANGED <<c, doc>>

\* (the guard stands in front of the quantifier so that TLC builds the set of cases in the initial state only)
ChooseAny == pc = "start" /\ \E x \in Cases : Choose(x)
Next == ChooseAny \/ Issue \/ Forge \/ Present \/ Mutate \/ Verify
Spec == Init /\ [][Next]_vars

(***************************************************************************)
(* The property statement.                                                 *)
(***************************************************************************)
\* the conjuncts the statement requires of every document reported as valid; Failing = the ones that do not hold
If(b, name) == IF b THEN {} ELSE {name}
Failing(x) ==
    IF x.kind = "vc" THEN
        \* signed by a key that the claimed issuer's DID document authorises for assertions at the validation time
        If(x.checkSig => (x.vm = "issuer" /\ AuthorisedAt(KeyLog(x.kh), "K", x.at)), "unauthorised-key") \cup
        If(InWindow(4, x.exp, x.at), "outside-window") \cup          \* lies within its validity window
        If(~x.revoked, "revoked") \cup                               \* is not revoked
        If(x.trusted \/ x.allowUntrusted, "untrusted")               \* has a trusted issuer when trust is required
    ELSE
        \* (the attacker's own key is valid: what fails for him is the subject conjunct)
        If(x.presenter = "subject" => AuthorisedAt(KeyLog(x.kh), "K", x.at), "unauthorised-key") \cup
        If(InWindow(4, x.exp, x.at), "outside-window") \cup
        \* signed by the subject of every credential it carries
        If(x.subjects # "none" => (x.presenter = "subject" /\ x.subjects # "two-mixed" /\ ~AnyElem(x, NotOfHolder)), "not-subject") \cup
        \* and every carried credential is itself valid (when the caller asks for that)
        If((x.verifyVCs /\ x.subjects # "none") => (CarriedVC(x) = "ok" /\ ~AnyElem(x, Defective)), "invalid-credential")
Conjuncts(x) == Failing(x) = {}
\* output of the node's own issuer / wallet from coherent input
Own(x) == IF x.kind = "vc" THEN x.vm = "issuer"
          ELSE x.presenter = "subject" /\ x.holder # "other" /\ x.subjects # "two-mixed" /\ ~Forged(x.vcState)
               /\ ~AnyElem(x, Defective) /\ ~AnyElem(x, NotOfHolder)

Required(x) == IF x.fam = "mut" THEN (IF Semantic(x) THEN "reject" ELSE "any")
               ELSE IF ~Conjuncts(x) THEN "reject"
               ELSE IF Own(x) THEN "accept" ELSE "any"

Done == pc = "done"
AcceptOnlyIf == (Done /\ c.fam # "mut" /\ verdict = "ok") => Conjuncts(c)
TamperEvident == (Done /\ c.fam = "mut" /\ Semantic(c)) => verdict # "ok"
OwnOutputVerifies == (Done /\ c.fam # "mut" /\ Own(c) /\ Conjuncts(c)) => verdict = "ok"
TypeOK == /\ pc \in {"start", "chosen", "issued", "presented", "mutated", "done"}
          /\ Done => verdict # None
=============================================================================
