------------------------------- MODULE Verify -------------------------------
(***************************************************************************)
(* C01 -- verification of verifiable credentials and presentations:        *)
(*   vcr/verifier/verifier.go (Verify, doVerifyVP),                        *)
(*   vcr/verifier/signature_verifier.go (jsonldProof, jwtSignature),       *)
(*   vcr/signature/proof/jsonld.go (LDProof.Verify), crypto/jwx.go,        *)
(*   vdr/resolver/key.go, vcr/issuer/issuer.go, vcr/holder/presenter.go.   *)
(*                                                                         *)
(* The property quantifies over INPUTS x HISTORIES, so the specification   *)
(* is a decision procedure over ABSTRACT document attributes; TLC          *)
(* enumerates the complete product of the case families below and prints,  *)
(* for every case, the verdict of the pipeline AS IMPLEMENTED ("impl") and *)
(* the verdict the property statement requires ("req").  The Go driver     *)
(* (harness/drivers/verify) builds every case from real objects and judges *)
(* the real verdict against "req".                                         *)
(*                                                                         *)
(* Actions (one case = one behaviour):                                     *)
(*   Choose   the environment picks a case (document attributes, the       *)
(*            signer's DID document history as the verifying node sees it, *)
(*            trust, revocation, validation time, flags, mutation)         *)
(*   Issue    issuer.Issue on the producing node   (own output)            *)
(*   Forge    an attacker signs with his own key and verification method   *)
(*   Present  wallet.BuildPresentation                                     *)
(*   Mutate   a peer changes the serialised document (MutationClass x      *)
(*            PathClass)                                                   *)
(*   Verify   verifier.Verify / VerifyVP: the ordered sequence of checks   *)
(*   IssueExt / SetBit   an EXTERNAL issuer issues a credential with an     *)
(*            entry in its own status list (of any legal size) and revokes  *)
(*            it there (family "status")                                    *)
(*   OpBegin / OpEnd / Age / Download / Finish   the issuer node's status   *)
(*            list as SHARED STATE: Revoke and the download of the list     *)
(*            (re-issued when the stored one expires) as two-phase          *)
(*            operations (reads before the row lock / the locked section),  *)
(*            in every interleaving (family "race")                         *)
(*                                                                         *)
(* Deviations of the code from the statement are named by the boolean      *)
(* CONSTANTS below: all TRUE = prescriptive variant (TLC proves the three  *)
(* invariants), all FALSE = the code as it is (cases are generated from    *)
(* it; AcceptOnlyIf / TamperEvident are violated there, which TLC shows in *)
(* cfg/Verify.c01.deviation*.cfg).                                         *)
(*                                                                         *)
(* Time: points 0..8, Now = 9 (validation time nil).  Documents carry      *)
(* dates on even points, validation happens on odd points, so no verdict   *)
(* depends on the (format specific) treatment of equal time stamps.        *)
(***************************************************************************)
EXTENDS Naturals, Sequences, FiniteSets, TLC

CONSTANTS
    SafeModeOnVerify,   \* TRUE: verification canonicalises in JSON-LD safe mode. FALSE = the code as it is (finding F11):
                        \*       members the context does not define are silently dropped from the signed RDF dataset
    LdpVpBindsJwtVcs,   \* TRUE: the proof of a JSON-LD presentation covers the content of embedded JWT credentials.
                        \*       FALSE = the code as it is: a JWT string expands to a relative IRI and is dropped
    DidstoreStopsAtDeactivation, \* TRUE: resolving a did:nuts document AT A TIME after its deactivation fails.
                        \*       FALSE = the code as it is: didstore.Resolve skips deactivated versions and returns the
                        \*       last ACTIVE version that is not younger than the resolve time
    ReadsWholeList,     \* TRUE: the verifier decodes a status list of ANY length (the specification only fixes a minimum of
                        \*       16kB). FALSE: it reads the minimum length only, entries beyond it are "not in the list"
                        \*       (which verifier.Verify treats as a soft failure: the credential is accepted)
    ReloadUnderLock,    \* TRUE: Revoke and the re-issue of an expiring StatusList2021Credential build the list from the
                        \*       revocations they read INSIDE the locked section. FALSE: from what they read before the lock
    RaceOps,            \* subset of {"one","two"}: one or two concurrent Revoke operations next to the download
    Families,           \* subset of {"vc","vpsig","vpvc","vpmulti","mut","status","race"}
    Hist                \* TRUE: record the action history and print the cases (generation)

Now == 9
None == "-"

(***************************************************************************)
(* DID document history of the signer "d" as the verifying node knows it.  *)
(* A version lists the keys authorised for assertions (asrt) and whether   *)
(* the document is active.  K is the key the document under test is signed *)
(* with; K0/K2 are other keys of d.                                        *)
(***************************************************************************)
KeyHist == {"stable", "removed", "late", "deactivated", "authn-only", "foreign", "unresolvable"}
KeyLog(kh) ==
    CASE kh = "stable"       -> << [t |-> 0, asrt |-> {"K"}, active |-> TRUE] >>
      [] kh = "removed"      -> << [t |-> 0, asrt |-> {"K"}, active |-> TRUE], [t |-> 6, asrt |-> {"K2"}, active |-> TRUE] >>
      [] kh = "late"         -> << [t |-> 0, asrt |-> {"K0"}, active |-> TRUE], [t |-> 2, asrt |-> {"K0", "K"}, active |-> TRUE] >>
      [] kh = "deactivated"  -> << [t |-> 0, asrt |-> {"K"}, active |-> TRUE], [t |-> 6, asrt |-> {}, active |-> FALSE] >>
      [] kh = "authn-only"   -> << [t |-> 0, asrt |-> {"K0"}, active |-> TRUE] >>   \* K is listed for authentication only
      [] kh = "foreign"      -> << [t |-> 0, asrt |-> {"K0"}, active |-> TRUE] >>   \* K is not in the document at all
      [] kh = "unresolvable" -> << >>

\* the attacker e and the credential issuer i have one key for ever
LogOf(key) == << [t |-> 0, asrt |-> {key}, active |-> TRUE] >>

\* What the DID document says at a time: the last version that is not younger (reference definition of the statement)
VersionsAt(log, at) == {i \in 1..Len(log) : log[i].t <= at}
Last(S) == CHOOSE j \in S : \A k \in S : k <= j
AuthorisedAt(log, k, at) == VersionsAt(log, at) # {} /\ log[Last(VersionsAt(log, at))].active /\ k \in log[Last(VersionsAt(log, at))].asrt

\* What the resolver of the verifying node returns.  store = "sql": SqlDIDDocumentManager.Latest(did, at) + IsDeactivated.
\* store = "didstore": didstore.Resolve walks back from the newest version; with a resolve time it SKIPS deactivated versions.
Candidates(log, at, store) ==
    IF store = "didstore" /\ ~DidstoreStopsAtDeactivation /\ at # 9
    THEN {i \in VersionsAt(log, at) : log[i].active}
    ELSE VersionsAt(log, at)
Resolvable(log, at, store) == Candidates(log, at, store) # {} /\ log[Last(Candidates(log, at, store))].active
Authorised(log, k, at, store) == Resolvable(log, at, store) /\ k \in log[Last(Candidates(log, at, store))].asrt

InWindow(from, until, at) == from <= at /\ (until = 0 \/ at <= until)

(***************************************************************************)
(* Case families.  Every case is a record over the same fields.            *)
(***************************************************************************)
Base == [fam |-> None, kind |-> None, fmt |-> None, store |-> "sql", kh |-> "stable", vm |-> "issuer", exp |-> 0, at |-> 5,
         trusted |-> TRUE, allowUntrusted |-> FALSE, revoked |-> FALSE, checkSig |-> TRUE,
         presenter |-> "subject", holder |-> "signer", subjects |-> "one", vcFmt |-> None, vcState |-> "ok", verifyVCs |-> TRUE,
         where |-> "top", efmt |-> None, mclass |-> None, pclass |-> None,
         seq |-> <<>>, entry |-> "verifier",
         list |-> None, size |-> None, pos |-> None, src |-> None, ops |-> None]

Formats == {"ldp", "jwt"}

(***************************************************************************)
(* Who signed, when it is not the claimed issuer / the subject: an         *)
(* attacker e with a resolvable DID document and a valid key KE.  The      *)
(* classes are the TEXTUAL relations between e's DID and the DID d it      *)
(* poses as -- every comparison of identifiers in the pipeline has to be   *)
(* an equality of DIDs, not of prefixes / substrings:                      *)
(*   unrelated    no textual relation                                      *)
(*   host-suffix  d is a proper prefix of e:  d ++ ".evil.org"             *)
(*   sub-path     d is a proper prefix of e:  d ++ ":users:x"              *)
(*   shorter      e is a proper prefix of d                                *)
(***************************************************************************)
Related == {"host-suffix", "sub-path", "shorter"}
Attackers == {"unrelated"} \cup Related

\* credentials: issued at 4, optional expiry at 6
Stores == {"didstore", "sql"}    \* did:nuts documents live in the didstore, did:web documents in SQL
VCCases == {[Base EXCEPT !.fam = "vc", !.kind = "vc", !.fmt = f, !.store = sr, !.kh = kh, !.vm = vm, !.exp = e, !.at = at,
                         !.trusted = tr, !.allowUntrusted = au, !.revoked = rv, !.checkSig = cs] :
              f \in Formats, sr \in Stores, kh \in KeyHist, vm \in {"issuer", "unrelated"}, e \in {0, 6}, at \in {1, 3, 5, 7, Now},
              tr \in BOOLEAN, au \in BOOLEAN, rv \in BOOLEAN, cs \in BOOLEAN} \cup
           \* the attacker's DID is textually related to the issuer's: focused product (the relation is independent of the rest)
           {[Base EXCEPT !.fam = "vc", !.kind = "vc", !.fmt = f, !.store = sr, !.kh = kh, !.vm = vm, !.at = at,
                         !.trusted = tr, !.allowUntrusted = ~tr] :
              f \in Formats, sr \in Stores, kh \in {"stable", "foreign", "unresolvable"}, vm \in Related, at \in {5, Now}, tr \in BOOLEAN}

\* presentations: proof created at 4, optional expiry at 6; the credentials they carry were issued at 2 by a stable trusted issuer
VPSigCases == {[Base EXCEPT !.fam = "vpsig", !.kind = "vp", !.fmt = f, !.store = sr, !.kh = kh, !.presenter = pr, !.holder = ho,
                            !.subjects = su, !.exp = e, !.at = at, !.vcFmt = "ldp"] :
              f \in Formats, sr \in Stores, kh \in KeyHist, pr \in {"subject", "unrelated"}, ho \in {"absent", "signer", "other"},
              su \in {"none", "one", "two-same", "two-mixed"}, e \in {0, 6}, at \in {3, 5, 7, Now}} \cup
              {[Base EXCEPT !.fam = "vpsig", !.kind = "vp", !.fmt = f, !.store = sr, !.presenter = pr, !.holder = ho,
                            !.subjects = su, !.at = at, !.vcFmt = "ldp"] :
              f \in Formats, sr \in Stores, pr \in Related, ho \in {"absent", "signer"}, su \in {"one", "two-same"}, at \in {5, Now}}

\* "forged-<relation>": the carried credential names the trusted issuer i but is signed by an attacker (key and verification method)
VCStates == {"ok", "expired", "notyet", "revoked", "untrusted", "badsig"} \cup {"forged-unrelated", "forged-host-suffix", "forged-sub-path", "forged-shorter"}
Forged(st) == st \in {"forged-unrelated", "forged-host-suffix", "forged-sub-path", "forged-shorter"}
VPVcCases == {[Base EXCEPT !.fam = "vpvc", !.kind = "vp", !.fmt = f, !.vcFmt = vf, !.vcState = st, !.verifyVCs = vv,
                           !.allowUntrusted = au, !.subjects = su] :
              f \in Formats, vf \in Formats, st \in VCStates, vv \in BOOLEAN, au \in BOOLEAN, su \in {"one", "two-same"}}

(***************************************************************************)
(* Presentations that carry SEVERAL credentials (2..3), every combination  *)
(* and every position of these element classes.  The statement demands of  *)
(* EVERY carried credential that it verifies itself and that the presenter *)
(* is its subject -- whatever stands before or after it:                   *)
(*   genuine       credential G of the holder, issued by the trusted i     *)
(*   genuine2      another credential of the holder by i (different id)    *)
(*   other-issuer  credential of the holder by a second trusted issuer     *)
(*   duplicate     byte-identical copy of G                                *)
(*   tampered      copy of G: SAME id, copied proof, altered claim         *)
(*   tampered2     a second, differently altered copy of G (same id)       *)
(*   stripped      copy of G: same id, altered claim, proof value removed  *)
(*   expired       credential of the holder by i that expired at 4         *)
(*   other-subject valid credential by i about somebody else               *)
(* entry: verifier.VerifyVP or the REST handler (POST .../verifier/vp).    *)
(***************************************************************************)
Elems == {"genuine", "genuine2", "other-issuer", "duplicate", "tampered", "tampered2", "stripped", "expired", "other-subject"}
ElemVerifies(e) == e \in {"genuine", "genuine2", "other-issuer", "duplicate", "other-subject"}
Seqs == {<<a, b>> : a \in Elems, b \in Elems} \cup {<<a, b, d>> : a \in Elems, b \in Elems, d \in Elems}
VPMultiCases == {[Base EXCEPT !.fam = "vpmulti", !.kind = "vp", !.fmt = f, !.vcFmt = vf, !.seq = sq, !.entry = en, !.subjects = "many"] :
              f \in Formats, vf \in Formats, sq \in Seqs, en \in {"verifier", "api"}}
AnyElem(x, P(_)) == \E i \in 1..Len(x.seq) : P(x.seq[i])
NotOfHolder(e) == e = "other-subject"
Defective(e) == ~ElemVerifies(e)

(***************************************************************************)
(* Family "status": "is not revoked" when the revocation is a bit in a     *)
(* StatusList2021Credential.  The list is the node's own (always 16kB, the *)
(* minimum of the specification) or that of an external issuer, who may    *)
(* publish a list of any length >= the minimum:                            *)
(*   size  min = 16384 bytes, min+1 = 16385, double = 32768, large = 131072 *)
(*   pos   first = entry 0, last-min = last entry of a minimum list,       *)
(*         first-beyond = first entry after that, last = last of the list  *)
(*   src   fresh = the verifying node downloads the list for this check,   *)
(*         cached = it has the list from a check a moment ago              *)
(*   entry verifier.Verify, POST .../verifier/vc, or the credential is     *)
(*         carried by a presentation of its subject (VerifyVP)             *)
(* A revoked credential has its bit set; an unrevoked one has both         *)
(* neighbouring bits set (the lookup must address exactly its own entry).  *)
(***************************************************************************)
Sizes == {"min", "min+1", "double", "large"}
Positions == {"first", "last-min", "first-beyond", "last"}
PosIn(sz) == IF sz = "min" THEN {"first", "last-min"} ELSE Positions
BeyondMin(p) == p \in {"first-beyond", "last"}
StatusCases == {[Base EXCEPT !.fam = "status", !.kind = "vc", !.fmt = f, !.list = l, !.size = sz, !.pos = p, !.revoked = rv,
                             !.src = s, !.entry = en, !.at = Now] :
              f \in Formats, l \in {"own", "ext"}, sz \in Sizes, p \in Positions, rv \in BOOLEAN, s \in {"fresh", "cached"},
              en \in {"verifier", "api", "vp"}}
WellFormedStatus(x) == (x.list = "own" => x.size = "min") /\ x.pos \in PosIn(x.size)
\* does the verifying node find the bit of a revoked credential
Listed(x) == x.revoked /\ (ReadsWholeList \/ ~BeyondMin(x.pos))
CarriedByVP(x) == x.fam = "status" /\ x.entry = "vp"

(***************************************************************************)
(* Family "race": two credentials c1, c2 of one issuer on one status list  *)
(* page of the producing node.  R1 = Revoke(c1), R2 = Revoke(c2) (ops =    *)
(* "two"), S = a download of the list from the node (Credential()).        *)
(***************************************************************************)
RaceCases == {[Base EXCEPT !.fam = "race", !.kind = "vc", !.fmt = f, !.list = "own", !.size = "min", !.ops = o, !.at = Now] :
              f \in Formats, o \in RaceOps}
Ops == {"R1", "R2", "S"}
CredOf(o) == IF o = "R1" THEN "c1" ELSE "c2"
OpsOf(x) == IF x.ops = "two" THEN Ops ELSE {"R1", "S"}

MutationClass == {"set-value", "change-type", "wrap-array", "unwrap-array", "remove-member", "rename-member",
                  "duplicate-member", "add-undefined-member", "add-defined-member", "reorder-array",
                  "duplicate-element", "remove-element", "add-element", "signature", "swap"}
LdEquivalent == {"reorder-array", "duplicate-element", "wrap-array", "unwrap-array"}   \* same RDF dataset (JSON-LD set semantics)
LdVcPaths == {"root", "context", "id", "type", "issuer", "date", "status", "subject", "subject-id", "claim",
              "proof", "proof-option", "proof-value", "other"}
LdVpPaths == {"root", "context", "id", "type", "holder", "embedded-list", "proof", "proof-option", "proof-value", "other"}
JwtPaths == {"jwt-header", "jwt-claims", "jwt-registered", "jwt-body", "jwt-signature"}
PathsOf(kind, f) == IF f = "jwt" THEN (IF kind = "vp" THEN JwtPaths \cup {"embedded-list"} ELSE JwtPaths)
                    ELSE IF kind = "vp" THEN LdVpPaths ELSE LdVcPaths

MutCases ==
    \* a credential
    {[Base EXCEPT !.fam = "mut", !.kind = "vc", !.fmt = f, !.efmt = f, !.mclass = m, !.pclass = p] :
        f \in Formats, m \in MutationClass, p \in LdVcPaths \cup JwtPaths} \cup
    \* a presentation, mutation outside the embedded credentials (efmt = format of the embedded credential that is swapped)
    {[Base EXCEPT !.fam = "mut", !.kind = "vp", !.fmt = f, !.efmt = ef, !.mclass = m, !.pclass = p] :
        f \in Formats, ef \in Formats, m \in MutationClass, p \in LdVpPaths \cup JwtPaths} \cup
    \* a presentation, mutation inside an embedded credential of format efmt
    {[Base EXCEPT !.fam = "mut", !.kind = "vp", !.fmt = f, !.where = "embedded", !.efmt = ef, !.mclass = m, !.pclass = p] :
        f \in Formats, ef \in Formats, m \in MutationClass, p \in LdVcPaths \cup JwtPaths}
WellFormedMut(c) ==
    /\ c.where = "top" => c.pclass \in PathsOf(c.kind, c.fmt)
    /\ c.where = "embedded" => c.pclass \in PathsOf("vc", c.efmt)
    /\ (c.where = "top" /\ c.pclass # "embedded-list") => c.efmt = c.fmt
    /\ c.mclass = "swap" => c.pclass \in {"embedded-list", "proof"}
    /\ c.mclass = "signature" <=> c.pclass \in {"jwt-signature"}

Cases == (IF "vc" \in Families THEN VCCases ELSE {}) \cup
         (IF "vpsig" \in Families THEN VPSigCases ELSE {}) \cup
         (IF "vpvc" \in Families THEN VPVcCases ELSE {}) \cup
         (IF "vpmulti" \in Families THEN VPMultiCases ELSE {}) \cup
         (IF "mut" \in Families THEN {c \in MutCases : WellFormedMut(c)} ELSE {}) \cup
         (IF "status" \in Families THEN {c \in StatusCases : WellFormedStatus(c)} ELSE {}) \cup
         (IF "race" \in Families THEN RaceCases ELSE {})

VARIABLES
    pc,        \* "start" | "chosen" | "issued" | "presented" | "mutated" | "done"
    c,         \* the case
    doc,       \* abstract attributes of the document under test
    verdict,   \* result of Verify: "ok" or the check that refused the document; "any" = not predicted
    sl,        \* family "race": the status list page of the producing node and the operations in flight
    hist
vars == <<pc, c, doc, verdict, sl, hist>>
view == <<pc, c, doc, verdict, sl>>
Log(e) == hist' = IF Hist THEN Append(hist, e) ELSE hist

NoDoc == [signer |-> None, vmOwner |-> None, issued |-> 0, expires |-> 0, own |-> FALSE, mutated |-> FALSE,
          vpSigner |-> None, vpCreated |-> 0, vpExpires |-> 0, bit |-> FALSE]

\* revs   credentials with a revocation row (committed)          stored  bits of the stored (= served) StatusList2021Credential
\* age    "stale": the stored credential is about to expire, a download has to re-issue it
\* ph     phase of each operation: idle, read (stands between its reads and its locked section), done
\* snap   the revocations the operation saw before the lock       acked   credentials whose Revoke returned success
NoSL == [revs |-> {}, stored |-> {}, age |-> "fresh", aged |-> FALSE, ph |-> [o \in Ops |-> "idle"], snap |-> [o \in Ops |-> {}],
         acked |-> {}, downloads |-> 0]

Init == pc = "start" /\ c = Base /\ doc = NoDoc /\ verdict = None /\ sl = NoSL /\ hist = <<>>

Choose(x) ==
    /\ pc = "start" /\ c' = x /\ pc' = "chosen"
    /\ Log([a |-> "Choose"]) /\ UNCHANGED <<doc, verdict, sl>>

\* issuer.Issue: the producing node signs with the first assertion key K of its own DID document; proof.created = issuanceDate
Issue ==
    /\ pc = "chosen" /\ c.vm = "issuer" /\ c.list # "ext"
    /\ doc' = [NoDoc EXCEPT !.signer = "K", !.vmOwner = "d", !.own = TRUE,
                            !.issued = IF c.kind = "vc" THEN 4 ELSE 2,
                            !.expires = IF c.kind = "vc" THEN c.exp ELSE 0]
    /\ pc' = "issued" /\ Log([a |-> "Issue"]) /\ UNCHANGED <<c, verdict, sl>>

\* an attacker e (a resolvable DID with a valid key KE) names d as issuer but signs with his own key and verification method
Forge ==
    /\ pc = "chosen" /\ c.vm \in Attackers
    /\ doc' = [NoDoc EXCEPT !.signer = "KE", !.vmOwner = "e", !.issued = 4, !.expires = c.exp]
    /\ pc' = "issued" /\ Log([a |-> "Forge"]) /\ UNCHANGED <<c, verdict, sl>>

\* wallet.BuildPresentation(credentials, options, signer): signed by the first assertion key of the signer
Present ==
    /\ pc = "issued" /\ (c.kind = "vp" \/ CarriedByVP(c)) /\ (c.fam = "status" => doc.bit = c.revoked)
    /\ doc' = [doc EXCEPT !.vpSigner = IF c.presenter = "subject" THEN "d" ELSE "e",
                          !.vpCreated = 4, !.vpExpires = c.exp,
                          !.own = c.presenter = "subject" /\ c.holder # "other" /\ c.subjects # "two-mixed" /\ ~Forged(c.vcState)
                                  /\ ~AnyElem(c, Defective) /\ ~AnyElem(c, NotOfHolder)]
    /\ pc' = "presented" /\ Log([a |-> "Present"]) /\ UNCHANGED <<c, verdict, sl>>

Mutate ==
    /\ c.fam = "mut" /\ pc = (IF c.kind = "vp" THEN "presented" ELSE "issued")
    /\ doc' = [doc EXCEPT !.mutated = TRUE, !.own = FALSE]
    /\ pc' = "mutated" /\ Log([a |-> "Mutate", m |-> c.mclass, p |-> c.pclass]) /\ UNCHANGED <<c, verdict, sl>>

\* an external issuer (resolvable DID, own key, trusted by the verifying node) issues a credential whose credentialStatus
\* points into ITS status list, which it serves itself
IssueExt ==
    /\ pc = "chosen" /\ c.list = "ext"
    /\ doc' = [NoDoc EXCEPT !.signer = "K", !.vmOwner = "d", !.issued = 4]
    /\ pc' = "issued" /\ Log([a |-> "IssueExt"]) /\ UNCHANGED <<c, verdict, sl>>

\* the issuer revokes: own list = issuer.Revoke on the producing node, external list = the bit is set in the served list
SetBit ==
    /\ pc = "issued" /\ c.fam = "status" /\ c.revoked /\ ~doc.bit
    /\ doc' = [doc EXCEPT !.bit = TRUE]
    /\ Log([a |-> "SetBit"]) /\ UNCHANGED <<pc, c, verdict, sl>>

(***************************************************************************)
(* Family "race": vcr/revocation/statuslist2021_issuer.go.  Every          *)
(* operation first reads without a lock (isManaged, the stored credential  *)
(* and its expiry, the issuer, the signing key), then opens ONE SQL        *)
(* transaction that locks the credentialRecord row, loads the revocations, *)
(* signs the list and stores it.  A transaction is an atomic step.         *)
(***************************************************************************)
InRace == c.fam = "race" /\ pc = "issued"
Bits(o, now) == IF ReloadUnderLock THEN now ELSE sl.snap[o]

\* the stored StatusList2021Credential gets old: less than the re-issue margin is left
Age ==
    /\ InRace /\ ~sl.aged
    /\ sl' = [sl EXCEPT !.age = "stale", !.aged = TRUE]
    /\ Log([a |-> "Age"]) /\ UNCHANGED <<pc, c, doc, verdict>>

\* the operation runs up to the point where it opens its transaction; a download of a list that is valid for long enough
\* returns the stored credential at once
OpBegin(o) ==
    /\ InRace /\ o \in OpsOf(c) /\ sl.ph[o] = "idle"
    /\ sl' = IF o = "S" /\ sl.age = "fresh" THEN [sl EXCEPT !.ph[o] = "done"]
              ELSE [sl EXCEPT !.ph[o] = "read", !.snap[o] = sl.revs]
    /\ Log([a |-> "OpBegin", o |-> o, tx |-> ~(o = "S" /\ sl.age = "fresh")]) /\ UNCHANGED <<pc, c, doc, verdict>>

OpEnd(o) ==
    /\ InRace /\ sl.ph[o] = "read"
    /\ sl' = IF o = "S"
              THEN [sl EXCEPT !.ph[o] = "done", !.stored = Bits(o, sl.revs), !.age = "fresh"]
              ELSE [sl EXCEPT !.ph[o] = "done", !.revs = sl.revs \cup {CredOf(o)}, !.acked = sl.acked \cup {CredOf(o)},
                              !.stored = Bits(o, sl.revs) \cup {CredOf(o)}, !.age = "fresh"]
    /\ Log([a |-> "OpEnd", o |-> o]) /\ UNCHANGED <<pc, c, doc, verdict>>

\* a verifier node checks both credentials with a fresh download of the list: a complete download operation
Download ==
    /\ InRace /\ c.ops = "one" /\ sl.downloads < 1
    /\ sl' = [sl EXCEPT !.downloads = sl.downloads + 1, !.age = "fresh", !.stored = IF sl.age = "stale" THEN sl.revs ELSE sl.stored]
    /\ Log([a |-> "Download"]) /\ UNCHANGED <<pc, c, doc, verdict>>

\* all operations have returned; both nodes verify both credentials.  verdict = what they say about the revoked ones
Finish ==
    /\ InRace /\ \A o \in OpsOf(c) : sl.ph[o] = "done"
    /\ verdict' = IF sl.acked \subseteq sl.stored THEN "revoked" ELSE "ok"
    /\ pc' = "done" /\ Log([a |-> "Finish", res |-> verdict']) /\ UNCHANGED <<c, doc, sl>>

(***************************************************************************)
(* Which mutations change something the statement protects.                *)
(* A change under a JWT signature changes the signed bytes.  In a JSON-LD  *)
(* document the signed object is the RDF dataset: operators that leave the *)
(* dataset unchanged (JSON-LD arrays are sets) and edits of @context are   *)
(* not constrained by the statement.  (The driver additionally ignores a   *)
(* mutant whose parsed form is identical to the original one.)             *)
(***************************************************************************)
UnderJwt(x) == x.fmt = "jwt" \/ (x.where = "embedded" /\ x.efmt = "jwt")
Semantic(x) == \/ UnderJwt(x)
               \/ /\ x.pclass # "context" /\ x.mclass \notin LdEquivalent
F11Applies(x) == x.mclass = "add-undefined-member" /\ ~UnderJwt(x) /\ ~SafeModeOnVerify
SwapApplies(x) == x.mclass = "swap" /\ x.pclass = "embedded-list" /\ x.fmt = "ldp" /\ x.efmt = "jwt" /\ ~LdpVpBindsJwtVcs

(***************************************************************************)
(* verifier.Verify(credential, allowUntrusted, checkSignature, validAt)    *)
(* in the order of the code: validator, revocation store, status list,     *)
(* trust, ValidAt, resolve issuer, signature.                              *)
(***************************************************************************)
VerifyVC(x, d, revoked, trusted, allowUntrusted, checkSig, at) ==
    LET log == KeyLog(x.kh) IN
    IF revoked THEN "revoked"
    ELSE IF ~allowUntrusted /\ ~trusted THEN "untrusted"
    ELSE IF ~InWindow(d.issued, d.expires, at) THEN "not-valid-at-time"
    ELSE IF ~checkSig THEN "ok"
    ELSE IF ~Resolvable(log, at, x.store) THEN "issuer-unresolvable"
    ELSE IF d.vmOwner # "d" THEN "vm-not-of-issuer"      \* ldp: before the key is resolved; jwt: after the signature check
    ELSE IF ~Authorised(log, d.signer, at, x.store) THEN "key-not-found"
    ELSE "ok"

\* state of a carried credential (vpvc family): issued at 2 by issuer i; "expired" = expired at 4; "notyet" = issued at 8
CarriedVC(x) ==
    LET st == x.vcState IN
    IF st = "revoked" THEN "revoked"
    ELSE IF st = "untrusted" /\ ~x.allowUntrusted THEN "untrusted"
    ELSE IF st \in {"expired", "notyet"} THEN "not-valid-at-time"
    ELSE IF st = "badsig" THEN "key-not-found"
    ELSE IF Forged(st) THEN "vm-not-of-issuer"
    ELSE "ok"

(***************************************************************************)
(* verifier.doVerifyVP: presenter == subject of every credential, holder   *)
(* == subject, signature of the presentation, then every credential.       *)
(***************************************************************************)
VerifyVP(x, d, at) ==
    LET signerLog == IF d.vpSigner = "d" THEN KeyLog(x.kh) ELSE LogOf("KE")
        signerKey == IF d.vpSigner = "d" THEN "K" ELSE "KE"
        window == InWindow(d.vpCreated, d.vpExpires, at)
        key == Authorised(signerLog, signerKey, at, x.store)
    IN
    IF x.subjects = "two-mixed" \/ AnyElem(x, NotOfHolder) THEN "presenter-not-subject"
    ELSE IF x.subjects # "none" /\ d.vpSigner # "d" THEN "presenter-not-subject"
    ELSE IF x.subjects # "none" /\ x.holder = "other" THEN "holder-not-subject"
    \* jsonldProof: proof.ValidAt before the key is resolved; jwtSignature: the key is resolved before the token is validated
    ELSE IF x.fmt = "ldp" /\ ~window THEN "not-valid-at-time"
    ELSE IF ~key THEN "key-not-found"
    ELSE IF ~window THEN "not-valid-at-time"
    ELSE IF x.verifyVCs /\ x.subjects # "none" /\ CarriedVC(x) # "ok" THEN "invalid-vc"
    ELSE IF x.verifyVCs /\ AnyElem(x, Defective) THEN "invalid-vc"       \* EVERY carried credential is verified, in order
    ELSE "ok"

Verify ==
    /\ c.fam # "race"
    /\ pc = (IF c.fam = "mut" THEN "mutated" ELSE IF c.kind = "vp" \/ CarriedByVP(c) THEN "presented" ELSE "issued")
    /\ c.fam = "status" => doc.bit = c.revoked
    /\ verdict' =
         IF c.fam = "status" THEN
              (IF ~Listed(c) THEN "ok" ELSE IF c.entry = "vp" THEN "invalid-vc" ELSE "revoked")
         ELSE IF c.fam = "mut" THEN
              (IF ~Semantic(c) THEN "any"
               ELSE IF F11Applies(c) \/ SwapApplies(c) THEN "ok"
               ELSE "rejected")
         ELSE IF c.kind = "vc" THEN VerifyVC(c, doc, c.revoked, c.trusted, c.allowUntrusted, c.checkSig, c.at)
         ELSE VerifyVP(c, doc, c.at)
    /\ pc' = "done" /\ Log([a |-> "Verify", res |-> verdict']) /\ UNCHANGED <<c, doc, sl>>

\* (the guard stands in front of the quantifier so that TLC builds the set of cases in the initial state only)
ChooseAny == pc = "start" /\ \E x \in Cases : Choose(x)
Next == ChooseAny \/ Issue \/ Forge \/ Present \/ Mutate \/ Verify \/ IssueExt \/ SetBit
        \/ Age \/ (\E o \in Ops : OpBegin(o) \/ OpEnd(o)) \/ Download \/ Finish
Spec == Init /\ [][Next]_vars

(***************************************************************************)
(* The property statement.                                                 *)
(***************************************************************************)
\* the conjuncts the statement requires of every document reported as valid; Failing = the ones that do not hold
If(b, name) == IF b THEN {} ELSE {name}
Failing(x) ==
    IF x.fam = "race" THEN {"revoked"}        \* at the end c1 (and c2) are revoked: Revoke has returned success
    ELSE IF x.fam = "status" THEN If(~x.revoked, "revoked")
    ELSE IF x.kind = "vc" THEN
        \* signed by a key that the claimed issuer's DID document authorises for assertions at the validation time
        If(x.checkSig => (x.vm = "issuer" /\ AuthorisedAt(KeyLog(x.kh), "K", x.at)), "unauthorised-key") \cup
        If(InWindow(4, x.exp, x.at), "outside-window") \cup          \* lies within its validity window
        If(~x.revoked, "revoked") \cup                               \* is not revoked
        If(x.trusted \/ x.allowUntrusted, "untrusted")               \* has a trusted issuer when trust is required
    ELSE
        \* (the attacker's own key is valid: what fails for him is the subject conjunct)
        If(x.presenter = "subject" => AuthorisedAt(KeyLog(x.kh), "K", x.at), "unauthorised-key") \cup
        If(InWindow(4, x.exp, x.at), "outside-window") \cup
        \* signed by the subject of every credential it carries
        If(x.subjects # "none" => (x.presenter = "subject" /\ x.subjects # "two-mixed" /\ ~AnyElem(x, NotOfHolder)), "not-subject") \cup
        \* and every carried credential is itself valid (when the caller asks for that)
        If((x.verifyVCs /\ x.subjects # "none") => (CarriedVC(x) = "ok" /\ ~AnyElem(x, Defective)), "invalid-credential")
Conjuncts(x) == Failing(x) = {}
\* output of the node's own issuer / wallet from coherent input
Own(x) == IF x.fam \in {"status", "race"} THEN x.list = "own"
          ELSE IF x.kind = "vc" THEN x.vm = "issuer"
          ELSE x.presenter = "subject" /\ x.holder # "other" /\ x.subjects # "two-mixed" /\ ~Forged(x.vcState)
               /\ ~AnyElem(x, Defective) /\ ~AnyElem(x, NotOfHolder)

Required(x) == IF x.fam = "mut" THEN (IF Semantic(x) THEN "reject" ELSE "any")
               ELSE IF ~Conjuncts(x) THEN "reject"
               ELSE IF Own(x) THEN "accept" ELSE "any"

Done == pc = "done"
AcceptOnlyIf == (Done /\ c.fam # "mut" /\ verdict = "ok") => Conjuncts(c)
TamperEvident == (Done /\ c.fam = "mut" /\ Semantic(c)) => verdict # "ok"
OwnOutputVerifies == (Done /\ c.fam # "mut" /\ Own(c) /\ Conjuncts(c)) => verdict = "ok"
\* "is not revoked", in every state: the producing node verifies against the stored list (managed lists are never refreshed),
\* any other node against what a download hands out -- the same bits.  Every credential whose Revoke has returned is in it.
RevokedRejected == c.fam = "race" => sl.acked \subseteq sl.stored
TypeOK == /\ pc \in {"start", "chosen", "issued", "presented", "mutated", "done"}
          /\ Done => verdict # None
=============================================================================
