--------------------------- MODULE TraceDidStore ---------------------------
(***************************************************************************)
(* Trace validation: executions of the REAL didstore / ambassador          *)
(* (one event per store.Add resp. per received transaction, with the       *)
(* arguments and the projected result: verdict, version count, conflicted  *)
(* flag, counters, source transactions and the content of the latest       *)
(* document) must be behaviours of the descriptive DidStore model.         *)
(* Traces are concatenated; a "reset" event starts the next one.           *)
(***************************************************************************)
EXTENDS MCDidStore, IOUtils

TraceLog == ndJsonDeserialize(IOEnv.VERIF_TRACE)
VARIABLE l
tvars == <<vars, l>>

Ev == TraceLog[l]
IsEvent(e) == l <= Len(TraceLog) /\ Ev.ev = e /\ l' = l + 1

TReset == /\ IsEvent("reset")
          /\ sc' = "" /\ list' = [d \in DIDs |-> <<>>] /\ meta' = [d \in DIDs |-> <<>>] /\ latest' = [d \in DIDs |-> 0]
          /\ cshelf' = {} /\ cc' = 0 /\ dc' = 0 /\ txIndex' = {} /\ arrived' = {} /\ dups' = 0
          /\ last' = [t |-> "", df |-> "none", res |-> "reset"] /\ hist' = <<>>
TScenario == /\ IsEvent("scenario") /\ sc' = Ev.sc
             /\ UNCHANGED <<list, meta, latest, cshelf, cc, dc, txIndex, arrived, dups, last, hist>>

\* the logged projection of the real store equals the observation of the model (controller ORDER included)
ObsOK(d) == LET o == Obs(d) IN
    /\ o.nver = Ev.nver /\ o.conflicted = Ev.conflicted /\ o.deact = Ev.deact /\ o.cc = Ev.cc /\ o.dc = Ev.dc
    /\ o.merged = Ev.merged /\ o.src = Range(Ev.src)
    /\ o.doc.keys = Range(Ev.doc.keys) /\ o.doc.capInv = Range(Ev.doc.capInv)
    /\ o.doc.ctrl = Ev.doc.ctrl /\ o.doc.svcs = Range(Ev.doc.svcs)

TAdd == IsEvent("add") /\ Ev.e \in DOMAIN T /\ Add(Ev.e) /\ ObsOK(T[Ev.e].did)
TRecv == /\ IsEvent("recv") /\ Ev.t \in DOMAIN T /\ Receive(Ev.t, Ev.df)
         /\ last'.res = Ev.res
         /\ (Ev.res = "accepted" /\ Ev.df = "none" /\ "nver" \in DOMAIN Ev) => ObsOK(T[Ev.t].did)

TraceNext == TReset \/ TScenario \/ TAdd \/ TRecv
TraceInit == Init /\ l = 1 /\ TLCSet(1, 1)
TraceSpec == TraceInit /\ [][TraceNext]_tvars

\* acceptance: the whole file was consumed (high-water mark kept in a TLC register; -workers 1)
Progress == TLCSet(1, IF l > TLCGet(1) THEN l ELSE TLCGet(1))
TraceAccepted ==
    \/ TLCGet(1) = Len(TraceLog) + 1
    \/ Print(<<"TRACE-REJECTED-AT", TLCGet(1), TraceLog[TLCGet(1)]>>, FALSE)
=============================================================================
