----------------------------- MODULE ServiceRef -----------------------------
(***************************************************************************)
(* Resolution of DID document service references (RFC006 section 4):       *)
(*   vdr/resolver/service.go   DIDServiceResolver.Resolve / ResolveEx,     *)
(*                             MakeServiceReference, IsServiceReference,   *)
(*                             ValidateServiceReference                    *)
(*   vdr/didnuts/validators.go managedServiceValidator                     *)
(*   vdr/didnuts/manager.go    Manager.Update (exists? deactivated? valid?)*)
(*   didman/didman.go          AddEndpoint, AddCompoundService,            *)
(*                             DeleteService (referencedService),          *)
(*                             GetCompoundServiceEndpoint                  *)
(*                                                                         *)
(* DID documents are small graphs: a document has at most one service per  *)
(* type; the endpoint of a service is an absolute URL, a reference         *)
(* (did, type) written in some textual form, or a map name -> (URL |       *)
(* reference) (compound service).                                          *)
(*                                                                         *)
(* One action per critical section of the Go code:                         *)
(*   ResolveBegin  caller invokes Resolve(query, maxDepth)   (fresh cache) *)
(*   Hop           ONE invocation of ResolveEx: depth check, document from *)
(*                 the cache or from the store (the only read of shared    *)
(*                 state), service lookup, endpoint classification         *)
(*   NetUpdate     the store receives another version of a document (DAG   *)
(*                 subscriber; NOT validated by managedServiceValidator)   *)
(*   AddCheck / DeleteCheck   didman handler up to and including           *)
(*                 Manager.Update's validation: reads the documents        *)
(*                 (verdicts: AddVerdict / DeleteVerdict)                  *)
(*   OpWrite       Manager.Update publishes + stores the next version      *)
(*   GetCompound   didman.GetCompoundServiceEndpoint                       *)
(* didman serialises handlers per DID (keyedMutex), not globally.          *)
(*                                                                         *)
(* Deviations of the code from what a user relies on are boolean           *)
(* constants (TRUE = the code as it is):                                   *)
(*   ValidatorCountsFromTarget  the validator resolves the REFERENCE of a  *)
(*        service at depth 0; a query for the service itself needs one     *)
(*        more lookup, so an accepted chain can be one too long            *)
(*   InUseSameDocOnly  DeleteService looks for referrers in the document   *)
(*        of the service only, not in the other managed documents          *)
(*   InUseExactString  ... and compares the reference text with the        *)
(*        canonical spelling (MakeServiceReference), although the resolver *)
(*        follows other spellings (percent-encoded type, fragment)         *)
(*   PerDidLock        handlers on different DIDs interleave between their *)
(*        checks and their write                                           *)
(* UseCache = FALSE describes a resolver WITHOUT the document cache (not   *)
(* the code): it shows what the cache is needed for (SnapshotFunctional).  *)
(***************************************************************************)
EXTENDS Naturals, FiniteSets, Sequences, TLC

CONSTANTS
    DIDs,            \* every DID that occurs (with or without a document)
    Types,           \* service types
    Managed,         \* DIDs whose documents this node manages (didman operates on them)
    DefaultDepth,    \* resolver.DefaultMaxServiceReferenceDepth (5)
    Procs,           \* concurrent didman handlers
    MaxOps,          \* bound on operations started in one behaviour
    MaxNet,          \* bound on network updates
    UseCache, ValidatorCountsFromTarget, InUseSameDocOnly, InUseExactString, PerDidLock,
    Hist             \* TRUE: record the action history (behaviour generation)

\* universes bound by the MC module
CONSTANTS InitDocs,         \* set of initial stores
          NetDocs(_),       \* versions the network may install for a DID
          ResolveQueries,   \* [d, t, f, max] : queries passed to Resolve
          AddChoices,       \* [d, t, e]      : AddEndpoint (url / reference) and AddCompoundService (map)
          DeleteChoices,    \* [d, t]         : DeleteService
          CompoundQueries   \* [d, ct, n, rr] : GetCompoundServiceEndpoint

\* ------------------------------------------------------------------ data
NoSvc == [k |-> "none"]
Url(u) == [k |-> "url", u |-> u]
Ref(d, t, f) == [k |-> "ref", d |-> d, t |-> t, f |-> f]       \* f: textual form of the reference
Map(m) == [k |-> "map", m |-> m]                                  \* m: function member name -> Url | Ref
EmptySvc == [t \in Types |-> NoSvc]
Doc(st, svc) == [st |-> st, svc |-> svc]                          \* st: "active" | "deact" | "none" (never created)
NoDoc == Doc("none", EmptySvc)
DocJ(doc) == [st |-> doc.st, svc |-> [t \in {x \in Types : doc.svc[x].k # "none"} |-> doc.svc[t]]]   \* compact rendering for the history
Miss == [st |-> "nil"]                                            \* cache miss

\* textual forms.  ValidateServiceReference accepts: canon = MakeServiceReference spelling, pct = percent-encoded
\* type, frag = additional fragment.  It rejects: badpath (path is not /serviceEndpoint), extraq (other query
\* parameter), notype (no type parameter), twotype (two type parameters).
WellFormed(f) == f \in {"canon", "pct", "frag"}
\* the type ResolveEx extracts from a query it does not validate (the entry query): url.Query().Get("type")
QueryType(t, f) == IF f = "notype" THEN "-" ELSE t

Fail(v) == [v |-> v]
Found(d, t, e) == [v |-> "ok", d |-> d, t |-> t, e |-> e]
HasSvc(doc, t) == t \in Types /\ doc.svc[t].k # "none"

\* ------------------------------------------------------------------ reference semantics
\* ResolveEx(reference to (d, t), depth, max, cache) over the view V: one version per DID
RECURSIVE Res(_, _, _, _, _)
Res(V, d, t, depth, max) ==
    IF depth >= max THEN Fail("too-deep")
    ELSE IF V[d].st = "none" THEN Fail("not-found")
    ELSE IF V[d].st = "deact" THEN Fail("deactivated")
    ELSE IF ~HasSvc(V[d], t) THEN Fail("no-service")
    ELSE LET e == V[d].svc[t] IN
         IF e.k = "ref"
         THEN IF WellFormed(e.f) THEN Res(V, e.d, e.t, depth + 1, max) ELSE Fail("bad-ref")
         ELSE Found(d, t, e)

\* the store reads the code performs (cache misses), in order
RECURSIVE Reads(_, _, _, _, _, _)
Reads(V, d, t, depth, max, seen) ==
    IF depth >= max THEN <<>>
    ELSE LET rd == IF d \in seen THEN <<>> ELSE <<d>> IN
         IF V[d].st # "active" \/ ~HasSvc(V[d], t) THEN rd
         ELSE LET e == V[d].svc[t] IN
              IF e.k = "ref" /\ WellFormed(e.f) THEN rd \o Reads(V, e.d, e.t, depth + 1, max, seen \cup {d}) ELSE rd

ResolveQ(V, q) == Res(V, q.d, QueryType(q.t, q.f), 0, q.max)

\* managedServiceValidator.resolveOrReturnEndpoint on a string endpoint (service or member of a compound service)
ValDepth == IF ValidatorCountsFromTarget THEN 0 ELSE 1
CheckEndpoint(V, e, depth) ==
    IF e.k = "url" THEN "ok"
    ELSE IF ~WellFormed(e.f) THEN "bad-ref"
    ELSE Res(V, e.d, e.t, depth, DefaultDepth).v
\* causes for which Validate(next) may fail (which one is reported depends on the iteration order of a Go map);
\* vd: the depth at which the reference of a service is resolved
CausesW(V, nd, vd) ==
    {CheckEndpoint(V, nd.svc[t], vd) : t \in {x \in Types : nd.svc[x].k \in {"url", "ref"}}}
    \cup UNION {{CheckEndpoint(V, nd.svc[t].m[n], 0) : n \in DOMAIN nd.svc[t].m} : t \in {x \in Types : nd.svc[x].k = "map"}}
ValidateW(V, d, nd, vd) == CausesW([V EXCEPT ![d] = nd], nd, vd) \ {"ok"}      \* {} = accepted; the cache is seeded with next

\* what a user of a managed document relies on: Resolve(MakeServiceReference(d, t), default) succeeds, and every
\* reference in a compound service of the document can be followed by GetCompoundServiceEndpoint
Resolvable(V, d, t) ==
    /\ Res(V, d, t, 0, DefaultDepth).v = "ok"
    /\ V[d].svc[t].k = "map" => \A n \in DOMAIN V[d].svc[t].m : CheckEndpoint(V, V[d].svc[t].m[n], 0) = "ok"
Unresolvable(V) == {<<d, t>> \in Managed \X Types : V[d].st = "active" /\ HasSvc(V[d], t) /\ ~Resolvable(V, d, t)}

\* didman.referencedService; same: only the document of the service is searched; exact: only the canonical spelling is seen
Mentions(e, d, t, exact) ==
    LET seen(f) == IF exact THEN f = "canon" ELSE WellFormed(f) IN
    \/ e.k = "ref" /\ e.d = d /\ e.t = t /\ seen(e.f)
    \/ e.k = "map" /\ \E n \in DOMAIN e.m : e.m[n].k = "ref" /\ e.m[n].d = d /\ e.m[n].t = t /\ seen(e.m[n].f)
InUseW(V, d, t, same, exact) ==
    \E x \in (IF same THEN {d} ELSE {m \in Managed : V[m].st = "active"}), y \in Types : Mentions(V[x].svc[y], d, t, exact)

\* verdict of addService + Manager.Update up to the validation.  c = [d, t, e]
AddVerdict(V, c, vd) ==
    LET cur == V[c.d]
        nd == [cur EXCEPT !.svc[c.t] = c.e]
        bad == ValidateW(V, c.d, nd, vd)
    IN IF cur.st = "none" THEN [v |-> "not-found", causes |-> {}, nd |-> cur]
       ELSE IF cur.st = "deact" THEN [v |-> "deactivated", causes |-> {}, nd |-> cur]
       ELSE IF HasSvc(cur, c.t) THEN [v |-> "duplicate", causes |-> {}, nd |-> cur]
       ELSE IF bad # {} THEN [v |-> "invalid", causes |-> bad, nd |-> cur]
       ELSE [v |-> "ok", causes |-> {}, nd |-> nd]
\* verdict of deleteService: resolve, find, referencedService, Manager.Update validates the remaining document.  c = [d, t]
DeleteVerdict(V, c, vd, same, exact) ==
    LET cur == V[c.d]
        nd == [cur EXCEPT !.svc[c.t] = NoSvc]
        bad == ValidateW(V, c.d, nd, vd)
    IN IF cur.st = "none" THEN [v |-> "not-found", causes |-> {}, nd |-> cur]
       ELSE IF cur.st = "deact" THEN [v |-> "deactivated", causes |-> {}, nd |-> cur]
       ELSE IF ~HasSvc(cur, c.t) THEN [v |-> "no-service", causes |-> {}, nd |-> cur]
       ELSE IF InUseW(V, c.d, c.t, same, exact) THEN [v |-> "in-use", causes |-> {}, nd |-> cur]
       ELSE IF bad # {} THEN [v |-> "invalid", causes |-> bad, nd |-> cur]
       ELSE [v |-> "ok", causes |-> {}, nd |-> nd]

\* didman.GetCompoundServiceEndpoint(d, ct, n, rr)
GetC(V, c) ==
    IF V[c.d].st = "none" THEN Fail("not-found")
    ELSE IF V[c.d].st = "deact" THEN Fail("deactivated")
    ELSE LET cs == Res(V, c.d, c.ct, 0, DefaultDepth) IN
         IF cs.v # "ok" THEN [v |-> "not-an-endpoint", cause |-> cs.v]
         ELSE IF cs.e.k # "map" THEN [v |-> "not-an-endpoint", cause |-> "not-compound"]
         ELSE IF c.n \notin DOMAIN cs.e.m THEN Fail("no-service")
         ELSE LET m == cs.e.m[c.n] IN
              IF m.k = "url" \/ ~c.rr THEN [v |-> "ok", e |-> m]
              ELSE LET r == Res(V, m.d, QueryType(m.t, m.f), 0, DefaultDepth) IN     \* the member reference is NOT validated here
                   IF r.v # "ok" THEN Fail(r.v)
                   ELSE IF r.e.k = "map" THEN [v |-> "not-an-endpoint", cause |-> "compound"]
                   ELSE [v |-> "ok", e |-> r.e]

\* ------------------------------------------------------------------ state
VARIABLES
    docs,     \* the DID store: DID -> document (latest version)
    rs,       \* the resolver goroutine
    ops,      \* didman handlers: Procs -> record
    nops, nnet,
    broken,   \* history: managed services that a didman operation made (or published) unresolvable
    hist

vars == <<docs, rs, ops, nops, nnet, broken, hist>>
view == <<docs, rs, ops, nops, nnet, broken>>
Log(e) == hist' = IF Hist THEN Append(hist, e) ELSE hist

IdleRs == [pc |-> "idle"]
IdleOp == [pc |-> "idle"]

Init ==
    /\ docs \in InitDocs
    /\ rs = IdleRs
    /\ ops = [p \in Procs |-> IdleOp]
    /\ nops = 0 /\ nnet = 0 /\ broken = {} /\ hist = <<>>

\* ------------------------------------------------------------------ resolver
ResolveBegin(q) ==
    /\ rs.pc \in {"idle", "done"} /\ nops < MaxOps
    /\ rs' = [pc |-> "run", q |-> q, d |-> q.d, t |-> QueryType(q.t, q.f), depth |-> 0,
              cache |-> [x \in DIDs |-> Miss],      \* documentCache
              seen |-> [x \in DIDs |-> Miss],       \* history: the version returned by the FIRST store read of a DID
              reads |-> <<>>,                       \* history: store reads
              res |-> Fail("-")]
    /\ nops' = nops + 1
    /\ Log([a |-> "Resolve", q |-> q])
    /\ UNCHANGED <<docs, ops, nnet, broken>>

\* hit: the document comes from the cache (the code: whenever it is there)
HopWith(hit) ==
    /\ rs.pc = "run"
    /\ LET deep == rs.depth >= rs.q.max
           doc == IF hit THEN rs.cache[rs.d] ELSE docs[rs.d]
           r1 == IF hit \/ deep THEN rs
                 ELSE [rs EXCEPT !.reads = Append(@, rs.d),
                                 !.seen[rs.d] = IF @.st = "nil" THEN doc ELSE @,
                                 !.cache[rs.d] = IF doc.st = "active" THEN doc ELSE @]
           end(r) == /\ rs' = [r1 EXCEPT !.pc = "done", !.res = r]
                     /\ Log([a |-> "Hop", d |-> rs.d, read |-> ~(hit \/ deep), fin |-> TRUE, res |-> r])
       IN IF deep THEN end(Fail("too-deep"))
          ELSE IF doc.st = "none" THEN end(Fail("not-found"))
          ELSE IF doc.st = "deact" THEN end(Fail("deactivated"))
          ELSE IF ~HasSvc(doc, rs.t) THEN end(Fail("no-service"))
          ELSE LET e == doc.svc[rs.t] IN
               IF e.k = "ref"
               THEN IF WellFormed(e.f)
                    THEN /\ rs' = [r1 EXCEPT !.d = e.d, !.t = e.t, !.depth = @ + 1]
                         /\ Log([a |-> "Hop", d |-> rs.d, read |-> ~hit, fin |-> FALSE, res |-> Fail("-")])
                    ELSE end(Fail("bad-ref"))
               ELSE end(Found(rs.d, rs.t, e))
    /\ UNCHANGED <<docs, ops, nops, nnet, broken>>
Hop == rs.pc = "run" /\ HopWith(UseCache /\ rs.cache[rs.d].st # "nil")

\* ------------------------------------------------------------------ environment
NetUpdate(d, nd) ==
    /\ nnet < MaxNet /\ nd \in NetDocs(d) /\ nd # docs[d] /\ docs[d].st # "deact"
    /\ docs' = [docs EXCEPT ![d] = nd]
    /\ nnet' = nnet + 1
    /\ Log([a |-> "Net", d |-> d, old |-> DocJ(docs[d]), new |-> DocJ(nd)])
    /\ UNCHANGED <<rs, ops, nops, broken>>

\* ------------------------------------------------------------------ didman
\* didman.callSerializer: one handler per DID; handlers of different DIDs interleave (PerDidLock)
MayEnter(p, d) == \A q \in Procs \ {p} : ops[q].pc = "checked" => (PerDidLock /\ ops[q].d # d)

\* r: the verdict of the code as configured; rp: the verdict of the repaired code (logged so that a conformance
\* run can tell a repaired deviation from an arbitrary difference)
Conclude(p, c, kind, r, rp) ==
    /\ nops' = nops + 1
    /\ ops' = [ops EXCEPT ![p] = IF r.v = "ok" THEN [pc |-> "checked", kind |-> kind, c |-> c, d |-> c.d, nd |-> r.nd]
                                 ELSE [pc |-> "done", kind |-> kind, c |-> c, d |-> c.d, v |-> r.v, causes |-> r.causes]]
    /\ Log([a |-> kind, p |-> p, c |-> c, v |-> r.v, causes |-> r.causes, vp |-> rp.v])
    /\ UNCHANGED <<docs, rs, nnet, broken>>

AddCheck(p, c) ==
    /\ ops[p].pc \in {"idle", "done"} /\ nops < MaxOps /\ c.d \in Managed /\ MayEnter(p, c.d)
    /\ Conclude(p, c, "Add", AddVerdict(docs, c, ValDepth), AddVerdict(docs, c, 1))

DeleteCheck(p, c) ==
    /\ ops[p].pc \in {"idle", "done"} /\ nops < MaxOps /\ c.d \in Managed /\ MayEnter(p, c.d)
    /\ Conclude(p, c, "Delete", DeleteVerdict(docs, c, ValDepth, InUseSameDocOnly, InUseExactString), DeleteVerdict(docs, c, 1, FALSE, FALSE))

\* Manager.Update: transaction + store.Add of the version computed by the handler
OpWrite(p) ==
    /\ ops[p].pc = "checked"
    /\ docs' = [docs EXCEPT ![ops[p].d] = ops[p].nd]
    /\ broken' = broken \cup (Unresolvable(docs') \ Unresolvable(docs))
    /\ ops' = [ops EXCEPT ![p] = [pc |-> "done", kind |-> @.kind, c |-> @.c, d |-> @.d, v |-> "ok", causes |-> {},
                                  was |-> docs[@.d]]]      \* history: the replaced version (keeps behaviours with different pasts apart)
    /\ Log([a |-> "Write", p |-> p, d |-> ops[p].d, old |-> DocJ(docs[ops[p].d]), new |-> DocJ(ops[p].nd)])
    /\ UNCHANGED <<rs, nops, nnet>>

GetCompound(p, c) ==
    /\ ops[p].pc \in {"idle", "done"} /\ nops < MaxOps
    /\ nops' = nops + 1
    /\ ops' = [ops EXCEPT ![p] = [pc |-> "done", kind |-> "GetCompound", c |-> c, d |-> c.d, v |-> GetC(docs, c).v, causes |-> {}]]
    /\ Log([a |-> "GetCompound", p |-> p, c |-> c, r |-> GetC(docs, c)])
    /\ UNCHANGED <<docs, rs, nnet, broken>>

Next ==
    \/ \E q \in ResolveQueries : ResolveBegin(q)
    \/ Hop
    \/ \E d \in DIDs : \E nd \in NetDocs(d) : NetUpdate(d, nd)
    \/ \E p \in Procs : \/ \E c \in AddChoices : AddCheck(p, c)
                        \/ \E c \in DeleteChoices : DeleteCheck(p, c)
                        \/ \E c \in CompoundQueries : GetCompound(p, c)
                        \/ OpWrite(p)

Spec == Init /\ [][Next]_vars
FairSpec == Spec /\ WF_vars(Hop) /\ \A p \in Procs : WF_vars(OpWrite(p))

\* ------------------------------------------------------------------ properties
\* never more ResolveEx invocations that look at a document than maxDepth; never more store reads
DepthBound == rs.pc \in {"run", "done"} => rs.depth <= rs.q.max /\ Len(rs.reads) <= rs.q.max
\* the cache works: a document is read from the store at most once per resolution
ReadOnce == rs.pc \in {"run", "done"} => \A i, j \in 1..Len(rs.reads) : rs.reads[i] = rs.reads[j] => i = j
\* a resolved endpoint is never itself a reference
ResolvedNotRef == (rs.pc = "done" /\ rs.res.v = "ok") => rs.res.e.k \in {"url", "map"}
\* the result is the reference semantics applied to ONE version per DID: the version of the first read
\* (a store update during the resolution is seen for all hops through that DID or for none)
SeenView == [x \in DIDs |-> IF rs.seen[x].st = "nil" THEN NoDoc ELSE rs.seen[x]]
SnapshotFunctional == rs.pc = "done" => rs.res = ResolveQ(SeenView, rs.q)
\* without an update in between the result is a function of the store, and the reads are the predicted ones
QuiescentFunctional == (rs.pc = "done" /\ nnet = 0 /\ \A p \in Procs : ops[p].pc = "idle")
                          => rs.res = ResolveQ(docs, rs.q) /\ rs.reads = Reads(docs, rs.q.d, QueryType(rs.q.t, rs.q.f), 0, rs.q.max, {})
\* didman never makes a managed service unresolvable: an accepted service resolves, a deleted one was not in use
NothingBroken == broken = {}
\* every resolution terminates (cycles, self references)
Terminates == (rs.pc = "run") ~> (rs.pc = "done")
=============================================================================
