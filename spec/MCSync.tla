------------------------------ MODULE MCSync ------------------------------
(* Concrete DAG universes and scenarios for model checking Sync.tla *)
EXTENDS Sync, Json

\* two branches from a common root, one invalid transaction
Attr == [
  r  |-> [prevs |-> {},      lc |-> 0, ok |-> TRUE],
  a1 |-> [prevs |-> {"r"},   lc |-> 1, ok |-> TRUE],
  a2 |-> [prevs |-> {"a1"},  lc |-> 2, ok |-> TRUE],
  a3 |-> [prevs |-> {"a2"},  lc |-> 3, ok |-> TRUE],
  a4 |-> [prevs |-> {"a3"},  lc |-> 4, ok |-> TRUE],
  b1 |-> [prevs |-> {"r"},   lc |-> 1, ok |-> TRUE],
  b2 |-> [prevs |-> {"b1"},  lc |-> 2, ok |-> TRUE],
  b3 |-> [prevs |-> {"b2"},  lc |-> 3, ok |-> TRUE],
  j  |-> [prevs |-> {"a1", "b1"}, lc |-> 2, ok |-> TRUE],   \* joins both branches
  z  |-> [prevs |-> {"r"},   lc |-> 1, ok |-> FALSE]        \* invalid (bad signature / clock)
]
MCPrevs(t) == Attr[t].prevs
MCLc(t) == Attr[t].lc
MCValid(t) == Attr[t].ok

Scenario == [
  \* disjoint branches, A three ahead of B's two: difference larger than D inside and across pages
  branches |-> [init |-> [A |-> {"r", "a1", "a2", "a3"}, B |-> {"r", "b1", "b2"}, C |-> {"r"}], fut |-> [A |-> {}, B |-> {}, C |-> {}]],
  \* one side far behind (only the root)
  behind   |-> [init |-> [A |-> {"r", "a1", "a2", "a3"}, B |-> {"r"}, C |-> {"r"}], fut |-> [A |-> {"a4"}, B |-> {}, C |-> {}]],
  \* equal DAGs, then local creations on both sides
  equal    |-> [init |-> [A |-> {"r", "a1"}, B |-> {"r", "a1"}, C |-> {"r", "a1"}], fut |-> [A |-> {"a2"}, B |-> {"b1"}, C |-> {}]],
  \* small difference decodable at once, with a join transaction
  join     |-> [init |-> [A |-> {"r", "a1", "b1", "j"}, B |-> {"r", "b1"}, C |-> {"r"}], fut |-> [A |-> {}, B |-> {"b2"}, C |-> {}]]
]
CONSTANT ScenarioName
\* topology: all nodes of Node connected in a line in alphabetical order (A-B, B-C)
MCLink == {<<"A", "B">>, <<"B", "A">>} \cup (IF "C" \in Node THEN {<<"B", "C">>, <<"C", "B">>} ELSE {})
MCInit == [n \in Node |-> Scenario[ScenarioName].init[n]]
MCFuture == [n \in Node |-> Scenario[ScenarioName].fut[n]]

Quiet == net = {} /\ \A n \in Node : conv[n] = {}
\* behaviour generation: one witness per distinct quiet state, and the behaviour itself
Emit == (Hist /\ Quiet /\ Len(hist) > 0) => PrintT(ToJson(hist))
=============================================================================
