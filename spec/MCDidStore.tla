---------------------------- MODULE MCDidStore ----------------------------
(* Concrete documents, transactions and scenarios for model checking DidStore.tla.                    *)
(* The tables are the single source of truth: every TLC run prints them as JSON (ASSUME below) and the *)
(* Go driver builds the real did.Documents / signed transactions from that print-out.                  *)
EXTENDS DidStore, Json

MCDIDs == {"A", "B", "C", "D1", "D2", "D3", "D4", "D5", "D6", "D7"}
MCRank == [A |-> 1, B |-> 2, C |-> 3, D1 |-> 4, D2 |-> 5, D3 |-> 6, D4 |-> 7, D5 |-> 8, D6 |-> 9, D7 |-> 10]
\* kX is the key the DID X was generated from; k2, k3 belong to nobody
\* k4..k8: keys a document lists WITHOUT authorising them for capability invocation (see MCKeyUse)
MCThumb == [kA |-> "A", kB |-> "B", kC |-> "C", k2 |-> "", k3 |-> "", k4 |-> "", k5 |-> "", k6 |-> "", k7 |-> "", k8 |-> "", kD1 |-> "D1", kD2 |-> "D2", kD3 |-> "D3",
            kD4 |-> "D4", kD5 |-> "D5", kD6 |-> "D6", kD7 |-> "D7"]

\* under which relationship a key that is in `keys` but not in `capInv` is listed ("" = in verificationMethod only; keys without
\* an entry: assertionMethod). Keys in capInv are listed under capabilityInvocation and assertionMethod, as a Nuts node does.
MCKeyUse == [k4 |-> "assertionMethod", k5 |-> "authentication", k6 |-> "keyAgreement", k7 |-> "capabilityDelegation", k8 |-> ""]
Listed == {"k4", "k5", "k6", "k7", "k8"}

S(id, val) == [id |-> id, val |-> val]
D(id, keys, capInv, ctrl, svcs) == [id |-> id, keys |-> keys, capInv |-> capInv, ctrl |-> ctrl, svcs |-> svcs]
Chain(i, next) == D(i, {"k" \o i}, {"k" \o i}, next, {})

MCDocs == [
  \* ---- store scenarios (C10), DID A
  D0  |-> D("A", {"kA"}, {"kA"}, <<>>, {}),
  D1  |-> D("A", {"kA"}, {"kA"}, <<>>, {S("s1", "x")}),
  D2  |-> D("A", {"kA", "k2"}, {"kA", "k2"}, <<>>, {S("s1", "x")}),
  D3  |-> D("A", {"kA", "k2"}, {"kA", "k2"}, <<>>, {S("s1", "x"), S("s2", "y")}),
  Fb  |-> D("A", {"kA"}, {"kA"}, <<"A", "B">>, {S("s1", "w")}),          \* two controllers, s1 with other content
  Fc  |-> D("A", {"kA"}, {"kA"}, <<"A", "C">>, {S("s1", "y")}),
  Fk  |-> D("A", {"kA", "k2"}, {"kA"}, <<>>, {S("s1", "z")}),
  Fn  |-> D("A", {"kA", "k3"}, {"kA", "k3"}, <<"C", "A">>, {S("s2", "y")}),  \* no s1: the two other branches compete for it
  J   |-> D("A", {"kA", "k2"}, {"kA", "k2"}, <<"A", "B">>, {S("s1", "x"), S("s2", "y")}),
  Dd  |-> D("A", {}, {}, <<>>, {}),                                      \* deactivation
  E0  |-> D("B", {"kB"}, {"kB"}, <<>>, {}),
  E1  |-> D("B", {"kB"}, {"kB"}, <<>>, {S("s1", "x")}),
  Ef  |-> D("B", {"kB", "k2"}, {"kB"}, <<"B", "C">>, {}),
  \* ---- ambassador (C09)
  A0  |-> D("A", {"kA"}, {"kA"}, <<>>, {}),
  A1  |-> D("A", {"kA"} \cup Listed, {"kA"}, <<>>, {S("s1", "x")}),             \* lists k4..k8 outside capabilityInvocation
  A2  |-> D("A", {"kA", "k2"}, {"kA", "k2"}, <<>>, {S("s1", "x")}),          \* adds k2
  A3  |-> D("A", {"kA"}, {"kA"}, <<>>, {S("s1", "x"), S("s2", "y")}),        \* removes k2
  A2b |-> D("A", {"kA", "k2"}, {"kA", "k2"}, <<>>, {S("s3", "v")}),
  Ab  |-> D("A", {"kA"}, {"kA"}, <<"B">>, {}),                               \* B is the only controller
  Ab1 |-> D("A", {"kA"}, {"kA"}, <<"B">>, {S("s1", "x")}),
  Ab2 |-> D("A", {"kA"}, {"kA"}, <<"B">>, {S("s2", "y")}),
  Ax  |-> D("A", {"kA", "k3"}, {"kA", "k3"}, <<>>, {}),                      \* the attacker's key k3 added
  At4 |-> D("A", {"k4"}, {"k4"}, <<>>, {}), At5 |-> D("A", {"k5"}, {"k5"}, <<>>, {}), At6 |-> D("A", {"k6"}, {"k6"}, <<>>, {}),
  At7 |-> D("A", {"k7"}, {"k7"}, <<>>, {}), At8 |-> D("A", {"k8"}, {"k8"}, <<>>, {}),   \* take-over: the signer becomes the only key
  Akb |-> D("A", {"kA", "kB"}, {"kA", "kB"}, <<>>, {}),                      \* B's key listed as a key of A
  Ad  |-> D("A", {}, {}, <<>>, {}),
  Ar  |-> D("A", {"kA"}, {"kA"}, <<>>, {S("s4", "r")}),                      \* attempt to revive
  A3e |-> D("A", {"kA"}, {"kA"}, <<>>, {S("s5", "e")}),                      \* removes k2 (like A3)
  A2p |-> D("A", {"kA", "k2"}, {"kA", "k2"}, <<>>, {S("s7", "q")}),             \* adds k2 (like A2; other bytes, so that the two versions do not share a hash)
  A4p |-> D("A", {"kA"}, {"kA"}, <<>>, {S("s6", "p")}),
  B0  |-> D("B", {"kB"} \cup Listed, {"kB"}, <<>>, {}),                         \* the controller-to-be lists them, too
  B2  |-> D("B", {"kB", "k2"}, {"kB", "k2"}, <<>>, {}),
  B3  |-> D("B", {"kB"}, {"kB"}, <<>>, {S("s1", "z")}),
  Bd  |-> D("B", {}, {}, <<>>, {}),
  Bc  |-> D("B", {"kB"}, {"kB"}, <<"C">>, {}),
  Ba  |-> D("B", {"kB"}, {"kB"}, <<"A">>, {}),                               \* cycle with Ab
  C0  |-> D("C", {"kC"}, {"kC"}, <<>>, {}),
  Cd  |-> D("C", {}, {}, <<>>, {}),
  \* ---- controller chain D1 <- D2 <- ... <- D7 (depth limit)
  H1  |-> Chain("D1", <<"D2">>), H2 |-> Chain("D2", <<"D3">>), H3 |-> Chain("D3", <<"D4">>), H4 |-> Chain("D4", <<"D5">>),
  H5  |-> Chain("D5", <<"D6">>), H6 |-> Chain("D6", <<"D7">>), H7 |-> Chain("D7", <<>>),
  H7d |-> D("D7", {}, {}, <<>>, {}),
  H1x |-> D("D1", {"kD1", "k3"}, {"kD1", "k3"}, <<"D2">>, {}),
  H2x |-> D("D2", {"kD2"}, {"kD2"}, <<"D3">>, {S("s1", "x")}),
  H3x |-> D("D3", {"kD3"}, {"kD3"}, <<"D4">>, {S("s1", "x")}),
  H4x |-> D("D4", {"kD4"}, {"kD4"}, <<"D5">>, {S("s1", "x")})
]

\* store events: only did, lc, sig, prevs, doc, rr matter
E(did, lc, sig, prevs, doc, rr) ==
    [did |-> did, lc |-> lc, sig |-> sig, prevs |-> prevs, doc |-> doc, kind |-> "update", key |-> "kA", kidDid |-> did, kidKey |-> "kA", rr |-> rr]
Cr(did, sig, doc, key) ==
    [did |-> did, lc |-> 0, sig |-> sig, prevs |-> <<>>, doc |-> doc, kind |-> "create", key |-> key, kidDid |-> did, kidKey |-> key, rr |-> 0]
\* update signed by `key`, announced as kid = kidDid#kidKey
U(did, lc, sig, prevs, doc, key, kidDid, kidKey) ==
    [did |-> did, lc |-> lc, sig |-> sig, prevs |-> prevs, doc |-> doc, kind |-> "update", key |-> key, kidDid |-> kidDid, kidKey |-> kidKey, rr |-> 0]

MCT == [
  \* ---- store scenarios (C10)
  c   |-> E("A", 0, 1, <<>>, "D0", 1),
  u1  |-> E("A", 1, 2, <<"c">>, "D1", 2),
  u2  |-> E("A", 2, 3, <<"u1">>, "D2", 3),
  u3  |-> E("A", 3, 4, <<"u2">>, "D3", 4),
  fb  |-> E("A", 1, 2, <<"c">>, "Fb", 5),                \* same clock and signing time as u1: the ref decides
  fk  |-> E("A", 1, 2, <<"c">>, "Fk", 1),                \* ... and sorts before both
  fc  |-> E("A", 1, 3, <<"c">>, "Fc", 2),                \* same clock, later signing time
  fn  |-> E("A", 1, 4, <<"c">>, "Fn", 3),
  j2  |-> E("A", 2, 5, <<"fb", "fc">>, "J", 4),
  j3  |-> E("A", 2, 5, <<"fb", "fc", "fk">>, "J", 6),
  jp  |-> E("A", 2, 5, <<"fb">>, "D2", 7),               \* refers to one branch only
  d1  |-> E("A", 1, 3, <<"c">>, "Dd", 8),
  d2  |-> E("A", 2, 4, <<"u1">>, "Dd", 9),
  d3  |-> E("A", 3, 5, <<"u2">>, "Dd", 10),
  x3  |-> E("A", 3, 5, <<"d2">>, "D3", 11),              \* update after the deactivation
  ue  |-> E("A", 1, 0, <<"c">>, "D1", 12),               \* signed (by its own account) before the creation
  c2  |-> E("A", 0, 2, <<>>, "D1", 13),                  \* second root for the same DID
  cb  |-> E("B", 0, 1, <<>>, "E0", 14),
  ub  |-> E("B", 1, 2, <<"cb">>, "E1", 15),
  fB  |-> E("B", 1, 2, <<"cb">>, "Ef", 16),
  \* ---- ambassador (C09): strictly increasing signing times (refs of really signed transactions are not predictable)
  cA    |-> Cr("A", 1, "A0", "kA"),
  cB    |-> Cr("B", 2, "B0", "kB"),
  cC    |-> Cr("C", 3, "C0", "kC"),
  cAx   |-> Cr("A", 4, "Ax", "k3"),                                              \* foreign key embedded
  cA2   |-> Cr("A", 5, "A1", "kA"),                                              \* the founding key creates again
  uA1   |-> U("A", 1, 6, <<"cA">>, "A1", "kA", "A", "kA"),
  uAx   |-> U("A", 1, 7, <<"cA">>, "Ax", "k3", "A", "k3"),                       \* stranger
  uAxB  |-> U("A", 1, 8, <<"cA", "cB">>, "Ax", "kB", "B", "kB"),                 \* B is nobody's controller
  uAkB  |-> U("A", 1, 30, <<"cA", "cB">>, "Akb", "kB", "B", "kB"),                \* resolvable foreign key that the PROPOSED document lists
  uAkid |-> U("A", 1, 9, <<"cA">>, "Ax", "k3", "A", "kA"),                       \* kid names kA, signed by k3
  uA2   |-> U("A", 2, 10, <<"uA1">>, "A2", "kA", "A", "kA"),
  uA3   |-> U("A", 3, 11, <<"uA2">>, "A3", "kA", "A", "kA"),
  uAk2  |-> U("A", 4, 12, <<"uA3">>, "Ax", "k2", "A", "k2"),                     \* removed key, succeeds the removal
  uAk2o |-> U("A", 3, 13, <<"uA2">>, "A2b", "k2", "A", "k2"),                    \* removed key, on the branch where it is listed
  uAb   |-> U("A", 1, 14, <<"cA">>, "Ab", "kA", "A", "kA"),                      \* hands control to B
  uAbB  |-> U("A", 2, 15, <<"uAb", "cB">>, "Ab1", "kB", "B", "kB"),              \* the controller updates
  uAbA  |-> U("A", 2, 16, <<"uAb">>, "Ax", "kA", "A", "kA"),                     \* former own key after the hand-over
  dB    |-> U("B", 1, 17, <<"cB">>, "Bd", "kB", "B", "kB"),
  uAbBd |-> U("A", 2, 18, <<"uAb", "dB">>, "Ab2", "kB", "B", "kB"),              \* key of the deactivated controller
  uBc   |-> U("B", 1, 19, <<"cB">>, "Bc", "kB", "B", "kB"),                      \* B controlled by C
  dC    |-> U("C", 1, 20, <<"cC">>, "Cd", "kC", "C", "kC"),
  uAbBc |-> U("A", 2, 21, <<"uAb", "uBc">>, "Ab2", "kB", "B", "kB"),             \* controller whose own controller may be gone
  uBa   |-> U("B", 1, 22, <<"cB">>, "Ba", "kB", "B", "kB"),                      \* cycle A <-> B
  uAbBa |-> U("A", 2, 23, <<"uAb", "uBa">>, "Ab2", "kB", "B", "kB"),
  dA    |-> U("A", 2, 24, <<"uA1">>, "Ad", "kA", "A", "kA"),
  uAr   |-> U("A", 3, 25, <<"dA">>, "Ar", "kA", "A", "kA"),                      \* revive after deactivation
  uAnf  |-> U("A", 5, 26, <<"cC">>, "Ax", "k3", "A", "k3"),                      \* prevs address nothing of A: fallback to latest
  uB2   |-> U("B", 1, 27, <<"cB">>, "B2", "kB", "B", "kB"),                      \* B lists k2
  uB3   |-> U("B", 2, 28, <<"uB2">>, "B3", "kB", "B", "kB"),                     \* B removes k2
  uAbK2 |-> U("A", 3, 29, <<"uAb", "uB3">>, "Ab2", "k2", "B", "k2"),             \* removed key of the controller
  \* take-over attempts by a key the succeeded version (resp. its controller) LISTS but does not authorise for capability invocation
  uAt4  |-> U("A", 2, 31, <<"uA1">>, "At4", "k4", "A", "k4"), uAt5  |-> U("A", 2, 32, <<"uA1">>, "At5", "k5", "A", "k5"),
  uAt6  |-> U("A", 2, 33, <<"uA1">>, "At6", "k6", "A", "k6"), uAt7  |-> U("A", 2, 34, <<"uA1">>, "At7", "k7", "A", "k7"),
  uAt8  |-> U("A", 2, 35, <<"uA1">>, "At8", "k8", "A", "k8"),
  uAbT4 |-> U("A", 2, 36, <<"uAb", "cB">>, "At4", "k4", "B", "k4"), uAbT5 |-> U("A", 2, 37, <<"uAb", "cB">>, "At5", "k5", "B", "k5"),
  uAbT6 |-> U("A", 2, 38, <<"uAb", "cB">>, "At6", "k6", "B", "k6"), uAbT7 |-> U("A", 2, 39, <<"uAb", "cB">>, "At7", "k7", "B", "k7"),
  uAbT8 |-> U("A", 2, 40, <<"uAb", "cB">>, "At8", "k8", "B", "k8"),
  \* ---- kinds of HISTORY (HistTx). (1) a branch that is merged with a deactivation: updates that succeed the version the
  \* deactivation succeeds, too, and are ordered AFTER it (dA: clock 2, time 24; dB: clock 1, time 17), and what is built on the merge
  uA2p  |-> U("A", 2, 41, <<"uA1">>, "A2p", "kA", "A", "kA"),                    \* parallel to dA: authorised by the version it succeeds (uA1)
  uA3p  |-> U("A", 3, 42, <<"uA2p">>, "A4p", "kA", "A", "kA"),                   \* own key of the deactivated DID on top of the merge
  uAbBp |-> U("A", 2, 43, <<"uAb", "uB2">>, "Ab2", "kB", "B", "kB"),             \* key of the deactivated controller, referring to ITS merge (uB2 || dB)
  \* (2) signing times that contradict the lamport clock (the signer writes the signing time; nothing compares it with the prevs)
  uA3e  |-> U("A", 3, 0, <<"uA2">>, "A3e", "kA", "A", "kA"),                     \* removes k2, "signed" before the creation
  uAk2e |-> U("A", 4, 44, <<"uA3e">>, "Ax", "k2", "A", "k2"),                    \* the removed key succeeds the removal
  uA4e  |-> U("A", 4, 45, <<"uA3e">>, "A4p", "kA", "A", "kA"),                   \* the remaining key does
  \* ---- chain: D1 controlled by D2 controlled by ... D7
  h1 |-> Cr("D1", 1, "H1", "kD1"), h2 |-> Cr("D2", 2, "H2", "kD2"), h3 |-> Cr("D3", 3, "H3", "kD3"), h4 |-> Cr("D4", 4, "H4", "kD4"),
  h5 |-> Cr("D5", 5, "H5", "kD5"), h6 |-> Cr("D6", 6, "H6", "kD6"), h7 |-> Cr("D7", 7, "H7", "kD7"),
  g1  |-> U("D1", 1, 8, <<"h1", "h2">>, "H1x", "kD2", "D2", "kD2"),              \* chain of 6 below D1: beyond the limit
  g1s |-> U("D1", 1, 9, <<"h1", "h2">>, "H1x", "k3", "D2", "k3"),                \* stranger
  g2  |-> U("D2", 1, 10, <<"h2", "h3">>, "H2x", "kD3", "D3", "kD3"),             \* chain of 5 below D2
  g3  |-> U("D3", 1, 11, <<"h3", "h4">>, "H3x", "kD4", "D4", "kD4"),             \* chain of 4 below D3
  g4  |-> U("D4", 1, 12, <<"h4", "h5">>, "H4x", "kD5", "D5", "kD5"),
  h7d |-> U("D7", 1, 13, <<"h7">>, "H7d", "kD7", "D7", "kD7")                    \* the far end is deactivated
]

\* the universe for the kinds of history: deactivation on one branch and updates on another one, skewed signing times
\* (H1: the DID itself; H2: its controller; H3: both together, thorough tier)
HistOwnTx == {"cA", "uA1", "uA2", "dA", "uAr", "uA2p", "uA3p", "uA3e", "uAk2e", "uA4e"}
HistCtrlTx == {"cA", "cB", "uAb", "dB", "uB2", "uAbBp", "uAbBd"}
HistTx == HistOwnTx \cup HistCtrlTx

Sc(ev, dup) == [ev |-> ev, dup |-> dup]
MCScen == [
  S01 |-> Sc({"c"}, 1),
  S02 |-> Sc({"c", "u1"}, 1),
  S03 |-> Sc({"c", "u1", "u2"}, 1),
  S04 |-> Sc({"c", "u1", "u2", "u3"}, 0),
  S05 |-> Sc({"c", "u1", "fb"}, 1),                      \* 2-way fork, equal clock and time
  S06 |-> Sc({"c", "fb", "fc"}, 0),                      \* 2-way fork, three controllers, same service id
  S07 |-> Sc({"c", "u1", "fc"}, 0),
  S08 |-> Sc({"c", "fb", "fk", "fn"}, 0),                \* 3-way fork
  S09 |-> Sc({"c", "fb", "fc", "j2"}, 0),                \* fork + join
  S10 |-> Sc({"c", "fb", "fc", "fk", "j3"}, 0),          \* 3-way fork + join
  S11 |-> Sc({"c", "fb", "fc", "fk", "j2"}, 0),          \* 3-way fork + partial join
  S12 |-> Sc({"c", "fb", "fc", "jp"}, 0),
  S13 |-> Sc({"c", "d1"}, 1),
  S14 |-> Sc({"c", "u1", "d2"}, 0),
  S15 |-> Sc({"c", "u1", "u2", "d3"}, 0),
  S16 |-> Sc({"c", "u1", "d1"}, 0),                      \* deactivation parallel to an update
  S17 |-> Sc({"c", "u1", "d2", "x3"}, 0),                \* update after deactivation
  S18 |-> Sc({"c", "u1", "u2", "d1", "d3"}, 0),
  S19 |-> Sc({"c", "u1", "d2", "u2"}, 0),                \* deactivation parallel to a later update
  S20 |-> Sc({"c", "c2"}, 0),
  S21 |-> Sc({"c", "c2", "u1"}, 0),
  S22 |-> Sc({"c", "u1", "cb", "ub"}, 0),                \* two DIDs
  S23 |-> Sc({"u1", "fb", "cb", "ub", "fB"}, 0),         \* two conflicted DIDs, one without its creation
  S24 |-> Sc({"u1", "u2"}, 0),
  S25 |-> Sc({"c", "u2"}, 0),                            \* gap
  S26 |-> Sc({"c", "ue", "u1"}, 0),
  S27 |-> Sc({"c", "fb", "fk", "fn", "u1"}, 0),          \* 4-way fork
  S28 |-> Sc({"c", "u1", "fb", "d2", "x3"}, 0),
  \* ---- ambassador mode: the sub-universes of the history kinds
  H1  |-> Sc(HistOwnTx, 0),
  H2  |-> Sc(HistCtrlTx, 0),
  H3  |-> Sc(HistTx, 0)
]

\* ---- defect classes of documents. Every class that concerns a verification method is crossed with the KIND of method
\* (type x key material) it is applied to: "<class>@<kind>"; the plain class is the JsonWebKey2020 / EC method a Nuts node produces.
BaseDefects == {"vm-id-no-fragment", "vm-id-foreign-prefix", "vm-id-duplicate", "vm-id-not-thumbprint", "vm-id-extended-did", "vm-id-kid-not-thumbprint", "vm-null", "vm-null-referenced", "vm-no-key", "vm-no-type", "vm-no-controller", "svc-id-no-fragment", "svc-id-foreign-prefix", "svc-id-extended-did", "svc-id-did-with-path", "svc-id-duplicate", "svc-type-duplicate", "svc-no-type", "svc-no-endpoint", "no-context", "capinv-embedded-foreign-id", "capinv-embedded-not-thumbprint", "capinv-unresolvable-ref", "not-json"}
VMDefects == {"vm-id-no-fragment", "vm-id-foreign-prefix", "vm-id-duplicate", "vm-id-not-thumbprint", "vm-id-extended-did",
              "vm-id-kid-not-thumbprint", "vm-no-key", "vm-no-controller"}
VMKinds == {"EcdsaSecp256k1VerificationKey2019", "Ed25519VerificationKey2018", "Ed25519VerificationKey2018:base58",
            "Ed25519VerificationKey2020:multibase", "RsaVerificationKey2018", "UnknownKey2030", "JsonWebKey2020:okp", "JsonWebKey2020:rsa"}
MCDefects == BaseDefects \cup {d \o "@" \o k : d \in VMDefects, k \in VMKinds}
\* the quick model run crosses with three kinds only (the model treats the classes alike; traces and the driver use all of them)
QuickDefects == BaseDefects \cup {d \o "@" \o k : d \in VMDefects, k \in {"EcdsaSecp256k1VerificationKey2019", "Ed25519VerificationKey2018:base58", "JsonWebKey2020:okp"}}
Defective(df) == df # "none"
\* (the re-creation cA2 is independent of everything else and doubles the state space: it is part of QuickTx only)
MainTx == {"cA", "cB", "cC", "cAx", "uA1", "uAx", "uAxB", "uAkB", "uAkid", "uA2", "uA3", "uAk2", "uAk2o", "uAb", "uAbB", "uAbA",
           "dB", "uAbBd", "uBc", "dC", "uAbBc", "uBa", "uAbBa", "dA", "uAr", "uAnf", "uB2", "uB3", "uAbK2",
           "uAt4", "uAt5", "uAt6", "uAt7", "uAt8", "uAbT4", "uAbT5", "uAbT6", "uAbT7", "uAbT8"}
QuickTx == {"cA", "cB", "cAx", "cA2", "uA1", "uAx", "uAxB", "uAkB", "uAkid", "uA2", "uA3", "uAk2", "uAk2o", "uAb", "uAbB", "uAbA", "dB",
            "uAbBd", "dA", "uAr", "uAnf", "uAt4", "uAt5", "uAt6", "uAt7", "uAt8", "uAbT4", "uAbT8"}

ChainTx == {"h1", "h2", "h3", "h4", "h5", "h6", "h7", "g1", "g1s", "g2", "g3", "g4", "h7d"}

AllTx == MainTx \cup QuickTx \cup ChainTx \cup HistTx

\* clocks respect the prevs relation (premise of ConflictResolvedByJoin), prevs name known transactions
ASSUME \A e \in DOMAIN MCT : \A p \in Range(MCT[e].prevs) : p \in DOMAIN MCT /\ MCT[p].lc < MCT[e].lc
ASSUME \A e \in DOMAIN MCT : (MCT[e].doc \in DOMAIN MCDocs /\ MCDocs[MCT[e].doc].id = MCT[e].did) \/ Print(<<"bad tx", e>>, FALSE)
\* the reference order (clock, signing time, ref) is total on the really signed transactions of a DID (their refs are not predictable)
ASSUME \A e, f \in AllTx : (e # f /\ MCT[e].did = MCT[f].did) => (MCT[e].lc # MCT[f].lc \/ MCT[e].sig # MCT[f].sig)
ASSUME VMDefects \subseteq BaseDefects
ASSUME PrintT(ToJson([tables |-> [T |-> MCT, Docs |-> MCDocs, Scen |-> MCScen, Thumb |-> MCThumb, Rank |-> MCRank, KeyUse |-> MCKeyUse,
                                 Defects |-> MCDefects, VMKinds |-> VMKinds]]))

\* ---- behaviour generation -------------------------------------------------------------------------------
StoreDone == Mode = "store" /\ arrived = Scen[sc].ev /\ dups = Scen[sc].dup + ExtraDup
\* every complete arrival order (generation configs have no VIEW, so every order is a distinct state)
EmitOrder == (Hist /\ StoreDone) => PrintT(ToJson([sc |-> sc, steps |-> hist,
                                            final |-> [d \in {x \in DIDs : latest[x] > 0} |-> meta[d]]]))
\* one witness path per distinct store state, together with the verdict of every transaction in that state
EmitState == (Hist /\ Mode = "ambassador") =>
                PrintT(ToJson([path |-> hist,
                               verdicts |-> [t \in {u \in TxU : InPlay(u)} |-> Verdict(t, "none")],
                               sigok |-> [t \in {u \in TxU : InPlay(u)} |-> SignatureOK(t)],
                               authorised |-> [t \in {u \in TxU : InPlay(u)} |-> RefAuthorised(t)]]))
PathBound == Len(hist) <= 12
=============================================================================
