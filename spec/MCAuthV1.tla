----------------------------- MODULE MCAuthV1 -----------------------------
(* Concrete attribute classes for model checking AuthV1.tla.  The tables are printed by every TLC run; the Go driver *)
(* (harness/drivers/authv1) realises every class with real keys, DID documents, credentials and presentations.       *)
EXTENDS AuthV1, Json

MCAttrs == {"signer", "iss", "sub", "aud", "win", "usi", "vcs", "pou"}
MCOkVals == [signer |-> {"ok"}, iss |-> {"ok"}, sub |-> {"ok"}, aud |-> {"ok"}, win |-> {"ok", "short"},
             usi |-> {"ok", "none", "dummy"}, vcs |-> {"ok", "none", "other"}, pou |-> {"ok", "svc2"}]
MCDefects == [
  signer |-> {"tampered", "otherdid", "unknownkid"},   \* signature altered; signed by a key of ANOTHER DID (kid names it); kid that does not exist
  iss    |-> {"noorg", "untrusted", "notdid"},         \* requester without organisation credential; credential of an untrusted issuer; not a DID
  sub    |-> {"unmanaged", "missing", "notdid"},       \* authorizer whose key is not on this node
  aud    |-> {"other", "two", "missing"},              \* endpoint of another node; two audiences; none
  win    |-> {"long", "expired", "future", "noexp", "noiat"},
  usi    |-> {"expired", "notyet", "otherorg", "tampered", "untrusted", "othersigner", "garbage"},
  vcs    |-> {"wrongissuer", "wrongsubject", "tampered", "notarray"},
  pou    |-> {"missing", "unknown"}
]
MCForeign == {"forged", "tampered", "grant", "garbage"}
MCMeans == {"employeeid", "dummy"}
MCEmployers == {"R", "W", "U"}
MCTimeClasses == {"now", "beforeFrom", "beforeSign", "inside", "atTo", "afterTo"}
MCFreshClasses == {"now", "inside", "atTo"}
MCMutations == {"none", "ctx", "type", "id", "holder", "vc.ctx", "vc.type", "vc.id", "vc.issuer", "vc.dates", "vc.subject", "vc.proof",
                "proof.challenge", "proof.created", "proof.jws", "proof.vm", "proof.purpose", "proof.type", "means-swap"}

ASSUME PrintT(ToJson([tables |-> [OkVals |-> MCOkVals, Defects |-> MCDefects, Foreign |-> MCForeign, Fresh |-> MCFreshClasses]]))

\* ---- behaviour generation
Emit == (Hist /\ Terminal) => PrintT(ToJson([steps |-> hist]))
Bad == ~(IssuedOnlyIfAllHeld /\ VpAtMostOnce /\ SecretOnce)
EmitBad == (Hist /\ Bad) => PrintT(ToJson([steps |-> hist]))
=============================================================================
