------------------------------ MODULE MCDag ------------------------------
(* Concrete transaction universes and subscribers for model checking Dag.tla *)
EXTENDS Dag, Json

\* attribute table of every byte string the model may offer; Tx (cfg) selects a subset
Attr == [
  r  |-> [prevs |-> {},         lc |-> 0, sig |-> TRUE,  wf |-> TRUE ],   \* root
  a  |-> [prevs |-> {"r"},      lc |-> 1, sig |-> TRUE,  wf |-> TRUE ],
  b  |-> [prevs |-> {"r"},      lc |-> 1, sig |-> TRUE,  wf |-> TRUE ],   \* sibling of a
  c  |-> [prevs |-> {"a", "b"}, lc |-> 2, sig |-> TRUE,  wf |-> TRUE ],   \* joins a and b
  d  |-> [prevs |-> {"c"},      lc |-> 3, sig |-> TRUE,  wf |-> TRUE ],
  e  |-> [prevs |-> {"a"},      lc |-> 2, sig |-> TRUE,  wf |-> TRUE ],   \* plain chain r - a - e - f
  f  |-> [prevs |-> {"e"},      lc |-> 3, sig |-> TRUE,  wf |-> TRUE ],
  s  |-> [prevs |-> {"r"},      lc |-> 1, sig |-> TRUE,  wf |-> TRUE ],   \* valid; declares the same payload hash as a
  x  |-> [prevs |-> {"r"},      lc |-> 2, sig |-> TRUE,  wf |-> TRUE ],   \* clock too high
  y  |-> [prevs |-> {"a", "b"}, lc |-> 1, sig |-> TRUE,  wf |-> TRUE ],   \* clock too low
  r2 |-> [prevs |-> {},         lc |-> 0, sig |-> TRUE,  wf |-> TRUE ],   \* second root
  u  |-> [prevs |-> {"a"},      lc |-> 2, sig |-> FALSE, wf |-> TRUE ],   \* signature does not verify
  o  |-> [prevs |-> {"ghost"},  lc |-> 1, sig |-> TRUE,  wf |-> TRUE ],   \* unknown previous transaction
  w  |-> [prevs |-> {"r"},      lc |-> 1, sig |-> TRUE,  wf |-> FALSE]    \* does not parse
]
AttrLc(t) == IF t \in DOMAIN Attr THEN Attr[t].lc ELSE 0
MCPrevs(t) == Attr[t].prevs
MCLc(t) == AttrLc(t)
MCSigOK(t) == Attr[t].sig
MCWF(t) == Attr[t].wf

\* s1: all transaction events, s2: payload events, s3: transaction events of "a" and "c" only
MCSubType(s) == IF s = "s2" THEN "payload" ELSE "transaction"
MCSelects(s, t) == IF s = "s3" THEN t \in {"a", "c"} ELSE TRUE

AllDone == /\ \A p \in Procs : pc[p] = "idle" /\ todo[p] = 0
           /\ tasks = {}
\* behaviour generation: print every complete behaviour as JSON (Hist = TRUE configs only)
Emit == (AllDone /\ Hist) => PrintT(ToJson(hist))
\* one witness per distinct state violating the C08 invariant (permissive model): the dangerous schedules
EmitBad == (Hist /\ ~DerivedOK) => PrintT(ToJson(hist))
\* cap on the length of generated behaviours
HistBound == Len(hist) <= 40
=============================================================================
