----------------------------- MODULE TraceSync -----------------------------
(***************************************************************************)
(* Trace validation for Sync.tla: executions of REAL v2 protocol instances *)
(* in the simulator (one event per simulator step, plus one "send" event   *)
(* per envelope handed to Connection.Send, with the digest abstracted to   *)
(* the set it digests) must be behaviours of Sync.tla up to the "suffix"   *)
(* marker (the fair suffix of a run is judged by the convergence oracle).  *)
(* Conversation ids of the trace are mapped to the model's ids on their    *)
(* first appearance (cmap).                                                *)
(***************************************************************************)
EXTENDS MCSync, IOUtils

TraceLog == ndJsonDeserialize(IOEnv.VERIF_TRACE)
VARIABLES l, cmap
tvars == <<vars, l, cmap>>
Ev == TraceLog[l]
MaxCid == 60

RECURSIVE RunLen(_)
RunLen(i) == IF i <= Len(TraceLog) /\ TraceLog[i].ev = "send" THEN 1 + RunLen(i + 1) ELSE 0
SetOf(s) == {s[i] : i \in 1..Len(s)}

MatchFields(m, e) ==
    /\ m.kind = e.kind /\ m.from = e.from /\ m.to = e.to /\ m.num = e.num /\ m.tot = e.tot
    /\ CASE e.kind = "Gossip" -> m.lc = e.lc /\ m.refs = SetOf(e.refs) /\ m.xor = SetOf(e.xor)
         [] e.kind = "State"  -> m.lc = e.lc /\ m.xor = SetOf(e.xor)
         [] e.kind = "TxSet"  -> m.lc = e.lc /\ m.lcReq = e.lcReq /\ m.xor = SetOf(e.set)
         [] e.kind = "ListQ"  -> m.refs = SetOf(e.refs)
         [] e.kind = "RangeQ" -> m.lo = e.lo /\ m.hi = e.hi
         [] e.kind = "List"   -> m.refs = SetOf(e.refs)
         [] OTHER -> FALSE
CidOK(m, e) == IF e.cid = 0 THEN m.cid = NoId
               ELSE cmap[e.cid] = NoId \/ cmap[e.cid] = m.cid

\* the k "send" lines after line l are exactly the messages the step added to the network
Emitted(k) ==
    LET added == net' \ net
        run == (l + 1)..(l + k) IN
    \* every added message was logged, and every logged message is in flight afterwards (the network is a SET in the
    \* model: a message identical to one already in flight - a re-sent answer to a duplicate - adds nothing)
    /\ \A m \in added : \E j \in run : MatchFields(m, TraceLog[j]) /\ CidOK(m, TraceLog[j])
    /\ \A j \in run : \E m \in net' : MatchFields(m, TraceLog[j]) /\ CidOK(m, TraceLog[j])
    /\ cmap' = [c \in DOMAIN cmap |->
                  IF c # 0 /\ cmap[c] = NoId /\ \E j \in run : TraceLog[j].cid = c
                  THEN LET cand(S) == {m \in S : \E j \in run : TraceLog[j].cid = c /\ MatchFields(m, TraceLog[j])}
                       IN (IF cand(added) # {} THEN CHOOSE m \in cand(added) : TRUE ELSE CHOOSE m \in cand(net') : TRUE).cid
                  ELSE cmap[c]]
    /\ l' = l + 1 + k

At(e) == l <= Len(TraceLog) /\ Ev.ev = e

TReset == /\ At("reset") /\ l' = l + 1
          /\ txs' = InitTx /\ conv' = [n \in Node |-> {}] /\ lastc' = [n \in Node |-> [p \in Node |-> NoId]]
          /\ gq' = [n \in Node |-> [p \in Node |-> {}]] /\ glog' = [n \in Node |-> [p \in Node |-> {}]]
          /\ net' = {} /\ lost' = 0 /\ dups' = 0 /\ expired' = 0 /\ injected' = 0 /\ created' = 0 /\ hist' = <<>>
          /\ cmap' = [c \in 0..MaxCid |-> NoId]
TTick == At("tick") /\ GossipTick(Ev.n, Ev.p) /\ Emitted(RunLen(l + 1))
TDeliver ==
    /\ At("deliver")
    /\ \E m \in net :
         /\ m.kind = Ev.kind /\ m.from = Ev.from /\ m.to = Ev.to /\ m.num = Ev.num
         /\ (Ev.cid # 0 /\ cmap[Ev.cid] # NoId) => m.cid = cmap[Ev.cid]
         /\ Deliver(m, Ev.keep)
    /\ Emitted(RunLen(l + 1))
    \* projected state logged by the driver after the real handler returned
    /\ Cardinality(txs'[Ev.to]) = Ev.size
    /\ Cardinality(conv'[Ev.to]) = Ev.convs
TLose == /\ At("lose")
         /\ \E m \in net : m.kind = Ev.kind /\ m.from = Ev.from /\ m.to = Ev.to /\ m.num = Ev.num /\ Lose(m)
         /\ l' = l + 1 /\ UNCHANGED cmap
TExpire == /\ At("expire") /\ Ev.count = 1
           /\ \E c \in conv[Ev.n] : c.kind = Ev.kind /\ Expire(Ev.n, c)
           /\ l' = l + 1 /\ UNCHANGED cmap
TCreate == At("create") /\ LocalCreate(Ev.n, Ev.t) /\ l' = l + 1 /\ UNCHANGED cmap
TInject == At("inject") /\ Inject(Ev.n, Ev.p, Ev.k, Ev.t) /\ l' = l + 1 /\ UNCHANGED cmap
\* everything after the marker belongs to the fair suffix: not validated here
TSuffix == /\ At("suffix")
           /\ \E j \in (l + 1)..(Len(TraceLog) + 1) :
                 /\ (IF j = Len(TraceLog) + 1 THEN TRUE ELSE TraceLog[j].ev = "reset")
                 /\ \A i \in (l + 1)..(j - 1) : TraceLog[i].ev # "reset"
                 /\ l' = j
           /\ UNCHANGED <<vars, cmap>>

TraceNext == TReset \/ TTick \/ TDeliver \/ TLose \/ TExpire \/ TCreate \/ TInject \/ TSuffix
TraceInit == Init /\ l = 1 /\ cmap = [c \in 0..MaxCid |-> NoId] /\ TLCSet(1, 1)
TraceSpec == TraceInit /\ [][TraceNext]_tvars

Progress == TLCSet(1, IF l > TLCGet(1) THEN l ELSE TLCGet(1))
TraceAccepted ==
    \/ TLCGet(1) = Len(TraceLog) + 1
    \/ Print(<<"TRACE-REJECTED-AT", TLCGet(1), TraceLog[TLCGet(1)]>>, FALSE)
=============================================================================
