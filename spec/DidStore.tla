----------------------------- MODULE DidStore -----------------------------
(***************************************************************************)
(* The did:nuts document store and the network ambassador of a Nuts node:  *)
(*   vdr/didnuts/didstore/{store,writer,event,merge,reader,metadata}.go    *)
(*   vdr/didnuts/{ambassador,validators,resolver}.go, network/dag/keys.go  *)
(*                                                                         *)
(* Store part (C10).  One action per call of store.Add:                    *)
(*   Add(e)     tx1 writeDocument; tx2: contains? -> insert at the place   *)
(*              given by (clock, signing time, ref) -> applyFrom(base,     *)
(*              list[idx..]) -> applyEvent/applyDocument (unconsumed       *)
(*              source transactions -> mergeDocuments) -> conflicted shelf *)
(*              / counters -> writeLatest.  A duplicate is a no-op.        *)
(* The reference Canon(d, S) folds the SORTED event set S from scratch.    *)
(*                                                                         *)
(* Ambassador part (C09).  One action per transaction handed to the node:  *)
(*   Receive(t, df)  DAG signature verifier (key by kid through the prevs) *)
(*              -> NetworkDocumentValidator -> handleCreate / handleUpdate *)
(*              -> store.Add.  df names a defect class of the document.    *)
(* The reference RefAuthorised(t) is the property statement: a create must *)
(* carry the key whose thumbprint is the DID, an update must be signed by  *)
(* a key listed for capabilityInvocation by a controller of the version it *)
(* succeeds.                                                               *)
(*                                                                         *)
(* Deviation constants (TRUE = prescriptive, FALSE = what the code does):  *)
(*   SortedMerge         the merged document does not depend on Go map     *)
(*                       iteration (controllers sorted, unconsumed source  *)
(*                       transactions folded in event order)     [F7-C10-*] *)
(*   ConflictFlagAtHead  the "was conflicted" flag is read also when the   *)
(*                       new event becomes the first of the list [F18-C10] *)
(*   ValidatorNilSafe    a null verificationMethod entry / a method        *)
(*                       without key material is rejected, no panic [F5-C09,  *)
(*                       repaired in the code by 875b84f: TRUE everywhere] *)
(*   TimeSeesDeactivation  resolving by time at/after a deactivation does  *)
(*                       not fall back to the older active version [F19,   *)
(*                       repaired in the code by a229cbc: TRUE everywhere] *)
(*   OpenPanics = {}     a null verificationMethod entry next to a         *)
(*                       relationship reference is refused by the parser,  *)
(*                       not a nil dereference in go-did [F5-C09-vm-null-  *)
(*                       referenced]                                       *)
(*   LaxDefects = {}     methods embedded in a verification relationship   *)
(*                       obey the same id rules as verificationMethod [F20-C09,*)
(*                       repaired in the code: {} everywhere]              *)
(* Design constants (TRUE = what the property needs and the code does; the *)
(* FALSE variants exist so that TLC can show that the transaction universe *)
(* and the reference SEE the class of defect: DidStore.hist.dev.*.cfg must   *)
(* violate KeysChangeOnlyByAuthorized):                                    *)
(*   ClockFirst          the versions of a DID follow the lamport clock    *)
(*                       (event.before: clock, signing time, ref); FALSE:  *)
(*                       the signing time, which the signer chooses, first *)
(*   MergeKeepsDeactivation  a version that merges an open branch with a   *)
(*                       deactivation stays deactivated; FALSE: the flag   *)
(*                       is recomputed from the merged document            *)
(***************************************************************************)
EXTENDS Naturals, FiniteSets, Sequences, TLC

CONSTANTS
    DIDs,         \* DID names
    T,            \* transaction table: id -> [did, lc, sig, prevs (seq), doc, kind, key, kidDid, kidKey, rr]
    Docs,         \* document table: name -> [id, keys, capInv, ctrl (seq), svcs (set of [id, val])]
    Thumb,        \* key -> DID whose identifier is the thumbprint of the key ("" if none)
    Rank,         \* DID -> Nat: string order of the real identifiers
    Scen,         \* store mode: scenario name -> [ev |-> set of tx ids, dup |-> number of duplicate deliveries]
    Scenarios,    \* scenario names explored (store mode: event sets; ambassador mode: sub-universes of TxU, {} = all of TxU)
    TxU,          \* ambassador mode: transactions that may be received
    Carriers,     \* ambassador mode: transactions that are also delivered with a defective document
    Defects,      \* defect classes of documents (all must be refused)
    PanicDefects, \* subset whose refusal was a nil dereference in the validator (ValidatorNilSafe)
    OpenPanics,   \* subset that still ends in a nil dereference before the validator is reached (prescriptive: {})
    LaxDefects,   \* subset the validator of the code does not look at (prescriptive: {})
    Mode,         \* "store" | "ambassador"
    MaxDepth,     \* maxControllerDepth (real: 5)
    SortedMerge, ConflictFlagAtHead, ValidatorNilSafe, TimeSeesDeactivation,
    PinIntermediate,
    ClockFirst, MergeKeepsDeactivation,
    ExtraDup,     \* store mode: duplicate deliveries allowed on top of Scen[sc].dup
    Hist

VARIABLES
    sc,       \* store mode: the scenario being played ("" in ambassador mode)
    list,     \* eventsV2 shelf: DID -> ordered sequence of tx ids
    meta,     \* metadataV2 + documentsV2 shelves: DID -> sequence of version records (index = version + 1)
    latest,   \* latestV2 shelf: DID -> version + 1 (0 = absent)
    cshelf,   \* conflictedV2 shelf: set of DIDs
    cc, dc,   \* statsV2 shelf: conflictedCount, documentCount
    txIndex,  \* txRefV2 shelf: refs written by writeDocument
    arrived,  \* history: transactions handed to store.Add
    dups,     \* store mode: duplicate deliveries so far
    last,     \* outcome of the last step
    hist

storeVars == <<list, meta, latest, cshelf, cc, dc, txIndex>>
vars == <<sc, list, meta, latest, cshelf, cc, dc, txIndex, arrived, dups, last, hist>>
view == <<sc, list, meta, latest, cshelf, cc, dc, txIndex, arrived, dups>>

Log(e) == hist' = IF Hist THEN Append(hist, e) ELSE hist

Range(s) == {s[i] : i \in 1..Len(s)}
Min(S) == CHOOSE m \in S : \A n \in S : m <= n
NoDoc == [id |-> "", keys |-> {}, capInv |-> {}, ctrl |-> <<>>, svcs |-> {}]
NoHash == [p |-> "", doc |-> NoDoc]
PayloadHash(e) == [p |-> T[e].doc, doc |-> NoDoc]   \* hash of the published bytes = name of the document
MergedHash(d) == [p |-> "", doc |-> d]              \* SHA-256 of the marshalled merge result: injective in the result
DocOf(e) == Docs[T[e].doc]
PrevSet(e) == Range(T[e].prevs)
IsDeact(doc) == doc.ctrl = <<>> /\ doc.capInv = {}  \* isDeactivated / resolver.IsDeactivated
NoMeta == [ver |-> 0, created |-> 0, updated |-> 0, hash |-> NoHash, prevHash |-> NoHash, prevTx |-> {},
           src |-> {}, deact |-> FALSE, doc |-> NoDoc]

(***************************************************************************)
(* event.before: (clock, signing time, ref)                                *)
(***************************************************************************)
ClockOrder(e, f) ==
    \/ T[e].lc < T[f].lc
    \/ T[e].lc = T[f].lc /\ T[e].sig < T[f].sig
    \/ T[e].lc = T[f].lc /\ T[e].sig = T[f].sig /\ T[e].rr < T[f].rr
Before(e, f) ==
    IF ClockFirst THEN ClockOrder(e, f)
    ELSE \/ T[e].sig < T[f].sig
         \/ T[e].sig = T[f].sig /\ T[e].lc < T[f].lc
         \/ T[e].sig = T[f].sig /\ T[e].lc = T[f].lc /\ T[e].rr < T[f].rr

RECURSIVE SortEv(_)
SortEv(S) == IF S = {} THEN <<>>
             ELSE LET m == CHOOSE x \in S : \A y \in S \ {x} : Before(x, y) IN <<m>> \o SortEv(S \ {m})
RECURSIVE SortDIDs(_)
SortDIDs(S) == IF S = {} THEN <<>>
               ELSE LET m == CHOOSE x \in S : \A y \in S \ {x} : Rank[x] < Rank[y] IN <<m>> \o SortDIDs(S \ {m})
Perms(S) == {f \in [1..Cardinality(S) -> S] : \A i, j \in 1..Cardinality(S) : i # j => f[i] # f[j]}

\* eventList.insert: walk from the end while the new event is before the element; returns the number of elements kept in front
InsertPos(l, e) == LET stay == {i \in 1..Len(l) : ~Before(e, l[i])} IN
                   IF stay = {} THEN 0 ELSE CHOOSE m \in stay : \A n \in stay : n <= m
InsertAt(l, k, e) == SubSeq(l, 1, k) \o <<e>> \o SubSeq(l, k + 1, Len(l))

(***************************************************************************)
(* mergeDocuments(docA, docB): field-wise union keyed by id, docB wins on  *)
(* equal ids; every list is sorted afterwards EXCEPT controller.           *)
(***************************************************************************)
Content(d) == [id |-> d.id, keys |-> d.keys, capInv |-> d.capInv, cset |-> Range(d.ctrl), svcs |-> d.svcs]
Merge2(a, b) == [id |-> a.id, keys |-> a.keys \cup b.keys, capInv |-> a.capInv \cup b.capInv,
                 cset |-> a.cset \cup b.cset,
                 svcs |-> {s \in a.svcs : \A t \in b.svcs : t.id # s.id} \cup b.svcs]
\* `for k := range unconsumed { newDoc = mergeDocuments(oldDoc, newDoc) }`: pi = iteration order
RECURSIVE FoldMerge(_, _)
FoldMerge(pi, acc) == IF pi = <<>> THEN acc ELSE FoldMerge(Tail(pi), Merge2(Content(DocOf(Head(pi))), acc))
MergedDocs(unc, newDoc, sorted) ==
    LET orders == IF sorted THEN {SortEv(unc)} ELSE Perms(unc)
        contents == {FoldMerge(pi, Content(newDoc)) : pi \in orders}
    IN UNION {{[id |-> c.id, keys |-> c.keys, capInv |-> c.capInv, ctrl |-> cp, svcs |-> c.svcs] :
                    cp \in (IF sorted THEN {SortDIDs(c.cset)} ELSE Perms(c.cset))} : c \in contents}

(***************************************************************************)
(* applyEvent + applyDocument: the set of possible next version records    *)
(***************************************************************************)
ApplyEvent(hasCur, cur, e, sorted) ==
    LET doc == DocOf(e)
        m0 == [ver |-> 0, created |-> T[e].sig, updated |-> T[e].sig, hash |-> PayloadHash(e), prevHash |-> NoHash,
               prevTx |-> PrevSet(e), src |-> {e}, deact |-> IsDeact(doc), doc |-> doc]
    IN IF ~hasCur THEN {m0}
       ELSE LET m1 == [m0 EXCEPT !.ver = cur.ver + 1, !.created = cur.created, !.prevHash = cur.hash,
                                 !.deact = m0.deact \/ cur.deact]      \* once deactivated is always deactivated
                unc == cur.src \ PrevSet(e)                            \* unconsumed source transactions
            IN IF unc = {} THEN {m1}
               ELSE {[m1 EXCEPT !.src = {e} \cup unc, !.doc = md, !.hash = MergedHash(md),
                                !.deact = IF MergeKeepsDeactivation THEN m1.deact ELSE IsDeact(md)] : md \in MergedDocs(unc, doc, sorted)}

\* applyFrom: apply evs one after the other on top of cur; the set of possible version sequences
\* PinIntermediate: only the LAST version (the one a caller observes after the call) takes the map-iteration dependent
\* value, the versions below it take the sorted one (they do not influence the versions above them: a merge always
\* starts from the published documents of the open branches). Keeps trace validation / generation small.
RECURSIVE Outcomes(_, _, _, _)
Outcomes(hasCur, cur, evs, sorted) ==
    IF evs = <<>> THEN {<<>>}
    ELSE LET srt == sorted \/ (PinIntermediate /\ Len(evs) > 1) IN
         UNION {{<<m>> \o rest : rest \in Outcomes(TRUE, m, Tail(evs), sorted)} : m \in ApplyEvent(hasCur, cur, Head(evs), srt)}

(***************************************************************************)
(* Reference: the state implied by a SET of events                         *)
(***************************************************************************)
EventsOf(d, S) == {e \in S : T[e].did = d}
Canon(d, S) == CHOOSE x \in Outcomes(FALSE, NoMeta, SortEv(EventsOf(d, S)), TRUE) : TRUE
CanonConflicted(S) == {d \in DIDs : EventsOf(d, S) # {} /\ LET cn == Canon(d, S) IN Cardinality(cn[Len(cn)].src) > 1}
\* heads: events of the DID that no other event of the DID refers to (the branches that are still open)
Heads(d, S) == {e \in EventsOf(d, S) : \A f \in EventsOf(d, S) : e \notin PrevSet(f)}

(***************************************************************************)
(* store.Add                                                               *)
(***************************************************************************)
StoreAdd(e) ==
    LET d == T[e].did
        dup == e \in Range(list[d])
    IN /\ txIndex' = txIndex \cup {e}                                  \* first write transaction: writeDocument
       /\ IF dup THEN UNCHANGED <<list, meta, latest, cshelf, cc, dc>>
          ELSE LET idx == InsertPos(list[d], e)
                   nl == InsertAt(list[d], idx, e)
                   hasBase == idx > 0
                   base == IF hasBase THEN meta[d][idx] ELSE NoMeta
                   \* the flag is only read when there is a base event
                   wasConf == IF hasBase \/ ConflictFlagAtHead THEN d \in cshelf ELSE FALSE
               IN \E out \in Outcomes(hasBase, base, SubSeq(nl, idx + 1, Len(nl)), SortedMerge) :
                    LET nm == SubSeq(meta[d], 1, idx) \o out
                        fin == nm[Len(nm)]
                        isC == Cardinality(fin.src) > 1
                    IN /\ list' = [list EXCEPT ![d] = nl]
                       /\ meta' = [meta EXCEPT ![d] = nm]
                       /\ cshelf' = IF isC THEN cshelf \cup {d} ELSE cshelf \ {d}
                       /\ cc' = IF isC /\ ~wasConf THEN cc + 1 ELSE IF ~isC /\ wasConf /\ cc > 0 THEN cc - 1 ELSE cc
                       /\ dc' = IF fin.ver = 0 THEN dc + 1 ELSE dc
                       /\ latest' = [latest EXCEPT ![d] = fin.ver + 1]

\* what the caller can observe right after the call (also the prediction that is compared with the real store)
Obs(d) == IF latest'[d] = 0 THEN [nver |-> 0, conflicted |-> FALSE, deact |-> FALSE, cc |-> cc', dc |-> dc', doc |-> NoDoc, merged |-> FALSE, src |-> {}]
          ELSE LET m == meta'[d][latest'[d]] IN
               [nver |-> Len(meta'[d]), conflicted |-> d \in cshelf', deact |-> m.deact, cc |-> cc', dc |-> dc',
                doc |-> m.doc, merged |-> m.hash.p = "", src |-> m.src]

Add(e) ==
    /\ Mode = "store" /\ e \in Scen[sc].ev
    /\ \/ e \notin arrived /\ UNCHANGED dups
       \/ e \in arrived /\ dups < Scen[sc].dup + ExtraDup /\ dups' = dups + 1
    /\ StoreAdd(e)
    /\ arrived' = arrived \cup {e}
    /\ last' = [t |-> e, df |-> "none", res |-> "accepted"]
    /\ Log([a |-> "Add", e |-> e, exp |-> Obs(T[e].did)])
    /\ UNCHANGED sc

(***************************************************************************)
(* store.Resolve: walk from the latest version backwards                   *)
(***************************************************************************)
Q(nil, allow, useHash, h, useTime, tm, useSrc, s) ==
    [nil |-> nil, allow |-> allow, useHash |-> useHash, hash |-> h, useTime |-> useTime, time |-> tm, useSrc |-> useSrc, src |-> s]
QNil == Q(TRUE, FALSE, FALSE, NoHash, FALSE, 0, FALSE, "")
QAllow == Q(FALSE, TRUE, FALSE, NoHash, FALSE, 0, FALSE, "")
QSrc(s) == Q(FALSE, FALSE, FALSE, NoHash, FALSE, 0, TRUE, s)
QSrcAllow(s) == Q(FALSE, TRUE, FALSE, NoHash, FALSE, 0, TRUE, s)
QTime(tm) == Q(FALSE, FALSE, FALSE, NoHash, TRUE, tm, FALSE, "")
QTimeAllow(tm) == Q(FALSE, TRUE, FALSE, NoHash, TRUE, tm, FALSE, "")
QHash(h) == Q(FALSE, FALSE, TRUE, h, FALSE, 0, FALSE, "")
QHashAllow(h) == Q(FALSE, TRUE, TRUE, h, FALSE, 0, FALSE, "")

LatestNonDeactReq(q) == IF q.nil THEN TRUE ELSE IF q.useTime \/ q.useHash \/ q.useSrc THEN FALSE ELSE ~q.allow
Matches(m, q) ==
    /\ ~(m.deact /\ (q.nil \/ ~q.allow))
    /\ \/ q.nil
       \/ /\ q.useHash => m.hash = q.hash
          /\ q.useTime => m.updated <= q.time /\ m.created <= q.time
          /\ q.useSrc => q.src \in m.src
\* prescriptive reading of "resolve at time t": the version in force at t decides; if it is deactivated nothing older is returned
TimeStop(m, q) == TimeSeesDeactivation /\ ~q.nil /\ q.useTime /\ ~q.useHash /\ ~q.useSrc /\ ~q.allow
                  /\ m.deact /\ m.updated <= q.time /\ m.created <= q.time
RECURSIVE Walk(_, _, _)
Walk(ms, i, q) ==
    IF i = 0 THEN [err |-> "notfound", v |-> 0]
    ELSE IF ms[i].deact /\ LatestNonDeactReq(q) THEN [err |-> "deactivated", v |-> 0]
    ELSE IF TimeStop(ms[i], q) THEN [err |-> "deactivated", v |-> 0]
    ELSE IF Matches(ms[i], q) THEN [err |-> "ok", v |-> i]
    ELSE Walk(ms, i - 1, q)
ResolveIn(ms, lat, q) == IF lat = 0 THEN [err |-> "notfound", v |-> 0] ELSE Walk(ms, lat, q)
\* answer as seen by a caller: error class + version record
Answer(ms, lat, q) == LET r == ResolveIn(ms, lat, q) IN [err |-> r.err, m |-> IF r.err = "ok" THEN ms[r.v] ELSE NoMeta]

(***************************************************************************)
(* didnuts.Resolver / resolveControllers (resolver.go).  mode says which   *)
(* DIDResolver the recursion runs on: the store itself, or the Resolver    *)
(* (whose Resolve starts again at depth 0).                                *)
(***************************************************************************)
SRes(d, q) == LET r == ResolveIn(meta[d], latest[d], q) IN
              [err |-> r.err, doc |-> IF r.err = "ok" THEN meta[d][r.v].doc ELSE NoDoc]
Err(x) == [err |-> x, doc |-> NoDoc]

RECURSIVE ResolveD(_, _, _, _), ResolveCtrls(_, _, _, _), RResolve(_, _)
RResolve(d, q) == IF ~q.nil /\ q.allow THEN SRes(d, q) ELSE ResolveD("store", d, q, 0)
ResolveD(mode, d, q, depth) ==
    IF depth >= MaxDepth THEN Err("toodeep")
    ELSE LET r == IF mode = "store" THEN SRes(d, q) ELSE RResolve(d, q) IN
         IF r.err # "ok" THEN r
         ELSE IF Len(r.doc.ctrl) > 0 /\ (q.nil \/ ~q.allow)
              THEN LET cs == ResolveCtrls(mode, r.doc, q, depth + 1) IN
                   IF cs.err # "ok" THEN Err(cs.err)
                   ELSE IF cs.docs = {} THEN Err("noactive") ELSE r
              ELSE r
ResolveCtrls(mode, doc, q, depth) ==
    LET self == IF doc.capInv # {} /\ (doc.ctrl = <<>> \/ doc.id \in Range(doc.ctrl)) THEN {doc} ELSE {}
        refs == Range(doc.ctrl) \ {doc.id}
        res == [c \in refs |-> ResolveD(mode, c, q, depth)]
    IN IF \E c \in refs : res[c].err = "toodeep" THEN [err |-> "toodeep", docs |-> {}]
       ELSE [err |-> "ok", docs |-> {x \in self \cup {res[c].doc : c \in {c2 \in refs : res[c2].err = "ok"}} : ~IsDeact(x)}]

(***************************************************************************)
(* The receive pipeline: dag signature verifier, then ambassador.callback  *)
(***************************************************************************)
\* dag.SourceTXKeyResolver.ResolvePublicKey(kid, prevs): the first prev that gives an answer other than "not found" decides
KeyResolution(t) ==
    LET x == T[t]
        ans == [i \in 1..Len(x.prevs) |-> RResolve(x.kidDid, QSrc(x.prevs[i]))]
        hit == {i \in 1..Len(x.prevs) : ans[i].err # "notfound"}
    IN IF hit = {} THEN "notfound"
       ELSE LET a == ans[Min(hit)] IN
            IF a.err # "ok" THEN a.err ELSE IF x.kidKey \in a.doc.keys THEN "ok" ELSE "keynotfound"

SignatureOK(t) == IF T[t].kind = "create" THEN TRUE ELSE KeyResolution(t) = "ok" /\ T[t].key = T[t].kidKey

UpdateVerdict(t) ==
    LET x == T[t]
        d == x.did
        pv == x.prevs
        hits == {i \in 1..Len(pv) : SRes(d, QSrcAllow(pv[i])).err = "ok"}
        cur == IF hits # {} THEN SRes(d, QSrcAllow(pv[Min(hits)])) ELSE SRes(d, QAllow)   \* fallback: latest version
    IN IF cur.err # "ok" THEN "rejected"
       ELSE LET per == [i \in 1..Len(pv) |-> ResolveCtrls("resolver", cur.doc, QSrc(pv[i]), 0)]
                viaPrevs == UNION {per[i].docs : i \in 1..Len(pv)}
                legacy == ResolveCtrls("resolver", cur.doc, QTime(x.sig), 0)
            IN IF \E i \in 1..Len(pv) : per[i].err # "ok" THEN "rejected"
               ELSE IF viaPrevs = {} /\ legacy.err # "ok" THEN "rejected"
               ELSE LET ctrls == IF viaPrevs # {} THEN viaPrevs ELSE legacy.docs
                        allowed == UNION {c.capInv : c \in ctrls}
                    IN IF KeyResolution(t) = "ok" /\ x.kidKey \in allowed THEN "accepted" ELSE "rejected"

Verdict(t, df) ==
    IF ~SignatureOK(t) THEN "rejected"                                   \* never reaches the ambassador
    ELSE IF df \in OpenPanics \/ (df \in PanicDefects /\ ~ValidatorNilSafe) THEN "panic"
    ELSE IF df # "none" /\ df \notin LaxDefects THEN "rejected"            \* NetworkDocumentValidator
    ELSE IF T[t].kind = "create" THEN (IF Thumb[T[t].key] = T[t].did THEN "accepted" ELSE "rejected")
    ELSE UpdateVerdict(t)

(***************************************************************************)
(* Reference for C09 (declarative; evaluated on the state BEFORE the step) *)
(***************************************************************************)
\* The reference does not read the store (meta): the versions of a DID are DEFINED by the set of transactions accepted so far.
\* The version "at e" consists of the transactions that precede e in the causal order as far as the lamport clock tells it
\* (clock, then signing time, then ref: RFC 006 / event.before); its open branches are the transactions of that set no other one
\* of the set refers to; its document is the published document of the open branch, resp. the union of the published documents
\* of the open branches; it is deactivated as soon as the set contains a deactivation (also on a branch that is merged in).
RefDown(d, e) == {h \in EventsOf(d, arrived) : h = e \/ ClockOrder(h, e)}
RefHeads(d, e) == LET D == RefDown(d, e) IN {h \in D : \A f \in D : h \notin PrevSet(f)}
RefDeact(d, e) == \E h \in RefDown(d, e) : IsDeact(DocOf(h))
RefCapInv(d, e) == UNION {DocOf(h).capInv : h \in RefHeads(d, e)}
RefCtrl(d, e) == UNION {Range(DocOf(h).ctrl) : h \in RefHeads(d, e)}
RefLast(S) == CHOOSE e \in S : \A f \in S \ {e} : ClockOrder(f, e)
RefAuthorised(t) ==
    LET x == T[t]  d == x.did  P == Range(x.prevs) IN
    IF x.kind = "create" THEN Thumb[x.key] = d
    ELSE LET H == EventsOf(d, arrived)
             addressed == {e \in H : RefHeads(d, e) \cap P # {}}          \* versions that have a prev as source transaction
             succeeded == IF addressed # {} THEN addressed ELSE IF H # {} THEN {RefLast(H)} ELSE {}
         IN \E e \in succeeded :
              LET ctrl == RefCtrl(d, e) IN
              \* the DID as its own controller: not once it is deactivated
              \/ (ctrl = {} \/ d \in ctrl) /\ ~RefDeact(d, e) /\ x.key \in RefCapInv(d, e)
              \* another controller: a version of it the transaction refers to, or the one in force at the signing time; active
              \/ \E c \in ctrl \ {d} :
                    LET Hc == EventsOf(c, arrived)
                        old == {w \in Hc : T[w].sig <= x.sig}
                        known == {w \in Hc : RefHeads(c, w) \cap P # {}} \cup (IF old # {} THEN {RefLast(old)} ELSE {})
                    IN \E w \in known : ~RefDeact(c, w) /\ x.key \in RefCapInv(c, w)
WellFormed(df) == df = "none"
\* keys that may currently change the DID (latest version, its controllers' latest versions)
AuthKeys(ms, lat, d) ==
    IF lat[d] = 0 THEN {}
    ELSE LET V == ms[d][lat[d]].doc IN
         (IF V.ctrl = <<>> \/ d \in Range(V.ctrl) THEN V.capInv ELSE {})
         \cup UNION {IF lat[c] = 0 \/ ms[c][lat[c]].deact THEN {} ELSE ms[c][lat[c]].doc.capInv : c \in Range(V.ctrl) \ {d}}

\* ambassador mode with Scenarios # {}: one run explores several SUB-universes of TxU (Scen[sc].ev), chosen in Init
InPlay(t) == IF sc = "" THEN TRUE ELSE t \in Scen[sc].ev
Receive(t, df) ==
    /\ Mode = "ambassador" /\ t \in TxU /\ InPlay(t) /\ (df = "none" \/ (df \in Defects /\ t \in Carriers))
    /\ LET v == Verdict(t, df) IN
       /\ last' = [t |-> t, df |-> df, res |-> v]
       /\ IF v = "accepted" THEN StoreAdd(t) /\ arrived' = arrived \cup {t}
                            ELSE UNCHANGED storeVars /\ UNCHANGED arrived
       /\ Log([a |-> "Receive", t |-> t, df |-> df, res |-> v, exp |-> Obs(T[t].did)])
    /\ UNCHANGED <<sc, dups>>

(***************************************************************************)
Init ==
    /\ sc \in (IF Scenarios # {} THEN Scenarios ELSE {""})
    /\ list = [d \in DIDs |-> <<>>] /\ meta = [d \in DIDs |-> <<>>] /\ latest = [d \in DIDs |-> 0]
    /\ cshelf = {} /\ cc = 0 /\ dc = 0 /\ txIndex = {} /\ arrived = {} /\ dups = 0
    /\ last = [t |-> "", df |-> "none", res |-> "none"]
    /\ hist = <<>>

Next == \/ \E e \in DOMAIN T : Add(e)
        \/ \E t \in TxU, df \in Defects \cup {"none"} : Receive(t, df)
Spec == Init /\ [][Next]_vars

(***************************************************************************)
(* Properties                                                              *)
(***************************************************************************)
TypeOK == /\ \A d \in DIDs : Len(meta[d]) = Len(list[d]) /\ latest[d] = Len(list[d])
          /\ \A d \in DIDs : \A i \in 1..Len(meta[d]) : meta[d][i].ver = i - 1
          /\ cshelf \subseteq DIDs

\* ---- C10 ----
\* the incremental algorithm agrees with the definition, after every Add, for every arrival order
OrderIndependent ==
    /\ \A d \in DIDs : list[d] = SortEv(EventsOf(d, arrived)) /\ meta[d] = Canon(d, arrived)
    /\ cshelf = CanonConflicted(arrived)
CountersExact ==
    /\ cc = Cardinality(CanonConflicted(arrived))
    /\ dc = Cardinality({d \in DIDs : EventsOf(d, arrived) # {}})
\* answers to every query are a function of the event set
Times == {T[e].sig : e \in DOMAIN T} \cup {0}
Queries == {QNil, QAllow} \cup {QTime(tm) : tm \in Times} \cup {QTimeAllow(tm) : tm \in Times}
           \cup {QSrc(e) : e \in arrived} \cup {QSrcAllow(e) : e \in arrived}
           \cup UNION {{QHash(m.hash), QHashAllow(m.hash)} : m \in UNION {Range(meta[d]) : d \in DIDs}}
ResolveStable == LET qs == Queries IN
                 \A d \in DIDs : LET cn == Canon(d, arrived)  n == Cardinality(EventsOf(d, arrived)) IN
                    \A q \in qs : Answer(meta[d], latest[d], q) = Answer(cn, n, q)
\* the open branches are exactly the source transactions of the latest version: parallel updates give ONE conflicted
\* version, an update referring to all branches resolves it (premise: clocks respect the prevs relation)
ConflictResolvedByJoin ==
    \A d \in DIDs : latest[d] > 0 =>
        LET m == meta[d][latest[d]] IN
        /\ m.src = Heads(d, arrived)
        /\ (d \in cshelf) <=> Cardinality(Heads(d, arrived)) > 1
        /\ Cardinality(m.src) = 1 => m.doc = DocOf(CHOOSE e \in m.src : TRUE) /\ m.hash = PayloadHash(CHOOSE e \in m.src : TRUE)
        /\ Cardinality(m.src) > 1 =>
              /\ m.doc.keys = UNION {DocOf(e).keys : e \in m.src} /\ m.doc.capInv = UNION {DocOf(e).capInv : e \in m.src}
              /\ Range(m.doc.ctrl) = UNION {Range(DocOf(e).ctrl) : e \in m.src}
              /\ {s.id : s \in m.doc.svcs} = UNION {{s.id : s \in DocOf(e).svcs} : e \in m.src}
\* once the latest version is deactivated no later arrival makes the DID resolve as active
LatestErr(ms, lat) == ResolveIn(ms, lat, QNil).err
DeactivatedForever == [][last'.res # "reset" =>
                            \A d \in DIDs : LatestErr(meta[d], latest[d]) = "deactivated" => LatestErr(meta'[d], latest'[d]) = "deactivated"]_vars
DeactivatedSticky == \A d \in DIDs : \A i \in 1..Len(meta[d]) : \A j \in i..Len(meta[d]) : meta[d][i].deact => meta[d][j].deact
\* resolving at a time at/after the deactivation in force does not yield an active document
TimeRespectsDeactivation ==
    \A d \in DIDs : \A tm \in Times :
        LET inForce == {i \in 1..Len(meta[d]) : meta[d][i].updated <= tm /\ meta[d][i].created <= tm} IN
        (inForce # {} /\ meta[d][CHOOSE m \in inForce : \A n \in inForce : n <= m].deact)
            => ResolveIn(meta[d], latest[d], QTime(tm)).err # "ok"

\* ---- C09 ----
KeysChangeOnlyByAuthorized ==
    [][(storeVars' # storeVars /\ Mode = "ambassador" /\ last'.res # "reset") =>
            (last'.res = "accepted" /\ WellFormed(last'.df) /\ RefAuthorised(last'.t))]_vars
RejectedChangesNothing ==
    [][(Mode = "ambassador" /\ last'.res \notin {"accepted", "reset"}) =>
            (UNCHANGED storeVars /\ \A d \in DIDs : AuthKeys(meta', latest', d) = AuthKeys(meta, latest, d))]_vars
NoPanic == last.res # "panic"
\* only transactions that passed are stored
StoredWereAccepted == Mode = "ambassador" => \A d \in DIDs : Range(list[d]) \subseteq arrived
=============================================================================
