---------------------------- MODULE TraceRobust ----------------------------
(***************************************************************************)
(* Trace validation for C19: the call / reply events recorded around the   *)
(* REAL entry points must be a behaviour of Robust.tla.                    *)
(*   {"ev":"call","id":..,"ep":..,"op":..,"pos":..,"pre":<state digest>,   *)
(*    "re":<TRUE when the node delivers a refused input again>}            *)
(*   {"ev":"reply","id":..,"verdict":"accept"|"reject","post":<digest>}    *)
(* A call whose reply never came (panic, missed deadline) is followed by   *)
(* another call, a reset or the end of the log: TLost fires and Totality   *)
(* fails.  A rejecting reply with post # pre violates RejectUnchanged.     *)
(* Traces are concatenated; a "reset" event starts the next one.           *)
(***************************************************************************)
EXTENDS MCRobust, IOUtils

TraceLog == ndJsonDeserialize(IOEnv.VERIF_TRACE)
VARIABLES l, pre, changed, cur
tvars == <<vars, l, pre, changed, cur>>

Ev == TraceLog[l]
IsEvent(e) == l <= Len(TraceLog) /\ Ev.ev = e /\ l' = l + 1

TReset == /\ IsEvent("reset") /\ pending = NoCase
          /\ store' = [e \in EntryPoints |-> {}] /\ calls' = 0 /\ last' = None /\ again' = NoCase
          /\ pre' = "-" /\ changed' = FALSE /\ cur' = "-"
          /\ UNCHANGED <<pending, lost, hist>>

TCall == /\ IsEvent("call")
         /\ IF Ev.re
            THEN Redeliver /\ again = [ep |-> Ev.ep, op |-> Ev.op, pos |-> Ev.pos]
            ELSE Call([ep |-> Ev.ep, op |-> Ev.op, pos |-> Ev.pos])
         /\ pre' = Ev.pre /\ cur' = Ev.id /\ UNCHANGED changed

TReply == /\ IsEvent("reply") /\ pending # NoCase /\ Ev.id = cur
          /\ \/ Ev.verdict = "accept" /\ Accept
             \/ Ev.verdict = "reject" /\ Reject
          /\ changed' = (Ev.post # pre) /\ UNCHANGED <<pre, cur>>

\* the call in progress never replied: next event is not its reply, or the log ends
TLost == /\ pending # NoCase
         /\ \/ l > Len(TraceLog)
            \/ l <= Len(TraceLog) /\ ~(Ev.ev = "reply" /\ Ev.id = cur)
         /\ lost' = TRUE /\ pending' = NoCase
         /\ UNCHANGED <<store, calls, last, again, hist, l, pre, changed, cur>>

TraceNext == TReset \/ TCall \/ TReply \/ TLost
TraceInit == Init /\ l = 1 /\ pre = "-" /\ changed = FALSE /\ cur = "-" /\ TLCSet(1, 1)
TraceSpec == TraceInit /\ [][TraceNext]_tvars

\* property invariants evaluated on every state reconstructed from the real execution
RejectUnchanged == ~(last = "reject" /\ changed)

Progress == TLCSet(1, IF l > TLCGet(1) THEN l ELSE TLCGet(1))
TraceAccepted ==
    \/ TLCGet(1) = Len(TraceLog) + 1
    \/ Print(<<"TRACE-REJECTED-AT", TLCGet(1), TraceLog[TLCGet(1)]>>, FALSE)
=============================================================================
