--------------------------- MODULE MCDiscovery ---------------------------
(* Model checking / behaviour generation wrappers for Discovery.tla *)
EXTENDS Discovery, Json

\* a complete behaviour: the event budget is used up and the client has polled twice in peace
AllDone == events = MaxEvents /\ poll.phase = "idle" /\ quiet >= 2
\* behaviour generation (Hist = TRUE configs only): one witness per distinct terminal state
Emit == (AllDone /\ Hist) => PrintT(ToJson(hist))
\* one witness per distinct state in which the client has NOT converged after two quiet polls (descriptive model):
\* the dangerous schedules
EmitBad == (Hist /\ ~Converged) => PrintT(ToJson(hist))
\* simulation mode: print when the walk has used up its events
EmitSim == (Hist /\ events = MaxEvents /\ poll.phase = "idle" /\ quiet >= 1) => PrintT(ToJson(hist))
HistBound == Len(hist) <= 60
Perms == Permutations(Subjects)
=============================================================================
