----------------------------- MODULE Discovery -----------------------------
(***************************************************************************)
(* The discovery service of a Nuts node: discovery/{module,store,client,   *)
(* definition}.go, discovery/api/server/api.go.                            *)
(*                                                                         *)
(* One action per critical section / SQL statement group of the Go code:   *)
(*   Submit      Module.Register on the server: verifyRegistration         *)
(*               pipeline, exists(), sqlStore.add (prune; tx: increment    *)
(*               timestamp, delete the subject's previous rows, insert)    *)
(*               -- registrations, refreshes, retractions, defective ones  *)
(*   Tick        time passes: the "short" presentations expire             *)
(*   ServerReset the server loses its database (new seed on first use)     *)
(*   ServerRestart / ClientRestart  the node PROCESS stops and is started  *)
(*               again ON THE SAME DATABASE (Module.Shutdown; New,         *)
(*               Configure, Start -> newSQLStore): everything the module   *)
(*               keeps is in SQL, so the service row (seed, timestamp) and *)
(*               the presentation rows of the earlier incarnation must be  *)
(*               found as they were left.  Not a server event: the list,   *)
(*               the seed and the timestamps are the same afterwards       *)
(*   PollFirst   clientUpdater.updateService: getTimestamp, then the FIRST *)
(*               statement of sqlStore.get on the server                   *)
(*   PollSecond  the SECOND statement of sqlStore.get (no transaction      *)
(*               spans the two: store.go:242-262)                          *)
(*   ClientApply the response reaches the client: wipeOnSeedChange, per    *)
(*               presentation exists?/add (prune, setTimestamp, delete     *)
(*               previous, insert), verifier, updateValidated; the         *)
(*               verifier may be UNAVAILABLE during one apply (DID         *)
(*               resolution down): what is added stays unvalidated         *)
(*   ClientValidate  clientRegistrationManager.validate: one background    *)
(*               round over ALL not yet validated rows; exactly the ones   *)
(*               that pass the client's verifier now are flagged           *)
(* Search is a pure function of the client table (SearchResult).           *)
(*                                                                         *)
(* Tables are SETS OF ROWS as in SQL, so "one entry per subject" is a real *)
(* invariant and not a typing artefact.  A presentation is identified by   *)
(* id = <<epoch of the server that accepted it, its timestamp>>.           *)
(***************************************************************************)
EXTENDS Naturals, FiniteSets, Sequences, TLC

CONSTANTS
    Subjects,
    MaxEvents,            \* bound on state changing server events (accepted submissions, Tick, ServerReset)
    MaxDefects,           \* bound on rejected submissions (only when CountDefects)
    CountDefects,         \* FALSE: a rejected submission leaves no trace at all (exhaustive checking);
                          \*   TRUE: it is counted, so that it shows up in generated behaviours
    MaxResets, MaxTicks,
    MaxOutages,           \* bound on applies during which the client's verifier is unavailable
    CredOrders,           \* orders in which a registration lists its credentials ("mf" member credential first,
                          \*   "sf" the holder's own non-expiring registration credential first): the verdict of the
                          \*   pipeline must not depend on it
    ExpClasses,           \* subset of {"short", "long"}: "short" expires at the Tick
    Kinds,                \* subset of {"reg", "ret"}
    Defects,              \* defect classes the environment may submit
    Checks,               \* checks the pipeline performs (as implemented: every class)
    DeletePrevious,       \* add() deletes the subject's previous rows            (as implemented: TRUE)
    ReadTsFirst,          \* get(): service row (seed, timestamp) BEFORE the rows (as implemented: TRUE)
    SearchValidatedOnly,  \* search(): validated != 0                              (as implemented: TRUE)
    SearchUnexpiredOnly,  \* search(): skips expired rows                          (as implemented: TRUE)
    ValidateMarksPassing, \* validate(): flags exactly the rows that passed         (as implemented: TRUE)
    RefetchOnSeedChange,  \* (as implemented TRUE since the repair of F-C16-seedwipe; FALSE = the repaired deviation):
                          \*   after a wipe the response fetched with the OLD timestamp (> 0) is discarded and the
                          \*   client starts over from 0 at the next poll (client.go: timestamp re-read after the wipe)
    MaxRestarts,          \* bound on restarts of the server / client process on its database (together)
    RestartKeepsService,  \* start-up leaves an existing discovery_service row alone (as implemented: TRUE, FirstOrCreate);
                          \*   FALSE: start-up (re)initialises it -- seed unset, timestamp 0 -- while the presentation rows stay
    SupersedeMustOutlive, \* DEVIATION (as implemented FALSE): a presentation that expires before the one it
                          \*   replaces is refused
    Hist

Rnd == 99                 \* the random seed a client invents in add(..., timestamp = 0)
RegOnly == {"outlive", "missing", "surplus", "nonmatch", "vcsig"}          \* defects of the credentials
RetOnly == {"ret-other", "ret-unknown", "ret-creds"}                       \* defects of a retraction
Min(a, b) == IF a < b THEN a ELSE b

VARIABLES
    now,                  \* 0 before the Tick, 1 after
    epoch, seeded,        \* server incarnation; whether discovery_service.seed has been set (first add)
    ts, rows,             \* discovery_service.last_lamport_timestamp; discovery_presentation of the server
    events, defects, resets, outages,
    restarts,             \* restarts of either process so far
    srvUpAt, cliUpAt,     \* history: the service timestamp the running server / client incarnation found at its start
    cseed, cts, crows,    \* the client's discovery_service row and discovery_presentation table
    poll,                 \* the poll in flight
    quiet, dirty,         \* history: consecutive completed polls without a server event; event during this poll
    hist

vars == <<now, epoch, seeded, ts, rows, events, defects, resets, outages, restarts, srvUpAt, cliUpAt, cseed, cts, crows, poll, quiet, dirty, hist>>
\* exhaustive checking: WHERE in its history a process was restarted is no part of the state
view == <<now, epoch, seeded, ts, rows, events, defects, resets, outages, restarts, cseed, cts, crows, poll, quiet, dirty>>
\* behaviour generation: one witness per terminal state AND per point of the history at which the processes were restarted
viewGen == <<view, srvUpAt, cliUpAt>>

Log(e) == hist' = IF Hist THEN Append(hist, e) ELSE hist

Idle == [phase |-> "idle", after |-> 0, rts |-> 0, rseed |-> 0, rows |-> {}]

Init ==
    /\ now = 0 /\ epoch = 1 /\ seeded = FALSE /\ ts = 0 /\ rows = {}
    /\ events = 0 /\ defects = 0 /\ resets = 0 /\ outages = 0
    /\ restarts = 0 /\ srvUpAt = 0 /\ cliUpAt = 0
    /\ cseed = 0 /\ cts = 0 /\ crows = {}
    /\ poll = Idle /\ quiet = 0 /\ dirty = FALSE
    /\ hist = <<>>

Expired(e) == e = "short" /\ now >= 1
SrvSeed == IF seeded THEN epoch ELSE 0

(***************************************************************************)
(* Server: Module.Register                                                 *)
(***************************************************************************)
Mine(s) == {r \in rows : r.s = s}

\* which submissions the environment can construct in the current state
Applies(s, kind, e, d, o) ==
    /\ o \in CredOrders /\ (kind = "ret" => o = "mf")      \* a retraction has no credentials
    /\ kind \in Kinds /\ e \in ExpClasses /\ d \in {"none"} \cup Defects
    /\ now >= 1 => e = "long"                          \* nothing expires after the (single) Tick
    /\ kind = "reg" => d \notin RetOnly
    /\ kind = "ret" => d \notin RegOnly
    /\ (kind = "ret" /\ d \in {"none", "ret-creds"}) => Mine(s) # {}     \* retract_jti = id of an own listed row
    /\ d = "ret-other" => \E r \in rows : r.s # s                        \* retract_jti = id of someone else's row
    /\ d = "replay" => \E r \in Mine(s) : r.kind = kind /\ r.exp = e /\ ~Expired(e)  \* the listed one, again

\* verifyRegistration + exists(): every defect class is caught by the check of the same name
Pipeline(s, kind, e, d) ==
    /\ d = "none" \/ d \notin Checks
    /\ SupersedeMustOutlive => \A r \in Mine(s) : ~(e = "short" /\ r.exp = "long")

Touch == /\ quiet' = 0
         /\ dirty' = (poll.phase # "idle")

\* acc: the verdict (Next: the pipeline's; trace validation: the one the real server gave)
Submit(s, kind, e, d, o, acc) ==
    /\ Applies(s, kind, e, d, o)
    /\ IF acc
       THEN /\ events < MaxEvents
            /\ LET pruned == {r \in rows : ~Expired(r.exp)}              \* sqlStore.prune()
                   kept == IF DeletePrevious THEN {r \in pruned : r.s # s} ELSE pruned
               IN rows' = kept \cup {[s |-> s, ts |-> ts + 1, id |-> <<epoch, ts + 1>>, exp |-> e, kind |-> kind, d |-> d]}
            /\ ts' = ts + 1 /\ seeded' = TRUE
            /\ events' = events + 1 /\ UNCHANGED defects
            /\ Touch
       ELSE /\ CountDefects => defects < MaxDefects
            /\ defects' = IF CountDefects THEN defects + 1 ELSE defects
            /\ UNCHANGED <<rows, ts, seeded, events, quiet, dirty>>
    /\ Log([a |-> "Submit", s |-> s, kind |-> kind, e |-> e, d |-> d, o |-> o, res |-> IF acc THEN "accepted" ELSE "rejected"])
    /\ UNCHANGED <<now, epoch, resets, outages, restarts, srvUpAt, cliUpAt, cseed, cts, crows, poll>>

Tick ==
    /\ now < MaxTicks /\ events < MaxEvents
    /\ now' = now + 1 /\ events' = events + 1
    /\ Touch
    /\ Log([a |-> "Tick"])
    /\ UNCHANGED <<epoch, seeded, ts, rows, defects, resets, outages, restarts, srvUpAt, cliUpAt, cseed, cts, crows, poll>>

\* a reset does not straddle the two statements of a running get (the process is gone)
ServerReset ==
    /\ resets < MaxResets /\ events < MaxEvents /\ seeded /\ poll.phase # "mid"
    /\ epoch' = epoch + 1 /\ seeded' = FALSE /\ ts' = 0 /\ rows' = {}
    /\ resets' = resets + 1 /\ events' = events + 1
    /\ Touch
    /\ srvUpAt' = 0
    /\ Log([a |-> "ServerReset"])
    /\ UNCHANGED <<now, defects, outages, restarts, cliUpAt, cseed, cts, crows, poll>>

(***************************************************************************)
(* Restart of a process on its database.  The module keeps nothing but the *)
(* database; start-up runs newSQLStore, which makes sure every definition  *)
(* has a discovery_service row.  A get that is executing dies with the     *)
(* server process (no restart between its two statements); the client is   *)
(* restarted between two polls.                                            *)
(***************************************************************************)
ServerRestart ==
    /\ restarts < MaxRestarts /\ poll.phase # "mid"
    /\ restarts' = restarts + 1 /\ srvUpAt' = ts
    /\ IF RestartKeepsService
       THEN UNCHANGED <<epoch, seeded, ts, quiet, dirty>>
       ELSE \* the next add invents a new seed and starts counting at 1 again, next to the rows that are still there
            /\ epoch' = epoch + 1 /\ seeded' = FALSE /\ ts' = 0
            /\ Touch
    /\ Log([a |-> "ServerRestart"])
    /\ UNCHANGED <<now, rows, events, defects, resets, outages, cliUpAt, cseed, cts, crows, poll>>

ClientRestart ==
    /\ restarts < MaxRestarts /\ poll.phase = "idle"
    /\ restarts' = restarts + 1 /\ cliUpAt' = cts
    /\ IF RestartKeepsService
       THEN UNCHANGED <<cseed, cts, quiet>>
       ELSE cseed' = 0 /\ cts' = 0 /\ quiet' = 0
    /\ Log([a |-> "ClientRestart"])
    /\ UNCHANGED <<now, epoch, seeded, ts, rows, events, defects, resets, outages, srvUpAt, crows, poll, dirty>>

(***************************************************************************)
(* A client poll                                                           *)
(***************************************************************************)
Newer(after) == {r \in rows : r.ts > after}

PollFirst ==
    /\ poll.phase = "idle"
    /\ poll' = IF ReadTsFirst
               THEN [phase |-> "mid", after |-> cts, rts |-> ts, rseed |-> SrvSeed, rows |-> {}]
               ELSE [phase |-> "mid", after |-> cts, rts |-> 0, rseed |-> 0, rows |-> Newer(cts)]
    /\ dirty' = FALSE
    /\ Log([a |-> "PollFirst"])
    /\ UNCHANGED <<now, epoch, seeded, ts, rows, events, defects, resets, outages, restarts, srvUpAt, cliUpAt, cseed, cts, crows, quiet>>

PollSecond ==
    /\ poll.phase = "mid"
    /\ poll' = IF ReadTsFirst
               THEN [poll EXCEPT !.phase = "resp", !.rows = Newer(poll.after)]
               ELSE [poll EXCEPT !.phase = "resp", !.rts = ts, !.rseed = SrvSeed]
    /\ Log([a |-> "PollSecond"])
    /\ UNCHANGED <<now, epoch, seeded, ts, rows, events, defects, resets, outages, restarts, srvUpAt, cliUpAt, cseed, cts, crows, quiet, dirty>>

\* the client runs the same pipeline, at ITS time and on ITS table: a retraction never validates there because
\* add() has just deleted the presentation it refers to
ClientVerifies(r) == r.kind = "reg" /\ ~Expired(r.exp) /\ (r.d = "none" \/ r.d \notin Checks)

\* out: the client's verifier is unavailable while this response is applied
ClientApply(out) ==
    /\ poll.phase = "resp"
    /\ out => outages < MaxOutages
    /\ outages' = IF out THEN outages + 1 ELSE outages
    /\ LET wiped == cseed # 0 /\ cseed # poll.rseed                       \* wipeOnSeedChange
           rows0 == IF wiped THEN {} ELSE crows
           cts0  == IF wiped THEN 0 ELSE cts
           seed0 == IF wiped THEN poll.rseed ELSE cseed
           \* a response asked for with timestamp 0 is complete for whatever list the server holds: it is applied
           resp  == IF wiped /\ RefetchOnSeedChange /\ poll.after # 0 THEN {} ELSE poll.rows
           new   == {r \in resp : ~\E c \in rows0 : c.s = r.s /\ c.id = r.id}    \* exists() -> continue
           \* every add() prunes first, deletes the subject's previous rows, inserts
           kept  == {c \in rows0 : ~Expired(c.exp) /\ (DeletePrevious => c.s \notin {r.s : r \in new})}
           \* ... so an already expired presentation that is added survives only if it is the LAST one added; the
           \* order is the iteration order of a Go map, i.e. arbitrary
           dead  == {r \in new : Expired(r.exp)}
           last  == IF dead = {} THEN {{}}
                    ELSE {{x} : x \in dead} \cup (IF new \ dead # {} THEN {{}} ELSE {})
           ok(r) == ~out /\ ClientVerifies(r)
           \* val: the validated column; own: history, the client's own verifier has accepted this row
           Mk(r) == [s |-> r.s, id |-> r.id, exp |-> r.exp, kind |-> r.kind, d |-> r.d, val |-> ok(r), own |-> ok(r)]
       IN IF new = {}
          THEN /\ ~out /\ crows' = rows0 /\ cts' = cts0 /\ cseed' = seed0
          ELSE /\ out => \E r \in new : ClientVerifies(r)               \* an outage nobody notices is no outage
               /\ \E sv \in last : crows' = kept \cup {Mk(r) : r \in (new \ dead) \cup sv}
               /\ IF poll.rts = 0
                  THEN \* add(..., timestamp = 0) takes the SERVER branch: own increments, invented seed
                       /\ cts' = cts0 + Cardinality(new)
                       /\ cseed' = IF seed0 # 0 THEN seed0 ELSE IF poll.rseed # 0 THEN poll.rseed ELSE Rnd
                  ELSE /\ cts' = poll.rts /\ cseed' = poll.rseed
    /\ quiet' = IF dirty THEN 0 ELSE Min(quiet + 1, 2)
    /\ dirty' = FALSE
    /\ poll' = Idle
    /\ Log([a |-> "ClientApply", out |-> out])
    /\ UNCHANGED <<now, epoch, seeded, ts, rows, events, defects, resets, restarts, srvUpAt, cliUpAt>>

\* clientRegistrationManager.validate(): allPresentations(validated = false), verifier on each, updateValidated
Passes(c) == c.kind = "reg" /\ ~Expired(c.exp) /\ (c.d = "none" \/ c.d \notin Checks)
Pending == \E c \in crows : ~c.val /\ Passes(c)
ClientValidate ==
    /\ Pending
    /\ LET todo == {c \in crows : ~c.val}
           pass == {c \in todo : Passes(c)}
       IN IF ValidateMarksPassing
          THEN crows' = (crows \ pass) \cup {[c EXCEPT !.val = TRUE, !.own = TRUE] : c \in pass}
          ELSE \* a round that flags as many rows as passed, but not necessarily those
               \E pick \in SUBSET todo :
                    /\ Cardinality(pick) = Cardinality(pass)
                    /\ crows' = (crows \ (pick \cup pass)) \cup {[c EXCEPT !.val = (c \in pick), !.own = (c \in pass)] : c \in pick \cup pass}
    /\ Log([a |-> "ClientValidate"])
    /\ UNCHANGED <<now, epoch, seeded, ts, rows, events, defects, resets, outages, restarts, srvUpAt, cliUpAt, cseed, cts, poll, quiet, dirty>>

Next ==
    \/ \E s \in Subjects, k \in Kinds, e \in ExpClasses, d \in {"none"} \cup Defects, o \in CredOrders :
            Submit(s, k, e, d, o, Pipeline(s, k, e, d))      \* the verdict does not look at the order
    \/ Tick \/ ServerReset
    \/ ServerRestart \/ ClientRestart
    \/ PollFirst \/ PollSecond \/ (\E out \in BOOLEAN : ClientApply(out))
    \/ ClientValidate

Spec == Init /\ [][Next]_vars
FairSpec == Spec /\ WF_vars(PollFirst \/ PollSecond \/ ClientApply(FALSE)) /\ WF_vars(ClientValidate)

(***************************************************************************)
(* Properties (C16)                                                        *)
(***************************************************************************)
TypeOK ==
    /\ now \in 0..1 /\ ts \in 0..MaxEvents /\ cts \in 0..(2 * MaxEvents)
    /\ poll.phase \in {"idle", "mid", "resp"} /\ quiet \in 0..2
    /\ restarts \in 0..MaxRestarts /\ srvUpAt \in 0..MaxEvents /\ cliUpAt \in 0..(2 * MaxEvents)
    /\ \A r \in rows : r.s \in Subjects /\ r.ts >= 1

\* reference predicate: a listed row carries no defect of any class (independent of which checks ran)
ListedOnlyVerified == \A r \in rows : r.d = "none"
OneLiveEntryPerSubject == \A r1, r2 \in rows : r1.s = r2.s => r1 = r2
TimestampsUnique == \A r1, r2 \in rows : r1.ts = r2.ts => r1 = r2
\* no listed entry is ahead of the timestamp the service hands to its clients
TimestampCoversRows == \A r \in rows : r.ts <= ts
\* only the loss of the database (ServerReset) starts the timestamps over -- a restart of the process does not
TimestampsStrictlyIncrease ==
    [][resets' = resets => /\ ts' >= ts
                         /\ \A r \in rows' \ rows : r.ts = ts' /\ ts' > ts /\ \A q \in rows : q.ts < r.ts]_vars
\* a retraction is accepted only from a signer that has an entry
\* a restart is no event of the list: the running incarnation lists what its predecessor listed, under the same seed
RestartKeepsList == [][restarts' # restarts => rows' = rows /\ ts' = ts /\ seeded' = seeded /\ epoch' = epoch]_vars
RetractionOnlyBySigner == [][\A r \in rows' \ rows : r.kind = "ret" => \E q \in rows : q.s = r.s]_vars

SearchResult == {c \in crows : (SearchValidatedOnly => c.val) /\ (SearchUnexpiredOnly => ~Expired(c.exp))}
\* Search returns only what the client's own verifier has accepted (at apply time or in a validation round)
SearchSound == \A c \in SearchResult : c.own /\ ~Expired(c.exp)

Live(tbl) == {<<r.s, r.id>> : r \in {x \in tbl : x.kind = "reg" /\ ~Expired(x.exp)}}
Synced == Live(crows) = Live(rows) /\ Live(SearchResult) = Live(rows)
\* safety form of convergence: two complete polls without a server event in between or during them, and no
\* validation round outstanding
Converged == (quiet >= 2 /\ ~Pending) => Synced
\* liveness form: the server events are bounded, polls are fair
Converges == <>[]Synced
=============================================================================
