----------------------------- MODULE TraceDag -----------------------------
(***************************************************************************)
(* Trace validation: executions of the REAL dag.State (recorded by the     *)
(* gated KV store and the scripted subscribers, one event per              *)
(* linearization point) must be behaviours of Dag.tla.  Traces are         *)
(* concatenated; a "reset" event starts the next one.                      *)
(***************************************************************************)
EXTENDS MCDag, IOUtils

TraceLog == ndJsonDeserialize(IOEnv.VERIF_TRACE)
VARIABLE l
tvars == <<vars, l>>

Ev == TraceLog[l]
IsEvent(e) == l <= Len(TraceLog) /\ Ev.ev = e /\ l' = l + 1

TReset == /\ IsEvent("reset")
          /\ disk' = EmptyDisk /\ mem' = [xor |-> {}, iblt |-> Zero, lcHigh |-> 0]
          /\ lock' = None /\ tmu' = None /\ pc' = [p \in Procs |-> "idle"]
          /\ arg' = [p \in Procs |-> [t |-> CHOOSE t \in Tx : TRUE, pl |-> "none"]]
          /\ wbuf' = [p \in Procs |-> EmptyDisk] /\ todo' = [p \in Procs |-> MaxOffers]
          /\ fails' = 0 /\ crashes' = 0 /\ corrupts' = 0 /\ dups' = 0 /\ tasks' = {}
          /\ calls' = {} /\ recalled' = {} /\ done' = {} /\ corrupted' = {} /\ hist' = <<>>

TOffer == IsEvent("add.begin") /\ Offer(Ev.p, Ev.t, Ev.pl)
\* the read transaction returned: error <=> the model rejects
TRead == /\ IsEvent("read.done") /\ ReadVerify(Ev.p)
         /\ (Ev.res = "err") <=> (pc'[Ev.p] = "idle" /\ arg[Ev.p].t \notin disk.txs)
\* the write function returned inside the transaction; logged: its outcome and the write set
StageOf(shelf) == CASE shelf = "documents" -> "tx" [] shelf = "ibltBucket" -> "iblt" [] shelf = "xorBucket" -> "xor" [] OTHER -> "?"
TWrite == /\ IsEvent("write.fn")
          /\ IF "late" \in DOMAIN Ev /\ Ev.res = "err" /\ pc[Ev.p] = "wlock" /\ arg[Ev.p].t \notin disk.txs
                /\ arg[Ev.p].pl # "bad" /\ ~(Prevs(arg[Ev.p].t) = {} /\ Roots(disk.txs) # {})
             THEN \* an injected storage error hit the write function in the middle (the fault is armed but the function may
                  \* also have failed earlier for its own reasons: those cases take the ordinary branch)
                  LockWriteLate(Ev.p, StageOf(Ev.late))
             ELSE /\ LockWrite(Ev.p)
                  /\ (Ev.res = "err") <=> (pc'[Ev.p] = "fnerr")
                  /\ wbuf'[Ev.p].txs = {t \in Tx : \E i \in 1..Len(Ev.stored) : Ev.stored[i] = t}
TCommit == IsEvent("commit") /\ Commit(Ev.p)
TRollback == IsEvent("rollback") /\ Rollback(Ev.p)
TOnRollback == IsEvent("rollback.hook.done") /\ OnRollback(Ev.p)
\* hook of a no-op commit (transaction was already present): nothing to notify, the model is already idle
THookBegin == /\ IsEvent("commit.hook.begin")
              /\ IF pc[Ev.p] = "committed" THEN AfterCommit(Ev.p) ELSE UNCHANGED vars
TReceive == /\ IsEvent("receive")
            /\ \E k \in tasks : k.s = Ev.s /\ k.t = Ev.t /\ NotifyCall(k, Ev.res)
\* job bookkeeping written back (Finished / retry counter)
TShelf == /\ IsEvent("shelf.write")
          /\ \E k \in tasks : Ev.shelf = "_" \o k.s \o "_jobs" /\ NotifyMark(k)
\* the read of one job failed (injected): the attempt ends without a receiver call and without a write; only legal for a live job
TJobReadFail == /\ IsEvent("jobreadfail")
                /\ \E k \in tasks : k.s = Ev.s /\ k.t = Ev.t /\ k.phase = "ready" /\ <<k.s, k.t>> \in disk.jobs
                /\ UNCHANGED vars
TWritePayload == IsEvent("writepayload") /\ WritePayloadAny(Ev.t)
TCorrupt == IsEvent("corrupt") /\ Corrupt(Ev.pg, Ev.g)
TCheckPage == IsEvent("checkpage") /\ CheckPage(Ev.pg)
TCrash == IsEvent("crash") /\ Crash
\* events without a model counterpart
TStutter == /\ l <= Len(TraceLog) /\ Ev.ev \in {"commit.hook.done", "add.return", "parse.accepted"}
            /\ (Ev.ev = "add.return" => pc[Ev.p] = "idle")
            /\ l' = l + 1 /\ UNCHANGED vars
\* a task whose job is gone ends silently (no receiver call, nothing logged)
TGone == /\ l <= Len(TraceLog) /\ UNCHANGED l
         /\ \E k \in tasks : <<k.s, k.t>> \notin disk.jobs /\ k.phase = "ready" /\ NotifyCall(k, "ok")

TraceNext == TReset \/ TOffer \/ TRead \/ TWrite \/ TCommit \/ TRollback \/ TOnRollback \/ THookBegin
             \/ TReceive \/ TShelf \/ TJobReadFail \/ TWritePayload \/ TCorrupt \/ TCheckPage \/ TCrash \/ TStutter \/ TGone
TraceInit == Init /\ l = 1 /\ TLCSet(1, 1)
TraceSpec == TraceInit /\ [][TraceNext]_tvars

\* acceptance: the whole file was consumed (high-water mark kept in a TLC register; -workers 1)
Progress == TLCSet(1, IF l > TLCGet(1) THEN l ELSE TLCGet(1))
HighWater == TLCGet(1)
TraceAccepted ==
    \/ TLCGet(1) = Len(TraceLog) + 1
    \/ Print(<<"TRACE-REJECTED-AT", TLCGet(1), TraceLog[TLCGet(1)]>>, FALSE)
=============================================================================
