---------------------------- MODULE MCServiceRef ----------------------------
(* Concrete universes for ServiceRef.tla and the case printers.
   Families (constant Fam):
     R  every PATH GRAPH over 3 DIDs x 2 types (canonical up to renaming of DIDs and types): a chain of 1..MaxLen distinct
        services starting at A.t1, each a reference to the next, closed by every terminal shape (URL, compound service, dangling
        type, unknown DID, deactivated DID, malformed reference in four ways, reference back to every node of the chain = cycles
        and self reference) x the textual form of the first reference; every query form x every maxDepth is resolved step by step.
     U  a resolution interleaved with network updates of the documents on its path (what the document cache is for).
     V  ONE didman operation (AddEndpoint with URL / reference, AddCompoundService, DeleteService, GetCompoundServiceEndpoint)
        on every path graph (also on a deactivated and on an unknown DID).
     S  sequences of didman operations and resolutions starting from empty managed documents. *)
EXTENDS ServiceRef, Json

CONSTANTS Fam, MaxLen, Depths, FormLen     \* FormLen: the first reference is varied in spelling on paths up to this length

ActiveDIDs == {"A", "B", "C"}
Slots == ActiveDIDs \X {"t1", "t2"}

\* ------------------------------------------------------------------ path graphs
\* DIDs and types are named in the order of their first appearance on the path (one graph per isomorphism class)
CanExtend(s, sl) ==
    /\ \A i \in 1..Len(s) : s[i] # sl
    /\ sl[1] = "C" => \E j \in 1..Len(s) : s[j][1] = "B"
    /\ sl[2] = "t2" => \E j \in 1..Len(s) : s[j][1] = sl[1] /\ s[j][2] = "t1"
RECURSIVE PathsOfLen(_)
PathsOfLen(n) == IF n = 1 THEN {<< <<"A", "t1">> >>}
                 ELSE LET prev == PathsOfLen(n - 1) IN UNION {{Append(s, sl) : sl \in {x \in Slots : CanExtend(s, x)}} : s \in prev}
Paths == UNION {{[n |-> n, s |-> s] : s \in PathsOfLen(n)} : n \in 1..MaxLen}

BadForms == {"badpath", "extraq", "notype", "twotype"}
Terminals == {"url", "map", "mapx", "nosvc", "docnone", "docdeact"} \cup BadForms
ExtUrl == Url("u3")
MapE == Map([m1 |-> Url("u2"), m2 |-> Ref("E", "t1", "canon"), m3 |-> Ref("E", "t1", "badpath")])
MapX == Map([m1 |-> Ref("A", "t9", "canon"), m2 |-> Ref("A", "t1", "canon")])
TermE(tm) ==
    CASE tm = "url" -> Url("u1")
      [] tm = "map" -> MapE
      [] tm = "mapx" -> MapX
      [] tm = "nosvc" -> Ref("A", "t9", "canon")
      [] tm = "docnone" -> Ref("N", "t1", "canon")
      [] tm = "docdeact" -> Ref("D", "t1", "canon")
      [] OTHER -> Ref("E", "t1", tm)     \* malformed reference to a service that exists and would resolve

\* endpoint of slot (d, t) in the graph of path p closed by `last`, first reference written in form f1
SlotE(p, last, f1, d, t) ==
    IF \E i \in 1..p.n : p.s[i] = <<d, t>>
    THEN LET i == CHOOSE i \in 1..p.n : p.s[i] = <<d, t>> IN
         IF i < p.n THEN Ref(p.s[i + 1][1], p.s[i + 1][2], IF i = 1 THEN f1 ELSE "canon") ELSE last
    ELSE NoSvc
Graph(p, last, f1) ==
    [d \in DIDs |->
        IF d \in ActiveDIDs THEN Doc("active", [t \in Types |-> IF <<d, t>> \in Slots THEN SlotE(p, last, f1, d, t) ELSE NoSvc])
        ELSE IF d = "E" THEN Doc("active", [t \in Types |-> IF t = "t1" THEN ExtUrl ELSE NoSvc])
        ELSE IF d = "D" THEN Doc("deact", EmptySvc)
        ELSE NoDoc]
Lasts(p) == {TermE(tm) : tm \in Terminals} \cup {Ref(p.s[i][1], p.s[i][2], "canon") : i \in 1..p.n}
HopForms(p) == IF p.n = 1 \/ p.n > FormLen THEN {"canon"} ELSE {"canon", "pct", "frag"}
PathGraphs == UNION {{Graph(p, last, f1) : last \in Lasts(p), f1 \in HopForms(p)} : p \in Paths}
\* family V: forms only matter for the in-use check
LastsV(p) == {TermE(tm) : tm \in {"url", "map", "mapx", "nosvc", "docdeact", "extraq"}} \cup {Ref(p.s[i][1], p.s[i][2], "canon") : i \in 1..p.n}
PathGraphsV == UNION {{Graph(p, last, f1) : last \in LastsV(p), f1 \in (HopForms(p) \ {"frag"})} : p \in Paths}

\* ------------------------------------------------------------------ family U
DocA(e1, e2) == Doc("active", [t \in Types |-> IF t = "t1" THEN e1 ELSE IF t = "t2" THEN e2 ELSE NoSvc])
U0 == [d \in DIDs |-> IF d = "A" THEN DocA(Ref("B", "t1", "canon"), Url("u1"))
                      ELSE IF d = "B" THEN DocA(Ref("A", "t2", "canon"), Url("u2"))
                      ELSE IF d = "C" THEN DocA(Ref("A", "t1", "canon"), NoSvc)
                      ELSE IF d = "E" THEN DocA(ExtUrl, NoSvc)
                      ELSE IF d = "D" THEN Doc("deact", EmptySvc) ELSE NoDoc]
UNet(d) ==
    IF d = "A" THEN {DocA(Ref("B", "t1", "canon"), Url("u9")), DocA(Ref("B", "t2", "canon"), Ref("B", "t2", "canon")),
                     DocA(Url("u8"), NoSvc), Doc("deact", EmptySvc)}
    ELSE IF d = "B" THEN {DocA(Ref("A", "t2", "canon"), Url("u7")), DocA(Url("u6"), Url("u2")), DocA(NoSvc, Url("u2")),
                          DocA(Ref("A", "t1", "canon"), Url("u2")), Doc("deact", EmptySvc)}
    ELSE {}

\* ------------------------------------------------------------------ family S
EmptyActive == Doc("active", EmptySvc)
S0 == [d \in DIDs |-> IF d \in {"A", "B"} THEN EmptyActive
                      ELSE IF d = "E" THEN Doc("active", [t \in Types |-> IF t = "t1" THEN ExtUrl ELSE NoSvc])
                      ELSE IF d = "D" THEN Doc("deact", EmptySvc) ELSE NoDoc]
SRefs == {Ref(d, t, "canon") : d \in {"A", "B"}, t \in {"t1", "t2"}}
SEnds == {Url("u1")} \cup SRefs \cup {Ref("A", "t1", "pct"), Ref("E", "t1", "canon")}
          \cup {Map([m1 |-> Ref("A", "t1", "canon")]), Map([m1 |-> Ref("B", "t1", "canon"), m2 |-> Url("u2")])}

\* ------------------------------------------------------------------ bindings
MCInitDocs == CASE Fam = "R" -> PathGraphs [] Fam = "V" -> PathGraphsV [] Fam = "U" -> {U0} [] OTHER -> {S0}
MCNetDocs(d) == IF Fam = "U" THEN UNet(d) ELSE {}
QForms == {"canon", "pct", "frag"} \cup BadForms
MCResolveQueries ==
    CASE Fam = "R" -> {[d |-> "A", t |-> "t1", f |-> "canon", max |-> m] : m \in Depths}
                      \cup {[d |-> "A", t |-> "t1", f |-> f, max |-> DefaultDepth] : f \in QForms}
      [] Fam = "U" -> {[d |-> d, t |-> "t1", f |-> "canon", max |-> m] : d \in {"A", "C"}, m \in Depths}
      [] Fam = "S" -> {[d |-> d, t |-> "t1", f |-> "canon", max |-> DefaultDepth] : d \in {"A", "B"}}
      [] OTHER -> {}
VEnds == {Url("u1")} \cup {Ref(sl[1], sl[2], "canon") : sl \in Slots}
         \cup {Ref("A", "t1", f) : f \in {"pct", "frag"} \cup BadForms}
         \cup {Ref("A", "t9", "canon"), Ref("N", "t1", "canon"), Ref("D", "t1", "canon"), Ref("E", "t1", "canon")}
         \cup {Map([m1 |-> Url("u1")]), Map([m1 |-> Ref("A", "t1", "canon")]), Map([m1 |-> Url("u1"), m2 |-> Ref("A", "t1", "pct")]),
               Map([m1 |-> Ref("A", "t9", "canon"), m2 |-> Ref("A", "t1", "badpath")]),
               Map([m1 |-> Ref("B", "t1", "canon"), m2 |-> Ref("N", "t1", "canon")]),
               Map([m1 |-> Ref("A", "tn", "canon")]), Map([m1 |-> Ref("C", "tn", "canon"), m2 |-> Ref("E", "t1", "canon")])}
MCAddChoices ==
    CASE Fam = "V" -> {[d |-> d, t |-> "tn", e |-> e] : d \in {"A", "C"}, e \in VEnds}
                      \cup {[d |-> d, t |-> "tn", e |-> e] : d \in {"D", "N"}, e \in {Url("u1"), Map([m1 |-> Url("u1")])}}
      [] Fam = "S" -> {[d |-> d, t |-> t, e |-> e] : d \in {"A", "B"}, t \in {"t1", "t2"}, e \in SEnds}
      [] OTHER -> {}
MCDeleteChoices ==
    CASE Fam = "V" -> {[d |-> sl[1], t |-> sl[2]] : sl \in Slots} \cup {[d |-> d, t |-> "t1"] : d \in {"D", "N"}}
      [] Fam = "S" -> {[d |-> d, t |-> t] : d \in {"A", "B"}, t \in {"t1", "t2"}}
      [] OTHER -> {}
MCCompoundQueries ==
    CASE Fam = "V" -> {[d |-> "A", ct |-> "t1", n |-> n, rr |-> b] : n \in {"m1", "m2", "m3", "mx"}, b \in BOOLEAN}
                      \cup {[d |-> d, ct |-> "t1", n |-> "m1", rr |-> TRUE] : d \in {"D", "N"}}
      [] Fam = "S" -> {[d |-> d, ct |-> "t1", n |-> "m1", rr |-> b] : d \in {"A", "B"}, b \in BOOLEAN}
      [] OTHER -> {}

\* replayable behaviours of family S: one operation at a time (the driver is sequential)
Sequential == /\ rs.pc = "run" => rs' # rs
              /\ (\E p \in Procs : ops[p].pc = "checked") => ops' # ops

\* ------------------------------------------------------------------ printers
DocsJ(V) == [d \in DIDs |-> DocJ(V[d])]
Quiet == rs.pc # "run" /\ \A p \in Procs : ops[p].pc # "checked"
\* R: one line per graph with the expectation for every query
EmitR == (Hist /\ Fam = "R" /\ nops = 0) =>
    PrintT(ToJson([fam |-> "R", docs |-> DocsJ(docs),
                   exp |-> {LET r == ResolveQ(docs, q) IN
                            [f |-> q.f, max |-> q.max, v |-> r.v, at |-> IF r.v = "ok" THEN <<r.d, r.t>> ELSE <<>>,
                             reads |-> Reads(docs, q.d, QueryType(q.t, q.f), 0, q.max, {})] : q \in ResolveQueries}]))
\* U, V, S: one witness behaviour per distinct terminal state
Emit == (Hist /\ Fam # "R" /\ nops = MaxOps /\ Quiet) =>
    PrintT(ToJson([fam |-> Fam, docs |-> DocsJ(docs), hist |-> hist,
                   unres |-> Unresolvable(docs), broken |-> broken]))
=============================================================================
