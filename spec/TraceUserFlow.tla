--------------------------- MODULE TraceUserFlow ---------------------------
(***************************************************************************)
(* Trace validation: executions of the REAL handlers (two in-process nodes *)
(* behind recording fronts, scripted browsers, observed state stores) must *)
(* be behaviours of UserFlow.tla.  One event per step of the client        *)
(* application / browser / attacker = one handler of the model, with its   *)
(* arguments, the class of the answer and the projection of the state      *)
(* stores of BOTH nodes onto the flows (which redirect tokens, client      *)
(* states, request objects, server states + fulfilled presentations,       *)
(* nonces, codes, tokens, pick-up entries are alive; what every browser    *)
(* session's wallet holds).  The answer class and the projection must      *)
(* EQUAL what the handler operator of the model yields.                    *)
(* Traces are concatenated; a "reset" event starts the next one.           *)
(***************************************************************************)
EXTENDS MCUserFlow, IOUtils

TraceLog == ndJsonDeserialize(IOEnv.VERIF_TRACE)
VARIABLE l
tvars == <<vars, l>>

Ev == TraceLog[l]
IsEvent(e) == l <= Len(TraceLog) /\ Ev.ev = e /\ l' = l + 1
Rng(s) == {s[i] : i \in 1..Len(s)}
LegName(f, lg) == f \o "/" \o lg

TReset == /\ IsEvent("reset")
          /\ st' = InitState /\ last' = [E0 EXCEPT !.a = "reset"] /\ UNCHANGED <<nsteps, natk, nticks, hist>>

Result ==
    CASE Ev.a = "Start" -> HStart(st, Ev.f)
      [] Ev.a = "Land" -> HLand(st, Ev.b, Ev.tn, Ev.f)
      [] Ev.a = "AuthV" -> HAuthV(st, Ev.v, Ev.cid, Ev.r)
      [] Ev.a = "AuthW" -> HAuthW(st, Ev.b, Ev.tn, Ev.r, Ev.ck, Ev.drop)
      [] Ev.a = "Callback" -> HCallback(st, Ev.b, Ev.tn, Ev.c, Ev.s)
      [] Ev.a = "Retrieve" -> HRetrieve(st, Ev.f)
      [] Ev.a = "FetchA" -> HFetchA(st, Ev.tn, Ev.r)
      [] Ev.a = "FetchB" -> HFetchB(st, Ev.v, Ev.r, Ev.leg, Ev.m)
      [] Ev.a = "Post" -> HPost(st, Ev.v, Ev.p, Ev.leg, Ev.s)
      [] Ev.a = "TokenGuess" -> R(HToken(st, Ev.c, None, Ev.cid).s, "refused")
      [] Ev.a = "Forged" -> R(st, "error-page")
      [] Ev.a = "Tick" -> HTick(st, Ev.d)

\* the state stores of the two real nodes show exactly what the model holds
ProjMatch(s, p) ==
    /\ Rng(p.redir) = s.redir /\ Rng(p.cst) = s.cst /\ Rng(p.roA) = s.roA /\ Rng(p.sst) = s.sst
    /\ Rng(p.code) = s.code /\ Rng(p.stok) = s.stok
    /\ Rng(p.roB) = {LegName(x[1], x[2]) : x \in s.roB} /\ Rng(p.non) = {LegName(x[1], x[2]) : x \in s.non}
    /\ \A f \in Flows : p.pend[f] = s.pend[f]
    /\ \A f \in s.sst : Rng(p.ful[f]) = s.ful[f]
    /\ \A b \in Browsers, t \in Tenants : p.wal[LegName(b, t)] = s.wal[b][t]

TStep == /\ IsEvent("step")
         /\ LET res == Result IN
            /\ res.out = Ev.out
            /\ ProjMatch(res.s, Ev.proj)
            /\ st' = res.s
            /\ last' = [E0 EXCEPT !.a = Ev.a, !.b = Ev.b, !.tn = Ev.tn, !.f = Ev.f, !.r = Ev.r, !.c = Ev.c, !.s = Ev.s, !.p = Ev.p, !.out = Ev.out]
         /\ UNCHANGED <<nsteps, natk, nticks, hist>>

TraceNext == TReset \/ TStep
TraceInit == Init /\ l = 1 /\ TLCSet(1, 1)
TraceSpec == TraceInit /\ [][TraceNext]_tvars

\* properties that must also hold on every step of a real execution
TOthersUntouched == [][(last'.a # "Tick" /\ last'.a # "reset") => \A g \in Flows \ Named(last') : FlowView(st', g) = FlowView(st, g)]_tvars
TNoResurrection == [][last'.a # "reset" => (\A f \in Flows : (st.pend[f] = "gone" => st'.pend[f] = "gone") /\ st.deliv[f] <= st'.deliv[f])]_tvars

Progress == TLCSet(1, IF l > TLCGet(1) THEN l ELSE TLCGet(1))
TraceAccepted ==
    \/ TLCGet(1) = Len(TraceLog) + 1
    \/ Print(<<"TRACE-REJECTED-AT", TLCGet(1), TraceLog[TLCGet(1)]>>, FALSE)
=============================================================================
