------------------------------ MODULE MCPkiCrl ------------------------------
(* Concrete universe (mirrored 1:1 by harness/drivers/pkicrl: same names, real X.509 certificates, CRLs and JWS      *)
(* denylists), behaviour generation and catalogue export for PkiCrl.tla                                              *)
EXTENDS PkiCrl, Json

CONSTANTS CrlIds, DlIds, InitIds, InitDlId, ChainIds

\* R: root (no distribution point); CA1, CA2: intermediates whose revocation is published by the root at eR; CA2 expires
\* after clock value 2; X: a CA that is NOT in the trust store.
\* L1, L2: leaves of CA1 (e1);  K1: leaf of CA1 with TWO distribution points (e1 and the mirror e1b);  M1: leaf of CA2 (e2,
\* same serial number as L1);  U1: leaf of X with its own endpoint;  U2: leaf of X that names CA1's endpoint;  N1: no endpoint
AllIssuer == [R |-> "R", CA1 |-> "R", CA2 |-> "R", X |-> "X", L1 |-> "CA1", L2 |-> "CA1", K1 |-> "CA1", M1 |-> "CA2",
              U1 |-> "X", U2 |-> "X", N1 |-> "CA1"]
AllDPs == [R |-> <<>>, CA1 |-> <<"eR">>, CA2 |-> <<"eR">>, X |-> <<>>, L1 |-> <<"e1">>, L2 |-> <<"e1">>, K1 |-> <<"e1", "e1b">>,
           M1 |-> <<"e2">>, U1 |-> <<"eX">>, U2 |-> <<"e1">>, N1 |-> <<>>]
AllEpIssuer == [eR |-> "R", e1 |-> "CA1", e1b |-> "CA1", e2 |-> "CA2", eX |-> "X"]
AllNotAfter == [R |-> 99, CA1 |-> 99, CA2 |-> 2, X |-> 99]
MCIssuerOf(c) == AllIssuer[c]
MCDPs(c) == AllDPs[c]
MCEpIssuer(e) == AllEpIssuer[e]
MCNotAfter(c) == AllNotAfter[c]

C(id, kind, iss, num, nxt, rev) == [id |-> id, kind |-> kind, iss |-> iss, num |-> num, nxt |-> nxt, rev |-> rev]
\* kind good + iss = the endpoint's CA: a list that verifies.  "badsig": names the right issuer, signature does not verify
\* (highest number, nothing revoked: what an attacker would serve).  A "good" list of ANOTHER issuer: A.wi.  "fail": no list
\* at all (transport error, HTTP error page, garbage, truncated DER - the driver rotates through them).
AllCrl == [
    eR  |-> {C("R.1", "good", "R", 1, 2, {}), C("R.2", "good", "R", 2, 9, {"CA1"}), C("R.bad", "badsig", "R", 9, 9, {}),
             C("R.fail", "fail", "-", 0, 0, {})},
    e1  |-> {C("A.1", "good", "CA1", 1, 2, {}), C("A.2", "good", "CA1", 2, 3, {"L1"}), C("A.3", "good", "CA1", 3, 9, {"L1", "K1"}),
             C("A.bad", "badsig", "CA1", 9, 9, {}), C("A.wi", "good", "CA2", 5, 9, {}), C("A.fail", "fail", "-", 0, 0, {})},
    e1b |-> {C("B.1", "good", "CA1", 1, 2, {}), C("B.3", "good", "CA1", 3, 9, {"L1", "K1"}), C("B.fail", "fail", "-", 0, 0, {})},
    e2  |-> {C("C.1", "good", "CA2", 1, 9, {}), C("C.2", "good", "CA2", 2, 9, {"M1"}), C("C.fail", "fail", "-", 0, 0, {})},
    eX  |-> {C("X.fail", "fail", "-", 0, 0, {})} ]
D(id, kind, ban) == [id |-> id, kind |-> kind, ban |-> ban]
AllDl == {D("d0", "good", {}), D("d1", "good", {"L1"}), D("dca", "good", {"CA1"}), D("d12", "good", {"L1", "L2"}), D("dbad", "badsig", {}), D("dfail", "fail", {})}

\* the chains callers validate (leaf .. root); "x" = leaf only (connection manager, TLS offloading), "x3" = full chain
ChainOf(id) == CASE id = "L1" -> <<"L1">> [] id = "L13" -> <<"L1", "CA1", "R">> [] id = "L2" -> <<"L2">> [] id = "L23" -> <<"L2", "CA1", "R">>
                 [] id = "K1" -> <<"K1">> [] id = "K13" -> <<"K1", "CA1", "R">> [] id = "M1" -> <<"M1">> [] id = "M13" -> <<"M1", "CA2", "R">>
                 [] id = "U1" -> <<"U1">> [] id = "U2" -> <<"U2">> [] id = "U22" -> <<"U2", "X">> [] id = "N1" -> <<"N1">> [] id = "N13" -> <<"N1", "CA1", "R">>
                 [] id = "CA12" -> <<"CA1", "R">>
MCChains == {ChainOf(id) : id \in ChainIds}
MCCrlCat(e) == {o \in AllCrl[e] : o.id \in CrlIds}
MCDlCat == {o \in AllDl : o.id \in DlIds}
MCInitSrv(e) == CHOOSE o \in AllCrl[e] : o.id \in InitIds
MCInitDl == CHOOSE o \in AllDl : o.id = InitDlId

\* the properties rely on: per endpoint, the lists that verify are numbered, later numbers revoke at least as much and
\* expire no earlier (a CA does not un-revoke)
ASSUME \A e \in DOMAIN AllCrl : \A a, b \in AllCrl[e] :
          (Genuine(a, AllEpIssuer[e]) /\ Genuine(b, AllEpIssuer[e]) /\ a.num <= b.num) =>
              (a.rev \subseteq b.rev /\ a.nxt <= b.nxt /\ (a.num = b.num => a = b))
ASSUME \A e \in Endpoints : \E o \in AllCrl[e] : o.id \in InitIds /\ o.id \in CrlIds
ASSUME PrintT(ToJson([catalogue |-> [crl |-> AllCrl, dl |-> AllDl, issuer |-> AllIssuer, dps |-> AllDPs]]))

Quiescent == (\A t \in Vals : val[t].pc = "idle") /\ ~syn.run
Bad == ~NeverAcceptRevoked \/ ~NeverAcceptBanned \/ ~NoRollback \/ ~HardfailSound \/ ~SoftfailExact \/ ~UnknownIssuerRejected \/ ~StopsAtRevoked
\* behaviour generation (Hist = TRUE): one witness per distinct state in which a property the code lacks is violated, one
\* per distinct quiescent end state, random walks of a fixed length
EmitBad == (Hist /\ Bad) => PrintT(ToJson(hist))
Emit == (Hist /\ Quiescent /\ vcount = MaxVal /\ env = MaxEnv) => PrintT(ToJson(hist))
SimLen == 30
EmitSim == (Hist /\ Len(hist) = SimLen) => PrintT(ToJson(hist))
HistBound == Len(hist) <= 60
=============================================================================
