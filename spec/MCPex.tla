------------------------------ MODULE MCPex ------------------------------
(* Concrete universes (credentials, filters, requirement shapes, wallets) for Pex.tla and the case printer.
   Families:  filters  1 descriptor, every filter kind x every value kind x both credential formats
              format   definition-level x descriptor-level format designations
              reqs     <=3 descriptors in groups x every submission requirement shape (flat, nested one and two levels)
                       x wallets of <=4 credentials (match / shared match / decoy, both formats)
              forge    small definitions x wallets x every envelope shape x every mutation of the built submission
              paths    1 descriptor whose field lists SEVERAL paths (f|g, g|f, h|g|f, type|g) x filter kinds x optional
                       x credentials carrying every pair of values at f and g: the first, a later, several or none of
                       the paths select a value, and the value passes or fails the filter *)
EXTENDS Pex, Json

CONSTANT Tier       \* "quick" | "thorough": size of the reqs family

\* ------------------------------------------------------------ regular expressions (checked by pex.py)
Strs == {"nurse", "doctor", "nurse-x", "x", "y", "r1", "r2", "r3", "zzz", "VerifiableCredential", "AlphaCredential", "BetaCredential"}
Pats == {"^nurse$", "^(nurse)-.*$", "^nur", "^(nur)(se)$", "^Alpha", "^Zeta"}
NoM == [m |-> "no", cap |-> ""]
MCPatRes(p, s) ==
    CASE p = "^nurse$"      -> IF s = "nurse" THEN [m |-> "whole", cap |-> "nurse"] ELSE NoM
      [] p = "^(nurse)-.*$" -> IF s = "nurse-x" THEN [m |-> "group", cap |-> "nurse"] ELSE NoM
      [] p = "^nur"         -> IF s \in {"nurse", "nurse-x"} THEN [m |-> "whole", cap |-> "nur"] ELSE NoM
      [] p = "^(nur)(se)$"  -> IF s = "nurse" THEN [m |-> "multi", cap |-> ""] ELSE NoM
      [] p = "^Alpha"       -> IF s = "AlphaCredential" THEN [m |-> "whole", cap |-> "Alpha"] ELSE NoM
      [] OTHER              -> NoM
PatTable == {[p |-> p, s |-> s, m |-> MCPatRes(p, s).m, cap |-> MCPatRes(p, s).cap] : p \in Pats, s \in Strs}

\* ------------------------------------------------------------ builders
Cred(nm, f, ty, vf, vg) == [name |-> nm, cid |-> nm, fmt |-> f, typ |-> ty, f |-> vf, g |-> vg]
Flt(t, c, e, p) == [type |-> t, const |-> c, enum |-> e, pat |-> p]
FldP(ps, fl, o, i) == [path |-> ps, flt |-> fl, opt |-> o, id |-> i]      \* ps: the field's paths, in order
Fld(p, fl, o, i) == FldP(<<p>>, fl, o, i)
Desc(i, fs, f, g) == [id |-> i, fields |-> fs, fmt |-> f, grp |-> g]
Def(f, ds, rs) == [fmt |-> f, ds |-> ds, reqs |-> rs]
Leaf_(rule, c, mn, mx, g) == [rule |-> rule, count |-> c, min |-> mn, max |-> mx, from |-> g, nested |-> <<>>]
Node_(sh, ch) == [rule |-> sh.rule, count |-> sh.count, min |-> sh.min, max |-> sh.max, from |-> "", nested |-> ch]
Shp(rule, c, mn, mx) == [rule |-> rule, count |-> c, min |-> mn, max |-> mx]
From(sh, g) == Leaf_(sh.rule, sh.count, sh.min, sh.max, g)

MCDecoy == Cred("decoyvp", "ldp", "DecoyCredential", S("zzz"), Absent)

\* ------------------------------------------------------------ family: filters
Vals == << S("nurse"), S("doctor"), S("nurse-x"), N(7), B(TRUE), A(<<S("nurse"), S("x")>>), A(<<S("doctor")>>),
           A(<<N(1), N(2)>>), A(<<>>), A(<<S("nurse-x"), N(7)>>), Absent >>
CredF(i, f) == Cred("v" \o ToString(i) \o f, f, "AlphaCredential", Vals[i], S("x"))
TypeOnly(t) == Flt(t, <<>>, <<>>, <<>>)
FiltersF == { TypeOnly("string"), TypeOnly("number"), TypeOnly("boolean"), TypeOnly("array"),
              Flt("string", <<"nurse">>, <<>>, <<>>), Flt("string", <<>>, <<"nurse", "doctor">>, <<>>),
              Flt("string", <<>>, <<>>, <<"^nurse$">>), Flt("string", <<>>, <<>>, <<"^(nurse)-.*$">>),
              Flt("string", <<>>, <<>>, <<"^nur">>), Flt("string", <<>>, <<>>, <<"^(nur)(se)$">>),
              Flt("number", <<>>, <<>>, <<"^nurse$">>), Flt("string", <<"nurse">>, <<>>, <<"^nur">>) }
FiltersType == { TypeOnly("string"), TypeOnly("array"), TypeOnly("number"), Flt("string", <<"AlphaCredential">>, <<>>, <<>>),
                 Flt("string", <<>>, <<"AlphaCredential", "x">>, <<>>), Flt("string", <<>>, <<>>, <<"^Alpha">>),
                 Flt("string", <<>>, <<>>, <<"^Zeta">>) }
Def1(fs) == Def("none", <<Desc("d1", fs, "none", {})>>, <<>>)
DefsFilters ==
    {Def1(<<Fld("f", <<fl>>, o, "d1_f")>>) : fl \in FiltersF, o \in BOOLEAN}
    \cup {Def1(<<Fld("f", <<>>, o, "d1_f")>>) : o \in BOOLEAN}
    \cup {Def1(<<Fld("type", <<fl>>, FALSE, "d1_type")>>) : fl \in FiltersType}
    \cup {Def1(<<Fld("g", <<Flt("string", <<"y">>, <<>>, <<>>)>>, FALSE, ""), Fld("f", <<Flt("string", <<>>, <<>>, <<"^nurse$">>)>>, FALSE, "d1_f")>>)}
    \cup {Def1(<<Fld("f", <<fl>>, FALSE, "d1_f"), Fld("g", <<Flt("string", <<"x">>, <<>>, <<>>)>>, FALSE, "d1_g")>>) :
             fl \in {TypeOnly("string"), Flt("string", <<"nurse">>, <<>>, <<>>), Flt("string", <<>>, <<>>, <<"^nurse$">>)}}
WalletsFilters ==
    {<<CredF(i, f)>> : i \in 1..Len(Vals), f \in {"ldp", "jwt"}}
    \cup {<<Cred("beta", "ldp", "BetaCredential", S("nurse"), S("x"))>>}
    \cup {<<CredF(i, "ldp"), CredF(j, "ldp")>> : <<i, j>> \in {x \in (1..Len(Vals)) \X (1..Len(Vals)) : x[1] # x[2]}}

\* ------------------------------------------------------------ family: format
Fmts == {"none", "ldp", "jwt", "both", "ldpx", "jwtx"}
ConstF(v, i) == <<Fld("f", <<Flt("string", <<v>>, <<>>, <<>>)>>, FALSE, i)>>
DefsFormat == {Def(a, <<Desc("d1", ConstF("r1", "d1_f"), b, {})>>, <<>>) : a \in Fmts, b \in Fmts}
C1 == Cred("c1", "ldp", "AlphaCredential", S("r1"), Absent)
C1j == Cred("c1j", "jwt", "AlphaCredential", S("r1"), Absent)
C2 == Cred("c2", "jwt", "BetaCredential", S("r2"), Absent)
C3 == Cred("c3", "ldp", "AlphaCredential", S("r3"), Absent)
C12 == Cred("c12", "ldp", "AlphaCredential", A(<<S("r1"), S("r2")>>), Absent)
C23 == Cred("c23", "jwt", "BetaCredential", A(<<S("r2"), S("r3")>>), Absent)
Cx == Cred("cx", "ldp", "AlphaCredential", S("zzz"), Absent)
\* credentials of the WALLET that carry the id of c1 but other claims
C2s == [Cred("c2s", "jwt", "BetaCredential", S("r2"), Absent) EXCEPT !.cid = "c1"]
Cxs == [Cred("cxs", "ldp", "AlphaCredential", S("zzz"), Absent) EXCEPT !.cid = "c1"]
WalletsFormat == {<<C1>>, <<C1j>>, <<C1, C1j>>, <<C1j, C1>>}

\* ------------------------------------------------------------ family: paths
\* the claim may live at more than one place of ONE credential (subject's own identifier vs the organisation's, ...)
PathLists == IF Tier = "quick" THEN {<<"f", "g">>, <<"g", "f">>, <<"type", "g">>}
             ELSE {<<"f", "g">>, <<"g", "f">>, <<"h", "g", "f">>, <<"type", "g">>, <<"f", "type">>}
FiltersP == {<<Flt("string", <<"nurse">>, <<>>, <<>>)>>, <<Flt("string", <<>>, <<>>, <<"^(nurse)-.*$">>)>>, <<TypeOnly("number")>>,
             <<Flt("string", <<>>, <<>>, <<"^nur">>)>>, <<>>}
            \cup (IF Tier = "quick" THEN {} ELSE {<<Flt("string", <<>>, <<"nurse", "doctor">>, <<>>)>>, <<Flt("string", <<>>, <<>>, <<"^(nur)(se)$">>)>>,
                                                  <<TypeOnly("string")>>})
DefsPaths == {Def1(<<FldP(ps, fl, o, "d1_f")>>) : ps \in PathLists, fl \in FiltersP, o \in BOOLEAN}
PVals == << S("nurse"), S("doctor"), S("nurse-x"), N(7), Absent >>
CredP(i, j, f) == Cred("p" \o ToString(i) \o ToString(j) \o f, f, "AlphaCredential", PVals[i], PVals[j])
PIdx == 1..Len(PVals)
WalletsPaths ==
    {<<CredP(i, j, "ldp")>> : i \in PIdx, j \in PIdx}
    \cup {<<CredP(x[1], x[2], "jwt")>> : x \in (IF Tier = "quick" THEN {<<2, 1>>, <<1, 2>>, <<4, 3>>, <<2, 5>>, <<5, 4>>} ELSE PIdx \X PIdx)}
    \* a near miss in front of the credential that satisfies the field through its second path
    \cup {<<CredP(2, 2, "ldp"), CredP(2, 1, "ldp")>>, <<CredP(2, 3, "ldp"), CredP(4, 2, "ldp"), CredP(1, 2, "ldp")>>, <<CredP(2, 4, "jwt"), CredP(5, 5, "ldp")>>}

\* ------------------------------------------------------------ family: reqs
D(i, g) == Desc("d" \o ToString(i), ConstF("r" \o ToString(i), "d" \o ToString(i) \o "_f"), "none", g)
Ds(gs) == [i \in 1..Len(gs) |-> D(i, gs[i])]
Opt(T) == {{}} \cup {{x} : x \in T}
All == Shp("all", {}, {}, {})
PickShapes == {Shp("pick", {n}, {}, {}) : n \in 1..3} \cup {Shp("pick", {}, mn, mx) : mn \in Opt(0..2), mx \in Opt(0..3)}
LeafShapes == {All} \cup PickShapes                                                   \* 24: every schema-valid shape
LS8 == {All, Shp("pick", {1}, {}, {}), Shp("pick", {2}, {}, {}), Shp("pick", {}, {1}, {}), Shp("pick", {}, {}, {1}),
        Shp("pick", {}, {}, {}), Shp("pick", {}, {1}, {2}), Shp("pick", {}, {0}, {1})}
NS8 == {All, Shp("pick", {1}, {}, {}), Shp("pick", {2}, {}, {}), Shp("pick", {}, {1}, {}), Shp("pick", {}, {}, {1}),
        Shp("pick", {}, {}, {}), Shp("pick", {}, {1}, {2}), Shp("pick", {}, {}, {0})}
LS5 == {All, Shp("pick", {1}, {}, {}), Shp("pick", {}, {}, {1}), Shp("pick", {}, {0}, {1}), Shp("pick", {}, {1}, {})}
NS4 == {All, Shp("pick", {1}, {}, {}), Shp("pick", {}, {1}, {2}), Shp("pick", {}, {}, {1})}
LS3 == IF Tier = "quick" THEN {All, Shp("pick", {}, {}, {1})} ELSE {All, Shp("pick", {1}, {}, {}), Shp("pick", {}, {}, {1})}
\* the quick tier uses fewer leaf shapes below a second requirement / a nested requirement (T1 always has all 24)
L2 == IF Tier = "quick" THEN LS5 ELSE LS8
L3 == IF Tier = "quick" THEN {All, Shp("pick", {1}, {}, {}), Shp("pick", {}, {}, {1})} ELSE LS5
gA == {"A"}  gB == {"B"}  gC == {"C"}
DefsReqs ==
    \* T0 no requirements
    {Def("none", Ds([i \in 1..n |-> {}]), <<>>) : n \in 1..3}
    \* T1 one requirement over one group
    \cup {Def("none", Ds([i \in 1..n |-> gA]), <<From(sh, "A")>>) : n \in 1..3, sh \in LeafShapes}
    \* T2 two requirements over two groups
    \cup {Def("none", Ds(gs), <<From(s1, "A"), From(s2, "B")>>) : gs \in {<<gA, gB>>, <<gA, gA, gB>>, <<gA, gB, gB>>}, s1 \in L2, s2 \in L2}
    \* T3 nested, one level
    \cup {Def("none", Ds(gs), <<Node_(nd, <<From(s1, "A"), From(s2, "B")>>)>>) : gs \in {<<gA, gB>>, <<gA, gA, gB>>}, nd \in NS8, s1 \in L3, s2 \in L3}
    \* T4 nested, two levels
    \cup {Def("none", Ds(<<gA, gB, gC>>), <<Node_(n1, <<Node_(n2, <<From(s1, "A"), From(s2, "B")>>), From(s3, "C")>>)>>) :
              n1 \in NS4, n2 \in NS4, s1 \in LS3, s2 \in LS3, s3 \in LS3}
    \* T5 descriptor in two groups (only `all` rules: no upper bounds to attribute), unreferenced group
    \cup {Def("none", Ds(<<gA, {"A", "B"}, gB>>), <<From(All, "A"), From(All, "B")>>), Def("none", Ds(<<gA, {"A", "B"}, gB>>), <<From(All, "A")>>)}
ReqCreds == IF Tier = "quick" THEN <<C1, C2, C3, C12, Cx>> ELSE <<C1, C2, C3, C12, C23, Cx>>
MaxWallet == IF Tier = "quick" THEN 3 ELSE 4
SeqOf(T) == LET idx == SelectSeq([i \in 1..Len(ReqCreds) |-> i], LAMBDA i : i \in T) IN [k \in 1..Len(idx) |-> ReqCreds[idx[k]]]
Rev(s) == [k \in 1..Len(s) |-> s[Len(s) + 1 - k]]
WalletsReqs == LET base == {SeqOf(T) : T \in {T \in SUBSET (1..Len(ReqCreds)) : Cardinality(T) <= MaxWallet}} IN
               IF Tier = "quick" THEN base ELSE base \cup {Rev(s) : s \in base}

\* ------------------------------------------------------------ family: forge
DefsForge == {Def("none", Ds([i \in 1..n |-> {}]), <<>>) : n \in 1..3}
             \cup {Def("none", Ds(<<gA, gA>>), <<From(Shp("pick", {1}, {}, {}), "A")>>),
                   Def("none", Ds(<<gA, gA, gB>>), <<From(Shp("pick", {}, {1}, {2}), "A"), From(All, "B")>>)}
WalletsForge == {<<C1>>, <<C1j>>, <<C1, C2>>, <<C2, C1>>, <<C12>>, <<C1, C2, C3>>, <<C3, C2, C1j>>, <<Cx, C1, C3>>,
                 <<C1, C2s>>, <<C2s, C1, C3>>, <<Cxs, C1>>}

\* family mini: one definition, one wallet -- vacuity guard (state graph dumped, every action must label an edge)
MCDefsOf(f) == CASE f = "mini" -> {Def("none", Ds(<<{}, {}>>), <<>>)} [] f = "filters" -> DefsFilters [] f = "format" -> DefsFormat [] f = "reqs" -> DefsReqs [] f = "forge" -> DefsForge [] f = "paths" -> DefsPaths
MCWalletsOf(f) == CASE f = "mini" -> {<<C1, C2>>} [] f = "filters" -> WalletsFilters [] f = "format" -> WalletsFormat [] f = "reqs" -> WalletsReqs [] f = "forge" -> WalletsForge [] f = "paths" -> WalletsPaths
AllShapes == {"ldp", "jwt", "ldp-arr", "jwt-arr", "ldp-arr2", "jwt-arr2"}
MCShapesOf(f) == IF f = "forge" THEN AllShapes ELSE IF f = "mini" THEN {"ldp", "jwt-arr2"} ELSE {"ldp"}
AllMutKinds == {"drop", "empty", "permute", "forge-path", "subject", "bad-path", "dup-shadow", "dup-trail", "dup-same", "surplus",
                "wrong-format", "nested", "shape"}
MCMutKindsOf(f) == IF f \in {"forge", "mini"} THEN AllMutKinds ELSE {}
AllEnvKinds == {"plain", "same-id-back", "same-id-front", "same-id-fmt-back", "same-content-back", "same-content-front"}
MCEnvKindsOf(f) == IF f \in {"forge", "mini"} THEN AllEnvKinds ELSE {"plain"}
MCTamperMutKinds == {"forge-path", "permute", "dup-shadow", "dup-trail", "drop", "surplus"}
AllIncKinds == {"empty-vp", "empty-vp-jwt", "decoy-vp", "no-vp", "partial-vp"}
\* the big family presents the empty presentation in one format only (budget)
MCIncKindsOf(f) == IF f = "reqs" THEN AllIncKinds \ {"empty-vp-jwt"} ELSE IF f = "paths" THEN {"empty-vp", "decoy-vp"} ELSE AllIncKinds
\* incomplete envelopes explored as STATES by the model checker (the printed cases always carry MCIncKindsOf)
MCIncKindsModel(f) == IF f = "reqs" THEN {"empty-vp", "partial-vp"} ELSE IF f = "paths" THEN {"empty-vp", "decoy-vp"} ELSE AllIncKinds
\* hostile envelopes are explored in these shapes
MCTamperShapes == {"ldp", "jwt", "jwt-arr"}
\* envelope shapes the driver presents the wallet's own submission in
EmitShapes(f) == IF f = "forge" THEN <<>> ELSE <<"ldp", "jwt", "ldp-arr", "jwt-arr">>

\* ------------------------------------------------------------ case printer
Names(w, idx) == [k \in 1..Len(idx) |-> w[idx[k]].name]
PredOf(o) == [res |-> o.res, why |-> o.why, vcs |-> Names(wallet, o.vcs),
              map |-> [k \in 1..Len(o.map) |-> [id |-> def.ds[o.map[k].d].id, c |-> wallet[o.vcs[o.map[k].p]].name]]]
IdSet(Ms) == {{def.ds[i].id : i \in MM} : MM \in Ms}

\* deviation class the descriptive model predicts for the case ("none": the code is expected to behave)
FixedValid(dv) == LET o == MatchWallet(def, wallet, dv) IN o.res # "ok" \/ ValidSel(def, Mapped(o))
Class ==
    IF out.res = "panic" THEN out.why
    ELSE IF out.res = "ok" /\ ~ValidSel(def, Mapped(out)) THEN
        IF FixedValid([Dev EXCEPT !.med = TRUE]) THEN "shared-credential"
        ELSE IF FixedValid([Dev EXCEPT !.mbs = TRUE]) THEN
             (IF MatchWallet(def, wallet, [Dev EXCEPT !.mbs = TRUE]).res = "ok" THEN "pick-max-zero" ELSE "pick-min-gt-max")
        ELSE IF FixedValid([Dev EXCEPT !.med = TRUE, !.mbs = TRUE]) THEN "shared-credential"
        ELSE "unclassified"
    ELSE IF out.res = "ok" /\ CodeVerdict(def, BuildSub(def, out, wallet, "ldp", Dev), "ldp", VPs("ldp", PresentedCreds), Dev) # "accept"
         THEN "unstable-selection"
    ELSE "none"

SubsOf == UNION { LET pres == Tamper(PresentedCreds, x[2])
                      sb == SubFor(x[1], x[2])
                      vps == VPs(x[1], pres) IN
                  {[shape |-> x[1], ek |-> x[2], env |-> IF x[2] = "plain" THEN <<>> ELSE pres, mut |-> m.mut, entries |-> m.entries,
                    must |-> IF ~RefOK(def, m.entries, x[1], vps, Dev) THEN "reject" ELSE IF m.mut = "none" THEN "accept" ELSE "any",
                    pred |-> CodeVerdict(def, m.entries, x[1], vps, Dev)] :
                   m \in MutSet(sb, x[1], pres, DescIds, MutKindsFor(x[2]))} :
                  x \in {y \in MCShapesOf(fam) \X MCEnvKindsOf(fam) : EnvOK(y[1], y[2]) /\ (y[2] = "plain" \/ y[1] \in MCTamperShapes)} }

\* submissions over incomplete envelopes (every family, also when the wallet found nothing)
IncSubsOf == {[shape |-> IncShape(e), ek |-> e, env |-> IncEnv(e), mut |-> "incomplete", entries |-> IncSub(e),
               must |-> IF e = "no-vp" THEN (IF ValidSel(def, {}) THEN "any" ELSE "reject")
                        ELSE IF ~RefOK(def, IncSub(e), IncShape(e), VPs(IncShape(e), IncEnv(e)), Dev) THEN "reject" ELSE "accept",
               pred |-> CodeVerdict(def, IncSub(e), IncShape(e), VPs(IncShape(e), IncEnv(e)), Dev)] :
              e \in {x \in MCIncKindsOf(fam) : IncEnabled(x)}}

CaseRec ==
    [fam |-> fam, def |-> def, wallet |-> wallet, shapes |-> EmitShapes(fam),
     exp |-> [sat |-> [i \in 1..Len(def.ds) |-> [d |-> def.ds[i].id, cs |-> {wallet[j].name : j \in {j \in 1..Len(wallet) : RefSat(def, def.ds[i], wallet[j])}}]],
              dev |-> {[d |-> def.ds[i].id, c |-> wallet[j].name, why |-> "type-only-on-array"] :
                          <<i, j>> \in {x \in (1..Len(def.ds)) \X (1..Len(wallet)) :
                                         CodeSat(def, def.ds[x[1]], wallet[x[2]]) /\ ~RefSat(def, def.ds[x[1]], wallet[x[2]])}},
              valid |-> IdSet(ValidSets(def)),
              complete |-> CompleteExists(def, wallet),
              mustfind |-> MustFind(def, wallet),
              pred |-> PredOf(out),
              class |-> Class,
              extract |-> {[d |-> def.ds[x[1]].id, c |-> wallet[x[2]].name, fid |-> def.ds[x[1]].fields[x[3]].id,
                            adm |-> Adm(def.ds[x[1]].fields[x[3]], wallet[x[2]])] :
                              x \in {x \in (1..Len(def.ds)) \X (1..Len(wallet)) \X (1..2) :
                                      /\ x[3] <= Len(def.ds[x[1]].fields) /\ def.ds[x[1]].fields[x[3]].id # ""
                                      /\ RefSat(def, def.ds[x[1]], wallet[x[2]])}}],
     subs |-> (IF out.res = "ok" /\ MCMutKindsOf(fam) # {} THEN SubsOf ELSE {}) \cup IncSubsOf]

Emit == (phase = "matched") => PrintT(ToJson(CaseRec))
EmitTable == (phase = "start") => PrintT(ToJson([tbl |-> "pat", rows |-> PatTable]))
=============================================================================
