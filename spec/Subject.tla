------------------------------ MODULE Subject ------------------------------
(***************************************************************************)
(* C13: subject operations of vdr/didsubject.SqlManager change all DIDs of *)
(* a subject together or not at all.                                       *)
(*                                                                         *)
(* One action per critical section of SqlManager.transactionHelper /       *)
(* Rollback (manager.go), didweb.Manager and didnuts.Manager:              *)
(*   Tx1         first SQL transaction: new document version per DID +     *)
(*               one did_change_log row per DID                            *)
(*   CommitMethod(m)  MethodManager.Commit; did:web is a no-op, did:nuts   *)
(*               publishes on the network (may fail) -- ANY method order   *)
(*   Tx2         second SQL transaction: delete the log rows (keep) or     *)
(*               the versions (abandon, log rows cascade)                  *)
(*   Stop        the process stops after Tx1 / after a CommitMethod /      *)
(*               before Tx2                                                *)
(*   Tick        more than a minute passes                                 *)
(*   Sweep       SqlManager.Rollback                                       *)
(*                                                                         *)
(* Deviations of the current code from the property are named by boolean   *)
(* constants (TRUE = what the code does today, FALSE = prescriptive):      *)
(*   SweepAbortsOnUnpublishedCreate  didnuts IsCommitted returns the       *)
(*        ErrNotFound of a never published create; Rollback aborts its     *)
(*        whole SQL transaction on any error                        (F8)   *)
(*   AbandonKeepsDidRows   abandoning a create deletes the document        *)
(*        versions but not the rows of table did                    (F8b)  *)
(*   OpsBuildOnPending     an operation is accepted while the subject      *)
(*        still has change-log rows; it builds on the uncommitted version  *)
(*   UpdatesDeactivated    an update operation on a deactivated subject    *)
(*        reports success: did:nuts Commit silently publishes nothing      *)
(*        (prescriptive: it fails, the operation is abandoned for every    *)
(*        DID of the subject)                                       (F8d)  *)
(*   CheckOutsideTx        (not in the current code) the admission check   *)
(*        of an operation is a step of its own before the inserting        *)
(*        transaction: check-then-act between concurrent requests          *)
(*                                                                         *)
(* Requests run concurrently: Procs are the request goroutines; every      *)
(* action is one critical section (one SQL transaction, one Commit call)   *)
(* and all interleavings of the sections of two requests are explored.     *)
(***************************************************************************)
EXTENDS Naturals, Sequences, FiniteSets, TLC

CONSTANTS Subjects, Procs, MaxOps, MaxFaults, MaxTicks, MaxSweeps, Hist, WithTail,
          SweepAbortsOnUnpublishedCreate, AbandonKeepsDidRows, OpsBuildOnPending, UpdatesDeactivated,
          CheckOutsideTx

Methods == {"web", "nuts"}
Ops == {"create", "addSvc", "updSvc", "delSvc", "addKey", "deactivate"}

VARIABLES rows,       \* [Subjects -> SUBSET Nat]: generations of rows in table did (one row per method, inserted together)
          vers,       \* [Subjects -> [Methods -> SUBSET version records]]: table did_document_version
          log,        \* set of [tx, s, m, typ, op]: table did_change_log (op is a ghost field)
          pub,        \* [Subjects -> Seq(content)]: what the network / didstore has for the did:nuts DID
          pc,         \* [Procs -> the operation the request goroutine is running] (concurrent API requests)
          nops, faults, ticks, sweeps,
          swept,      \* TRUE iff a sweep ran that considered every pending log row (all were older than a minute)
          pubtx,      \* ghost: transaction ids whose did:nuts version went out on the network (or was found there by the sweep)
          abandoned,  \* ghost: transaction ids whose versions were deleted
          pubkeys,    \* ghost: keys ever published on the network
          retryOp,    \* ghost: [Subjects -> op]: last operation hit by an injected fault
          phase, todo,\* tail of a behaviour: forced Tick, forced Sweep, repeat of the failed operations
          hist

vars == <<rows, vers, log, pub, pc, nops, faults, ticks, sweeps, swept, pubtx, abandoned, pubkeys, retryOp, phase, todo, hist>>
ViewNoHist == <<rows, vers, log, pub, pc, nops, faults, ticks, sweeps, swept, pubtx, abandoned, pubkeys, retryOp, phase, todo>>

Idle == [ph |-> "idle"]
AllIdle == \A p \in Procs : pc[p] = Idle
Active == {p \in Procs : pc[p] # Idle}
Max(S) == CHOOSE x \in S : \A y \in S : y <= x
NextN(S) == IF S = {} THEN 0 ELSE Max({v.n : v \in S}) + 1
Latest(s, m) == CHOOSE v \in vers[s][m] : \A w \in vers[s][m] : w.n <= v.n
Content(v) == [keys |-> v.keys, svc |-> v.svc]
Deact(c) == c.keys = {}
Last(q) == q[Len(q)]
H(e) == IF Hist THEN Append(hist, e) ELSE hist

Init == /\ rows = [s \in Subjects |-> {}]
        /\ vers = [s \in Subjects |-> [m \in Methods |-> {}]]
        /\ log = {} /\ pub = [s \in Subjects |-> <<>>]
        /\ pc = [p \in Procs |-> Idle] /\ nops = 0 /\ faults = 0 /\ ticks = 0 /\ sweeps = 0 /\ swept = TRUE
        /\ pubtx = {} /\ abandoned = {} /\ pubkeys = {} /\ retryOp = [s \in Subjects |-> "none"]
        /\ phase = "run" /\ todo = {} /\ hist = <<>>

(* ---------------------------------------------------------------- Tx1 *)
HasDocs(s) == \A m \in Methods : vers[s][m] # {}
Pending(s) == \E l \in log : l.s = s

\* the operations the environment offers (finite universe: one service slot of type tA with endpoint a / a2)
EnvOK(op, s) ==
    IF op = "create" THEN TRUE
    ELSE IF rows[s] = {} THEN op = "addKey"
    ELSE IF ~HasDocs(s) THEN op \in {"addKey", "deactivate"}
    ELSE LET c == Latest(s, "web") IN
         CASE op = "addSvc" -> c.svc \in {"none", "a"}
           [] op = "updSvc" -> c.svc = "a"
           [] op = "delSvc" -> c.svc # "none"
           [] OTHER -> TRUE

\* what the first SQL transaction answers
Rejected(op, s) ==
    IF op = "create" THEN rows[s] # {}                                 \* ErrSubjectAlreadyExists
    ELSE \/ rows[s] = {}                                                \* ErrSubjectNotFound
         \/ (op # "deactivate" /\ ~HasDocs(s))                          \* Latest: record not found
         \/ (~OpsBuildOnPending /\ Pending(s))

\* next content of one DID; Same = the operation returns nil for this document (no new version)
Same == [keys |-> {}, svc |-> "same"]
Apply(op, c, tx) ==
    CASE op = "addSvc" -> IF c.svc = "a" THEN Same ELSE [c EXCEPT !.svc = "a"]
      [] op = "updSvc" -> [c EXCEPT !.svc = "a2"]
      [] op = "delSvc" -> [c EXCEPT !.svc = "none"]
      [] op = "addKey" -> [c EXCEPT !.keys = c.keys \cup {tx}]
      [] op = "deactivate" -> [keys |-> {}, svc |-> "none"]

TypOf(op) == IF op = "create" THEN "created" ELSE IF op = "deactivate" THEN "deactivated" ELSE "updated"

NewContent(op, s, m, tx) ==
    IF op = "create" THEN [keys |-> {tx}, svc |-> "none"]
    ELSE IF op = "deactivate" THEN [keys |-> {}, svc |-> "none"]
    ELSE Apply(op, Content(Latest(s, m)), tx)

\* CheckOutsideTx: the admission check is its own step (a query outside the inserting transaction); Tx1 then acts on
\* the verdict of that earlier moment (check-then-act).
Check(op, s, p) ==
    /\ CheckOutsideTx /\ pc[p] = Idle /\ phase = "run" /\ nops < MaxOps
    /\ nops' = nops + 1
    /\ pc' = [pc EXCEPT ![p] = [ph |-> "checked", s |-> s, op |-> op, tx |-> nops + 1, rej |-> Rejected(op, s)]]
    /\ hist' = H([a |-> "Check", p |-> p, op |-> op, s |-> s])
    /\ UNCHANGED <<rows, vers, log, pub, faults, ticks, sweeps, swept, pubtx, abandoned, pubkeys, retryOp, phase, todo>>

Tx1Core(op, s, p) ==
    /\ \/ /\ pc[p] = Idle /\ ~CheckOutsideTx
          /\ \/ (phase = "run" /\ nops < MaxOps /\ todo' = todo)
             \/ (phase = "swept" /\ AllIdle /\ s \in todo /\ retryOp[s] = op /\ todo' = todo \ {s})
          /\ nops' = nops + 1
       \/ /\ pc[p].ph = "checked" /\ pc[p].op = op /\ pc[p].s = s
          /\ UNCHANGED <<nops, todo>>
    /\ LET tx == IF pc[p] = Idle THEN nops + 1 ELSE pc[p].tx
           rejected == IF pc[p] = Idle THEN Rejected(op, s)
                       ELSE pc[p].rej \/ (op # "create" /\ op # "deactivate" /\ ~HasDocs(s)) IN
       IF rejected
       THEN /\ hist' = H([a |-> "Tx1", p |-> p, op |-> op, s |-> s, out |-> "reject"])
            /\ pc' = [pc EXCEPT ![p] = Idle]
            /\ UNCHANGED <<rows, vers, log, swept>>
       ELSE LET ch == {m \in Methods : NewContent(op, s, m, tx) # Same} IN
            IF ch = {}
            THEN /\ hist' = H([a |-> "Tx1", p |-> p, op |-> op, s |-> s, out |-> "noop"])
                 /\ pc' = [pc EXCEPT ![p] = Idle]
                 /\ UNCHANGED <<rows, vers, log, swept>>
            ELSE /\ rows' = IF op = "create" THEN [rows EXCEPT ![s] = rows[s] \cup {tx}] ELSE rows
                 /\ vers' = [vers EXCEPT ![s] = [m \in Methods |->
                        IF m \in ch
                        THEN LET c == NewContent(op, s, m, tx) IN
                             vers[s][m] \cup {[n |-> NextN(vers[s][m]), tx |-> tx, typ |-> TypOf(op),
                                               keys |-> c.keys, svc |-> c.svc, fresh |-> TRUE]}
                        ELSE vers[s][m]]]
                 /\ log' = log \cup {[tx |-> tx, s |-> s, m |-> m, typ |-> TypOf(op), op |-> op] : m \in ch}
                 /\ pc' = [pc EXCEPT ![p] = [ph |-> "commit", s |-> s, tx |-> tx, op |-> op, ch |-> ch, done |-> {},
                                             failed |-> FALSE, inj |-> FALSE]]
                 /\ swept' = FALSE
                 /\ hist' = H([a |-> "Tx1", p |-> p, op |-> op, s |-> s, out |-> "changed"])
    /\ UNCHANGED <<pub, faults, ticks, sweeps, pubtx, abandoned, pubkeys, retryOp, phase>>

Tx1(op, s, p) == (pc[p] = Idle => EnvOK(op, s)) /\ Tx1Core(op, s, p)

(* ------------------------------------------------------- CommitMethod *)
MyVersion(s, m, tx) == CHOOSE v \in vers[s][m] : v.tx = tx
CanInject == phase = "run" /\ faults < MaxFaults

\* outcomes of didnuts.Manager.Commit: <<result, publishes, injected>>
NutsOutcomes(typ, s) ==
    LET inj == IF CanInject THEN {<<"fail", FALSE, TRUE>>} ELSE {} IN
    CASE typ = "created" -> {<<"ok", TRUE, FALSE>>} \cup inj
      [] typ = "updated" ->
            IF pub[s] = <<>> THEN {<<"fail", FALSE, FALSE>>}             \* resolver: not found
            ELSE IF Deact(Last(pub[s]))
                 THEN IF UpdatesDeactivated THEN {<<"ok", FALSE, FALSE>>}   \* onUpdate: "won't update", returned nil
                                            ELSE {<<"fail", FALSE, FALSE>>} \* onUpdate: ErrDeactivated, the operation is abandoned
            ELSE {<<"ok", TRUE, FALSE>>} \cup inj
      [] typ = "deactivated" ->
            IF pub[s] = <<>> \/ Deact(Last(pub[s])) THEN {<<"fail", FALSE, FALSE>>}   \* Update: not found / ErrDeactivated
            ELSE {<<"ok", TRUE, FALSE>>} \cup inj

CommitMethod(p, m) ==
    /\ pc[p].ph = "commit" /\ ~pc[p].failed /\ m \in pc[p].ch \ pc[p].done
    /\ LET s == pc[p].s
           v == MyVersion(s, m, pc[p].tx)
           outs == IF m = "web" THEN {<<"ok", FALSE, FALSE>>} ELSE NutsOutcomes(v.typ, s) IN
       \E o \in outs :
          /\ pc' = [pc EXCEPT ![p].done = pc[p].done \cup {m}, ![p].failed = (o[1] = "fail"), ![p].inj = o[3]]
          /\ pub' = IF o[2] THEN [pub EXCEPT ![s] = Append(pub[s], Content(v))] ELSE pub
          /\ pubtx' = IF o[2] THEN pubtx \cup {pc[p].tx} ELSE pubtx
          /\ pubkeys' = IF o[2] THEN pubkeys \cup v.keys ELSE pubkeys
          /\ faults' = IF o[3] THEN faults + 1 ELSE faults
          /\ retryOp' = IF o[3] THEN [retryOp EXCEPT ![s] = pc[p].op] ELSE retryOp
          /\ hist' = H([a |-> "Commit", p |-> p, m |-> m, res |-> o[1], inj |-> o[3]])
    /\ UNCHANGED <<rows, vers, log, nops, ticks, sweeps, swept, abandoned, phase, todo>>

(* ---------------------------------------------------------------- Tx2 *)
DropTx(vs, tx) == [s \in Subjects |-> [m \in Methods |-> {v \in vs[s][m] : v.tx # tx}]]

Tx2(p) ==
    /\ pc[p].ph = "commit" /\ (pc[p].failed \/ pc[p].done = pc[p].ch)
    /\ IF pc[p].failed
       THEN /\ vers' = DropTx(vers, pc[p].tx)
            /\ log' = {l \in log : l.tx # pc[p].tx}
            /\ abandoned' = abandoned \cup {pc[p].tx}
            \* the rows of table did go with their last version (deleteDIDWithoutDocuments): an abandoned create, or, with
            \* OpsBuildOnPending, the abandoned operation that was built on a create which the sweep rolled back meanwhile
            /\ rows' = IF ~AbandonKeepsDidRows /\ \A m \in Methods : DropTx(vers, pc[p].tx)[pc[p].s][m] = {}
                        THEN [rows EXCEPT ![pc[p].s] = {}] ELSE rows
            /\ hist' = H([a |-> "Tx2", p |-> p, kind |-> "abandon"])
            /\ UNCHANGED retryOp
       ELSE /\ log' = {l \in log : l.tx # pc[p].tx}
            /\ hist' = H([a |-> "Tx2", p |-> p, kind |-> "keep"])
            \* the repetition of a failed operation succeeded: nothing left to repeat
            /\ retryOp' = IF retryOp[pc[p].s] = pc[p].op THEN [retryOp EXCEPT ![pc[p].s] = "none"] ELSE retryOp
            /\ UNCHANGED <<vers, abandoned, rows>>
    /\ pc' = [pc EXCEPT ![p] = Idle]
    /\ UNCHANGED <<pub, nops, faults, ticks, sweeps, swept, pubtx, pubkeys, phase, todo>>

(* --------------------------------------------------------------- Stop *)
\* the process stops (enumerated while exactly one request is in flight)
Stop ==
    /\ CanInject /\ \E p \in Procs : /\ Active = {p} /\ pc[p].ph = "commit"
                                      /\ retryOp' = [retryOp EXCEPT ![pc[p].s] = pc[p].op]
                                      /\ hist' = H([a |-> "Stop", p |-> p, after |-> Cardinality(pc[p].done)])
    /\ faults' = faults + 1
    /\ pc' = [p \in Procs |-> Idle]
    /\ UNCHANGED <<rows, vers, log, pub, nops, ticks, sweeps, swept, pubtx, abandoned, pubkeys, phase, todo>>

(* ------------------------------------------------------- Tick / Sweep *)
TickEffect == vers' = [s \in Subjects |-> [m \in Methods |-> {[v EXCEPT !.fresh = FALSE] : v \in vers[s][m]}]]

Tick == /\ AllIdle /\ phase = "run" /\ ticks < MaxTicks
        /\ TickEffect /\ ticks' = ticks + 1
        /\ hist' = H([a |-> "Tick"])
        /\ UNCHANGED <<rows, log, pub, pc, nops, faults, sweeps, swept, pubtx, abandoned, pubkeys, retryOp, phase, todo>>

TxOf(s) == {v.tx : v \in UNION {vers[s][m] : m \in Methods}}
Old(l) == ~MyVersion(l.s, l.m, l.tx).fresh
\* didnuts.Manager.IsCommitted: hash of the latest didstore document = hash of the version; error when there is none
NutsErr(l) == pub[l.s] = <<>>
NutsCommitted(l) == pub[l.s] # <<>> /\ Last(pub[l.s]) = Content(MyVersion(l.s, l.m, l.tx))

SweepEffect ==
    LET aged == {l \in log : Old(l)}
        txs == {l.tx : l \in aged}
        abort == SweepAbortsOnUnpublishedCreate /\ \E l \in aged : l.m = "nuts" /\ NutsErr(l)
        \* a transaction is rolled back iff one of its aged rows is not committed (did:web always is)
        bad == {t \in txs : \E l \in aged : l.tx = t /\ l.m = "nuts" /\ ~NutsCommitted(l)}
        keep(s, m) == {v \in vers[s][m] : ~\E l \in aged : l.tx \in bad /\ l.s = s /\ l.m = m /\ l.tx = v.tx}
        \* prescriptive: rolling back the last version of a DID also removes its row of table did (deleteDIDWithoutDocuments);
        \* that is a rolled back create, or, with OpsBuildOnPending, also the operations that were built on it
        gone == IF AbandonKeepsDidRows THEN {}
                ELSE {s \in Subjects : /\ \E l \in aged : l.tx \in bad /\ l.s = s
                                       /\ \A m \in Methods : keep(s, m) = {}} IN
    /\ swept' = (aged = log)
    /\ IF abort
       THEN /\ UNCHANGED <<vers, log, abandoned, rows, pub, pubtx>>
            /\ hist' = H([a |-> "Sweep", aborted |-> TRUE])
       ELSE \* only the versions named by the aged rows are deleted (rows of the same transaction are inserted together)
            /\ vers' = [s \in Subjects |-> [m \in Methods |->
                          IF s \in gone THEN {} ELSE keep(s, m)]]
            /\ log' = {l \in log : l.tx \notin txs /\ l.s \notin gone}
            /\ abandoned' = abandoned \cup bad \cup UNION {TxOf(s) : s \in gone}
            \* IsCommitted found the did:nuts version of the kept transactions on the network (hash of the newest network
            \* document), also a version that was not sent itself because the network already had that content: a Deactivate
            \* of a deactivated subject that stopped before its did:nuts Commit could refuse it
            /\ pubtx' = pubtx \cup (txs \ bad)
            /\ rows' = [s \in Subjects |-> IF s \in gone THEN {} ELSE rows[s]]
            /\ pub' = [s \in Subjects |-> IF s \in gone THEN <<>> ELSE pub[s]]   \* a new create starts a new DID
            /\ hist' = H([a |-> "Sweep", aborted |-> FALSE])

Sweep == /\ AllIdle /\ phase = "run" /\ sweeps < MaxSweeps
         /\ SweepEffect /\ sweeps' = sweeps + 1
         /\ UNCHANGED <<pc, nops, faults, ticks, pubkeys, retryOp, phase, todo>>

(* --------------------------------------------------------------- tail *)
\* every behaviour ends with: a minute passes, the sweep runs, the operations hit by a fault are repeated without faults
TailTick == /\ WithTail /\ AllIdle /\ phase = "run" /\ nops >= 1
            /\ TickEffect /\ phase' = "ticked"
            /\ hist' = H([a |-> "Tick"])
            /\ UNCHANGED <<rows, log, pub, pc, nops, faults, ticks, sweeps, swept, pubtx, abandoned, pubkeys, retryOp, todo>>
TailSweep == /\ phase = "ticked"
             /\ SweepEffect /\ phase' = "swept"
             /\ todo' = {s \in Subjects : retryOp[s] # "none"}
             /\ UNCHANGED <<pc, nops, faults, ticks, sweeps, pubkeys, retryOp>>
TailSkip(s) == /\ phase = "swept" /\ AllIdle /\ s \in todo /\ ~EnvOK(retryOp[s], s)
               /\ todo' = todo \ {s}
               /\ UNCHANGED <<rows, vers, log, pub, pc, nops, faults, ticks, sweeps, swept, pubtx, abandoned, pubkeys, retryOp, phase, hist>>

Terminal == AllIdle /\ (IF WithTail THEN phase = "swept" /\ todo = {} ELSE nops = MaxOps)

Next == \/ \E op \in Ops, s \in Subjects, p \in Procs : Tx1(op, s, p) \/ (EnvOK(op, s) /\ Check(op, s, p))
        \/ \E p \in Procs, m \in Methods : CommitMethod(p, m)
        \/ (\E p \in Procs : Tx2(p)) \/ Stop \/ Tick \/ Sweep \/ TailTick \/ TailSweep
        \/ \E s \in Subjects : TailSkip(s)

Spec == Init /\ [][Next]_vars

(* --------------------------------------------------------- properties *)
Quiescent == AllIdle /\ swept

NoLogLeft == Quiescent => log = {}

\* every finished transaction: all its versions are there and the did:nuts one is on the network, or none is and nothing went out
AllOrNothingAfterSweep ==
    Quiescent => \A s \in Subjects :
        /\ \A t \in TxOf(s) : /\ \A m \in Methods : \E v \in vers[s][m] : v.tx = t   \* addSvc "same" never splits methods here
                              /\ t \in pubtx
        /\ \A t \in abandoned : t \notin pubtx
        /\ (HasDocs(s) => pub[s] # <<>> /\ Last(pub[s]) = Content(Latest(s, "nuts")))

\* the subject either does not exist (create can succeed) or exists with published documents (updates can succeed)
RetryCanSucceed ==
    Quiescent => \A s \in Subjects : rows[s] = {} \/ (HasDocs(s) /\ pub[s] # <<>>)

VersionsConsecutiveAndGrow ==
    \A s \in Subjects, m \in Methods :
        /\ {v.n : v \in vers[s][m]} = 0 .. (Cardinality(vers[s][m]) - 1)
        /\ \A v, w \in vers[s][m] : v.tx < w.tx => v.n < w.n

AbandonedKeysNeverPublished == \A t \in abandoned : t \notin pubkeys

SubjectHasOneDidSet == \A s \in Subjects : Cardinality(rows[s]) <= 1

TypeOK == /\ \A p \in Procs : pc[p].ph \in {"idle", "checked", "commit"}
          /\ phase \in {"run", "ticked", "swept"}
          /\ \A l \in log : \E v \in vers[l.s][l.m] : v.tx = l.tx    \* cascade: no log row without its version
=============================================================================
