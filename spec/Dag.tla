------------------------------- MODULE Dag -------------------------------
(***************************************************************************)
(* The local DAG of a Nuts node: network/dag/{state,dag,treestore,         *)
(* notifier,consistency}.go over go-stoabs/bbolt.                          *)
(*                                                                         *)
(* One action per critical section of the Go code:                         *)
(*   Offer        caller invokes State.Add(ctx, tx, payload)               *)
(*   ParseReject  dag.ParseTransaction refuses the bytes (no State call)   *)
(*   ReadVerify   db.Read { isPresent; verifiers }          (state.go:160) *)
(*   LockWrite    db.Write: bbolt write lock + fn body      (state.go:176) *)
(*   LockWriteLate  same, but a Put fails in the middle of the body: in    *)
(*                dag.add ("tx": trees untouched), while persisting the    *)
(*                IBLT leaf ("iblt": clock raised + IBLT inserted in       *)
(*                memory) or the XOR leaf ("xor": both trees touched)      *)
(*   Commit       bbolt commit + unlock                                    *)
(*   FailCommit   ctx cancelled / commit error: rollback + unlock          *)
(*   OnRollback   stoabs OnRollback hook -> loadState (AFTER the unlock,   *)
(*                go-stoabs bbolt.doTX)                                    *)
(*   AfterCommit  stoabs AfterCommit hook -> notify                        *)
(*   NotifyCall / NotifyMark   notifier.notifyNow split at the receiver    *)
(*   Crash        process stops; Restart = NewState+Configure+Run()        *)
(*   Corrupt / CheckPage       xorTreeRepair.checkPage                     *)
(*   WritePayload State.WritePayload (private payload arrives later)       *)
(*                                                                         *)
(* XOR digest abstraction: XOR of a multiset of refs == set of refs with   *)
(* odd multiplicity (SymDiff).  IBLT abstraction: multiplicity per ref.    *)
(* A leaf (page) is the restriction of these to the transactions whose     *)
(* clock lies on the page.                                                 *)
(***************************************************************************)
EXTENDS Naturals, FiniteSets, Sequences, TLC

CONSTANTS
    Tx,               \* universe of byte strings that may be offered
    Procs,            \* goroutines calling State.Add concurrently
    Subs,             \* registered persistent subscribers
    P,                \* page size in clock values (real: 512)
    MaxFail,          \* bound on injected commit failures
    MaxCrash,         \* bound on crashes
    MaxOffers,        \* bound on Add calls per goroutine
    MaxCorrupt,       \* bound on page corruptions (environment)
    Budget,           \* retry budget (real: maxRetries = 20)
    Threshold,        \* retries >= Threshold => visible as failed (real: 10)
    PayloadKinds,     \* subset of {"none","good","bad"} offered together with a tx
    LateStages,       \* where a storage error may hit the write function: subset of {"tx","iblt","xor"} (Put on that shelf fails)
    MaxDupPay,        \* bound on payloads written a second time (a payload query is broadcast: several peers answer)
    PayloadDedup,     \* TRUE = a payload that is already stored for the transaction is ignored (wanted); FALSE = the code:
                      \* State.WritePayload saves and publishes the payload event again
    TreeMutex,        \* TRUE = state.treeMutex spans db.Write and the OnRollback reload (the F1 repair); FALSE = before
    Hist              \* TRUE: record the action history (behaviour generation)

\* static attributes of the offered byte strings (bound in the MC module)
CONSTANTS Prevs(_), Lc(_), SigOK(_), WF(_), Selects(_, _), SubType(_)
CONSTANT Responses   \* what a receiver may answer: subset of {"ok","fail","incomplete","fatal","failctx"}; two more members switch
                     \* environment behaviour on: "readfail" (the job-shelf read of an attempt's notifyNow fails, e.g. the lock could not be
                     \* obtained in time) and "failctx" (the receiver fails with an error ending in jsonld.ContextURLNotAllowedErr: Run()
                     \* does not retry such a job at start-up, but it stays on the shelf)

None == "none"
SymDiff(S, T) == (S \ T) \cup (T \ S)
Max(S) == IF S = {} THEN 0 ELSE CHOOSE m \in S : \A n \in S : n <= m
Page(c) == c \div P
Pages == {Page(Lc(t)) : t \in Tx}
OnPage(pg) == {t \in Tx : Page(Lc(t)) = pg}
Zero == [t \in Tx |-> 0]

VARIABLES
    disk,     \* committed bbolt content
    mem,      \* in-memory trees + lamportClockHigh
    lock,     \* holder of the bbolt write lock
    tmu,      \* holder of state.treeMutex (Add only)
    pc, arg, wbuf,   \* per goroutine: control point, (tx, payload kind), uncommitted write set
    todo, fails, crashes, corrupts, dups,
    tasks,    \* notifier goroutines: notifyNow executions in flight or scheduled
    calls,    \* history: set of (sub, tx) whose receiver was invoked at least once
    recalled, \* history: (sub, tx) whose receiver was invoked after its completion had been recorded
    done,     \* history: completion recorded (job deleted by Finished)
    corrupted,\* pages whose xor leaf was corrupted and not yet repaired
    hist

vars == <<disk, mem, lock, tmu, pc, arg, wbuf, todo, fails, crashes, corrupts, dups, tasks, calls, recalled, done, corrupted, hist>>
view == <<disk, mem, lock, tmu, pc, arg, wbuf, todo, fails, crashes, corrupts, dups, tasks, calls, recalled, done, corrupted>>

Log(e) == hist' = IF Hist THEN Append(hist, e) ELSE hist

EmptyDisk == [txs |-> {}, pay |-> {}, xor |-> {}, iblt |-> Zero, n |-> 0, lcHigh |-> 0, head |-> None,
              jobs |-> {}, retries |-> [j \in Subs \X Tx |-> 0],
              ctx |-> {}]     \* jobs whose last recorded error is "context not on the remoteallowlist"

Init ==
    /\ disk = EmptyDisk
    /\ mem = [xor |-> {}, iblt |-> Zero, lcHigh |-> 0]
    /\ lock = None /\ tmu = None
    /\ pc = [p \in Procs |-> "idle"]
    /\ arg = [p \in Procs |-> [t |-> CHOOSE t \in Tx : TRUE, pl |-> "none"]]
    /\ wbuf = [p \in Procs |-> EmptyDisk]
    /\ todo = [p \in Procs |-> MaxOffers]
    /\ fails = 0 /\ crashes = 0 /\ corrupts = 0 /\ dups = 0
    /\ tasks = {}
    /\ calls = {} /\ recalled = {}
    /\ done = {}
    /\ corrupted = {}
    /\ hist = <<>>

(***************************************************************************)
(* Reference definitions (what "valid" and "implied by the stored set"     *)
(* mean).                                                                  *)
(***************************************************************************)
ExpectedLc(t) == IF Prevs(t) = {} THEN 0 ELSE 1 + Max({Lc(q) : q \in Prevs(t)})
\* validity of t relative to a stored set S (prevs verifier + signature verifier)
ValidIn(t, S) == /\ WF(t) /\ SigOK(t) /\ Prevs(t) \subseteq S /\ Lc(t) = ExpectedLc(t)
Roots(S) == {t \in S : Prevs(t) = {}}
FoldIblt(S) == [t \in Tx |-> IF t \in S THEN 1 ELSE 0]
MaxLc(S) == Max({Lc(t) : t \in S})
ArgMaxLc(S) == {t \in S : Lc(t) = MaxLc(S)}

(***************************************************************************)
(* State.Add                                                               *)
(***************************************************************************)
Offer(p, t, pl) ==
    /\ pc[p] = "idle" /\ todo[p] > 0 /\ WF(t)
    /\ todo' = [todo EXCEPT ![p] = @ - 1]
    /\ arg' = [arg EXCEPT ![p] = [t |-> t, pl |-> pl]]
    /\ pc' = [pc EXCEPT ![p] = "read"]
    /\ Log([a |-> "Offer", p |-> p, t |-> t, pl |-> pl])
    /\ UNCHANGED <<disk, mem, lock, tmu, wbuf, fails, crashes, corrupts, dups, tasks, calls, recalled, done, corrupted>>

\* bytes that do not parse never reach State.Add (network layer / API reject them)
ParseReject(p, t) ==
    /\ pc[p] = "idle" /\ todo[p] > 0 /\ ~WF(t)
    /\ todo' = [todo EXCEPT ![p] = @ - 1]
    /\ Log([a |-> "ParseReject", p |-> p, t |-> t])
    /\ UNCHANGED <<disk, mem, lock, tmu, pc, arg, wbuf, fails, crashes, corrupts, dups, tasks, calls, recalled, done, corrupted>>

\* db.Read: RLock is not granted while a writer holds the lock
ReadVerify(p) ==
    /\ pc[p] = "read" /\ lock = None
    /\ LET t == arg[p].t
           ok == t \notin disk.txs /\ ValidIn(t, disk.txs)
       IN /\ pc' = [pc EXCEPT ![p] = IF ok THEN "wlock" ELSE "idle"]
          /\ Log([a |-> "ReadVerify", p |-> p, t |-> t,
                  res |-> IF t \in disk.txs THEN "present" ELSE IF ok THEN "verified" ELSE "rejected"])
    /\ UNCHANGED <<disk, mem, lock, tmu, arg, wbuf, todo, fails, crashes, corrupts, dups, tasks, calls, recalled, done, corrupted>>

NewJobs(t, evTypes) == {<<s, t>> : s \in {s \in Subs : SubType(s) \in evTypes /\ Selects(s, t)}}

\* leaf write: copy the in-memory leaf of page pg into the write set
WithLeaf(d, m, pg) ==
    [d EXCEPT !.xor = (d.xor \ OnPage(pg)) \cup (m.xor \cap OnPage(pg)),
              !.iblt = [u \in Tx |-> IF u \in OnPage(pg) THEN m.iblt[u] ELSE d.iblt[u]]]

\* db.Write: lock, then the function body up to its return
LockWrite(p) ==
    /\ pc[p] = "wlock" /\ lock = None /\ (TreeMutex => tmu = None)
    /\ lock' = p /\ tmu' = (IF TreeMutex THEN p ELSE tmu)
    /\ LET t == arg[p].t  pl == arg[p].pl IN
       IF t \in disk.txs                                   \* isPresent re-check inside the write tx
       THEN /\ wbuf' = [wbuf EXCEPT ![p] = disk] /\ mem' = mem
            /\ pc' = [pc EXCEPT ![p] = "noop"]
            /\ Log([a |-> "LockWrite", p |-> p, t |-> t, res |-> "present"])
       ELSE IF pl = "bad" \/ (Prevs(t) = {} /\ Roots(disk.txs) # {})
       THEN \* payload hash mismatch / errRootAlreadyExists: fn returns an error BEFORE updateState
            /\ wbuf' = [wbuf EXCEPT ![p] = disk] /\ mem' = mem
            /\ pc' = [pc EXCEPT ![p] = "fnerr"]
            /\ Log([a |-> "LockWrite", p |-> p, t |-> t, res |-> "error"])
       ELSE LET m2 == [xor |-> SymDiff(mem.xor, {t}),
                       iblt |-> [mem.iblt EXCEPT ![t] = @ + 1],
                       lcHigh |-> IF Lc(t) > mem.lcHigh THEN Lc(t) ELSE mem.lcHigh]
                evs == IF pl = "good" THEN {"transaction", "payload"} ELSE {"transaction"}
                d1 == [disk EXCEPT !.txs = @ \cup {t},
                                   !.pay = IF pl = "good" THEN @ \cup {t} ELSE @,
                                   !.n = @ + 1,
                                   !.lcHigh = IF Lc(t) > @ \/ Lc(t) = 0 THEN Lc(t) ELSE @,
                                   !.head = IF Lc(t) > disk.lcHigh \/ Lc(t) = 0 THEN t ELSE @,
                                   !.jobs = @ \cup NewJobs(t, evs)]
            IN /\ mem' = m2                                 \* tree.Insert works on the IN-MEMORY tree
               /\ wbuf' = [wbuf EXCEPT ![p] = WithLeaf(d1, m2, Page(Lc(t)))]
               /\ pc' = [pc EXCEPT ![p] = "written"]
               /\ Log([a |-> "LockWrite", p |-> p, t |-> t, res |-> "written"])
    /\ UNCHANGED <<disk, arg, todo, fails, crashes, corrupts, dups, tasks, calls, recalled, done, corrupted>>

\* a storage error inside the write function, after the checks passed: updateState works on the IN-MEMORY trees first
\* (tree.Insert, lamportClockHigh CAS) and persists the dirty leaf afterwards, so the memory is ahead of the rolled-back store
LockWriteLate(p, stage) ==
    /\ pc[p] = "wlock" /\ lock = None /\ (TreeMutex => tmu = None)
    /\ stage \in LateStages /\ fails < MaxFail
    /\ LET t == arg[p].t  pl == arg[p].pl
           hi == IF Lc(t) > mem.lcHigh THEN Lc(t) ELSE mem.lcHigh IN
       /\ t \notin disk.txs /\ pl # "bad" /\ ~(Prevs(t) = {} /\ Roots(disk.txs) # {})
       /\ mem' = CASE stage = "tx"   -> mem
                  [] stage = "iblt" -> [mem EXCEPT !.iblt[t] = @ + 1, !.lcHigh = hi]
                  [] stage = "xor"  -> [xor |-> SymDiff(mem.xor, {t}), iblt |-> [mem.iblt EXCEPT ![t] = @ + 1], lcHigh |-> hi]
       /\ Log([a |-> "LockWrite", p |-> p, t |-> t, res |-> "error-" \o stage])
    /\ lock' = p /\ tmu' = (IF TreeMutex THEN p ELSE tmu)
    /\ fails' = fails + 1
    /\ wbuf' = [wbuf EXCEPT ![p] = disk]
    /\ pc' = [pc EXCEPT ![p] = "fnerr"]
    /\ UNCHANGED <<disk, arg, todo, crashes, corrupts, dups, tasks, calls, recalled, done, corrupted>>

Commit(p) ==
    /\ pc[p] \in {"written", "noop"}
    /\ disk' = wbuf[p] /\ lock' = None
    /\ tmu' = (IF tmu = p THEN None ELSE tmu)              \* AfterCommit(unlockTrees) is the first hook
    /\ pc' = [pc EXCEPT ![p] = IF pc[p] = "written" THEN "committed" ELSE "idle"]
    /\ Log([a |-> "Commit", p |-> p, t |-> arg[p].t])
    /\ UNCHANGED <<mem, arg, wbuf, todo, fails, crashes, corrupts, dups, tasks, calls, recalled, done, corrupted>>

\* error from fn, cancelled context or failing bbolt commit: rollback, unlock, THEN the hook
Rollback(p) ==
    /\ \/ pc[p] = "fnerr"
       \/ pc[p] \in {"written", "noop"} /\ fails < MaxFail
    /\ fails' = IF pc[p] = "fnerr" THEN fails ELSE fails + 1
    /\ lock' = None /\ UNCHANGED tmu                       \* bbolt unlocks BEFORE the OnRollback hook runs
    /\ pc' = [pc EXCEPT ![p] = "rolledback"]
    /\ Log([a |-> "Rollback", p |-> p, t |-> arg[p].t])
    /\ UNCHANGED <<disk, mem, arg, wbuf, todo, crashes, corrupts, dups, tasks, calls, recalled, done, corrupted>>

Load(d) == [xor |-> d.xor, iblt |-> d.iblt, lcHigh |-> d.lcHigh]

\* OnRollback -> loadState: a read transaction
OnRollback(p) ==
    /\ pc[p] = "rolledback" /\ lock = None                 \* loadState is a read transaction
    /\ mem' = Load(disk)
    /\ tmu' = (IF tmu = p THEN None ELSE tmu) /\ UNCHANGED lock
    /\ pc' = [pc EXCEPT ![p] = "idle"]
    /\ Log([a |-> "OnRollback", p |-> p, t |-> arg[p].t])
    /\ UNCHANGED <<disk, arg, wbuf, todo, fails, crashes, corrupts, dups, tasks, calls, recalled, done, corrupted>>

\* AfterCommit -> notify: one notifyNow per selecting subscriber ("first" tasks)
FirstTasks(js) == {[s |-> j[1], t |-> j[2], att |-> Budget - 1, phase |-> "ready", res |-> "none"] : j \in js}
AfterCommit(p) ==
    /\ pc[p] = "committed"
    /\ LET t == arg[p].t
           evs == IF arg[p].pl = "good" THEN {"transaction", "payload"} ELSE {"transaction"}
       IN tasks' = tasks \cup FirstTasks(NewJobs(t, evs))
    /\ pc' = [pc EXCEPT ![p] = "idle"]
    /\ Log([a |-> "AfterCommit", p |-> p, t |-> arg[p].t])
    /\ UNCHANGED <<disk, mem, lock, tmu, arg, wbuf, todo, fails, crashes, corrupts, dups, calls, recalled, done, corrupted>>

(***************************************************************************)
(* notifier.notifyNow, split at the receiver call                          *)
(***************************************************************************)
\* ReadShelf(job) + receiver(event)
NotifyCall(k, r) ==
    /\ k \in tasks /\ k.phase = "ready" /\ lock = None /\ r # "readfail"
    /\ IF <<k.s, k.t>> \notin disk.jobs
       THEN /\ tasks' = tasks \ {k} /\ UNCHANGED <<calls, recalled>>  \* "no longer exists so done"
            /\ Log([a |-> "NotifyCall", s |-> k.s, t |-> k.t, res |-> "gone"])
       ELSE /\ calls' = calls \cup {<<k.s, k.t>>}
            /\ recalled' = IF <<k.s, k.t>> \in done THEN recalled \cup {<<k.s, k.t>>} ELSE recalled
            /\ tasks' = (tasks \ {k}) \cup {[k EXCEPT !.phase = "called", !.res = r]}
            /\ Log([a |-> "NotifyCall", s |-> k.s, t |-> k.t, res |-> r])
    /\ UNCHANGED <<disk, mem, lock, tmu, pc, arg, wbuf, todo, fails, crashes, corrupts, dups, done, corrupted>>

\* notifyNow's ReadShelf of the job fails on the FIRST attempt of an event (after-commit Notify / start-up Run): the receiver is not
\* called, nothing is written; Notify()/Run() hand the event to the retry goroutine, so the task stays alive with one attempt less
\* (a read error INSIDE the retry goroutine is retry.Unrecoverable and ends that goroutine until the next start: not modelled, the
\* property's quantifier does not range over storage faults; this action is the lock-timeout schedule of the first attempt)
NotifyReadFail(k) ==
    /\ "readfail" \in Responses
    /\ k \in tasks /\ k.phase = "ready" /\ lock = None
    /\ k.att = Budget - 1 /\ k.att > 0 /\ <<k.s, k.t>> \in disk.jobs /\ disk.retries[<<k.s, k.t>>] = 0
    /\ tasks' = (tasks \ {k}) \cup {[k EXCEPT !.att = @ - 1]}
    /\ Log([a |-> "NotifyReadFail", s |-> k.s, t |-> k.t])
    /\ UNCHANGED <<disk, mem, lock, tmu, pc, arg, wbuf, todo, fails, crashes, corrupts, dups, calls, recalled, done, corrupted>>

\* Finished (delete job) | write back the incremented retry counter; schedule the retry goroutine
NotifyMark(k) ==
    /\ k \in tasks /\ k.phase = "called" /\ lock = None
    /\ LET j == <<k.s, k.t>> IN
       IF k.res = "ok"
       THEN /\ disk' = [disk EXCEPT !.jobs = @ \ {j}, !.ctx = @ \ {j}]
            /\ done' = done \cup {j}
            /\ tasks' = tasks \ {k}
       ELSE /\ disk' = [disk EXCEPT !.retries[j] = IF k.res = "fatal" THEN Budget + 1 ELSE @ + 1,
                                    !.ctx = IF k.res = "failctx" THEN @ \cup {j} ELSE @ \ {j}]
            /\ done' = done
            /\ tasks' = IF k.res = "fatal" \/ k.att = 0
                        THEN tasks \ {k}
                        ELSE (tasks \ {k}) \cup {[k EXCEPT !.phase = "ready", !.res = "none", !.att = @ - 1]}
    /\ Log([a |-> "NotifyMark", s |-> k.s, t |-> k.t, res |-> k.res])
    /\ UNCHANGED <<mem, lock, tmu, pc, arg, wbuf, todo, fails, crashes, corrupts, dups, calls, recalled, corrupted>>

(***************************************************************************)
(* State.WritePayload: payload of an already admitted transaction          *)
(***************************************************************************)
\* the body is a write transaction of its own (WithWriteLock); WritePayload restricts it to moments without an Add in
\* flight to keep the exhaustive configs small, the trace specification uses the unrestricted body
WritePayloadAny(t) ==
    /\ t \in disk.txs /\ lock = None
    /\ IF t \notin disk.pay
       THEN /\ LET js == NewJobs(t, {"payload"}) IN
               /\ disk' = [disk EXCEPT !.pay = @ \cup {t}, !.jobs = @ \cup js]
               /\ tasks' = tasks \cup FirstTasks(js)
            /\ UNCHANGED dups
       ELSE \* the payload arrives a second time (answers of several participants, or an unsolicited TransactionPayload)
            /\ dups < MaxDupPay /\ dups' = dups + 1
            /\ IF PayloadDedup
               THEN UNCHANGED <<disk, tasks>>
               ELSE LET js == NewJobs(t, {"payload"}) IN
                    /\ disk' = [disk EXCEPT !.jobs = @ \cup js]      \* saveEvent: the job is created anew
                    /\ tasks' = tasks \cup FirstTasks(js)           \* notify
    /\ Log([a |-> "WritePayload", t |-> t])
    /\ UNCHANGED <<mem, lock, tmu, pc, arg, wbuf, todo, fails, crashes, corrupts, calls, recalled, done, corrupted>>
WritePayload(t) == (\A p \in Procs : pc[p] = "idle") /\ WritePayloadAny(t)

(***************************************************************************)
(* Crash and restart                                                       *)
(***************************************************************************)
\* Notifier.Run at start-up: every stored job is tried once; a failing one gets the rest of its budget
ReplayAtt(j) == IF disk.retries[j] + 1 >= Budget THEN 0 ELSE Budget - (disk.retries[j] + 1)
Crash ==
    /\ crashes < MaxCrash
    /\ crashes' = crashes + 1
    /\ mem' = Load(disk)                                    \* NewState + Configure -> loadState
    /\ lock' = None /\ tmu' = None
    /\ pc' = [p \in Procs |-> "idle"]
    /\ tasks' = {[s |-> j[1], t |-> j[2], att |-> ReplayAtt(j), phase |-> "ready", res |-> "none"] : j \in disk.jobs \ disk.ctx}
    /\ Log([a |-> "Crash"])
    /\ UNCHANGED <<disk, arg, wbuf, todo, fails, corrupts, dups, calls, recalled, done, corrupted>>

(***************************************************************************)
(* XOR tree corruption (environment) and xorTreeRepair.checkPage           *)
(***************************************************************************)
Corrupt(pg, g) ==
    /\ corrupts < MaxCorrupt /\ lock = None /\ \A p \in Procs : pc[p] = "idle"
    /\ g \in OnPage(pg)
    /\ pg <= Page(disk.lcHigh)                              \* leaves exist (and the repair loop runs) up to the highest clock
    /\ corrupts' = corrupts + 1
    /\ mem' = [mem EXCEPT !.xor = SymDiff(@, {g})]
    /\ disk' = [disk EXCEPT !.xor = SymDiff(@, {g})]
    /\ corrupted' = corrupted \cup {pg}
    /\ Log([a |-> "Corrupt", pg |-> pg, g |-> g])
    /\ UNCHANGED <<lock, tmu, pc, arg, wbuf, todo, fails, crashes, dups, tasks, calls, recalled, done>>

CheckPage(pg) ==
    /\ lock = None /\ corrupted # {} /\ pg \in Pages
    /\ LET calc == disk.txs \cap OnPage(pg) IN
       \* the code compares the IN-MEMORY leaf with the recalculated one
       IF mem.xor \cap OnPage(pg) = calc
       THEN UNCHANGED <<mem, disk>>
       ELSE /\ mem' = [mem EXCEPT !.xor = (@ \ OnPage(pg)) \cup calc]
            /\ disk' = [disk EXCEPT !.xor = (@ \ OnPage(pg)) \cup calc]
    /\ corrupted' = IF mem'.xor \cap OnPage(pg) = disk'.txs \cap OnPage(pg) /\ disk'.xor \cap OnPage(pg) = disk'.txs \cap OnPage(pg)
                    THEN corrupted \ {pg} ELSE corrupted
    /\ Log([a |-> "CheckPage", pg |-> pg])
    /\ UNCHANGED <<lock, tmu, pc, arg, wbuf, todo, fails, crashes, corrupts, dups, tasks, calls, recalled, done>>

Next ==
    \/ \E p \in Procs, t \in Tx, pl \in PayloadKinds : Offer(p, t, pl)
    \/ \E p \in Procs, t \in Tx : ParseReject(p, t)
    \/ \E p \in Procs : ReadVerify(p) \/ LockWrite(p) \/ (\E g \in LateStages : LockWriteLate(p, g)) \/ Commit(p) \/ Rollback(p) \/ OnRollback(p) \/ AfterCommit(p)
    \/ \E k \in tasks : (\E r \in Responses : NotifyCall(k, r)) \/ NotifyMark(k) \/ NotifyReadFail(k)
    \/ \E t \in Tx : WritePayload(t)
    \/ Crash
    \/ \E pg \in Pages : (\E g \in Tx : Corrupt(pg, g)) \/ CheckPage(pg)

Spec == Init /\ [][Next]_vars
FairSpec == Spec /\ \A s \in Subs, t \in Tx :
                        WF_vars(\E k \in tasks : k.s = s /\ k.t = t /\ ((\E r \in Responses : NotifyCall(k, r)) \/ NotifyMark(k)))
                 /\ \A p \in Procs : WF_vars(AfterCommit(p) \/ Commit(p) \/ LockWrite(p) \/ ReadVerify(p) \/ OnRollback(p))

(***************************************************************************)
(* Properties                                                              *)
(***************************************************************************)
TypeOK ==
    /\ disk.txs \subseteq Tx /\ lock \in Procs \cup {None}
    /\ \A p \in Procs : pc[p] \in {"idle", "read", "wlock", "written", "noop", "fnerr", "rolledback", "committed"}

\* ---- C06 ----
\* every stored transaction was valid w.r.t. transactions stored with a lower clock; the root is unique
AdmissionSound ==
    /\ \A t \in disk.txs : ValidIn(t, disk.txs)
    /\ Cardinality(Roots(disk.txs)) <= 1
    /\ \A t \in disk.pay : t \in disk.txs
\* jobs/digests only for stored transactions ("a rejected transaction leaves no trace")
NoTraceOfRejected ==
    /\ \A j \in disk.jobs : j[2] \in disk.txs
    /\ \A j \in calls : j[2] \in disk.txs
\* the stored set only grows, and only by the transaction being committed
StoredGrowsOnly == [][disk.txs \subseteq disk'.txs]_vars

\* ---- C08 ----
Quiescent == \A p \in Procs : pc[p] \in {"idle", "read", "wlock"}
DigestsOK(pgs) ==
    /\ \A pg \in pgs : mem.xor \cap OnPage(pg) = disk.txs \cap OnPage(pg)
    /\ \A pg \in pgs : disk.xor \cap OnPage(pg) = disk.txs \cap OnPage(pg)
    /\ mem.iblt = FoldIblt(disk.txs) /\ disk.iblt = FoldIblt(disk.txs)
DerivedOK ==
    Quiescent =>
        /\ DigestsOK(Pages \ corrupted)
        /\ disk.n = Cardinality(disk.txs)
        /\ disk.lcHigh = MaxLc(disk.txs) /\ mem.lcHigh = MaxLc(disk.txs)
        /\ (disk.txs # {} => disk.head \in ArgMaxLc(disk.txs))
\* memory and disk agree when nobody is writing, so checking the in-memory leaf is as good as checking the stored one
MemDiskAgree == Quiescent => mem.xor = disk.xor /\ mem.iblt = disk.iblt
\* repair touches only the page it checks
RepairLocal ==
    [][\A pg \in Pages : (corrupted' = corrupted \ {pg} /\ corrupted' # corrupted) =>
            \A o \in Pages \ {pg} : /\ mem'.xor \cap OnPage(o) = mem.xor \cap OnPage(o)
                                    /\ disk'.xor \cap OnPage(o) = disk.xor \cap OnPage(o)]_vars

\* ---- C14 ----
\* a job exists for every admitted, selected, not yet completed event: nothing vanishes
Selected(j) == \/ SubType(j[1]) = "transaction" /\ j[2] \in disk.txs /\ Selects(j[1], j[2])
               \/ SubType(j[1]) = "payload" /\ j[2] \in disk.pay /\ Selects(j[1], j[2])
JobKept == \A j \in Subs \X Tx : Selected(j) /\ j \notin done => j \in disk.jobs
FailedVisible == \A j \in disk.jobs : TRUE   \* visibility is a pure function of retries (checked on the code)
\* completion recorded => the receiver is not invoked again for that event
FinishedNotRecalled == recalled = {}
NeverDeliveredUnlessAdmitted == \A j \in calls : Selected(j)
\* liveness: every selected event is completed, fatally refused, or has used up its budget
Settled(j) == j \in done \/ disk.retries[j] >= Budget
EventuallySettled == \A j \in Subs \X Tx : (Selected(j) ~> Settled(j))
=============================================================================
