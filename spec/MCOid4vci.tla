---------------------------- MODULE MCOid4vci ----------------------------
(* Model-checking / behaviour-generation wrapper of Oid4vci.tla *)
EXTENDS Oid4vci, Json

SubjW == <<"W">>
SubjWA == <<"W", "A">>
SubjWW == <<"W", "W">>
SubjAW == <<"A", "W">>

WDone == wruns = MaxWRuns \/ ~(\E o \in offers : o.to = "W" /\ (Replay \/ o \notin handled))
AllDone == Quiet /\ nflows = MaxOffers /\ asteps = MaxAtt /\ WDone
\* behaviour generation (Hist = TRUE configs): one witness per distinct terminal state (hist is not part of the VIEW)
Emit == (AllDone /\ Hist) => PrintT(ToJson(hist))
\* simulation mode: print when the walk is quiet and the attacker has used his steps
EmitSim == (Hist /\ Quiet /\ asteps = MaxAtt /\ nflows = MaxOffers) => PrintT(ToJson(hist))
HistBound == Len(hist) <= 40
=============================================================================
