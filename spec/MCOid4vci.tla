---------------------------- MODULE MCOid4vci ----------------------------
(* Model-checking / behaviour-generation wrapper of Oid4vci.tla *)
EXTENDS Oid4vci, Json

SubjW  == <<"W">>
SubjWA == <<"W", "A">>
SubjWW == <<"W", "W">>
SubjAW == <<"A", "W">>
SubjWAW == <<"W", "A", "W">>

NoneOff   == {{}}
SingleOff == {{c} : c \in AllChecks}          \* every model that lacks exactly one check of the code

WDone == wruns = MaxWRuns \/ ~(\E o \in offers : o.to = "W" /\ (Replay \/ o \notin handled))
AllDone == Quiet /\ nflows = MaxOffers /\ asteps = MaxAtt /\ WDone
\* behaviour generation (Hist = TRUE configs): one witness per distinct terminal state (hist is not part of the VIEW)
Emit == (AllDone /\ Hist) => PrintT(ToJson(hist))
\* simulation mode: print when the walk is quiet and the attacker has used his steps
EmitSim == (Hist /\ Quiet /\ asteps = MaxAtt /\ nflows = MaxOffers) => PrintT(ToJson(hist))
\* attack generation: the properties the code keeps; a model that lacks one check breaks them, and every distinct
\* violating state yields one witness = an attack the real code must withstand
Kept == ReleaseAuthorized /\ TokenFromLiveCode /\ OnlySubjectObtains /\ HolderStoresVerified
EmitBad == (Hist /\ Quiet /\ ~Kept) => PrintT(ToJson(hist))
\* the deviations: one witness per distinct state in which a property the code does NOT keep is broken
Wanted == CodeSingleUse /\ AtMostOneRelease /\ ProofSingleUse /\ HolderStoresOwn /\ NoPanic
EmitDev == (Hist /\ Quiet /\ ~Wanted) => PrintT(ToJson(hist))
HistBound == Len(hist) <= 40
=============================================================================
