---------------------------- MODULE MCOid4vci ----------------------------
(* Model-checking / behaviour-generation wrapper of Oid4vci.tla *)
EXTENDS Oid4vci, Json

SubjW  == <<"W">>
SubjA  == <<"A">>
SubjWA == <<"W", "A">>
SubjWW == <<"W", "W">>
SubjAW == <<"A", "W">>
SubjWAW == <<"W", "A", "W">>

NoneOff   == {{}}
SingleOff == {{c} : c \in AllChecks}          \* every model that lacks exactly one check of the code
RogueOff  == {{"mdid"}, {"aud"}}                  \* the two checks that stop a relay through the rogue issuer

WDone == wruns = MaxWRuns \/ ~(\E o \in offers : o.to = "W" /\ (Replay \/ o \notin handled))
AllDone == Quiet /\ nflows = MaxOffers /\ asteps = MaxAtt /\ WDone
\* behaviour generation (Hist = TRUE configs): one witness per distinct terminal state (hist is not part of the VIEW)
Emit == (AllDone /\ Hist) => PrintT(ToJson(hist))
\* simulation mode: print when the walk is quiet and the attacker has used his steps
EmitSim == (Hist /\ Quiet /\ asteps = MaxAtt /\ nflows = MaxOffers) => PrintT(ToJson(hist))
\* attack generation: the properties the code keeps; a model that lacks one check breaks them, and every distinct
\* violating state yields one witness = an attack the real code must withstand
KeptNames   == {"ReleaseAuthorized", "TokenFromLiveCode", "OnlySubjectObtains", "HolderStoresVerified"}
WantedNames == {"CodeSingleUse", "AtMostOneRelease", "ProofSingleUse", "HolderStoresOwn", "NoPanic"}
Holds(n) == CASE n = "ReleaseAuthorized"    -> ReleaseAuthorized
              [] n = "TokenFromLiveCode"    -> TokenFromLiveCode
              [] n = "OnlySubjectObtains"   -> OnlySubjectObtains
              [] n = "HolderStoresVerified" -> HolderStoresVerified
              [] n = "CodeSingleUse"        -> CodeSingleUse
              [] n = "AtMostOneRelease"     -> AtMostOneRelease
              [] n = "ProofSingleUse"       -> ProofSingleUse
              [] n = "HolderStoresOwn"      -> HolderStoresOwn
              [] n = "NoPanic"              -> NoPanic
Broken(names) == {n \in names : ~Holds(n)}
EmitBad == (Hist /\ Quiet /\ Broken(KeptNames) # {}) => PrintT(ToJson([broken |-> Broken(KeptNames), h |-> hist]))
\* the deviations: one witness per distinct state in which a property the code does NOT keep is broken
EmitDev == (Hist /\ Quiet /\ Broken(WantedNames) # {}) => PrintT(ToJson([broken |-> Broken(WantedNames \cup {"OnlySubjectObtains"}), h |-> hist]))
HistBound == Len(hist) <= 40
=============================================================================
