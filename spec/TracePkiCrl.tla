--------------------------- MODULE TracePkiCrl ---------------------------
(***************************************************************************)
(* Trace validation for X06: executions of the REAL pki.PKI engine         *)
(* (validator + denylist) and of the real gRPC connection manager's        *)
(* revalidatePeers, recorded by harness/drivers/pkicrl (one event per      *)
(* model action: where the goroutine stopped, what the validator holds     *)
(* afterwards - per endpoint the issuer and WHICH list, which denylist,    *)
(* which connections are open - and the verdict the code returned) must be *)
(* behaviours of PkiCrl.tla.  Everything the code answered is TAKEN FROM   *)
(* THE LOG and compared with what the specification computes; the          *)
(* invariants the code has are evaluated on the reconstructed state.       *)
(* Traces are concatenated; "reset" starts the next one.                   *)
(***************************************************************************)
EXTENDS MCPkiCrl, IOUtils

TraceLog == ndJsonDeserialize(IOEnv.VERIF_TRACE)
VARIABLE l
tvars == <<vars, l>>

Ev == TraceLog[l]
IsEvent(e) == l <= Len(TraceLog) /\ Ev.ev = e /\ l' = l + 1

\* the projection of the model state that the driver logs from the real observables
CrlProj == {e \o "=" \o crls'[e].iss \o "/" \o crls'[e].obj.id : e \in {x \in Endpoints : crls'[x].iss # "-"}}
Projection == /\ CrlProj = ToSet(Ev.crls)
              /\ dl'.id = Ev.dl
              /\ conns' = ToSet(Ev.conns)
              /\ now' = Ev.now
ObjById(e, id) == CHOOSE o \in AllCrl[e] : o.id = id
DlById(id) == CHOOSE o \in AllDl : o.id = id

TReset == /\ IsEvent("reset")
          /\ now' = 0
          /\ srv' = [e \in Endpoints |-> MCInitSrv(e)] /\ dlsrv' = MCInitDl
          /\ crls' = [e \in Endpoints |-> IF e \in InitEndpoints THEN [iss |-> EpIssuer(e), obj |-> EmptyObj] ELSE NoEntry]
          /\ dl' = NoDl /\ cfgsoft' = TRUE
          /\ val' = [t \in Vals |-> Idle] /\ syn' = SynIdle /\ conns' = {}
          /\ best' = [e \in Endpoints |-> EmptyObj]
          /\ vcount' = 0 /\ env' = 0 /\ rounds' = 0 /\ hist' = <<>>
\* configuration and first answers of the endpoints as the driver set them up
TInit == /\ IsEvent("init")
         /\ Ev.usedl = UseDenylist
         /\ cfgsoft' = Ev.soft
         /\ srv' = [e \in Endpoints |-> ObjById(e, Ev.srv[e])]
         /\ dlsrv' = DlById(Ev.dlsrv)
         /\ UNCHANGED <<now, crls, dl, val, syn, conns, best, vcount, env, rounds, hist>>
         /\ Projection

Pos(t) == val'[t].pc = Ev.pc /\ val'[t].at = Ev.at
TVBegin == IsEvent("vbegin") /\ Ev.soft = cfgsoft /\ VBegin(Ev.t, Ev.ch, Ev.via, Ev.cn) /\ Pos(Ev.t) /\ Projection
TVFetch == IsEvent("vfetch") /\ VFetch(Ev.t) /\ Pos(Ev.t) /\ Projection
TVStore == IsEvent("vstore") /\ VStore(Ev.t) /\ Pos(Ev.t) /\ Projection
\* the verdict is the one the code returned
TVEnd == IsEvent("vend") /\ VEnd(Ev.t) /\ val[Ev.t].res = Ev.res /\ Projection
\* the round downloads exactly the endpoints the real round asked for
TSyncStart == IsEvent("syncstart") /\ SyncStart /\ syn'.req = ToSet(Ev.req) /\ (Ev.dlreq = UseDenylist) /\ Projection
TSyncStep == \/ IsEvent("syncfetch") /\ SyncFetch(Ev.e) /\ Projection
             \/ IsEvent("syncstore") /\ SyncStore(Ev.e) /\ Projection
             \/ IsEvent("syncdlfetch") /\ SyncDlFetch /\ Projection
             \/ IsEvent("syncdlstore") /\ SyncDlStore /\ Projection
             \/ IsEvent("syncend") /\ SyncEnd /\ Projection
TEnv == \/ IsEvent("serve") /\ Serve(Ev.e, ObjById(Ev.e, Ev.o)) /\ Projection
        \/ IsEvent("servedl") /\ ServeDl(DlById(Ev.o)) /\ Projection
        \/ IsEvent("tick") /\ Tick /\ Projection

TraceNext == TReset \/ TInit \/ TVBegin \/ TVFetch \/ TVStore \/ TVEnd \/ TSyncStart \/ TSyncStep \/ TEnv
TraceInit == Init /\ l = 1 /\ TLCSet(1, 1)
TraceSpec == TraceInit /\ [][TraceNext]_tvars

\* acceptance: the whole file was consumed (high-water mark kept in a TLC register; -workers 1)
Progress == TLCSet(1, IF l > TLCGet(1) THEN l ELSE TLCGet(1))
TraceAccepted ==
    \/ TLCGet(1) = Len(TraceLog) + 1
    \/ Print(<<"TRACE-REJECTED-AT", TLCGet(1), TraceLog[TLCGet(1)]>>, FALSE)
=============================================================================
